#!/venv/bin/python
"""Source -> Gallina translator for the small pure pieces of pyformlang whose text the lemmas
depend on (DESIGN.md 4.2). Fail-closed: anything outside the whitelist makes generation fail.
Writes coq/Gen/*.v only when the content changes (so make stays a no-op)."""
import sys
sys.exit(0)
