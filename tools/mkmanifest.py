#!/venv/bin/python
"""Regenerates MANIFEST.json from the property modules (harness/props/cXX.py)."""
import importlib, json, os, sys
ROOT = os.path.dirname(os.path.dirname(os.path.abspath(__file__)))
sys.path.insert(0, os.path.join(ROOT, "harness"))
props = [json.loads(l)["id"] for l in open(os.path.join(ROOT, "properties.jsonl"))]
checks, na = [], []
for pid in props:
    f = os.path.join(ROOT, "harness", "props", pid.lower() + ".py")
    if not os.path.exists(f):
        na.append({"property_id": pid, "reason": "not claimed yet: check under construction (no model/theorem committed for it so far)"})
        continue
    m = importlib.import_module("props." + pid.lower())
    checks.append({
        "property_id": pid,
        "quick_cmd": "./check %s --tier quick" % pid,
        "thorough_cmd": "./check %s --tier thorough" % pid,
        "evidence_file": "/verif/evidence/%s.json" % pid,
        "replay_cmd_template": "./check %s --replay {path}" % pid,
        "engine": "rocq-model+correspondence",
        "level_claimed": {"category": m.LEVEL, "text": m.LEVEL_TEXT, "design_ref": "DESIGN.md section 6, " + pid},
        "level_note": m.LEVEL_NOTE,
        "technique": m.TECHNIQUE,
    })
man = {
    "version": 1,
    "setup_cmd": "./setup.sh",
    "hooks": {"guard": "PYFORMLANG_VERIF",
              "enable": "checks export PYFORMLANG_VERIF=1 for the implementation workers; no hook is currently needed (all observations go through the public API)",
              "baseline_off_cmd": "cd /repo && env -u PYFORMLANG_VERIF /venv/bin/python -m pytest -ra -q -p no:cacheprovider --timeout=900 --continue-on-collection-errors",
              "source_commits": [], "add_only": True},
    "engines": [{"name": "rocq-model+correspondence", "path": "/verif/coq + /verif/harness",
                 "serves_properties": [c["property_id"] for c in checks],
                 "kind_free_text": "Coq 8.16.1 theorems about hand-written Gallina models (coq/), model evaluated inside Coq (vm_compute) and compared with real pyformlang on generated cases; certified oracles decide instance-level language equalities"}],
    "checks": checks,
    "not_applicable": na,
    "notes": "See DESIGN.md. known_findings.json lists recorded genuine defects; replays/ is written at run time.",
}
json.dump(man, open(os.path.join(ROOT, "MANIFEST.json"), "w"), indent=1)
print("checks:", [c["property_id"] for c in checks], "na:", len(na))
