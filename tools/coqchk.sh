#!/bin/bash
# Independent re-check of every compiled property module and everything it depends on; prints the axioms relied upon.
cd "$(dirname "$0")/../coq" && timeout 3000 coqchk -silent -o -Q . PFL $(ls Properties/*.v | sed 's/\.v$//; s/\//./; s/^/PFL./')
