#!/bin/bash
# usage: tools/confirm_seed.sh <srcdir> <mutname e.g. mutC03_1> ; confirms in a scratch worktree of /repo HEAD, stores under /verif/seeded/
src=$1; m=$2
wt=/tmp/confirm_$$
git -C /repo worktree add -q --detach $wt HEAD || exit 9
trap "git -C /repo worktree remove --force $wt; rm -rf /tmp/confirm_demo_$$" EXIT
cd $wt
mkdir -p /tmp/confirm_demo_$$; cp $src/${m}_demo.py /tmp/confirm_demo_$$/demo.py; demo=/tmp/confirm_demo_$$/demo.py
PYTHONPATH=$wt /venv/bin/python $demo >/dev/null 2>&1; base=$?
git apply $src/$m.diff || { echo "PATCH-DOES-NOT-APPLY $m"; exit 3; }
PYTHONPATH=$wt /venv/bin/python -m pytest -q -p no:cacheprovider pyformlang 2>&1 | tail -1 > /tmp/confirm_tests_$$.txt
tests=$(cat /tmp/confirm_tests_$$.txt); rm -f /tmp/confirm_tests_$$.txt
PYTHONPATH=$wt /venv/bin/python $demo >/dev/null 2>&1; mut=$?
echo "$m: demo_on_clean=$base demo_with_patch=$mut tests='$tests'"
if [ $base -eq 0 ] && [ $mut -ne 0 ] && echo "$tests" | grep -q "289 passed"; then
  d=/verif/seeded/$m; mkdir -p $d
  cp $src/$m.diff $d/patch.diff; cp $src/${m}_demo.py $d/demo.py
  python3 - "$src/$m.json" "$d/meta.json" "$m" <<'PY'
import json,sys
meta=json.load(open(sys.argv[1]))
meta["confirmed"]={"demo_exit_on_clean_tree":0,"demo_fails_with_patch":True,"test_suite_with_patch":"289 passed",
  "how":"tools/confirm_seed.sh: scratch worktree of /repo HEAD, git apply, full pytest, demo; then demo on the clean tree"}
json.dump(meta,open(sys.argv[2],"w"),indent=1)
PY
  echo "CONFIRMED $m -> $d"
else
  echo "REJECTED $m"
fi
