#!/bin/bash
# false-alarm test: applies every behaviour-preserving refactoring of seeded/harmless/ to /repo in turn, runs the quick checks of the
# properties of its area, reverts. usage: tools/refac_run.sh > seeded/harmless/RESULTS.txt
cd /repo
for d in /verif/seeded/harmless/refac_*.diff; do
  n=$(basename $d .diff)
  git -C /repo diff --quiet || { echo "/repo dirty"; exit 9; }
  git -C /repo apply $d || { echo "[$n] PATCH-DOES-NOT-APPLY"; continue; }
  case $n in
    refac_fa_*) props="C01 C02 C03 C04 C06 C11 C19 C20";;
    refac_regex_*) props="C05 C06 C07 C03 C19";;
    refac_cfg_*) props="C08 C09 C10 C11 C12 C13 C14 C15 C19 C20";;
    refac_pda_fst_*) props="C11 C13 C16 C17 C19 C20";;
    refac_ig_fcfg_*) props="C17 C18 C15 C19";;
  esac
  for p in $props; do
    out=$(cd /verif && ./check $p --tier quick 2>&1); rc=$?
    echo "[$n] $p exit=$rc :: $(echo "$out" | grep -E 'VIOLATION|HARNESS' | head -2 | tr '\n' ' ')"
  done
  git -C /repo checkout -- .
done
echo DONE
