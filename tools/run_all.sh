#!/bin/bash
# usage: tools/run_all.sh [tier]  — runs every registered check on the current /repo tree, prints one line per property
cd /verif
tier=${1:-quick}
for p in $(python3 -c "import json; print(' '.join(c['property_id'] for c in json.load(open('MANIFEST.json'))['checks']))"); do
  s=$(date +%s); out=$(./check $p --tier $tier 2>&1); rc=$?; e=$(date +%s)
  echo "$p exit=$rc $((e-s))s :: $(echo "$out" | grep -E 'VIOLATION|HARNESS|KNOWN' | cut -c1-90 | tr '\n' ' ') $(echo "$out" | tail -1 | cut -c1-110)"
done
