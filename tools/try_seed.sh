#!/bin/bash
# usage: tools/try_seed.sh <seed name> <prop> [<prop>...] : applies /verif/seeded/<name>/patch.diff to /repo, runs the checks, reverts
n=$1; shift
cd /repo && git diff --quiet || { echo "/repo dirty"; exit 9; }
git -C /repo apply /verif/seeded/$n/patch.diff || exit 3
for p in "$@"; do
  out=$(cd /verif && ./check $p --tier quick 2>&1); rc=$?
  echo "[$n] $p exit=$rc :: $(echo "$out" | grep -E 'VIOLATION|HARNESS|KNOWN' | head -3 | tr '\n' ' ')"
done
git -C /repo checkout -- .
