#!/usr/bin/env python3
"""print a python file without docstrings/blank lines/comments (reading aid), keeping line numbers"""
import ast, sys
src = open(sys.argv[1]).read()
tree = ast.parse(src)
skip = set()
for n in ast.walk(tree):
    if isinstance(n, (ast.FunctionDef, ast.ClassDef, ast.Module, ast.AsyncFunctionDef)):
        b = n.body
        if b and isinstance(b[0], ast.Expr) and isinstance(getattr(b[0], 'value', None), ast.Constant) and isinstance(b[0].value.value, str):
            for l in range(b[0].lineno, b[0].end_lineno + 1):
                skip.add(l)
lo = int(sys.argv[2]) if len(sys.argv) > 2 else 1
hi = int(sys.argv[3]) if len(sys.argv) > 3 else 10**9
for i, line in enumerate(src.splitlines(), 1):
    if i in skip or not line.strip() or line.strip().startswith('#') or i < lo or i > hi:
        continue
    print(f"{i}:{line}")
