#!/bin/bash
# Offline build of the framework: regenerate Gen/*.v from /repo, full .vo build of the Coq development.
cd "$(dirname "$0")"
export PYTHONPATH=/repo:$(pwd)/harness PYTHONDONTWRITEBYTECODE=1
/venv/bin/python - <<'PY'
import sys
sys.path.insert(0, "harness")
import common
ok, tail = common.build_coq()
print(tail[-3000:])
sys.exit(0 if ok else 1)
PY
