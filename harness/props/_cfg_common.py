TRUSTED = ["Coq 8.16.1 kernel (coqc full .vo build; vm_compute used only to evaluate the model/oracles on concrete cases)",
           "hand-written Gallina models coq/Model/Cfg*.v, WordsDp.v, Deriv.v, Pda.v, LL1.v, CfgInter.v, Ig.v, IgUseless.v, Feat.v: validated against /repo by the differential correspondence; only the nullable expansion, its wrapper and the production normal-form test are regenerated from the source (tools/pygen.py, trusted translator)",
           "hypotheses of theorems that are constructor invariants (registration of heads / body symbols, NoDup of the variable and terminal sets) hold of every object the harness builds; axioms: none (Print Assumptions closed; coqchk -o: none)",
           "certified membership oracle coq/Oracle/CfgMember*.v (chart saturation, exact for arbitrary grammars)",
           "Python harness: generators, accessors through pyformlang's public API, interning of values to N, Coq-output parser; a model / oracle evaluation that exceeds its time budget is counted and skipped (MODEL_TIMEOUT), never judged"]
ASSUMPTIONS = ["variable and terminal values are ints or strings (interned to N for the model); a variable and a terminal with the same value are distinct symbols in the model",
               "language agreement between two grammars is checked on all words up to a length bound with the certified membership oracle: bounded validation, not a proof",
               "the correspondence leg is differential testing; the universally quantified claims are the Coq theorems about the model"]
TECHNIQUE = "Rocq/Coq proof about an executable Gallina model + differential correspondence (model evaluated by vm_compute inside Coq) + certified CFG membership oracle"
