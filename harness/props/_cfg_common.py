TRUSTED = ["Coq 8.16.1 kernel (coqc full .vo build; vm_compute used only to evaluate the model/oracles on concrete cases)",
           "hand-written Gallina models coq/Model/Cfg*.v: validated against /repo by the differential correspondence, not derived from the source",
           "certified membership oracle coq/Oracle/CfgMember*.v (chart saturation, exact for arbitrary grammars)",
           "Python harness: generators, accessors through pyformlang's public API, interning of values to N, Coq-output parser"]
ASSUMPTIONS = ["variable and terminal values are ints or strings (interned to N for the model); a variable and a terminal with the same value are distinct symbols in the model",
               "language agreement between two grammars is checked on all words up to a length bound with the certified membership oracle: bounded validation, not a proof",
               "the correspondence leg is differential testing; the universally quantified claims are the Coq theorems about the model"]
TECHNIQUE = "Rocq/Coq proof about an executable Gallina model + differential correspondence (model evaluated by vm_compute inside Coq) + certified CFG membership oracle"
