"""C07 — PythonRegex agrees with Python's re.fullmatch on the documented subset."""
import re
import string
from common import cq, chunks
from props._fa_common import TRUSTED, ASSUMPTIONS, TECHNIQUE

PROP = "C07"
LEVEL = "other"
THEOREMS = {"Properties.C07": ["C07_matcher", "C07_brackets_escape_from_source", "C07_translation_semantics", "C07_accepts_code_path"]}
LEVEL_TEXT = ("Partial + correspondence: the documented subset is given an abstract syntax and a translation to plain regular expressions in Gallina "
              "(sets and negated sets over string.printable, dot, alternation, groups, * + ? {m} {m,n} for all m <= n, \\d \\s \\w); the derivative matcher used "
              "to evaluate it is proved exact. CPython's re.fullmatch is the external oracle for the real semantics: the Gallina model is validated against "
              "it on every generated pattern and string (a disagreement is a harness error), and PythonRegex(p).accepts(s) is compared with both. The seven "
              "textual rewriting passes of PythonRegex are not modelled.")
LEVEL_NOTE = "Trusted: Coq kernel; CPython's re module as oracle; Python harness (pattern printer)."
RULE = ("generated patterns of the documented subset (nesting <= 3; quantifier on literal/group/set/escape; m=0, m=n; metacharacters inside sets; negated sets; "
        "\\d \\s \\w) x all strings up to length 3 over a per-pattern alphabet of 4-5 printable characters + random longer strings; plus invalid patterns")
EXPLANATION = "PythonRegex vs re.fullmatch vs the Gallina translation evaluated by the proved matcher."

LITS = list("ab1")
META = list(".*+?()[]|{}$^\\")


def rand_p(rng, depth):
    if depth == 0 or rng.random() < 0.3:
        r = rng.random()
        if r < 0.45:
            return ["lit", rng.choice(LITS)]
        if r < 0.55:
            return ["lit", rng.choice(META)]
        if r < 0.62:
            return ["dot"]
        if r < 0.72:
            return ["cls", rng.choice(["d", "s", "w"])]
        items = []
        for _ in range(rng.randint(1, 3)):
            if rng.random() < 0.3:
                r2 = rng.random()
                if r2 < 0.4:
                    lo, hi = sorted(rng.sample("abcde", 2))
                elif r2 < 0.7:
                    lo, hi = sorted(rng.sample("0123", 2))
                else:       # ranges whose interior contains punctuation that the implementation treats specially
                    lo, hi = rng.choice([("Z", "a"), ("+", "/"), ("!", "%"), ("z", "~"), (" ", "0"), (":", "@"), ("#", "&"), ("W", "b")])
                items.append([lo, hi])
            else:
                c = rng.choice(LITS + list(".*+?()|$") if rng.random() < 0.7 else LITS)
                items.append([c, c])
        return ["set", rng.random() < 0.25, items]
    r = rng.random()
    if r < 0.3:
        return ["cat", rand_p(rng, depth - 1), rand_p(rng, depth - 1)]
    if r < 0.5:
        return ["alt", rand_p(rng, depth - 1), rand_p(rng, depth - 1)]
    if r < 0.6:
        return ["star", rand_p(rng, depth - 1)]
    if r < 0.7:
        return ["plus", rand_p(rng, depth - 1)]
    if r < 0.8:
        return ["opt", rand_p(rng, depth - 1)]
    m = rng.choice([0, 1, 1, 2, 2])
    n = m if rng.random() < 0.4 else m + rng.randint(1, 2)
    return ["rep", rand_p(rng, depth - 1), m, n]


def show(p, top=True):
    k = p[0]
    if k == "lit":
        return ("\\" + p[1]) if p[1] in META else p[1]
    if k == "dot":
        return "."
    if k == "cls":
        return "\\" + p[1]
    if k == "set":
        body = ""
        for lo, hi in p[2]:
            esc = lambda c: ("\\" + c) if c in "]\\^-" else c
            body += esc(lo) if lo == hi else esc(lo) + "-" + esc(hi)
        return "[" + ("^" if p[1] else "") + body + "]"
    if k == "cat":
        return "".join(show(x, False) if x[0] != "alt" else "(" + show(x) + ")" for x in p[1:])
    if k == "alt":
        s = show(p[1], False) + "|" + show(p[2], False)
        return s if top else "(" + s + ")"
    inner = show(p[1], False)
    if p[1][0] in ("cat", "star", "plus", "opt", "rep") or (p[1][0] == "alt"):
        inner = "(" + show(p[1]) + ")"
    if k == "star":
        return inner + "*"
    if k == "plus":
        return inner + "+"
    if k == "opt":
        return inner + "?"
    return inner + ("{%d}" % p[2] if p[2] == p[3] else "{%d,%d}" % (p[2], p[3]))


def alphabet(p, rng):
    chars = []

    def walk(x):
        if x[0] == "lit":
            chars.append(x[1])
        elif x[0] == "set":
            for lo, hi in x[2]:
                inside = [chr(c) for c in range(ord(lo) + 1, ord(hi))]
                special = [c for c in inside if c in "#&-[]^{}~\\_`"]
                rng.shuffle(special)
                chars.extend(special[:2] + [lo, hi] + ([inside[len(inside) // 2]] if inside else []))
        elif x[0] == "cls":
            chars.append({"d": "7", "s": " ", "w": "_"}[x[1]])
        for y in x[1:]:
            if isinstance(y, list) and y and isinstance(y[0], str) and y[0] in ("lit", "dot", "cls", "set", "cat", "alt", "star", "plus", "opt", "rep"):
                walk(y)
    walk(p)
    out = []
    for c in chars + ["a", "z", "^", "\n"]:
        if c not in out:
            out.append(c)
    return out[:5]


def generate(ctx):
    n = 300 if ctx.tier == "quick" else 5000
    rng = ctx.rng
    cases = []
    for i in range(n):
        if i % 15 == 14:
            cases.append({"op": "invalid", "pattern": rng.choice(["(", "a)", "[a", "*a", "a{2,1}", "(?P<x", "a**", "\\"])})
            continue
        p = rand_p(rng, rng.randint(1, 3))
        alpha = alphabet(p, rng)
        strings = [""]
        for l in (1, 2, 3):
            import itertools
            strings += ["".join(t) for t in itertools.product(alpha[:4] if l == 3 else alpha, repeat=l)]
        for _ in range(6):
            strings.append("".join(rng.choice(alpha) for _ in range(rng.randint(4, 6))))
        cases.append({"op": "match", "ast": p, "pattern": show(p), "strings": strings})
    # systematic family: every quantifier applied directly to every escaped metacharacter / set / class, between two literals
    fam = []
    for atom in [["lit", c] for c in META] + [["set", False, [["(", "("], ["b", "b"]]], ["set", True, [[")", ")"]]], ["cls", "d"], ["dot"]]:
        for q in (["opt"], ["star"], ["plus"], ["rep", 2, 2], ["rep", 0, 1], ["rep", 1, 2]):
            inner = [q[0], atom] + q[1:]
            fam.append(["cat", ["lit", "a"], ["cat", inner, ["lit", "b"]]])
    rng.shuffle(fam)
    # loops over bodies that match the empty word (epsilon cycles in the compiled automaton), read with words that re-enter the loop
    loops = []
    for _ in range(40 if ctx.tier == "quick" else 600):
        x, y, z = (["lit", c] for c in rng.sample(["a", "b", "1", "c"], 3))
        body = rng.choice([
            ["opt", x], ["cat", ["star", x], ["star", y]], ["alt", ["star", x], y], ["alt", x, ["star", y]],
            ["alt", ["opt", x], y], ["cat", ["star", ["cat", x, y]], ["star", z]], ["cat", ["opt", x], ["opt", y]],
            ["alt", ["cat", ["opt", x], ["star", y]], z], ["star", ["alt", ["opt", x], y]], ["rep", x, 0, 2],
            ["cat", ["opt", x], ["rep", ["alt", y, z], 0, 1]]])
        p = [rng.choice(["star", "star", "plus"]), body]
        r = rng.random()
        if r < 0.3:
            p = ["cat", p, z]
        elif r < 0.5:
            p = ["cat", x, p]
        elif r < 0.6:
            p = ["alt", p, ["cat", z, z]]
        loops.append(p)
    import itertools
    for p in loops + fam[:(60 if ctx.tier == "quick" else len(fam))]:
        alpha = alphabet(p, rng)
        strings = [""] + ["".join(t) for l in (1, 2, 3, 4) for t in itertools.product(alpha[:4], repeat=l)]
        cases.append({"op": "match", "ast": p, "pattern": show(p), "strings": strings})
    return cases


def impl(case):
    from pyformlang.regular_expression import PythonRegex
    if case["op"] == "invalid":
        try:
            re.compile(case["pattern"])
            valid = True
        except re.error:
            valid = False
        try:
            PythonRegex(case["pattern"])
            return {"accepted": True, "python_valid": valid}
        except Exception as e:
            return {"rejected": type(e).__name__, "python_valid": valid}
    try:
        rx = re.compile(case["pattern"])
    except re.error as e:
        return {"python_invalid": str(e)}
    want = [rx.fullmatch(s) is not None for s in case["strings"]]
    try:
        pr = PythonRegex(case["pattern"])
    except Exception as e:
        return {"want": want, "construct_error": type(e).__name__, "msg": str(e)[:100]}
    got = []
    for s in case["strings"]:
        try:
            got.append(bool(pr.accepts(list(s))))
        except Exception as e:
            got.append("exc:" + type(e).__name__)
    return {"want": want, "got": got}


def _coq_p(p):
    k = p[0]
    if k == "lit":
        return "(PLit %d)" % ord(p[1])
    if k == "dot":
        return "PDot"
    if k == "cls":
        rs = {"d": [("0", "9")], "s": [(c, c) for c in " \t\n\r\f\v"], "w": [("a", "z"), ("A", "Z"), ("0", "9"), ("_", "_")]}[p[1]]
        return "(PSet false [%s])" % "; ".join("(%d, %d)" % (ord(a), ord(b)) for a, b in rs)
    if k == "set":
        return "(PSet %s [%s])" % ("true" if p[1] else "false", "; ".join("(%d, %d)" % (ord(a), ord(b)) for a, b in p[2]))
    if k in ("cat", "alt"):
        return "(%s %s %s)" % ("PCat" if k == "cat" else "PAlt", _coq_p(p[1]), _coq_p(p[2]))
    if k in ("star", "plus", "opt"):
        return "(%s %s)" % ({"star": "PStar", "plus": "PPlus", "opt": "POpt"}[k], _coq_p(p[1]))
    return "(PRep %s %d%%nat %d%%nat)" % (_coq_p(p[1]), p[2], p[3])


UNIVERSE = "[" + "; ".join(str(ord(c)) for c in string.printable) + "]"


def check_cases(ctx, cases):
    obs = ctx.impl("c07", cases, timeout=40)
    parts = chunks([i for i, c in enumerate(cases) if c["op"] == "match" and "want" in obs[i]], 16)
    srcs = []
    for part in parts:
        lines = ["Definition U : list N := %s." % UNIVERSE]
        for i in part:
            ss = cq([[ord(ch) for ch in s] for s in cases[i]["strings"]])
            lines.append("Eval vm_compute in (let r := py_translate U %s in map (re_matches r) %s)." % (_coq_p(cases[i]["ast"]), ss))
        srcs.append("From PFL Require Import Eval.FA.\n" + "\n".join(lines) + "\n")
    outs = ctx.coq(srcs)
    mvs = {}
    for part, vals in zip(parts, outs):
        for i, v in zip(part, vals):
            mvs[i] = v
    for i, c in enumerate(cases):
        o = obs[i]
        ctx.dist[c["op"]] += 1
        if "timeout" in o or "exc" in o:
            ctx.fail(c["op"] + "-exception", c, {"impl": o})
            continue
        if c["op"] == "invalid":
            ctx.count(1)
            if not o["python_valid"] and o.get("accepted"):
                ctx.fail("invalid-pattern-accepted", c, {})
            continue
        if "python_invalid" in o:
            raise RuntimeError("HARNESS: generated pattern rejected by Python: %r %r" % (c["pattern"], o))
        ctx.count(len(c["strings"]))
        if len(c["pattern"]) >= 6:
            ctx.nontriv(c["pattern"])
        if i % 37 == 0:
            ctx.sample({"pattern": c["pattern"], "strings": len(c["strings"])})
        model = mvs[i]
        if model != o["want"]:
            bad = [c["strings"][j] for j in range(len(model)) if model[j] != o["want"][j]]
            raise RuntimeError("HARNESS: the Gallina model of the subset disagrees with re.fullmatch on %r for %r" % (c["pattern"], bad[:3]))
        if "construct_error" in o:
            ctx.fail("valid-pattern-rejected", c, {"error": o["construct_error"], "msg": o.get("msg")})
        elif o["got"] != o["want"]:
            bad = [c["strings"][j] for j in range(len(o["got"])) if o["got"][j] != o["want"][j]]
            ctx.fail("accepts", c, {"strings": bad[:4], "impl": [o["got"][c["strings"].index(b)] for b in bad[:4]]})


def shrink_candidates(case):
    if case["op"] != "match":
        return
    p = case["ast"]

    def subs(x):
        for y in x[1:]:
            if isinstance(y, list) and y and isinstance(y[0], str) and y[0] in ("lit", "dot", "cls", "set", "cat", "alt", "star", "plus", "opt", "rep"):
                yield y
                yield from subs(y)
    for q in subs(p):
        yield dict(case, ast=q, pattern=show(q))
