"""C01 — acceptance; determinise / eps-removal / minimise / copy keep the language."""
import falib
import fa_engine
from props._fa_common import TRUSTED, ASSUMPTIONS, TECHNIQUE

PROP = "C01"
LEVEL = "proof"
THEOREMS = {"Properties.C01": ["C01_accepts", "C01_accepts_nfa", "C01_accepts_dfa", "C01_remove_eps",
                               "C01_determinize", "C01_equiv_certificate", "C01_determinize_total", "C01_minimize_model"]}
LEVEL_TEXT = ("Machine-checked Coq theorems (no axioms, all automata, all words): accepts = existence of a run (three class loops), "
              "remove_epsilon_transitions and the subset construction preserve the language and have the advertised shape. "
              "minimize is modelled by its specification (live states grouped by language equivalence, quotient) and proved language-preserving "
              "and deterministic for every DFA (C01_minimize_model; reducedness and canonicity under C02); the Hopcroft worklist and copy are not "
              "mirrored: every automaton pyformlang returns is certified language-equal to its input by the proved-sound equivalence checker "
              "(instance-level certificate). Model tied to /repo by correspondence on every run.")
LEVEL_NOTE = ("Trusted: Coq kernel; hand-written model (validated by correspondence, not derived from source); Python harness. "
              "Theorems are about the model; merged-state *names* are not modelled (subsets are the model's states), so a name collision "
              "in pyformlang shows up as a language difference found by the correspondence leg.")
RULE = ("random epsilon-NFA/NFA/DFA (1-5 states, 1-3 symbols; profiles sparse/dense/eps/epscycle/dead/unreach/multi; plain/int/adversarial "
        "names incl. merged-name look-alikes) x {accepts on all words up to length 3|4 over alphabet + a foreign symbol, to_deterministic, "
        "remove_epsilon_transitions, minimize (mostly 5-8 state DFAs), copy}, a quarter of them built incrementally with discarded queries in between, "
        "plus edit histories (add/remove transitions, start and final states on a live automaton, queries after every edit, each compared "
        "with the model of the automaton as it is then); non-trivial = at least 2 transitions, a start and a final state; distinct by canonical JSON of (op, automaton)")
EXPLANATION = ("Theorems about the Gallina model (Properties/C01.v) + differential correspondence model vs pyformlang on accepts bits and, "
               "for each transformer, certified language equivalence between the input and the automaton pyformlang returns, plus the advertised shape.")

OPS = ["accepts", "accepts", "to_deterministic", "remove_epsilon_transitions", "minimize", "minimize", "copy"]


def generate(ctx):
    n = 1750 if ctx.tier == "quick" else 14000
    cases = []
    for i in range(n):
        names = ctx.rng.choice(["plain", "plain", "int", "adv"])
        op = OPS[i % len(OPS)]
        spec = falib.rand_fa(ctx.rng, names=names, history_p=0.25)
        if i % 40 == 9 and op in ("copy", "accepts", "remove_epsilon_transitions"):
            spec = falib.rand_fa(ctx.rng, kind="enfa", profile="epsonly", names=names)
        if op == "minimize" and ctx.rng.random() < 0.8:
            spec = falib.rand_big_dfa(ctx.rng)
        cases.append({"op": op, "fa": spec, "maxlen": 3 if ctx.tier == "quick" else 4})
    for i in range(150 if ctx.tier == "quick" else 1500):
        cases.append(fa_engine.rand_history(ctx.rng))
    # search stage for minimize (refinement-order defects show on about one mid-sized DFA in 400-1000): many DFAs minimised and
    # pre-filtered in the workers, the suspects judged like any other case
    for _ in range(6 if ctx.tier == "quick" else 48):
        cases.append({"op": "hopcroft_search", "seed": ctx.rng.randrange(10 ** 9), "count": 400, "fa": {"states": [], "profile": "search"}})
    return cases


def impl(case):
    if case["op"] == "hopcroft_search":
        return fa_engine.hopcroft_search(case)
    return fa_engine.impl_case(case)


def check_cases(ctx, cases):
    search = [c for c in cases if c["op"] == "hopcroft_search"]
    rest = [c for c in cases if c["op"] != "hopcroft_search"]
    if search:
        obs = ctx.impl("c01", search, timeout=300)
        for c, o in zip(search, obs):
            if "timeout" in o or "exc" in o:
                ctx.fail("hopcroft-search-exception", c, {"impl": o})
                continue
            ctx.count(o["tried"])
            ctx.dist["hopcroft_search: DFAs (5-8 states) minimised and pre-filtered in Python"] += o["tried"]
            for spec in o["suspects"]:
                ctx.dist["hopcroft_search: suspects sent to the certified judge"] += 1
                rest.append({"op": "minimize", "fa": spec, "maxlen": 3, "found_by": "hopcroft_search"})
    fa_engine.check_cases(ctx, "c01", rest)


shrink_candidates = fa_engine.shrink_candidates
KNOWN_PREDICATES = {"state_name_collision": fa_engine.make_name_collision_predicate("c01")}
