"""C01 — acceptance; determinise / eps-removal / minimise / copy keep the language."""
import falib
from common import cq, chunks

PROP = "C01"
LEVEL = "proof"
THEOREMS = {"Properties.C01": ["C01_accepts"]}
LEVEL_TEXT = ("Machine-checked Coq theorems (no axioms) state the property for the Gallina model of the automaton algorithms for all "
              "automata and words; the model is tied to /repo on every run by differential correspondence on accepts bits and by a "
              "proved-sound equivalence checker applied to the automata pyformlang returns.")
LEVEL_NOTE = ("Trusted: Coq kernel; hand-written model (validated, not derived from source); Python harness. The theorem is about the model; "
              "values restricted to ints/strings.")
TECHNIQUE = "Rocq/Coq proof about an executable Gallina model + differential correspondence (model evaluated by vm_compute inside Coq)"
TRUSTED = ["Coq 8.16.1 kernel (coqc, vm_compute for model evaluation)",
           "hand-written Gallina model coq/Model/Enfa.v tied to /repo by the differential correspondence in harness/props/c01.py",
           "Python harness (generators, accessors through the public API, Coq-output parser)"]
ASSUMPTIONS = ["state and symbol values are ints or strings (interned to N for the model)",
               "correspondence is differential testing: it validates the model against the code, the universal claim is the Coq theorem"]
RULE = ("random epsilon-NFA/NFA/DFA (1-5 states, 1-3 symbols, profiles sparse/dense/eps/epscycle/dead/unreach/multi, "
        "plain/int/adversarial names) x all words up to length 3 (quick) / 4 (thorough) over alphabet + one foreign symbol; "
        "non-trivial = at least 2 transitions, a start and a final state; distinct by canonical JSON")
EXPLANATION = ("Theorems about the Gallina model (Properties/C01.v) + differential correspondence model vs pyformlang "
               "on accepts bits and, for each transformer, certified language equivalence (Oracle/EnfaEquivSound.v) "
               "between the input and the automaton pyformlang returns, plus the advertised shape.")


def generate(ctx):
    n = 300 if ctx.tier == "quick" else 4000
    cases = []
    for i in range(n):
        names = ctx.rng.choice(["plain", "plain", "int", "adv"])
        spec = falib.rand_fa(ctx.rng, names=names)
        cases.append({"op": "accepts", "fa": spec, "maxlen": 3 if ctx.tier == "quick" else 4})
    return cases


def _words(case):
    syms = list(case["fa"]["symbols"]) + ["zz"]
    return falib.words_upto(syms, case["maxlen"])


def impl(case):
    fa = falib.build_fa(case["fa"])
    if case["op"] == "accepts":
        return {"bits": [bool(fa.accepts(w)) for w in _words(case)]}
    raise ValueError(case["op"])


def check_cases(ctx, cases):
    obs = ctx.impl("c01", cases)
    srcs = []
    parts = chunks(list(range(len(cases))), 16)
    for part in parts:
        items = []
        for i in part:
            c = cases[i]
            si = falib.Interner()
            A = falib.coq_enfa(c["fa"], si)
            ws = [[si(a) for a in w] for w in _words(c)]
            items.append("(%s, %s)" % (A, cq(ws)))
        srcs.append("From PFL Require Import Eval.FA.\nDefinition cases : list (enfa * list (list N)) := [\n%s].\n"
                    "Eval vm_compute in (map (fun c => map (accepts (fst c)) (snd c)) cases).\n" % ";\n".join(items))
    outs = ctx.coq(srcs)
    for part, out in zip(parts, outs):
        res = out[0]
        for i, mbits in zip(part, res):
            c, o = cases[i], obs[i]
            ctx.count(len(mbits))
            ctx.dist[c["fa"]["kind"] + "/" + c["fa"].get("profile", "?")] += 1
            if falib.nontrivial_fa(c["fa"]):
                ctx.nontriv(c["fa"])
            ctx.sample({"fa": c["fa"], "words": len(mbits), "accepted": sum(mbits)})
            if "bits" not in o:
                ctx.fail("accepts-exception", c, {"impl": o})
            elif o["bits"] != mbits:
                ws = _words(c)
                bad = [ws[j] for j in range(len(ws)) if o["bits"][j] != mbits[j]]
                ctx.fail("accepts", c, {"words": bad[:3], "impl": [o["bits"][ws.index(b)] for b in bad[:3]], "hashseed": o.get("_hs")})
