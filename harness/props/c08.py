"""C08 — CFG membership answers are exactly derivability from the start symbol."""
import cfglib
import cfg_engine
from props._cfg_common import TRUSTED, ASSUMPTIONS, TECHNIQUE

PROP = "C08"
LEVEL = "proof"
THEOREMS = {"Properties.C08": ["C08_member_oracle", "C08_generate_epsilon", "C08_cyk", "C08_contains", "C08_contains_total"]}
LEVEL_TEXT = ("Proof + correspondence: C08_contains shows that the mirrored model of CFG.contains (generate_epsilon for the empty word; otherwise "
              "to_normal_form = fast-path test, five-stage clean-up, terminal lifting, binarisation with the suffix cache, then the CYK table) returns "
              "True exactly when the start symbol derives the word, for every grammar and word; C08_contains_total shows that the normal-form recursion "
              "always finishes (one clean-up reaches the fast path or leaves no production); C08_member_oracle gives an independent certified membership function for arbitrary grammars. contains/__contains__/generate_epsilon "
              "of pyformlang are compared with both on every generated grammar and word.")
LEVEL_NOTE = ("Trusted: Coq kernel; hand-written model validated by correspondence (the proof is about the model); Python harness.")
RULE = ("random grammars (1-4 variables, 1-3 terminals, 1-8 productions, bodies 0-4; profiles plain/eps/unit/unitcycle/recursive/useless/longshared/"
        "nostartprod/cnf; plain and adversarial names) x all words up to length 4 (quick) / 5 (thorough) over the terminals plus an unknown symbol; "
        "non-trivial = at least 2 productions and a body of length >= 2")
EXPLANATION = "Theorem in Properties/C08.v + differential correspondence of contains / in / generate_epsilon against the certified membership function and the mirrored model."


def generate(ctx):
    n = 500 if ctx.tier == "quick" else 6000
    cases = []
    for i in range(n):
        g = cfglib.rand_cfg(ctx.rng, names="plain" if ctx.rng.random() < 0.85 else "adv")
        if i % 10 == 3:     # variables that already carry the names to_normal_form generates (gaps, several consecutive names taken) + a long body
            g = cfglib.rand_cfg(ctx.rng, profile="cnfnames")
        if i % 5 == 4:
            cases.append({"op": "generate_epsilon", "g": g})
        else:
            cases.append({"op": "contains", "g": g, "maxlen": 4 if ctx.tier == "quick" else 5, "foreign": ctx.rng.random() < 0.4,
                          "via_in": ctx.rng.random() < 0.2, "warm": ctx.rng.choice([None, None, ["is_empty"], ["get_nullable_symbols", "to_normal_form"]])})
    return cases


def impl(case):
    return cfg_engine.impl_case(case)


def check_cases(ctx, cases):
    cfg_engine.check_cases(ctx, "c08", cases)


shrink_candidates = cfg_engine.shrink_candidates
