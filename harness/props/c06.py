"""C06 — automaton -> regular expression (state elimination) preserves the language."""
import falib
import fa_engine
from props._fa_common import TRUSTED, ASSUMPTIONS, TECHNIQUE

PROP = "C06"
LEVEL = "proof"
THEOREMS = {"Properties.C06": ["C06_regex_automaton", "C06_to_regex_model", "C06_round_trip_model", "C06_round_trip_code_path"]}
LEVEL_TEXT = ("Proof + correspondence: the state-elimination algorithm of EpsilonNFA.to_regex is modelled in Gallina on expression trees (fresh start state "
              "for several start states, one run per final state, removal of every other state with in.(loop)*.out, the closing two-state formula, the "
              "union over final states) and proved to denote exactly the language of the automaton, for every well-formed epsilon-NFA "
              "(C06_to_regex_model), hence the round trip through to_epsilon_nfa (C06_round_trip_model). Each expression tree returned by pyformlang's "
              "to_regex() is decided language-equal to the input automaton by the proved-exact equivalence checker and compared with the model's "
              "expression on all words up to length 4 by the proved matcher. pyformlang assembles the expression as text and parses it back; that "
              "textual assembly is abstracted by the tree model and covered by the per-instance certificate only.")
LEVEL_NOTE = ("Trusted: Coq kernel; hand-written Gallina model of the elimination (validated against the code by language-level correspondence, not "
              "regenerated from it); Python harness (reads the Regex tree through head/sons).")
RULE = ("random epsilon-NFAs with plain-token symbols (0-3 start states, 0-3 final states, start=final, self loops, epsilon moves) x to_regex(); "
        "the returned tree is converted to an automaton by the proved construction and compared with the input by the certified equivalence check")
EXPLANATION = "State elimination proved on a tree-level model for all automata; instance-level certified equivalence between each automaton and the expression to_regex() returns."


def generate(ctx):
    n = 500 if ctx.tier == "quick" else 40000
    cases = []
    for i in range(n):
        names = ctx.rng.choice(["plain", "plain", "int"])
        if i % 6 == 2:       # several ordinary states densely connected: eliminating one creates edges parallel to existing ones
            cases.append({"op": "to_regex", "fa": falib.rand_elim_fa(ctx.rng, names="plain" if names == "plain" else "int")})
            continue
        if i % 12 == 7:      # an automaton without any input symbol: every transition is an epsilon move
            spec = falib.rand_fa(ctx.rng, kind="enfa", profile="epsonly", names=names, max_states=4)
        else:
            spec = falib.rand_fa(ctx.rng, names=names, max_states=4)
        if i % 17 == 3 and len(spec["states"]) >= 2 and spec["kind"] != "dfa":
            # several start states and states already named like the fresh start state to_regex introduces
            taken = ["#STARTREGEX#", "#STARTREGEX#'", "#STARTREGEX#''"][:len(spec["states"])]
            ren = dict(zip(map(falib.vkey, spec["states"]), taken))

            def rn(x):
                return ren.get(falib.vkey(x), x)
            spec = dict(spec, states=[rn(x) for x in spec["states"]], trans=[[rn(a), l, rn(b)] for a, l, b in spec["trans"]],
                        starts=[rn(x) for x in spec["states"][:2]], finals=[rn(x) for x in spec["finals"]], names="startregex")
        cases.append({"op": "to_regex", "fa": spec})
    return cases


def impl(case):
    return fa_engine.impl_case(case)


def check_cases(ctx, cases):
    fa_engine.check_cases(ctx, "c06", cases)


shrink_candidates = fa_engine.shrink_candidates
