"""C06 — automaton -> regular expression (state elimination) preserves the language."""
import falib
import fa_engine
from props._fa_common import TRUSTED, ASSUMPTIONS, TECHNIQUE

PROP = "C06"
LEVEL = "other"
THEOREMS = {"Properties.C06": ["C06_regex_automaton"]}
LEVEL_TEXT = ("Partial: the Coq theorem shows that the automaton built from a regular expression (reference construction re_fa) accepts exactly the "
              "expression's denotation, for all expressions; each expression tree returned by to_regex() is then decided language-equal to the input "
              "automaton by the proved-exact equivalence checker (instance-level certificate). The state-elimination algorithm itself and its textual "
              "assembly of the expression are not proved for all inputs.")
LEVEL_NOTE = "Trusted: Coq kernel; Python harness (reads the Regex tree through head/sons). The universal statement about to_regex is not proved."
RULE = ("random epsilon-NFAs with plain-token symbols (0-3 start states, 0-3 final states, start=final, self loops, epsilon moves) x to_regex(); "
        "the returned tree is converted to an automaton by the proved construction and compared with the input by the certified equivalence check")
EXPLANATION = "Instance-level certified equivalence between each automaton and the expression to_regex() returns; re_fa proved correct for all expressions."


def generate(ctx):
    n = 500 if ctx.tier == "quick" else 40000
    cases = []
    for i in range(n):
        names = ctx.rng.choice(["plain", "plain", "int"])
        if i % 12 == 7:      # an automaton without any input symbol: every transition is an epsilon move
            spec = falib.rand_fa(ctx.rng, kind="enfa", profile="epsonly", names=names, max_states=4)
        else:
            spec = falib.rand_fa(ctx.rng, names=names, max_states=4)
        if i % 17 == 3 and len(spec["states"]) >= 2 and spec["kind"] != "dfa":
            # several start states and states already named like the fresh start state to_regex introduces
            taken = ["#STARTREGEX#", "#STARTREGEX#'", "#STARTREGEX#''"][:len(spec["states"])]
            ren = dict(zip(map(falib.vkey, spec["states"]), taken))

            def rn(x):
                return ren.get(falib.vkey(x), x)
            spec = dict(spec, states=[rn(x) for x in spec["states"]], trans=[[rn(a), l, rn(b)] for a, l, b in spec["trans"]],
                        starts=[rn(x) for x in spec["states"][:2]], finals=[rn(x) for x in spec["finals"]], names="startregex")
        cases.append({"op": "to_regex", "fa": spec})
    return cases


def impl(case):
    return fa_engine.impl_case(case)


def check_cases(ctx, cases):
    fa_engine.check_cases(ctx, "c06", cases)


shrink_candidates = fa_engine.shrink_candidates
