"""C10 — CFG union / concatenation / closure / reversal / substitution build exactly that set."""
import cfglib
import cfg_engine
from cfglib import CfgInterner, coq_cfg
from common import cq
from props._cfg_common import TRUSTED, ASSUMPTIONS, TECHNIQUE

PROP = "C10"
LEVEL = "proof"
THEOREMS = {"Properties.C10": ["C10_reverse", "C10_substitute", "C10_union", "C10_concatenate", "C10_closure", "C10_positive_closure"]}
LEVEL_TEXT = ("Proof + correspondence: for the mirrored models (substitute with tagged, hence disjoint, variables; the four template grammars pushed "
              "through it; reverse) Coq theorems show, for all grammars, all ordered pairs (shared variable names or the same grammar twice included) and "
              "all words, that the language is exactly the substituted language, L1 u L2, L1 L2, L*, L+ and the mirror image. Every grammar pyformlang "
              "returns is compared, on all words up to a bound and with the certified membership oracle, with (a) the set-theoretic definition computed "
              "from the operands' memberships and (b) the model's construction.")
LEVEL_NOTE = ("Trusted: Coq kernel; hand-written model validated by correspondence (pyformlang renames variables with #SUBS#i suffixes, the model tags "
              "them; the tie between the two is bounded language agreement, which is testing); Python harness.")
RULE = ("random grammars and ordered pairs sharing variable names (S, A, ...), the same object as both operands, empty and epsilon-only languages, "
        "reserved names x {union, concatenate, get_closure, get_positive_closure, reverse, substitute and | + ~}; words up to length 4 (3 for 3 terminals)")
EXPLANATION = "Reference semantics on words (certified membership) + mirrored substitute model, compared with the grammars pyformlang returns."

OPS = ["union", "concatenate", "get_closure", "get_positive_closure", "reverse", "substitute"]


def generate(ctx):
    n = 300 if ctx.tier == "quick" else 4000
    rng = ctx.rng
    cases = []
    for i in range(n):
        op = OPS[i % len(OPS)]
        names = "plain" if rng.random() < 0.85 else "adv"
        g = cfglib.rand_cfg(rng, names=names, max_vars=3, max_prods=5, max_body=3)
        c = {"op": op, "g": g, "maxlen": 4 if ctx.tier == "quick" else 5, "operator": rng.random() < 0.3,
             "warm": rng.choice([None, None, ["to_normal_form"], ["is_empty"]]) if op != "reverse" else rng.choice([None, ["to_normal_form"], ["to_normal_form"], ["is_finite"]])}
        if op in ("union", "concatenate"):
            if rng.random() < 0.12:
                c["same_object"] = True
                c["g2"] = g
            else:
                g2 = cfglib.rand_cfg(rng, names=names, max_vars=3, max_prods=5, max_body=3)
                if rng.random() < 0.15:
                    g2 = cfglib.normalise(dict(g2, prods=[[g2["start"], []]]))      # epsilon-only
                elif rng.random() < 0.1:
                    g2 = cfglib.normalise(dict(g2, prods=[]))                     # empty language
                c["g2"] = g2
        if op == "substitute":
            g2 = cfglib.rand_cfg(rng, names=names, max_vars=2, max_prods=4, max_body=2)
            c["g2"] = g2
            c["ter"] = rng.choice(g["terms"])
            if rng.random() < 0.6 and len(g["terms"]) > 1:
                g3 = cfglib.rand_cfg(rng, names=names, max_vars=2, max_prods=3, max_body=2)
                c["ter3"] = [t for t in g["terms"] if t != c["ter"]][0]
                c["chained"] = rng.random() < 0.35      # two successive substitute calls (the second one on a grammar that already has #SUBS# names)
                if rng.random() < 0.6:
                    # simultaneous substitution: the grammar of the later entry uses the terminal that the earlier entry replaces
                    # (and the earlier one the terminal of the later entry); these occurrences must stay terminals
                    g3 = cfglib.normalise(dict(g3, terms=g3["terms"] + [t for t in (c["ter"],) if cfglib.vkey(t) not in set(map(cfglib.vkey, g3["terms"]))],
                                               prods=g3["prods"] + [[g3["start"], [["T", c["ter"]]] + ([["T", g3["terms"][0]]] if rng.random() < 0.5 else [])]]))
                    if rng.random() < 0.5:
                        c["g2"] = cfglib.normalise(dict(g2, terms=g2["terms"] + [t for t in (c["ter3"],) if cfglib.vkey(t) not in set(map(cfglib.vkey, g2["terms"]))],
                                                        prods=g2["prods"] + [[g2["start"], [["T", c["ter3"]]]]]))
                c["g3"] = g3
        cases.append(c)
    return cases


def impl(case):
    from pyformlang.cfg import Terminal
    op = case["op"]
    g = cfglib.build_cfg(case["g"])
    for q in case.get("warm") or []:
        try:
            getattr(g, q)()
        except Exception:
            pass
    g2 = g if case.get("same_object") else (cfglib.build_cfg(case["g2"]) if "g2" in case else None)
    before = cfglib.extract_cfg(g)
    if op == "union":
        res = (g | g2) if case.get("operator") else g.union(g2)
    elif op == "concatenate":
        res = (g + g2) if case.get("operator") else g.concatenate(g2)
    elif op == "get_closure":
        res = g.get_closure()
    elif op == "get_positive_closure":
        res = g.get_positive_closure()
    elif op == "reverse":
        res = (~g) if case.get("operator") else g.reverse()
    elif op == "substitute":
        sub = {Terminal(case["ter"]): g2}
        if "g3" in case and case.get("chained"):
            res = g.substitute(sub).substitute({Terminal(case["ter3"]): cfglib.build_cfg(case["g3"])})
        else:
            if "g3" in case:
                sub[Terminal(case["ter3"])] = cfglib.build_cfg(case["g3"])
            res = g.substitute(sub)
    else:
        raise ValueError(op)
    bits = [bool(res.contains([Terminal(a) for a in w])) for w in _small_words(case)]
    return {"out": cfglib.extract_cfg(res), "operand_unchanged": cfglib.extract_cfg(g) == before, "bits": bits}


def _all_terms(case):
    terms = list(case["g"]["terms"])
    for k in ("g2", "g3"):
        if k in case:
            terms += [t for t in case[k]["terms"] if cfglib.vkey(t) not in set(map(cfglib.vkey, terms))]
    return terms[:3]


def _small_words(case):
    return cfglib.words_upto(_all_terms(case), 3 if len(_all_terms(case)) < 3 else 2)


class _Ext:
    @staticmethod
    def coq_expr(case, obs):
        op = case["op"]
        ci = CfgInterner()
        G = coq_cfg(case["g"], ci)
        G2 = G if case.get("same_object") else (coq_cfg(case["g2"], ci) if "g2" in case else None)
        G3 = coq_cfg(case["g3"], ci) if "g3" in case else None
        H = coq_cfg(obs["out"], ci)
        terms = _all_terms(case)
        small = cq([[ci.ter(a) for a in w] for w in _small_words(case)])
        ts = "[" + "; ".join(str(ci.ter(t)) for t in terms) + "]"
        k = {1: 5, 2: 4}.get(len(terms), 3)
        ws = "(all_words %s %d%%nat)" % (ts, k)
        f0, f1 = 900001, 900002          # placeholder terminals of the templates, outside the interned range
        m1 = "(cfg_member %s)" % G
        m2 = "(cfg_member %s)" % G2 if G2 else None
        if op == "union":
            ref = "(fun w => %s w || %s w)" % (m1, m2)
            model = "(union_cfg %d %d %s %s)" % (f0, f1, G, G2)
        elif op == "concatenate":
            ref = "(concat_ref %s %s)" % (m1, m2)
            model = "(concat_cfg %d %d %s %s)" % (f0, f1, G, G2)
        elif op == "get_closure":
            ref = "(fun w => star_ref (length w) %s w)" % m1
            model = "(closure_cfg %d %s)" % (f1, G)
        elif op == "get_positive_closure":
            ref = "(plus_ref %s)" % m1
            model = "(pos_closure_cfg %d %s)" % (f1, G)
        elif op == "reverse":
            ref = "(fun w => %s (rev w))" % m1
            model = "(reverse_cfg %s)" % G
        else:
            if G3 and case.get("chained"):
                model = "(substitute (substitute %s [(%d, %s)]) [(%d, %s)])" % (G, ci.ter(case["ter"]), G2, ci.ter(case["ter3"]), G3)
            else:
                sigma = "[(%d, %s)" % (ci.ter(case["ter"]), G2) + ("; (%d, %s)" % (ci.ter(case["ter3"]), G3) if G3 else "") + "]"
                model = "(substitute %s %s)" % (G, sigma)
            return "(lang_diff %s %s %s false, @None (list N), map (cfg_member %s) %s)" % (model, H, ws, model, small)
        return "(pred_diff %s %s %s, pred_diff %s %s %s, map %s %s)" % (H, ref, ws, model, ref, ws, ref, small)

    @staticmethod
    def judge_case(ctx, case, obs, mv):
        op = case["op"]
        if "timeout" in obs or "exc" in obs:
            ctx.fail(op + "-exception", case, {"impl": obs})
            return
        ctx.count(1)
        d_impl, d_model, refbits = mv
        if d_model is not None:
            raise RuntimeError("HARNESS: model construction for %s disagrees with the set-theoretic reference: %r" % (op, case))
        if d_impl is not None:
            ctx.fail(op + "-language", case, {"word_interned": d_impl[1], "impl_out": obs["out"], "hashseed": obs.get("_hs")})
        elif not obs["operand_unchanged"]:
            ctx.fail(op + "-mutates-operand", case, {})
        elif obs["bits"] != refbits:
            ws = _small_words(case)
            bad = [ws[j] for j in range(len(ws)) if obs["bits"][j] != refbits[j]]
            ctx.fail(op + "-contains-on-result", case, {"words": bad[:3], "note": "the returned object's contains() disagrees with its own productions"})


def check_cases(ctx, cases):
    cfg_engine.check_cases(ctx, "c10", cases, ext=_Ext)


shrink_candidates = cfg_engine.shrink_candidates
