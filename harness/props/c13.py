"""C13 — CFG <-> PDA and PDA acceptance-mode conversions preserve the language."""
import cfglib
import cfg_engine
import pdalib
from cfglib import CfgInterner, coq_cfg
from pdalib import PdaInterner, coq_pda
from common import cq
from props._cfg_common import TRUSTED, ASSUMPTIONS, TECHNIQUE

PROP = "C13"
LEVEL = "proof"
THEOREMS = {"Properties.C13": ["C13_accepts_empty_oracle", "C13_accepts_final_oracle", "C13_member_oracle", "C13_cfg_to_pda", "C13_pda_to_cfg",
                             "C13_to_final_state", "C13_to_empty_stack", "C13_cfg_pda_cfg_round_trip"]}
LEVEL_TEXT = ("Proof + correspondence: pyformlang PDAs have no acceptance procedure, so the property is stated against the reference small-step "
              "semantics. Coq theorems (no axioms) show, for the mirrored models of the four conversions and for ALL grammars / PDAs (epsilon moves, "
              "multi-symbol pushes, no final states, ...) and words: cfg_to_pda accepts by empty stack exactly L(G); pda_to_cfg (triple construction with "
              "the validity pruning) generates exactly the words accepted by empty stack; to_final_state and to_empty_stack exchange the two modes. The "
              "hypotheses are the registration invariants the constructors establish (checked on every built operand). The two acceptance oracles "
              "(saturation of pop / final items) are proved exact, as is CFG membership; with them the PDAs / grammars pyformlang returns are compared "
              "with the operands on all words up to a bound, next to the model's own constructions.")
LEVEL_NOTE = ("Trusted: Coq kernel; hand-written models validated by correspondence (pyformlang's fresh state / symbol names are constructors in the "
              "model; the returned objects are tied to the operands by bounded language agreement through the proved oracles); Python harness (reads PDAs "
              "through states/start_state/final_states/to_dict()/to_networkx()).")
RULE = ("random PDAs (1-3 states, 1-2 input symbols, 1-3 stack symbols, <= 6 transitions, pushes of 0-3 symbols, epsilon moves and stack-growing epsilon "
        "cycles, no final states, reserved names) and random grammars x {to_pda, to_cfg, to_final_state, to_empty_stack}; words up to length 4")
EXPLANATION = "Exact acceptance oracles (proved) applied to operands and results on all words up to a bound; mirrored conversion models evaluated alongside."

OPS = ["cfg_to_pda", "pda_to_cfg", "to_final_state", "to_empty_stack"]


def generate(ctx):
    n = 480 if ctx.tier == "quick" else 3000
    rng = ctx.rng
    cases = []
    for i in range(n):
        op = OPS[i % 4]
        if op == "cfg_to_pda":
            g = cfglib.rand_cfg(rng, max_vars=3, max_prods=5, max_body=3)
            if rng.random() < 0.25:      # variables 1, 2, 3 (ints) next to terminals "1", "2": same spelling, different symbols
                rv = {cfglib.vkey(v): i + 1 for i, v in enumerate(g["vars"])}
                rt = {cfglib.vkey(t): str(i + 1) for i, t in enumerate(g["terms"])}
                g = cfglib.normalise(dict(g, vars=[rv[cfglib.vkey(v)] for v in g["vars"]], terms=[rt[cfglib.vkey(t)] for t in g["terms"]],
                                          start=rv[cfglib.vkey(g["start"])] if g.get("start") is not None else None, names="num",
                                          prods=[[rv[cfglib.vkey(h)], [[k, (rv if k == "V" else rt)[cfglib.vkey(v)]] for k, v in b]] for h, b in g["prods"]]))
            cases.append({"op": op, "g": g, "maxlen": 3 if ctx.tier == "quick" else 4, "with_model": i % 16 == 0})
        else:
            big = ctx.tier != "quick" and rng.random() < 0.5
            p = pdalib.rand_pda(rng, names="plain" if rng.random() < 0.85 else "adv", max_states=3 if big else 2,
                                max_stack=3 if big else 2, max_trans=6 if big else 5)
            cases.append({"op": op, "g": {"profile": "pda:" + p["profile"], "prods": [], "terms": p["inputs"]}, "p": p, "maxlen": 3 if ctx.tier == "quick" else 4,
                          "twice": rng.random() < 0.3, "with_model": i % 3 == 0,
                          # to_cfg after other conversions of the same object, and of objects derived from it (they share the wrapper objects)
                          "chain": op == "pda_to_cfg" and rng.random() < 0.4})
            if op == "pda_to_cfg" and not cases[-1]["chain"] and rng.random() < 0.4:
                # round trip through the grammar (whose variables are numbered 0, 1, 2, ...) back to a PDA, over the input symbols "0" and "1"
                ren = {cfglib.vkey(a): str(i) for i, a in enumerate(p["inputs"])}
                p2 = dict(p, inputs=[ren[cfglib.vkey(a)] for a in p["inputs"]],
                          trans=[[q, (None if a is None else ren[cfglib.vkey(a)]), A, r, push] for q, a, A, r, push in p["trans"]])
                cases[-1] = dict(cases[-1], p=p2, g=dict(cases[-1]["g"], terms=p2["inputs"]), roundtrip=True)
    return cases


def _pda_wf(p):
    """The hypotheses of C13_pda_to_cfg / C13_to_final_state / C13_to_empty_stack (pda_wf), on a PDA description."""
    states, stack = set(map(cfglib.vkey, p["states"])), set(map(cfglib.vkey, p["stack"]))
    return (all(cfglib.vkey(t[3]) in states for t in p["trans"]) and (p["start"] is None or cfglib.vkey(p["start"]) in states)
            and (p["z0"] is None or cfglib.vkey(p["z0"]) in stack) and all(cfglib.vkey(x) in stack for t in p["trans"] for x in t[4]))


def _cfg_wf(g):
    """The hypothesis of C13_cfg_to_pda: body terminals are registered."""
    terms = set(map(cfglib.vkey, g["terms"]))
    return all(cfglib.vkey(x[1]) in terms for _, body in g["prods"] for x in body if x[0] == "T")


def impl(case):
    op = case["op"]
    if op == "cfg_to_pda":
        g = cfglib.build_cfg(case["g"])
        return {"pda": pdalib.extract_pda(g.to_pda()), "wf": _cfg_wf(cfglib.extract_cfg(g))}
    p = pdalib.build_pda(case["p"])
    before = pdalib.extract_pda(p)
    if case.get("twice"):        # conversions of the same object twice: the second result is the one judged
        getattr(p, {"pda_to_cfg": "to_cfg"}.get(op, op))()
    if op == "pda_to_cfg" and case.get("chain"):
        p.to_cfg()
        # to_final_state then to_empty_stack accept by empty stack what p accepts by empty stack
        out = {"cfg": cfglib.extract_cfg(p.to_final_state().to_empty_stack().to_cfg())}
    elif op == "pda_to_cfg" and case.get("roundtrip"):
        out = {"pda": pdalib.extract_pda(p.to_cfg().to_pda())}
    elif op == "pda_to_cfg":
        out = {"cfg": cfglib.extract_cfg(p.to_cfg())}
    else:
        out = {"pda": pdalib.extract_pda(getattr(p, op)())}
    out["operand_unchanged"] = pdalib.extract_pda(p) == before
    out["wf"] = _pda_wf(before)
    return out


def _words(terms, k):
    return cfglib.words_upto(terms, {1: k + 1, 2: k}.get(len(terms), k - 1))


class _Ext:
    @staticmethod
    def coq_expr(case, obs):
        op = case["op"]
        ci = CfgInterner()
        pi = PdaInterner(sym=ci.ter)
        if op == "cfg_to_pda":
            G = coq_cfg(case["g"], ci)
            R = coq_pda(obs["pda"], pi)
            ws = cq([[ci.ter(a) for a in w] for w in _words(case["g"]["terms"], case["maxlen"])])
            m = "first_diff (cfg_member %s) (pda_accepts_empty (cfg_to_pda %s)) %s" % (G, G, ws) if case.get("with_model") else "@None (list N)"
            return "(first_diff (cfg_member %s) (pda_accepts_empty %s) %s, %s)" % (G, R, ws, m)
        P = coq_pda(case["p"], pi)
        ws = cq([[ci.ter(a) for a in w] for w in _words(case["p"]["inputs"], case["maxlen"])])
        if op == "pda_to_cfg" and case.get("roundtrip"):
            pj = PdaInterner(sym=ci.ter)
            R = coq_pda(obs["pda"], pj)
            return "(first_diff (pda_accepts_empty %s) (pda_accepts_empty %s) %s, @None (list N))" % (P, R, ws)
        if op == "pda_to_cfg":
            H = coq_cfg(obs["cfg"], ci)
            m = "first_diff (pda_accepts_empty %s) (cfg_member (pda_to_cfg %s)) %s" % (P, P, ws) if case.get("with_model") else "@None (list N)"
            return "(first_diff (pda_accepts_empty %s) (cfg_member %s) %s, %s)" % (P, H, ws, m)
        pj = PdaInterner(sym=ci.ter)
        R = coq_pda(obs["pda"], pj)
        if op == "to_final_state":
            m = "first_diff (pda_accepts_empty %s) (pda_accepts_final (to_final_state %s)) %s" % (P, P, ws) if case.get("with_model") else "@None (list N)"
            return "(first_diff (pda_accepts_empty %s) (pda_accepts_final %s) %s, %s)" % (P, R, ws, m)
        m = "first_diff (pda_accepts_final %s) (pda_accepts_empty (to_empty_stack %s)) %s" % (P, P, ws) if case.get("with_model") else "@None (list N)"
        return "(first_diff (pda_accepts_final %s) (pda_accepts_empty %s) %s, %s)" % (P, R, ws, m)

    @staticmethod
    def judge_case(ctx, case, obs, mv):
        op = case["op"]
        if "timeout" in obs or "exc" in obs:
            ctx.fail(op + "-exception", case, {"impl": obs})
            return
        ctx.count(1)
        if not (_cfg_wf(case["g"]) if op == "cfg_to_pda" else _pda_wf(case["p"])):
            raise RuntimeError("HARNESS: generated %s operand violates the registration hypotheses of the C13 theorems: %r" % (op, case))
        if obs.get("wf") is False:
            ctx.fail(op + "-operand-not-registered", case, {"note": "the object pyformlang built does not register its states / stack symbols / terminals"})
            return
        d_impl, d_model = mv
        if d_model is not None:
            raise RuntimeError("HARNESS: the model's %s construction changes the language on %r (word %r)" % (op, case, d_model))
        if d_impl is not None:
            ctx.fail(op + "-language", case, {"word_interned": d_impl[1], "impl_out": obs.get("pda") or obs.get("cfg")})
        elif obs.get("operand_unchanged") is False:
            ctx.fail(op + "-mutates-operand", case, {})


def check_cases(ctx, cases):
    cfg_engine.check_cases(ctx, "c13", cases, ext=_Ext)


def shrink_candidates(case):
    if "p" in case:
        p = case["p"]
        for i in range(len(p["trans"])):
            yield dict(case, p=dict(p, trans=p["trans"][:i] + p["trans"][i + 1:]))
        for i, t in enumerate(p["trans"]):
            if t[4]:
                yield dict(case, p=dict(p, trans=p["trans"][:i] + [t[:4] + [t[4][1:]]] + p["trans"][i + 1:]))
    else:
        yield from cfg_engine.shrink_candidates(case)
