"""C12 — CFG emptiness, finiteness, symbol classes and word enumeration."""
import cfglib
import cfg_engine
from props._cfg_common import TRUSTED, ASSUMPTIONS, TECHNIQUE

PROP = "C12"
LEVEL = "other"
THEOREMS = {"Properties.C12": ["C12_generating", "C12_nullable", "C12_reachable", "C12_is_empty"]}
LEVEL_TEXT = ("Partial proof + correspondence: generating / nullable / reachable symbols and is_empty are modelled by least fixed points (saturation, closure) "
              "and compared exactly with pyformlang's answers; theorems proved so far are listed in the evidence.")
LEVEL_NOTE = "Trusted: Coq kernel; hand-written model validated by correspondence; Python harness."
RULE = ("random grammars (as C08) x {get_generating_symbols, get_nullable_symbols, get_reachable_symbols, is_empty}; sets compared exactly; "
        "non-trivial = at least 2 productions and a body of length >= 2")
EXPLANATION = "Symbol classes compared as sets with the model's least fixed points; is_empty with the model."

OPS = ["get_generating_symbols", "get_nullable_symbols", "get_reachable_symbols", "is_empty"]


def generate(ctx):
    n = 600 if ctx.tier == "quick" else 8000
    cases = []
    for i in range(n):
        g = cfglib.rand_cfg(ctx.rng, names="plain" if ctx.rng.random() < 0.85 else "adv")
        cases.append({"op": OPS[i % len(OPS)], "g": g,
                      "warm": ctx.rng.choice([None, None, ["is_empty"], ["get_nullable_symbols", "get_generating_symbols"], ["generate_epsilon"]])})
    return cases


def impl(case):
    return cfg_engine.impl_case(case)


def check_cases(ctx, cases):
    cfg_engine.check_cases(ctx, "c12", cases)


shrink_candidates = cfg_engine.shrink_candidates
