"""C12 — CFG emptiness, finiteness, symbol classes and word enumeration."""
import random
import cfglib
import cfg_engine
from props._cfg_common import TRUSTED, ASSUMPTIONS, TECHNIQUE

PROP = "C12"
LEVEL = "proof"
THEOREMS = {"Properties.C12": ["C12_generating", "C12_nullable", "C12_reachable", "C12_is_empty", "C12_get_words", "C12_graph_acyclic", "C12_is_finite", "C12_normal_form_useful", "C12_is_finite_correct", "C12_get_words_stop_rule", "C12_get_words_code"]}
LEVEL_TEXT = ("Coq theorems (no axioms, all grammars): generating, nullable and reachable symbols are exactly the symbols deriving a terminal word / the empty word / "
              "occurring in a sentential form from the start symbol (least fixed points; the counter worklists of the code are modelled, not mirrored: the sets are unique); "
              "is_empty is exactly 'no word generated'; get_words(n) is modelled by its specification (each word of length <= n once) and proved, and also mirrored end to end (nullable check + length-indexed table on the normal form, C12_get_words_code; stop rule of the unbounded mode C12_get_words_stop_rule). is_finite mirrors the "
              "code (cycle test on the variable graph of the normal form) and is proved to decide finiteness of the language (acyclic: derivation trees are "
              "shallow, words are short; cyclic: a cycle through generating, reachable variables pumps) for every registered grammar with a start symbol: "
              "the normal form is proved to have only generating and reachable variables (the boolean form of that fact is also evaluated on every case). The unbounded mode of get_words is compared with the model on finite languages with gaps in their word lengths (longest word <= 16).")
LEVEL_NOTE = "Trusted: Coq kernel; hand-written model validated by correspondence; Python harness."
RULE = ("random grammars (as C08) x {get_generating_symbols, get_nullable_symbols, get_reachable_symbols, is_empty, get_words(n) for n in 0..4 (yielded sequence as a multiset), is_finite}, get_words() unbounded on doubling / tripling chains over one terminal (finite, gaps in the word lengths, longest word <= 16); sets compared exactly; "
        "non-trivial = at least 2 productions and a body of length >= 2")
EXPLANATION = "Symbol classes compared as sets with the model's least fixed points; is_empty with the model."

OPS = ["get_generating_symbols", "get_nullable_symbols", "get_reachable_symbols", "is_empty", "get_words", "is_finite"]


def generate(ctx):
    n = 600 if ctx.tier == "quick" else 40000
    cases = []
    for i in range(n):
        g = cfglib.rand_cfg(ctx.rng, names="plain" if ctx.rng.random() < 0.85 else "adv")
        if OPS[i % len(OPS)] == "get_words" and ctx.rng.random() < 0.15:
            g = cfglib.rand_cfg(ctx.rng, profile="doubling")
            cases.append({"op": "get_words", "g": g, "n": 4, "warm": None})
            continue
        cases.append({"op": OPS[i % len(OPS)], "g": g, "n": ctx.rng.choice([0, 1, 2, 3, 3, 4]) if len(g["terms"]) < 3 else ctx.rng.choice([0, 1, 2, 3]),
                      "warm": ctx.rng.choice([None, None, ["is_empty"], ["get_nullable_symbols", "get_generating_symbols"], ["generate_epsilon"]])})
    # unbounded get_words() on finite languages whose word lengths have gaps (own generator, the stream above is unchanged): doubling / tripling
    # chains over one terminal, longest word <= 16; the model is asked for every word up to 16
    r2 = random.Random("c12-gaps|%s" % ctx.rng.random())
    made = 0
    while made < (40 if ctx.tier == "quick" else 1500):
        depth = r2.randint(1, 3)
        names = ["S", "B", "C", "D"][:depth + 1]
        prods, longest = [], {}
        leaf = r2.choice([1, 1, 2])
        prods.append([names[-1], [["T", "a"]] * leaf])
        longest[names[-1]] = leaf
        if r2.random() < 0.3:
            prods.append([names[-1], [["T", "a"]] * (leaf + r2.choice([1, 2]))])
            longest[names[-1]] = prods[-1][1].__len__()
        for k in range(depth - 1, -1, -1):
            arity = r2.choice([2, 2, 3]) if k == 0 else 2
            prods.append([names[k], [["V", names[k + 1]]] * arity])
            longest[names[k]] = arity * longest[names[k + 1]]
            if r2.random() < (0.8 if k == 0 else 0.3):
                short = r2.choice([1, 1, 2])
                prods.append([names[k], [["T", "a"]] * short])
                longest[names[k]] = max(longest[names[k]], short)
        if longest["S"] > 16:
            continue
        r2.shuffle(prods)
        g = {"vars": names, "terms": ["a"], "start": "S", "prods": prods, "profile": "gaps", "names": "plain"}
        cases.append({"op": "get_words", "g": cfglib.normalise(g) if hasattr(cfglib, "normalise") else g, "n": 16, "unbounded": True, "warm": None})
        made += 1
    return cases


def impl(case):
    return cfg_engine.impl_case(case)


def check_cases(ctx, cases):
    cfg_engine.check_cases(ctx, "c12", cases)


shrink_candidates = cfg_engine.shrink_candidates
