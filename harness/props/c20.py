"""C20 — export/import round trips and recursive automata reproduce the same machine."""
import cfglib
import falib
import fstlib
import pdalib
import cfg_engine
from cfglib import CfgInterner, coq_cfg
from common import cq, chunks
from props._cfg_common import TRUSTED, ASSUMPTIONS, TECHNIQUE

PROP = "C20"
LEVEL = "other"
THEOREMS = {"Properties.C20": ["C20_symbol_text_roundtrip", "C20_box_certificate", "C20_grammar_text_roundtrip", "C20_box_code_path",
                                "C20_split_unique", "C20_pda_label_roundtrip", "C20_fst_label_roundtrip", 
                                "C20_join_split", "C20_read_pda_label_sound", "C20_read_fst_label_sound",
                                "C20_pda_label_roundtrip_fields", "C20_fst_label_roundtrip_fields"],
            "Properties.C20Tie": ["C20_text_constants_from_source", "C20_label_separators_from_source"]}
LEVEL_TEXT = ("Partial + correspondence: the VAR:/TER: marker logic of to_text/from_text is modelled at token level and its round trip is proved for every "
              "symbol that is not an epsilon spelling; the edge labels of the PDA / FST networkx export are modelled at character level (assembly with the separators "
              "regenerated from the source, str.split with exact-two-parts unpacking) and proved to be read back whenever each separator occurs at exactly one position "
              "(C20_pda_label_roundtrip, C20_fst_label_roundtrip; reduced to conditions on the fields alone in C20_*_roundtrip_fields; reading is sound: C20_read_*_label_sound, C20_join_split), the model being compared with pyformlang's labels, refusals and read-back transitions on separator-free "
              "and separator-bearing values; json.dumps/loads and networkx containers are external and not modelled. All round trips "
              "(automaton, PDA, FST through networkx; grammar through text) are checked for exact structural equality on generated objects, grammars also "
              "for bounded language agreement with the exact membership oracle; each RSA box is certified language-equal (proved equivalence check) to the "
              "union of the automata of its right-hand sides.")
LEVEL_NOTE = "Trusted: Coq kernel; Python harness. json / networkx are outside the model (str.split is modelled for non-empty separators and compared with the implementation on every label case) (recorded assumption: loads(dumps(v)) = v on ints and strings)."
RULE = ("random automata (epsilon transitions, several start states, parallel edges, isolated states), PDAs (multi-symbol pushes), FSTs (multi-symbol outputs) with "
        "int/str values x from_networkx(to_networkx()); random grammars with lower-case variables and capitalised terminals x from_text(to_text()); EBNF texts "
        "(several lines per head, empty bodies, unions, stars) x from_ebnf; single-transition PDAs / FSTs whose symbol values are names, ints or texts over the "
        "characters of the separators ' -> ' and ' / ' x to_networkx label x from_networkx (refusal or transition read back)")
EXPLANATION = "Exact structural comparison of round-tripped objects; certified box/alternative equivalence; token-level marker theorem."

KINDS = ["fa", "fa", "pda", "fst", "cfg_text", "cfg_text", "ebnf", "pda_label", "fst_label"]
HOSTILE = [" ", " ", "-", ">", "/", "a", '"', "Z"]


def rand_label_value(rng):
    """A symbol value for the label cases: plain names and ints, and texts over the characters of the two separators."""
    r = rng.random()
    if r < 0.3:
        return rng.choice(["a", "b", "Z", "A0", 0, 1, 42, "x y", "->", "/", "a-b", "p>q"])
    if r < 0.5:
        return rng.choice(["x -> y", "x / y", " -> ", " / ", "a -", "> b", "Z /", "/ Z", " ->", "-> ", " -> / ", "a / b -> c"])
    return "".join(rng.choice(HOSTILE) for _ in range(rng.randint(1, 7)))


def str_codes(s):
    return "[" + "; ".join(str(ord(ch)) for ch in s) + "]"


def has_sep(v):
    return isinstance(v, str) and (" -> " in v or " / " in v)
EBNF_ATOMS = ["a", "b", "c", "S", "A", "B"]


def rand_regex_text(rng, depth=2):
    if depth == 0 or rng.random() < 0.3:
        return rng.choice(EBNF_ATOMS)
    r = rng.random()
    if r < 0.4:
        return rand_regex_text(rng, depth - 1) + " " + rand_regex_text(rng, depth - 1)
    if r < 0.6:
        return "(" + rand_regex_text(rng, depth - 1) + " | " + rand_regex_text(rng, depth - 1) + ")"
    if r < 0.8:
        return "(" + rand_regex_text(rng, depth - 1) + ")*"
    return rand_regex_text(rng, depth - 1)


def generate(ctx):
    n = 350 if ctx.tier == "quick" else 20000
    rng = ctx.rng
    cases = []
    for i in range(n):
        k = KINDS[i % len(KINDS)]
        c = {"op": k}
        if k == "fa":
            fa = falib.rand_fa(rng, names=rng.choice(["plain", "int"]))
            if rng.random() < 0.3:
                fa = dict(fa, states=fa["states"] + ["iso"])          # a state without any transition
            if rng.random() < 0.3:
                fa = dict(fa, symbols=[0, 1][:len(fa["symbols"])] + fa["symbols"][2:],
                          trans=[[s, ({"a": 0, "b": 1}.get(a, a) if a is not None else None), t] for s, a, t in fa["trans"]])
            c["fa"] = fa
        elif k == "pda":
            c["p"] = pdalib.rand_pda(rng)
        elif k == "fst":
            c["f"] = fstlib.rand_fst(rng)
        elif k == "cfg_text":
            g = cfglib.rand_cfg(rng, profile=rng.choice(["plain", "eps", "unit", "recursive", "longshared"]), max_vars=3, max_prods=6, max_body=3)
            ren_v = {"S": "S", "A": rng.choice(["A", "xa", "np", "1st", "_tmp"]), "B": rng.choice(["B", "b1", "vp", "#x", "2B"]), "C": "C"}
            ren_t = {"a": rng.choice(["a", "John", "A", "_u"]), "b": rng.choice(["b", "Mary", "7"]), "c": "c"}
            c["g"] = cfglib.normalise(dict(g, vars=[ren_v[v] for v in g["vars"]], terms=[ren_t[t] for t in g["terms"]], start=ren_v[g["start"]],
                                           prods=[[ren_v[h], [[kk, (ren_v if kk == "V" else ren_t)[v]] for kk, v in b]] for h, b in g["prods"]]))
        elif k == "pda_label":
            c["t"] = [rand_label_value(rng), rand_label_value(rng), [rand_label_value(rng) for _ in range(rng.choice([0, 1, 2, 3]))]]
        elif k == "fst_label":
            c["t"] = [rand_label_value(rng), [rand_label_value(rng) for _ in range(rng.choice([0, 1, 2, 3]))]]
        else:
            heads = rng.sample(["S", "A", "B"], rng.randint(1, 3))
            if "S" not in heads:
                heads[0] = "S"
            lines = []
            for _ in range(rng.randint(1, 5)):
                h = rng.choice(heads)
                body = "" if rng.random() < 0.15 else rand_regex_text(rng)
                lines.append([h, body])
            if not any(h == "S" for h, _ in lines):
                lines.append(["S", rand_regex_text(rng)])
            if rng.random() < 0.4:
                # a later alternative whose text is a piece of the text of an earlier alternative of the same head
                h, b = rng.choice(lines)
                toks = [t.strip("()*") for t in b.split()]
                runs = [toks[i:j] for i in range(len(toks)) for j in range(i + 1, min(i + 3, len(toks) + 1)) if all(t.isalnum() for t in toks[i:j])]
                if runs:
                    lines.append([h, " ".join(rng.choice(runs))])
            c["ebnf"] = lines
        cases.append(c)
    return cases


def impl(case):
    k = case["op"]
    if k == "fa":
        fa = falib.build_fa(case["fa"])
        back = type(fa).from_networkx(fa.to_networkx())
        return {"before": falib.extract_fa(fa), "after": falib.extract_fa(back)}
    if k == "pda":
        from pyformlang.pda import PDA
        p = pdalib.build_pda(case["p"])
        back = PDA.from_networkx(p.to_networkx())
        return {"before": pdalib.extract_pda(p), "after": pdalib.extract_pda(back)}
    if k == "fst":
        from pyformlang.fst import FST
        f = fstlib.build_fst(case["f"])
        back = FST.from_networkx(f.to_networkx())
        return {"before": fstlib.extract_fst(f), "after": fstlib.extract_fst(back)}
    if k in ("pda_label", "fst_label"):
        import json
        if k == "pda_label":
            from pyformlang.pda import PDA
            a, b, c = case["t"]
            m = PDA()
            m.add_transition("q0", a, b, "q1", list(c))
            fields = [json.dumps(a), json.dumps(b), json.dumps(list(c))]
            orig = [["q0", a, b, "q1", list(c)]]
        else:
            from pyformlang.fst import FST
            a, c = case["t"]
            m = FST()
            m.add_transition("q0", a, "q1", list(c))
            fields = [json.dumps(a), json.dumps(list(c))]
            orig = [["q0", a, "q1", list(c)]]
        graph = m.to_networkx()
        labels = [d["label"] for u, v, d in graph.edges(data=True) if "label" in d and not (isinstance(u, str) and u.startswith("starting_"))]
        try:
            back = type(m).from_networkx(graph)
            got = pdalib.extract_pda(back)["trans"] if k == "pda_label" else fstlib.extract_fst(back)["trans"]
        except ValueError:
            got = "ValueError"
        return {"labels": labels, "fields": fields, "orig": orig, "got": got}
    if k == "cfg_text":
        from pyformlang.cfg import CFG, Variable
        g = cfglib.build_cfg(case["g"])
        text = g.to_text()
        back = CFG.from_text(text, Variable(case["g"]["start"]))
        return {"before": cfglib.extract_cfg(g), "after": cfglib.extract_cfg(back), "text": text}
    from pyformlang.rsa import RecursiveAutomaton
    from pyformlang.regular_expression import Regex
    text = "\n".join("%s -> %s" % (h, b) for h, b in case["ebnf"])
    rsa = RecursiveAutomaton.from_ebnf(text)
    boxes = {}
    for nt, box in rsa.boxes.items():
        alts = [falib.extract_fa(Regex(b if b.strip() else "epsilon").to_epsilon_nfa()) for h, b in case["ebnf"] if h == nt.value]
        boxes[str(nt.value)] = {"dfa": falib.extract_fa(box.dfa), "alts": alts, "isdet": bool(box.dfa.is_deterministic())}
    return {"boxes": boxes, "heads": sorted({h for h, _ in case["ebnf"]}), "start": str(rsa.start_nonterminal.value)}


def check_cases(ctx, cases):
    obs = ctx.impl("c20", cases)
    srcs, owners = [], []
    lines = []
    for i, c in enumerate(cases):
        o = obs[i]
        if c["op"] == "ebnf" and "boxes" in o:
            for nt, b in o["boxes"].items():
                si = falib.Interner()
                D = falib.coq_enfa(b["dfa"], si)
                alts = [falib.coq_enfa(a, si) for a in b["alts"]]
                if not alts:
                    continue
                u = "(renumber %s)" % alts[0]
                for a in alts[1:]:
                    u = "(renumber (fa_union %s %s))" % (u, a)
                lines.append("Eval vm_compute in (judge %s %s)." % (u, D))
                owners.append((i, nt))
        if c["op"] == "cfg_text" and "after" in o:
            ci = CfgInterner()
            G = coq_cfg(o["before"], ci)
            H = coq_cfg(o["after"], ci)
            ts = "[" + "; ".join(str(ci.ter(t)) for t in o["before"]["terms"][:3]) + "]"
            lines.append("Eval vm_compute in (lang_diff %s %s (all_words %s 3%%nat) false)." % (G, H, ts))
            owners.append((i, "lang"))
    lab_lines, lab_owners = [], []
    for i, c in enumerate(cases):
        o = obs[i]
        if c["op"] in ("pda_label", "fst_label") and "labels" in o and len(o["labels"]) == 1:
            fn = "pda_label_judge" if c["op"] == "pda_label" else "fst_label_judge"
            lab_lines.append("Eval vm_compute in (%s %s %s)." % (fn, " ".join(str_codes(f) for f in o["fields"]), str_codes(o["labels"][0])))
            lab_owners.append(i)
    parts = chunks(list(range(len(lines))), 16)
    for part in parts:
        srcs.append("From PFL Require Import Eval.FA.\nFrom PFL Require Import Eval.CFG.\n" + "\n".join(lines[j] for j in part) + "\n")
    nmain = len(srcs)
    lab_parts = [list(range(k, min(k + 400, len(lab_lines)))) for k in range(0, len(lab_lines), 400)]
    for part in lab_parts:
        srcs.append("From PFL Require Import Eval.Labels.\n" + "\n".join(lab_lines[j] for j in part) + "\n")
    outs = ctx.coq(srcs) if srcs else []
    verdicts = {}
    for part, vals in zip(parts, outs[:nmain]):
        for j, v in zip(part, vals):
            verdicts[owners[j]] = v
    for part, vals in zip(lab_parts, outs[nmain:]):
        for j, v in zip(part, vals):
            verdicts[(lab_owners[j], "label")] = v
    for i, c in enumerate(cases):
        o = obs[i]
        ctx.dist[c["op"]] += 1
        ctx.count(1)
        key = c.get("fa") or c.get("p") or c.get("f") or c.get("g") or c.get("ebnf") or c.get("t")
        if len(str(key)) > 120:
            ctx.nontriv([c["op"], key])
        if i % 37 == 0:
            ctx.sample({"op": c["op"], "object": key})
        if "timeout" in o or "exc" in o:
            ctx.fail(c["op"] + "-exception", c, {"impl": o})
            continue
        if c["op"] in ("pda_label", "fst_label"):
            v = verdicts.get((i, "label"))
            clean = not any(has_sep(x) for x in ([c["t"][0], c["t"][1]] + list(c["t"][2]) if c["op"] == "pda_label" else [c["t"][0]] + list(c["t"][1])))
            ctx.dist["label_values_without_separator" if clean else "label_values_with_separator"] += 1
            if len(o["labels"]) != 1 or v is None or not isinstance(v, tuple) or len(v) != 4:
                ctx.fail(c["op"] + "-label-shape", c, {"impl": o, "model": str(v)}, correspondence_only=True)
                continue
            same_label, guard, code, fields_ok = v
            ctx.dist["label_fields_premise_%s" % ("holds" if fields_ok else "fails")] += 1
            ctx.dist["label_guard_%s" % ("holds" if guard else "fails")] += 1
            ctx.dist["label_model_reads_%s" % {0: "refusal", 1: "fields", 2: "other_cut"}.get(code, code)] += 1
            roundtrip = o["got"] == o["orig"]
            if clean and not roundtrip:
                # the property itself: separator-free values must come back
                ctx.fail(c["op"] + "-roundtrip", c, {"label": o["labels"][0], "written": o["orig"], "read_back": o["got"]})
            elif not same_label:
                ctx.fail(c["op"] + "-label-model", c, {"label": o["labels"][0], "fields": o["fields"]}, correspondence_only=True)
            elif guard and code != 1:
                raise RuntimeError("model contradicts C20_pda_label_roundtrip / C20_fst_label_roundtrip on %r" % (c,))
            elif fields_ok and not guard:
                raise RuntimeError("model contradicts C20_pda_label_roundtrip_fields / C20_fst_label_roundtrip_fields on %r" % (c,))
            elif clean and not fields_ok:
                ctx.fail(c["op"] + "-fields-premise", c, {"fields": o["fields"], "note": "separator-free values whose json texts do not meet the premises of the field-level round-trip theorem"}, correspondence_only=True)
            elif clean and not guard:
                ctx.fail(c["op"] + "-guard", c, {"label": o["labels"][0], "note": "separator-free values whose label does not meet the premise of the round-trip theorem"}, correspondence_only=True)
            elif (code == 0) != (o["got"] == "ValueError") and not (code == 2 and o["got"] == "ValueError"):
                ctx.fail(c["op"] + "-split-model", c, {"label": o["labels"][0], "model_code": code, "impl": o["got"]}, correspondence_only=True)
            elif (code == 1) != roundtrip:
                ctx.fail(c["op"] + "-split-model", c, {"label": o["labels"][0], "model_code": code, "impl": o["got"], "written": o["orig"]}, correspondence_only=True)
            continue
        if c["op"] in ("fa", "pda", "fst"):
            b, a = dict(o["before"]), dict(o["after"])
            for d in (b, a):
                d.pop("cls", None)
                d.pop("symbols", None)
                d.pop("inputs", None)
                d.pop("stack", None)
            if b != a:
                diff = [k for k in b if b.get(k) != a.get(k)]
                ctx.fail(c["op"] + "-roundtrip", c, {"differs_in": diff, "before": {k: b[k] for k in diff}, "after": {k: a.get(k) for k in diff}})
        elif c["op"] == "cfg_text":
            if o["before"]["prods"] != o["after"]["prods"]:
                ctx.fail("cfg_text-roundtrip", c, {"text": o["text"], "before": o["before"]["prods"], "after": o["after"]["prods"]})
            elif verdicts.get((i, "lang")) is not None:
                ctx.fail("cfg_text-language", c, {"text": o["text"], "word_interned": verdicts[(i, "lang")][1]})
        else:
            if sorted(o["boxes"]) != o["heads"]:
                ctx.fail("ebnf-boxes", c, {"boxes": sorted(o["boxes"]), "heads": o["heads"]})
                continue
            for nt, b in o["boxes"].items():
                v = verdicts.get((i, nt))
                if v is not None and v != "VEq" and v != "VFuel":
                    ctx.fail("ebnf-box-language", c, {"nonterminal": nt, "verdict": str(v), "box": b["dfa"]})
                    break


def shrink_candidates(case):
    if case["op"] == "ebnf":
        for i in range(len(case["ebnf"])):
            if len(case["ebnf"]) > 1:
                yield dict(case, ebnf=case["ebnf"][:i] + case["ebnf"][i + 1:])
    elif case["op"] == "fa":
        yield from ({"op": "fa", "fa": c["fa"]} for c in __import__("fa_engine").shrink_candidates({"op": "copy", "fa": case["fa"]}))
    elif case["op"] == "cfg_text":
        yield from cfg_engine.shrink_candidates(case)
