"""C15 — every parse tree or derivation handed out is a real derivation of the given word."""
import cfglib
import cfg_engine
from cfglib import CfgInterner, coq_cfg
from common import cq
from props._cfg_common import TRUSTED, ASSUMPTIONS, TECHNIQUE

PROP = "C15"
LEVEL = "proof"
THEOREMS = {"Properties.C15": ["C15_tree_checker", "C15_tree_derives", "C15_leftmost_checker", "C15_rightmost_checker", "C15_member_oracle", "C15_leftmost_listing", "C15_rightmost_listing"]}
LEVEL_TEXT = ("The property is about each object handed out, so it is decided per object by proved-sound checkers: tree_ok (every inner node with its "
              "children is a production, leaves are terminals) implies valid_tree and hence derivability of the yield; lstep_b / rstep_b imply a leftmost / "
              "rightmost rewriting step. Every tree and listing returned by get_cnf_parse_tree, the LL(1) parser and the recursive-descent parser is run "
              "through them, and refusals are compared with the exact membership oracle. In addition get_leftmost_derivation and get_rightmost_derivation "
              "are mirrored in Gallina and proved, for every valid tree, to list a leftmost / rightmost derivation from the root symbol to the yield "
              "(C15_leftmost_listing, C15_rightmost_listing); the listings pyformlang returns are compared line by line with these models. "
              "(The parsers themselves are not proved complete here - the LL(1) parser is in C14; FCFG trees are covered in C18.)")
LEVEL_NOTE = "Trusted: Coq kernel; Python harness reading trees through value/sons. Instance-level certification of returned objects; completeness of parsers by correspondence only."
RULE = ("random grammars x member and non-member words up to length 4: CYK trees (non-empty words, validated against the normal form pyformlang itself returns), "
        "LL(1) trees (grammars the model finds LL(1)), recursive-descent trees left and right (grammars without epsilon productions, unit cycles or left recursion), "
        "and the leftmost / rightmost listings of every returned tree")
EXPLANATION = "Certified checkers applied to every returned tree and derivation listing; refusals compared with the exact membership oracle."


def _rd_ok(g):
    """documented domain of the recursive descent parser (+ no left recursion, on which it does not terminate)"""
    prods = g["prods"]
    if any(len(b) == 0 for _, b in prods):
        return False
    # left-corner graph must be acyclic (covers unit cycles and left recursion); right corners for left=False
    for side in (0, -1):
        edges = {}
        for h, b in prods:
            if b[side][0] == "V":
                edges.setdefault(h, set()).add(b[side][1])
        for s in list(edges):
            seen, todo = set(), [s]
            while todo:
                x = todo.pop()
                for y in edges.get(x, ()):
                    if y == s:
                        return False
                    if y not in seen:
                        seen.add(y)
                        todo.append(y)
    return True


def generate(ctx):
    n = 360 if ctx.tier == "quick" else 5000
    rng = ctx.rng
    cases = []
    i = 0
    tries = 0
    while len(cases) < n and tries < n * 30:
        tries += 1
        kind = ["cnf", "ll1", "rd", "fcfg"][i % 4]
        prof = rng.choice(["plain", "eps", "unit", "recursive", "cnf", "plain"]) if kind != "rd" else rng.choice(["plain", "recursive", "cnf"])
        g = cfglib.rand_cfg(rng, profile=prof, max_vars=3, max_prods=6, max_body=3)
        if kind == "rd" and not _rd_ok(g):
            continue
        if kind == "ll1" and rng.random() < 0.7:
            g = cfglib.rand_ll1(rng)
        elif kind == "ll1" and rng.random() < 0.5:
            # make LL(1)-ish: distinct leading terminals per head
            seen = set()
            ps = []
            for h, b in g["prods"]:
                key = (h, cfglib.vkey(b[0]) if b else "eps")
                if key not in seen:
                    seen.add(key)
                    ps.append([h, b])
            g = cfglib.normalise(dict(g, prods=ps))
        c = {"op": kind + "_tree", "g": g, "maxlen": 3 if ctx.tier == "quick" else 4, "left": rng.random() < 0.5}
        c["extra_words"] = cfglib.sample_words(g, rng, n=8, maxlen=6)
        cases.append(c)
        i += 1
    return cases


def _words(case):
    ts = case["g"]["terms"]
    k = {1: 5, 2: 4}.get(len(ts), 3)
    base = cfglib.words_upto(ts, min(k, case.get("maxlen", 4)))
    seen = set(map(cfglib.vkey, base))
    for w in case.get("extra_words", []):
        if cfglib.vkey(w) not in seen:
            seen.add(cfglib.vkey(w))
            base.append(w)
    return [w for w in base if w or case["op"] != "cnf_tree"]


def _tree(t):
    from pyformlang.cfg import Variable, Terminal
    v = t.value
    kind = "V" if isinstance(v, Variable) else ("T" if isinstance(v, Terminal) else "?")
    return [kind, cfglib._v(v), [_tree(s) for s in t.sons]]


def _forms(forms):
    from pyformlang.cfg import Variable
    return [[["V" if isinstance(x, Variable) else "T", cfglib._v(x)] for x in f] for f in forms]


def impl(case):
    from pyformlang.cfg import Terminal
    from pyformlang.cfg.cyk_table import DerivationDoesNotExist
    from pyformlang.cfg.cfg import NotParsableException
    from pyformlang.cfg.llone_parser import LLOneParser
    from pyformlang.cfg.recursive_decent_parser import RecursiveDecentParser
    g = cfglib.build_cfg(case["g"])
    op = case["op"]
    res = []
    out = {"results": res}
    if op == "cnf_tree":
        out["nf"] = cfglib.extract_cfg(g.to_normal_form())
    if op == "ll1_tree":
        out["ll1"] = bool(LLOneParser(g).is_llone_parsable())
    fcfg = None
    if op == "fcfg_tree":
        from pyformlang.cfg import Variable
        from pyformlang.fcfg import FCFG, FeatureProduction, FeatureStructure
        spec = case["g"]
        prods = [FeatureProduction(Variable(h), [Variable(v) if k == "V" else Terminal(v) for k, v in b], FeatureStructure(), [FeatureStructure() for _ in b])
                 for h, b in spec["prods"]]
        fcfg = FCFG({Variable(v) for v in spec["vars"]}, {Terminal(t) for t in spec["terms"]}, Variable(spec["start"]), set(prods))
    ll1_parser = LLOneParser(g)              # one parser object serves all the words of the case
    rd_parser = RecursiveDecentParser(g)
    for w in _words(case):
        word = [Terminal(a) for a in w]
        try:
            if op == "cnf_tree":
                t = g.get_cnf_parse_tree(word)
            elif op == "fcfg_tree":
                t = fcfg.get_parse_tree(word)
            elif op == "ll1_tree":
                t = ll1_parser.get_llone_parse_tree(word)
            else:
                t = rd_parser.get_parse_tree(word, left=case.get("left", True))
            res.append({"tree": _tree(t), "lm": _forms(t.get_leftmost_derivation()), "rm": _forms(t.get_rightmost_derivation())})
        except DerivationDoesNotExist:
            res.append({"refused": "DerivationDoesNotExist"})
        except NotParsableException:
            res.append({"refused": "NotParsableException"})
        except RecursionError:
            res.append({"refused": "RecursionError"})
        except Exception as e:
            res.append({"error": type(e).__name__, "msg": str(e)[:100]})
    return out


def _coq_tree(t, ci):
    k, v, sons = t
    sym = ci.sym([k if k in ("V", "T") else "T", v])
    return "(Node %s [%s])" % (sym, "; ".join(_coq_tree(s, ci) for s in sons))


def _coq_forms(forms, ci):
    return "[" + "; ".join("[" + "; ".join(ci.sym(x) for x in f) + "]" for f in forms) + "]"


class _Ext:
    @staticmethod
    def coq_expr(case, obs):
        ci = CfgInterner()
        G = coq_cfg(case["g"], ci)
        H = coq_cfg(obs["nf"], ci) if "nf" in obs else G
        items = []
        for w, r in zip(_words(case), obs["results"]):
            cw = cq([ci.ter(a) for a in w])
            if "tree" in r:
                t = _coq_tree(r["tree"], ci)
                # last component: the listings are, line by line, those of the proved models lm / rm of the two methods
                items.append("(cfg_member %s %s, Some (tree_judge %s %s %s, derivation_ok (lstep_b %s) (root %s) %s %s, derivation_ok (rstep_b %s) (root %s) %s %s, listings_same %s %s %s))" % (
                    G, cw, H, t, cw, H, t, cw, _coq_forms(r["lm"], ci), H, t, cw, _coq_forms(r["rm"], ci), t, _coq_forms(r["lm"], ci), _coq_forms(r["rm"], ci)))
            else:
                items.append("(cfg_member %s %s, @None ((bool * bool * bool) * bool * bool * (bool * bool)))" % (G, cw))
        ll1 = "is_ll1 %s" % G if case["op"] == "ll1_tree" else "true"
        return "(%s, [%s])" % (ll1, "; ".join(items))

    @staticmethod
    def judge_case(ctx, case, obs, mv):
        op = case["op"]
        if "timeout" in obs or "exc" in obs:
            ctx.fail(op + "-exception", case, {"impl": obs})
            return
        ll1, items = mv
        ws = _words(case)
        documented = {"cnf_tree": "DerivationDoesNotExist", "ll1_tree": "NotParsableException", "rd_tree": "NotParsableException",
                      "fcfg_tree": "NotParsableException"}[op]
        for w, r, (member, chk) in zip(ws, obs["results"], items):
            ctx.count(1)
            if "error" in r:
                ctx.fail(op + "-wrong-exception", case, {"word": w, "impl": r})
                return
            if "tree" in r:
                tok, yok, rok, lm, rm, (same_l, same_r) = chk[1]
                if not (tok and yok and rok):
                    ctx.fail(op + "-invalid-tree", case, {"word": w, "tree": r["tree"], "valid,yield,root": [tok, yok, rok]})
                    return
                if not member:
                    raise RuntimeError("HARNESS: a certified-valid tree for a word the membership oracle rejects: %r %r" % (case, w))
                if not lm:
                    ctx.fail(op + "-leftmost-derivation", case, {"word": w, "listing": r["lm"]})
                    return
                if not rm:
                    ctx.fail(op + "-rightmost-derivation", case, {"word": w, "listing": r["rm"]})
                    return
                if not (same_l and same_r):
                    # both listings are certified derivations of the word; they only differ, as lists of lines, from the mirrored models
                    ctx.fail(op + "-derivation-listing-model", case, {"word": w, "lm": r["lm"], "rm": r["rm"], "same": [same_l, same_r]}, correspondence_only=True)
                    return
                ctx.dist["listings identical to the proved models lm / rm"] += 1
            else:
                if r["refused"] != documented:
                    ctx.fail(op + "-wrong-exception", case, {"word": w, "impl": r})
                    return
                if member and (op != "ll1_tree" or ll1):
                    ctx.fail(op + "-refuses-member", case, {"word": w, "impl": r})
                    return
        if op == "ll1_tree" and obs.get("ll1") != ll1:
            ctx.fail("is_llone_parsable", case, {"impl": obs.get("ll1"), "model": ll1})


def check_cases(ctx, cases):
    cfg_engine.check_cases(ctx, "c15", cases, ext=_Ext)


shrink_candidates = cfg_engine.shrink_candidates
