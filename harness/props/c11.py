"""C11 — intersection with a regular language (CFG and PDA) is exact."""
import cfglib
import cfg_engine
import falib
import pdalib
from cfglib import CfgInterner, coq_cfg
from pdalib import PdaInterner, coq_pda
from common import cq
from props._cfg_common import TRUSTED, ASSUMPTIONS, TECHNIQUE

PROP = "C11"
LEVEL = "proof"
THEOREMS = {"Properties.C11": ["C11_member_oracle", "C11_accepts_final_oracle", "C11_automaton_accepts", "C11_cfg_intersection_dfa", "C11_cfg_intersection",
                             "C11_pda_intersection_product", "C11_pda_intersection_deterministic", "C11_pda_intersection", "C11_pda_intersection_total", "C11_cfg_intersection_regex", "C11_pda_intersection_regex"]}
LEVEL_TEXT = ("Proof + correspondence: Coq theorems show, for the mirrored constructions and ALL operands and words, that cfg.intersection (determinise "
              "the automaton, emptiness shortcut, Chomsky normal form, Bar-Hillel triples, Start -> epsilon when both sides contain the empty word) "
              "generates exactly L(G) /\\ L(A), and that pda.intersection (operand kept when is_deterministic() holds, determinised otherwise; product over "
              "the reachable pairs) accepts by final state exactly the words both accept. The three exact oracles (CFG membership, PDA acceptance by "
              "final state, automaton acceptance) are proved; with them the results pyformlang returns are compared on all words up to a bound with the "
              "conjunction of the operands' answers, for Regex, DFA, NFA and epsilon-NFA operands, next to the models' own results; other operand types "
              "must raise NotImplementedError.")
LEVEL_NOTE = ("Trusted: Coq kernel; hand-written models validated by correspondence (pyformlang's combined variable / state names are constructors in the "
              "model; the returned objects are tied to the operands by bounded language agreement through the proved oracles); Python harness.")
RULE = ("random (grammar | PDA) x (regex | DFA | NFA | epsilon-NFA, also deterministic-shaped, several start states, empty language) with partly overlapping "
        "alphabets, epsilon on one or both sides; words up to length 3-4; plus non-automaton operands")
EXPLANATION = "Exact oracles on operands and result for all words up to a bound."

REGEXES = ["a", "a*", "(a|b)*", "a b", "(a b)*", "a* b*", "$", "", "b (a|b)*", "(a|b) (a|b)", "a|$", "c*", "(a|c)*"]
SMALL_REGEXES = ["a", "a*", "(a|b)*", "a b", "$", "", "a|$", "c*"]


def generate(ctx):
    n = 420 if ctx.tier == "quick" else 4000
    rng = ctx.rng
    cases = []
    for i in range(n):
        left = "cfg" if i % 2 == 0 else "pda"
        kind = rng.choice(["regex", "dfa", "nfa", "nfa", "enfa", "enfa", "other"]) if rng.random() < 0.97 else "other"
        c = {"op": left + "_inter", "rkind": kind, "maxlen": 3 if ctx.tier == "quick" else 4, "operator": rng.random() < 0.3,
             "with_model": i % 5 in (0, 1)}
        if left == "cfg":
            c["g"] = cfglib.rand_cfg(rng, max_vars=3, max_prods=5, max_body=3)
            terms = c["g"]["terms"]
            if rng.random() < 0.25:      # the user built another grammar from the same Variable objects and intersected it first
                c["shared_warm"] = rng.randrange(10**6)
        else:
            p = pdalib.rand_pda(rng, max_states=2, max_stack=2, max_trans=4 if ctx.tier == "quick" else 5,
                                profile="falike" if rng.random() < 0.5 else None)
            if len(p["trans"]) > 6:
                # cost control: the exact acceptance oracle is exponential in the length of pushed strings times the number of transitions of
                # the product; larger automata only push up to two symbols
                p = dict(p, trans=[t[:4] + [t[4][:2]] for t in p["trans"]])
                p["trans"] = [t for i, t in enumerate(p["trans"]) if t not in p["trans"][:i]]
            c["p"] = p
            c["g"] = {"profile": "pda:" + p["profile"], "prods": [], "terms": p["inputs"]}
            terms = p["inputs"]
        if kind == "regex":
            c["regex"] = rng.choice(SMALL_REGEXES if (left == "pda" and ctx.tier == "quick") else REGEXES)
        elif kind != "other":
            fa = falib.rand_fa(rng, kind=kind, names="plain", max_states=(2 if (left == "pda" and ctx.tier == "quick") else 3), max_syms=2,
                               profile="multi" if (kind != "dfa" and rng.random() < 0.5) else None)
            if kind != "dfa" and rng.random() < (0.6 if left == "pda" else 0.35) and len(fa["states"]) >= 2:
                fa = dict(fa, starts=fa["states"][:2])
            if rng.random() < 0.3 and kind != "dfa":      # deterministic-shaped non-DFA
                fa2 = falib.rand_fa(rng, kind="dfa", names="plain", max_states=3, max_syms=2)
                fa = dict(fa2, kind=kind)
            c["fa"] = fa
            if left == "pda" and kind in ("nfa", "enfa") and rng.random() < 0.3:
                # (pda & r1) & r2: the second product is built on product states
                fa2 = falib.rand_fa(rng, kind=rng.choice(["nfa", "enfa"]), names="plain", max_states=2, max_syms=2, profile="multi")
                sh = {"p": "q", "q": "r"}       # subset names of the two automata can then be split in two ways: "p;q" + "r" and "p" + "q;r"
                c["fa2"] = dict(fa2, states=[sh[x] for x in fa2["states"]], trans=[[sh[a], l, sh[b]] for a, l, b in fa2["trans"]],
                                starts=[sh[x] for x in fa2["starts"]], finals=[sh[x] for x in fa2["finals"]])
                if rng.random() < 0.5:
                    # determinisation of the first gives the subset states "p" and "p;q", of the second "q;r" and "r"
                    a = terms[0]
                    c["fa"] = {"kind": "nfa", "states": ["p", "q"], "symbols": [a], "trans": [["p", a, "p"], ["p", a, "q"]], "starts": ["p"],
                               "finals": ["q"] if rng.random() < 0.7 else ["p", "q"], "profile": "subset-names", "names": "plain"}
                    tr2 = rng.choice([[["q", a, "r"], ["r", a, "r"]], [["q", a, "q"], ["r", a, "r"]], [["q", a, "r"], ["r", a, "q"]],
                                      [t for t in [["q", a, "q"], ["q", a, "r"], ["r", a, "r"], ["r", a, "q"]] if rng.random() < 0.6]])
                    c["fa2"] = {"kind": "nfa", "states": ["q", "r"], "symbols": [a], "trans": tr2, "starts": ["q", "r"],
                                "finals": [rng.choice(["q", "r"])], "profile": "subset-names", "names": "plain"}
                    c["rkind"] = "nfa"
                    p2 = pdalib.rand_pda(rng, max_states=2, max_stack=1, max_trans=4, profile="falike")
                    if rng.random() < 0.5:      # a* by final state
                        p2 = {"states": ["q0"], "inputs": [a], "stack": ["Z"], "trans": [["q0", a, "Z", "q0", ["Z"]]], "start": "q0", "z0": "Z",
                              "finals": ["q0"], "profile": "falike", "names": "plain"}
                    if a in p2["inputs"]:
                        c["p"] = p2
                        c["g"] = {"profile": "pda:" + p2["profile"], "prods": [], "terms": p2["inputs"]}
                c["with_model"] = False
        cases.append(c)
    return cases


def _other(case):
    from pyformlang.regular_expression import Regex
    k = case["rkind"]
    if k == "regex":
        return Regex(case["regex"])
    if k == "other":
        return "not an automaton"
    return falib.build_fa(case["fa"])


def impl(case):
    other = _other(case)
    if case["op"] == "cfg_inter" and case.get("shared_warm") is not None and case["rkind"] != "other":
        import random
        pool = {}
        g = case["g"]
        r2 = random.Random(case["shared_warm"])
        drop = r2.choice(g["vars"]) if len(g["vars"]) > 1 else None
        keepv = [v for v in g["vars"] if drop is None or cfglib.vkey(v) != cfglib.vkey(drop)] + ["W9"]
        wprods = [[h, b] for h, b in g["prods"] if cfglib.vkey(h) != cfglib.vkey(drop) and all(k == "T" or cfglib.vkey(v) != cfglib.vkey(drop) for k, v in b)]
        wprods.append(["W9", [["V", keepv[0]]]])
        warm = cfglib.build_cfg({"vars": keepv, "terms": g["terms"], "start": "W9", "prods": wprods}, pool=pool)
        try:
            warm.intersection(other)
        except Exception:     # the discarded warm-up decides nothing
            pass
        left = cfglib.build_cfg(g, pool=pool)
    else:
        left = cfglib.build_cfg(case["g"]) if case["op"] == "cfg_inter" else pdalib.build_pda(case["p"])
    try:
        res = (left & other) if case.get("operator") else left.intersection(other)
        if "fa2" in case:
            res = res.intersection(falib.build_fa(case["fa2"]))
    except NotImplementedError:
        return {"refused": "NotImplementedError"}
    out = {"cfg": cfglib.extract_cfg(res)} if case["op"] == "cfg_inter" else {"pda": pdalib.extract_pda(res)}
    if case["rkind"] == "regex":
        out["regex_fa"] = falib.extract_fa(other.to_epsilon_nfa())
    return out


def _words(case, extra_syms):
    terms = list(case["g"]["terms"])
    for s in extra_syms:
        if falib.vkey(s) not in set(map(falib.vkey, terms)):
            terms.append(s)
    terms = terms[:3]
    k = {1: 4, 2: 3}.get(len(terms), 2) + (1 if case["maxlen"] > 3 else 0)
    if case["op"] == "pda_inter" and case["maxlen"] <= 3:
        k = min(k, 3 if len(terms) <= 2 else 2)
    return cfglib.words_upto(terms, k)


class _Ext:
    @staticmethod
    def coq_expr(case, obs):
        if "refused" in obs:
            return "true"
        ci = CfgInterner()
        fa = obs.get("regex_fa") or case.get("fa")
        # regex symbols are strings; automaton symbols share the terminal interner
        A = falib.coq_enfa(fa, ci.ter)
        ws = cq([[ci.ter(a) for a in w] for w in _words(case, fa["symbols"])])
        if case["op"] == "cfg_inter":
            G = coq_cfg(case["g"], ci)
            H = coq_cfg(obs["cfg"], ci)
            ref = "(fun w => cfg_member %s w && accepts %s w)" % (G, A)
            m = "cfg_inter_model_diff %s %s %s %s" % (G, A, ref, ws) if case.get("with_model") else "@None (list N)"
            return "(first_diff %s (cfg_member %s) %s, %s)" % (ref, H, ws, m)
        # the exact acceptance oracle enumerates chains of intermediate (state, position) pairs for every pushed string: on a product with
        # many transitions that push three symbols the comparison is restricted to the words of length <= 2 (cost control, counted as is)
        rt = obs["pda"]["trans"]
        if len(rt) > 14 and any(len(t[4]) >= 3 for t in rt):
            ws = cq([[ci.ter(a) for a in w] for w in _words(case, fa["symbols"]) if len(w) <= 2])
        pi = PdaInterner(sym=ci.ter)
        P = coq_pda(case["p"], pi)
        pj = PdaInterner(sym=ci.ter)
        R = coq_pda(obs["pda"], pj)
        ref = "(fun w => pda_accepts_final %s w && accepts %s w)" % (P, A)
        if "fa2" in case:
            ref = "(fun w => pda_accepts_final %s w && accepts %s w && accepts %s w)" % (P, A, falib.coq_enfa(case["fa2"], ci.ter))
        m = "pda_inter_model_diff %s %s %s %s" % (P, A, ref, ws) if case.get("with_model") else "@None (list N)"
        return "(first_diff %s (pda_accepts_final %s) %s, %s)" % (ref, R, ws, m)

    @staticmethod
    def judge_case(ctx, case, obs, mv):
        op = case["op"]
        if "timeout" in obs or "exc" in obs:
            ctx.fail(op + "-exception", case, {"impl": obs})
            return
        ctx.count(1)
        if case["rkind"] == "other":
            if "refused" not in obs:
                ctx.fail(op + "-accepts-non-automaton", case, {})
            return
        if "refused" in obs:
            ctx.fail(op + "-refuses-automaton", case, {"impl": obs})
            return
        d_impl, d_model = mv
        if d_model is not None:
            raise RuntimeError("HARNESS: the mirrored %s model disagrees with the operands' conjunction (or ran out of fuel) on %r (%r)" % (op, case, d_model))
        if d_impl is not None:
            ctx.fail(op + "-language", case, {"word_interned": d_impl[1], "impl_out": obs.get("cfg") or obs.get("pda")})


def check_cases(ctx, cases):
    cfg_engine.check_cases(ctx, "c11", cases, ext=_Ext)


def shrink_candidates(case):
    if "p" in case:
        p = case["p"]
        for i in range(len(p["trans"])):
            yield dict(case, p=dict(p, trans=p["trans"][:i] + p["trans"][i + 1:]))
    else:
        yield from cfg_engine.shrink_candidates(case)
    if "fa" in case:
        fa = case["fa"]
        for i in range(len(fa["trans"])):
            yield dict(case, fa=dict(fa, trans=fa["trans"][:i] + fa["trans"][i + 1:]))
