"""C17 — indexed-grammar emptiness is exact and independent of rule order."""
import itertools
import iglib
from falib import Interner
from common import chunks

PROP = "C17"
LEVEL = "other"
THEOREMS = {"Properties.C17": []}
LEVEL_TEXT = ("Partial + correspondence: is_empty is modelled as the least fixed point of Aho's marking rules (saturation; independent of rule order by "
              "construction). pyformlang's verdict is compared with the model for every permutation sample of the rule list, every ordering heuristic "
              "(optim 0-8), after remove_useless_rules() and on repeated calls. Soundness of the marking w.r.t. the derivation semantics is the theorem "
              "target (see evidence); completeness (Aho) is not proved - disagreements are investigated with a bounded derivation search.")
LEVEL_NOTE = "Trusted: Coq kernel; hand-written marking model; Python harness; networkx-based ordering heuristics are exercised, not modelled."
RULE = ("random reduced-form indexed grammars (1-4 nonterminals, 1-2 indices, <= 10 rules, duplicated rules and several consumption rules per (index, variable) "
        "frequent) x permutations of the rule list (all when <= 4 rules, 6 sampled otherwise) x optim 0..8 x {is_empty, bool, repeated call, remove_useless_rules}")
EXPLANATION = "Verdicts compared with the saturation model of the marking rules; order independence by permutations and heuristics."
TRUSTED = ["Coq 8.16.1 kernel", "hand-written model coq/Model/Ig.v validated by correspondence", "Python harness"]
ASSUMPTIONS = ["nonterminals, indices and terminals are strings (interned to N)", "start variable is 'S' (the ordering heuristics hard-code it)"]
TECHNIQUE = "Rocq/Coq model (least fixed point of the marking rules) + differential correspondence over rule orders and heuristics"


def generate(ctx):
    n = 250 if ctx.tier == "quick" else 3000
    return [dict(iglib.rand_chain_ig(ctx.rng) if ctx.rng.random() < 0.3 else iglib.rand_ig(ctx.rng), op="is_empty",
                 perm_seed=ctx.rng.randrange(10**6)) for _ in range(n)]


def _perms(case):
    import random
    rules = case["rules"]
    if len(rules) <= 4:
        return [list(p) for p in itertools.permutations(rules)]
    rng = random.Random(case["perm_seed"])
    out = [list(rules), list(reversed(rules))]
    for _ in range(4):
        p = list(rules)
        rng.shuffle(p)
        out.append(p)
    return out


def impl(case):
    res = []
    for pi, perm in enumerate(_perms(case)):
        for optim in (range(9) if pi < 2 else [0, 7]):
            try:
                g = iglib.build_ig(perm, optim)
                v1 = bool(g.is_empty())
                v2 = bool(g.is_empty())
                v3 = not bool(g)
                v4 = bool(g.remove_useless_rules().is_empty())
                res.append({"perm": pi, "optim": optim, "v": [v1, v2, v3, v4]})
            except Exception as e:
                res.append({"perm": pi, "optim": optim, "error": type(e).__name__, "msg": str(e)[:80]})
    return {"runs": res}


def check_cases(ctx, cases):
    obs = ctx.impl("c17", cases, timeout=30)
    parts = chunks(list(range(len(cases))), 16)
    srcs = []
    for part in parts:
        lines = []
        for i in part:
            nt, ix, ter = Interner(), Interner(), Interner()
            s = nt(cases[i]["start"])
            lines.append("Eval vm_compute in (ig_is_empty %s %d)." % (iglib.coq_rules(cases[i]["rules"], nt, ix, ter), s))
        srcs.append("From PFL Require Import Eval.IG.\n" + "\n".join(lines) + "\n")
    outs = ctx.coq(srcs)
    for part, vals in zip(parts, outs):
        for i, mv in zip(part, vals):
            c, o = cases[i], obs[i]
            ctx.dist["rules:%d" % len(c["rules"])] += 1
            if len(c["rules"]) >= 3:
                ctx.nontriv(c["rules"])
            if i % 31 == 0:
                ctx.sample({"rules": c["rules"], "model_is_empty": mv})
            if "timeout" in o or "exc" in o:
                ctx.fail("is_empty-exception", c, {"impl": o})
                continue
            for r in o["runs"]:
                ctx.count(1)
                if "error" in r:
                    ctx.fail("is_empty-exception", c, {"run": r})
                    break
                if any(v != mv for v in r["v"]):
                    which = ["is_empty", "second is_empty", "bool", "remove_useless_rules().is_empty"][[v != mv for v in r["v"]].index(True)]
                    ctx.fail("is_empty-verdict", c, {"run": r, "model_is_empty": mv, "differs_in": which,
                                                     "bounded_search_nonempty(depth 4)": iglib.bounded_nonempty(c["rules"])})
                    break


def shrink_candidates(case):
    for i in range(len(case["rules"])):
        yield dict(case, rules=case["rules"][:i] + case["rules"][i + 1:])
