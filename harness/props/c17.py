"""C17 — indexed-grammar emptiness is exact and independent of rule order."""
import itertools
import iglib
from falib import Interner
from common import chunks

PROP = "C17"
LEVEL = "proof"
THEOREMS = {"Properties.C17": ["C17_remove_useless_rules", "C17_is_empty", "C17_tree_vs_rewriting", "C17_marks_sound"]}
LEVEL_TEXT = ("Proof + correspondence: is_empty is modelled as the least fixed point of Aho's marking rules (saturation; independent of rule order by "
              "construction). A Coq theorem shows, for every rule set in reduced form and every start nonterminal, that the model answers True exactly when "
              "no terminal word can be rewritten from the start nonterminal with an empty index stack (soundness: a marked pair (A, T) means A derives a "
              "word on any stack on which all members of T do; completeness: the frontier of any derivation is marked, by induction on its size; tree-shaped "
              "derivations are proved equivalent to the rewriting semantics). pyformlang's verdict is compared with the model for every permutation sample "
              "of the rule list, every ordering heuristic (optim 0-8), after remove_useless_rules() (itself mirrored, proved to leave the derivable words "
              "unchanged - C17_remove_useless_rules - and compared rule by rule with what pyformlang keeps) and on repeated calls.")
LEVEL_NOTE = ("Trusted: Coq kernel; hand-written marking model validated by correspondence; Python harness; networkx-based ordering heuristics are exercised, "
              "not modelled. The intersection with a regular language is compared with a reference product construction (not proved).")
RULE = ("random reduced-form indexed grammars (1-4 nonterminals, 1-2 indices, <= 10 rules, duplicated rules and several consumption rules per (index, variable) "
        "frequent) x permutations of the rule list (all when <= 4 rules, 6 sampled otherwise) x optim 0..8 x {is_empty, bool, repeated call, remove_useless_rules}")
EXPLANATION = "Verdicts compared with the saturation model of the marking rules; order independence by permutations and heuristics."
TRUSTED = ["Coq 8.16.1 kernel", "hand-written models coq/Model/Ig.v, IgUseless.v validated by correspondence (remove_useless_rules rule by rule)", "untrusted Python marking oracle + reference product for the intersection clause (validated against the proved Coq model on every plain case of the run)", "Python harness"]
ASSUMPTIONS = ["nonterminals, indices and terminals are strings (interned to N)", "start variable is 'S' (the ordering heuristics hard-code it)"]
TECHNIQUE = "Rocq/Coq model (least fixed point of the marking rules) + differential correspondence over rule orders and heuristics"


INTER_REGEXES = ["a", "a*", "(a|b)*", "a b", "$", "", "b (a|b)*", "a|$", "(a b)*", "c*", "a a*"]


def generate(ctx):
    import falib
    n = 250 if ctx.tier == "quick" else 3000
    rng = ctx.rng
    cases = [dict(iglib.rand_deep_ig(rng) if rng.random() < 0.06 else (iglib.rand_chain_ig(rng) if rng.random() < 0.3 else iglib.rand_ig(rng)), op="is_empty",
                  perm_seed=rng.randrange(10**6)) for _ in range(n)]
    for _ in range(min(n // 3, 400)):    # intersection with a regular language (the reference oracle runs in this process: keep it bounded)
        c = dict(iglib.rand_chain_ig(rng) if rng.random() < 0.4 else iglib.rand_ig(rng, max_nt=3, max_rules=5), op="inter",
                 operator=rng.random() < 0.3)
        k = rng.random()
        if k < 0.3:
            c["regex"] = rng.choice(INTER_REGEXES)
        elif k < 0.95:
            c["fa"] = falib.rand_fa(rng, names="plain", max_states=2, max_syms=2)
        else:
            c["other"] = True
        cases.append(c)
    # marked sets compared as sets, not by size (own generator, the stream above is unchanged): after a duplication A -> C D one side has
    # several consumption rules for the pushed index and the other side none, one, or an end rule
    import random
    r2 = random.Random("c17-count-vs-set|%s" % rng.random())
    for _ in range(24 if ctx.tier == "quick" else 400):
        f, g = ("f", "g") if r2.random() < 0.5 else ("g", "f")
        rules = [["prod", "S", "A", f], ["dup", "A", "C", "D"], ["cons", f, "C", "E"], ["cons", f, "C", "G"],
                 ["end", "E", r2.choice(iglib.TERS)], ["end", "G", r2.choice(iglib.TERS)]]
        k = r2.random()
        if k < 0.4:
            rules.append(["cons", g, "D", "E"])           # D cannot consume the pushed index: empty
        elif k < 0.6:
            rules.append(["cons", f, "D", "E"])           # non-empty
        elif k < 0.8:
            rules.append(["end", "D", r2.choice(iglib.TERS)])
        if r2.random() < 0.3:
            rules.append(["cons", f, "C", "D"])
        r2.shuffle(rules)
        cases.append({"rules": rules, "start": "S", "op": "is_empty", "perm_seed": r2.randrange(10**6)})
    return cases


def _perms(case):
    import random
    rules = case["rules"]
    if len(rules) <= 4:
        return [list(p) for p in itertools.permutations(rules)]
    rng = random.Random(case["perm_seed"])
    out = [list(rules), list(reversed(rules))]
    for _ in range(4):
        p = list(rules)
        rng.shuffle(p)
        out.append(p)
    return out


def _impl_inter(case):
    import falib
    from pyformlang.regular_expression import Regex
    g = iglib.build_ig(case["rules"])
    out = {}
    if case.get("other"):
        try:
            g.intersection("not an automaton")
            return {"refused": None}
        except NotImplementedError:
            return {"refused": "NotImplementedError"}
    if "regex" in case:
        other = Regex(case["regex"])
        out["fa"] = falib.extract_fa(other.to_epsilon_nfa())
    else:
        other = falib.build_fa(case["fa"])
    res = (g & other) if case.get("operator") else g.intersection(other)
    out["v"] = [bool(res.is_empty()), bool(res.is_empty())]
    out["operand_still"] = bool(g.is_empty())
    return out


def impl(case):
    if case.get("op") == "inter":
        return _impl_inter(case)
    res = []
    for pi, perm in enumerate(_perms(case)):
        for optim in (range(9) if pi < 2 else [0, 7]):
            try:
                g = iglib.build_ig(perm, optim)
                v1 = bool(g.is_empty())
                v2 = bool(g.is_empty())
                v3 = not bool(g)
                cleaned = g.remove_useless_rules()
                v4 = bool(cleaned.is_empty())
                res.append({"perm": pi, "optim": optim, "v": [v1, v2, v3, v4]})
                if pi == 0 and optim == 0:
                    res[-1]["kept"] = iglib.extract_rules(cleaned)
            except Exception as e:
                res.append({"perm": pi, "optim": optim, "error": type(e).__name__, "msg": str(e)[:80]})
    return {"runs": res}


def _check_inter(ctx, c, o):
    ctx.dist["inter"] += 1
    ctx.count(1)
    if "timeout" in o:          # the marking is exponential in the number of nonterminals of the product: slow cases are skipped, not judged
        ctx.dist["inter:impl-timeout(skipped)"] += 1
        return
    if "exc" in o:
        ctx.fail("intersection-exception", c, {"impl": o})
        return
    if c.get("other"):
        if o.get("refused") != "NotImplementedError":
            ctx.fail("intersection-accepts-non-automaton", c, {})
        return
    fa = o.get("fa") or c["fa"]
    prod, st = iglib.product_rules(c["rules"], c["start"], fa)
    try:
        want = iglib.aho_is_empty(prod, st)
    except iglib.OracleBudget:
        ctx.dist["inter:oracle-budget-exceeded(skipped)"] += 1
        return
    if len(c["rules"]) >= 3:
        ctx.nontriv(["inter", c["rules"], c.get("regex"), c.get("fa")])
    if any(v != want for v in o["v"]):
        found = iglib.bounded_nonempty(prod, st, depth=3)
        if want and found:
            raise RuntimeError("HARNESS: the marking oracle says empty but a bounded search finds a derivation: %r" % (c,))
        ctx.fail("intersection-verdict", c, {"impl": o["v"], "expected_is_empty": want, "bounded_search_nonempty(depth 3)": found})
    elif o.get("operand_still") != iglib.aho_is_empty(c["rules"], c["start"]):
        ctx.fail("intersection-changes-operand", c, {"impl": o})


def check_cases(ctx, cases):
    inter = [c for c in cases if c.get("op") == "inter"]
    if inter:
        for c, o in zip(inter, ctx.impl("c17", inter, timeout=6, retry=False)):
            _check_inter(ctx, c, o)
    cases = [c for c in cases if c.get("op") != "inter"]
    obs = ctx.impl("c17", cases, timeout=30)
    parts = chunks(list(range(len(cases))), 16)
    srcs = []
    for part in parts:
        lines = []
        for i in part:
            nt, ix, ter = Interner(), Interner(), Interner()
            s = nt(cases[i]["start"])
            R = iglib.coq_rules(cases[i]["rules"], nt, ix, ter)
            kept = [r.get("kept") for r in (obs[i].get("runs") or []) if "kept" in r] if isinstance(obs[i], dict) else []
            # second component: the rules pyformlang keeps in remove_useless_rules() are those of the proved model
            K = "ig_same_rules (ig_remove_useless %s %d) %s" % (R, s, iglib.coq_rules(kept[0], nt, ix, ter)) if kept else "true"
            lines.append("Eval vm_compute in (ig_is_empty %s %d, %s)." % (R, s, K))
        srcs.append("From PFL Require Import Eval.IG.\n" + "\n".join(lines) + "\n")
    outs = ctx.coq(srcs)
    for part, vals in zip(parts, outs):
        for i, mv2 in zip(part, vals):
            mv, same_kept = mv2
            c, o = cases[i], obs[i]
            ctx.dist["rules:%d" % len(c["rules"])] += 1
            if len(c["rules"]) >= 3:
                ctx.nontriv(c["rules"])
            if i % 31 == 0:
                ctx.sample({"rules": c["rules"], "model_is_empty": mv})
            if iglib.aho_is_empty(c["rules"], c["start"]) != mv:
                raise RuntimeError("HARNESS: the Python marking oracle (used for the intersection clause) disagrees with the proved Coq model on %r" % (c,))
            if "timeout" in o or "exc" in o:
                ctx.fail("is_empty-exception", c, {"impl": o})
                continue
            for r in o["runs"]:
                ctx.count(1)
                if "error" in r:
                    ctx.fail("is_empty-exception", c, {"run": r})
                    break
                if any(v != mv for v in r["v"]):
                    which = ["is_empty", "second is_empty", "bool", "remove_useless_rules().is_empty"][[v != mv for v in r["v"]].index(True)]
                    ctx.fail("is_empty-verdict", c, {"run": r, "model_is_empty": mv, "differs_in": which,
                                                     "bounded_search_nonempty(depth 4)": iglib.bounded_nonempty(c["rules"])})
                    break
            else:
                if same_kept is not True:
                    # every verdict agrees, only the set of kept rules differs from the proved model of remove_useless_rules
                    ctx.fail("remove_useless_rules-model", c, {"kept": [r.get("kept") for r in o["runs"] if "kept" in r]}, correspondence_only=True)
                else:
                    ctx.dist["remove_useless_rules keeps exactly the rules of the proved model"] += 1


def shrink_candidates(case):
    for i in range(len(case["rules"])):
        yield dict(case, rules=case["rules"][:i] + case["rules"][i + 1:])
    if "fa" in case:
        fa = case["fa"]
        for i in range(len(fa["trans"])):
            yield dict(case, fa=dict(fa, trans=fa["trans"][:i] + fa["trans"][i + 1:]))
