"""C09 — CFG clean-up and Chomsky normal form keep the language and the promised shape."""
import cfglib
import cfg_engine
from props._cfg_common import TRUSTED, ASSUMPTIONS, TECHNIQUE

PROP = "C09"
LEVEL = "proof"
THEOREMS = {"Properties.C09Tie": ["C09_nullable_sub_from_source", "C09_remove_epsilon_from_source", "C09_production_nf_from_source"],
            "Properties.C09": ["C09_remove_useless_lang", "C09_remove_useless_shape", "C09_remove_epsilon_lang",
                             "C09_remove_epsilon_shape", "C09_eliminate_unit_lang", "C09_eliminate_unit_shape", "C09_decompose_lang",
                             "C09_to_normal_form_lang", "C09_to_normal_form_shape", "C09_to_normal_form_total"]}
LEVEL_TEXT = ("Proof + correspondence: for the mirrored Gallina models of remove_useless_symbols, remove_epsilon, eliminate_unit_productions and "
              "to_normal_form (fast path, five-stage clean-up, terminal lifting, binarisation with the shared-suffix cache) Coq theorems show, for every "
              "grammar and every word, that the language is kept (the empty word excepted for remove_epsilon and to_normal_form) and that the result has "
              "the promised shape (every production symbol generating and reachable; no empty body; no unit production; is_normal_form), and that the "
              "to_normal_form recursion always finishes after one clean-up. The nullable "
              "expansion is regenerated from utils_cfg.py on every build. The productions returned by pyformlang are compared with the model's as sets on "
              "every generated grammar, plus bounded language agreement with the certified membership oracle and shape checkers on pyformlang's output.")
LEVEL_NOTE = ("Trusted: Coq kernel; hand-written model validated by correspondence (the proofs are about the model); pygen translator for nullable_sub; "
              "Python harness.")
RULE = ("random grammars (profiles plain/eps/unit/unitcycle/recursive/useless/longshared/nostartprod/cnf) x {remove_useless_symbols, remove_epsilon, "
        "eliminate_unit_productions, to_normal_form}; language agreement on all words up to length 4|5; non-trivial = at least 2 productions and a body of length >= 2")
EXPLANATION = "Mirrored stage models + shape checkers + bounded language agreement by the certified membership oracle."

OPS = ["remove_useless_symbols", "remove_epsilon", "eliminate_unit_productions", "to_normal_form", "to_normal_form"]


def generate(ctx):
    n = 400 if ctx.tier == "quick" else 5000
    cases = []
    for i in range(n):
        if i % 10 == 3:     # variables that already carry the names to_normal_form generates (gaps in the numbering, all first names taken, ...)
            g = cfglib.rand_cfg(ctx.rng, profile="cnfnames")
            op = "to_normal_form"
        else:
            g = cfglib.rand_cfg(ctx.rng, names="plain" if ctx.rng.random() < 0.85 else "adv")
            op = OPS[i % len(OPS)]
        cases.append({"op": op, "g": g, "maxlen": 4 if ctx.tier == "quick" else 5,
                      "warm": ctx.rng.choice([None, None, ["is_empty"], ["get_nullable_symbols"], ["to_normal_form"]])})
    return cases


def impl(case):
    return cfg_engine.impl_case(case)


def check_cases(ctx, cases):
    cfg_engine.check_cases(ctx, "c09", cases)


shrink_candidates = cfg_engine.shrink_candidates
