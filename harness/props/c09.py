"""C09 — CFG clean-up and Chomsky normal form keep the language and the promised shape."""
import cfglib
import cfg_engine
from props._cfg_common import TRUSTED, ASSUMPTIONS, TECHNIQUE

PROP = "C09"
LEVEL = "other"
THEOREMS = {"Properties.C09": ["C09_nullable_sub_from_source"]}
LEVEL_TEXT = ("Partial proof + correspondence: the four stages are mirrored in the Gallina model; theorems proved so far are listed in the evidence "
              "(theorem_assumptions); language preservation of the stages not yet proved is checked on all words up to a bound with the certified "
              "membership oracle (bounded validation), the promised shapes with model-level checkers, and the productions returned by pyformlang are "
              "compared with the mirrored model's productions as sets.")
LEVEL_NOTE = "Trusted: Coq kernel; hand-written model validated by correspondence; Python harness. Bounded language agreement is testing, not proof."
RULE = ("random grammars (profiles plain/eps/unit/unitcycle/recursive/useless/longshared/nostartprod/cnf) x {remove_useless_symbols, remove_epsilon, "
        "eliminate_unit_productions, to_normal_form}; language agreement on all words up to length 4|5; non-trivial = at least 2 productions and a body of length >= 2")
EXPLANATION = "Mirrored stage models + shape checkers + bounded language agreement by the certified membership oracle."

OPS = ["remove_useless_symbols", "remove_epsilon", "eliminate_unit_productions", "to_normal_form", "to_normal_form"]


def generate(ctx):
    n = 400 if ctx.tier == "quick" else 5000
    cases = []
    for i in range(n):
        g = cfglib.rand_cfg(ctx.rng, names="plain" if ctx.rng.random() < 0.85 else "adv")
        cases.append({"op": OPS[i % len(OPS)], "g": g, "maxlen": 4 if ctx.tier == "quick" else 5,
                      "warm": ctx.rng.choice([None, None, ["is_empty"], ["get_nullable_symbols"], ["to_normal_form"]])})
    return cases


def impl(case):
    return cfg_engine.impl_case(case)


def check_cases(ctx, cases):
    cfg_engine.check_cases(ctx, "c09", cases)


shrink_candidates = cfg_engine.shrink_candidates
