"""C04 — emptiness, determinism, acyclicity and word enumeration."""
import random
import falib
import fa_engine
from props._fa_common import TRUSTED, ASSUMPTIONS, TECHNIQUE

PROP = "C04"
LEVEL = "proof"
THEOREMS = {"Properties.C04": ["C04_is_empty", "C04_is_deterministic", "C04_is_acyclic", "C04_accepted_words"]}
LEVEL_TEXT = ("Coq theorems (no axioms), all automata: is_empty is exactly 'no word accepted'; is_deterministic is exactly the stated shape; is_acyclic is exactly "
              "'no reachable cycle' (modelled by its specification, the path-set search is not mirrored); get_accepted_words(n) (pruned exploration of "
              "(state, word) pairs, mirrored up to set-iteration order) yields exactly the accepted words of length <= n, each once, also for n=None "
              "whenever the exploration terminates. Termination of the unbounded mode on finite languages is NOT proved: it is only exercised by the "
              "correspondence (implementation under an alarm). Model tied to /repo by correspondence under several hash seeds.")
LEVEL_NOTE = "Trusted: Coq kernel; hand-written model validated by correspondence; Python harness."
RULE = ("random epsilon-NFA/NFA/DFA (as C01) x {is_empty, is_deterministic, is_acyclic, get_accepted_words(n) for n in 0..4 and n=None on finite languages}; "
        "plus layered graphs whose paths split and rejoin over epsilon / symbol edges, with and without a back edge, under every query; yielded sequences compared as multisets with the model; non-trivial = at least 2 transitions, a start and a final state")
EXPLANATION = "Theorems in Properties/C04.v + differential correspondence of the query answers."


def generate(ctx):
    n = 1500 if ctx.tier == "quick" else 60000
    cases = []
    for i in range(n):
        names = ctx.rng.choice(["plain", "plain", "int", "adv"])
        k = i % 5
        # is_deterministic also on automata edited through add/remove_transition with queries in between
        spec = falib.rand_fa(ctx.rng, names=names, history_p=0.5 if k == 1 else 0.0)
        if k < 3:
            cases.append({"op": ["is_empty", "is_deterministic", "is_acyclic"][k], "fa": spec})
        elif k == 3 or not falib.finite_language(spec):
            cases.append({"op": "get_accepted_words", "fa": spec, "n": ctx.rng.choice([0, 1, 2, 3, 3, 4])})
        else:
            cases.append({"op": "get_accepted_words", "fa": spec, "n": None})
    # systematic family (own generator, the stream above is unchanged): layered acyclic graphs in which paths split and rejoin over epsilon
    # and/or symbol edges ("diamonds"), optionally closed by one back edge; every query of the property on each
    r2 = random.Random("c04-diamonds|%s" % ctx.rng.random())
    for j in range(60 if ctx.tier == "quick" else 2000):
        layers = [["p"], ["q", "r"][:r2.choice([1, 2, 2])], ["s", "t"][:r2.choice([1, 1, 2])], ["u"]]
        trans = []
        for la, lb in zip(layers, layers[1:]):
            for x in la:
                for y in lb:
                    if r2.random() < 0.85:
                        trans.append([x, r2.choice([None, None, "a", "b"]), y])
        if r2.random() < 0.3:
            trans.append(["p", r2.choice([None, "a"]), r2.choice(layers[2] + layers[3])])        # a shortcut that rejoins later
        if r2.random() < 0.3:
            trans.append([r2.choice(layers[2] + layers[3]), r2.choice([None, "a"]), r2.choice(layers[0] + layers[1])])   # a back edge: cyclic
        states = [x for la in layers for x in la]
        spec = {"kind": "enfa", "states": states, "symbols": ["a", "b"], "trans": [t for k, t in enumerate(trans) if t not in trans[:k]],
                "starts": ["p"] if r2.random() < 0.8 else ["p", r2.choice(states)], "finals": [r2.choice(states), "u"][:r2.choice([1, 2])],
                "profile": "diamond", "names": "plain"}
        cases.append({"op": "is_acyclic", "fa": spec})
        cases.append({"op": ["is_empty", "is_deterministic"][j % 2], "fa": spec})
        cases.append({"op": "get_accepted_words", "fa": spec, "n": (None if falib.finite_language(spec) else r2.choice([1, 2, 3]))})
    return cases


def impl(case):
    return fa_engine.impl_case(case)


def check_cases(ctx, cases):
    fa_engine.check_cases(ctx, "c04", cases)


shrink_candidates = fa_engine.shrink_candidates
