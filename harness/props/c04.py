"""C04 — emptiness, determinism, acyclicity and word enumeration."""
import falib
import fa_engine
from props._fa_common import TRUSTED, ASSUMPTIONS, TECHNIQUE

PROP = "C04"
LEVEL = "proof"
THEOREMS = {"Properties.C04": ["C04_is_empty", "C04_is_deterministic"]}
LEVEL_TEXT = ("Coq theorems (no axioms): is_empty is exactly 'no word accepted' and is_deterministic is exactly the stated shape, for all automata; "
              "model tied to /repo by correspondence under several hash seeds.")
LEVEL_NOTE = "Trusted: Coq kernel; hand-written model validated by correspondence; Python harness."
RULE = ("random epsilon-NFA/NFA/DFA (as C01) x {is_empty, is_deterministic}; non-trivial = at least 2 transitions, a start and a final state")
EXPLANATION = "Theorems in Properties/C04.v + differential correspondence of the query answers."


def generate(ctx):
    n = 400 if ctx.tier == "quick" else 6000
    cases = []
    for i in range(n):
        names = ctx.rng.choice(["plain", "plain", "int", "adv"])
        spec = falib.rand_fa(ctx.rng, names=names)
        cases.append({"op": ["is_empty", "is_deterministic"][i % 2], "fa": spec})
    return cases


def impl(case):
    return fa_engine.impl_case(case)


def check_cases(ctx, cases):
    fa_engine.check_cases(ctx, "c04", cases)


shrink_candidates = fa_engine.shrink_candidates
