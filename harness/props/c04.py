"""C04 — emptiness, determinism, acyclicity and word enumeration."""
import falib
import fa_engine
from props._fa_common import TRUSTED, ASSUMPTIONS, TECHNIQUE

PROP = "C04"
LEVEL = "proof"
THEOREMS = {"Properties.C04": ["C04_is_empty", "C04_is_deterministic", "C04_is_acyclic", "C04_accepted_words"]}
LEVEL_TEXT = ("Coq theorems (no axioms), all automata: is_empty is exactly 'no word accepted'; is_deterministic is exactly the stated shape; is_acyclic is exactly "
              "'no reachable cycle' (modelled by its specification, the path-set search is not mirrored); get_accepted_words(n) (pruned exploration of "
              "(state, word) pairs, mirrored up to set-iteration order) yields exactly the accepted words of length <= n, each once, also for n=None "
              "whenever the exploration terminates. Termination of the unbounded mode on finite languages is NOT proved: it is only exercised by the "
              "correspondence (implementation under an alarm). Model tied to /repo by correspondence under several hash seeds.")
LEVEL_NOTE = "Trusted: Coq kernel; hand-written model validated by correspondence; Python harness."
RULE = ("random epsilon-NFA/NFA/DFA (as C01) x {is_empty, is_deterministic, is_acyclic, get_accepted_words(n) for n in 0..4 and n=None on finite languages}; "
        "yielded sequences compared as multisets with the model; non-trivial = at least 2 transitions, a start and a final state")
EXPLANATION = "Theorems in Properties/C04.v + differential correspondence of the query answers."


def generate(ctx):
    n = 1500 if ctx.tier == "quick" else 60000
    cases = []
    for i in range(n):
        names = ctx.rng.choice(["plain", "plain", "int", "adv"])
        k = i % 5
        # is_deterministic also on automata edited through add/remove_transition with queries in between
        spec = falib.rand_fa(ctx.rng, names=names, history_p=0.5 if k == 1 else 0.0)
        if k < 3:
            cases.append({"op": ["is_empty", "is_deterministic", "is_acyclic"][k], "fa": spec})
        elif k == 3 or not falib.finite_language(spec):
            cases.append({"op": "get_accepted_words", "fa": spec, "n": ctx.rng.choice([0, 1, 2, 3, 3, 4])})
        else:
            cases.append({"op": "get_accepted_words", "fa": spec, "n": None})
    return cases


def impl(case):
    return fa_engine.impl_case(case)


def check_cases(ctx, cases):
    fa_engine.check_cases(ctx, "c04", cases)


shrink_candidates = fa_engine.shrink_candidates
