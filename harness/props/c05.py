"""C05 — regex text means what the documented grammar says, in every representation."""
import cfglib
import falib
import fa_engine
from cfglib import CfgInterner, coq_cfg
from common import cq, chunks
from props._fa_common import TRUSTED, ASSUMPTIONS, TECHNIQUE

PROP = "C05"
LEVEL = "proof"
THEOREMS = {"Properties.C05": ["C05_regex_automaton", "C05_matcher", "C05_equiv_certificate", "C05_operator_spellings_from_source", "C05_precedence_instances",
                             "C05_to_epsilon_nfa_model", "C05_to_cfg_model", "C05_parser_reads_minimal_text", "C05_accepts_code_path", "C05_str_round_trip", "C05_parser_mirror_reads_str"],
            "Properties.C05Tie": ["C05_to_cfg_rules_from_source"]}
LEVEL_TEXT = ("Proof + correspondence: the denotation of regular expressions, the derivative matcher (proved exact) and the exact equivalence check are "
              "machine-checked for all expressions. The documented concrete syntax is given by a reference recursive-descent parser in Gallina which is "
              "PROVED to read back every expression from its text with the fewest parentheses the documented precedences allow (star > concatenation > "
              "union, both spellings of concatenation) and from the fully parenthesised text of str() (C05_parser_reads_minimal_text, C05_str_round_trip). "
              "Every representation is mirrored and proved to denote den r for every expression: Regex.to_epsilon_nfa (pyformlang's counter-based "
              "Thompson construction), Regex.accepts (that construction followed by the acceptance loop), Regex.to_cfg (one variable per node; its rule "
              "templates are regenerated from the source on every build), str(). What pyformlang returns is compared STRUCTURALLY with these mirrors on "
              "every generated expression (states and transitions; variables and productions; token sequence of str()). pyformlang's own text parser is "
              "mirrored at component level (outer-parenthesis stripping, _compute_precedence, split and recursion, refusals) and the tree it builds is "
              "compared exactly with the mirror's and, by certified language equivalence, with the reference parser's on generated texts (minimal, "
              "redundant and doubled parentheses, all spacings, both operator spellings, escapes); ill-formed text must raise MisformedRegexError and "
              "nothing else, exactly where the mirror does. The mirror is proved to read back the text of str() of every expression "
              "(C05_parser_mirror_reads_str); no general theorem relates it to the reference parser; the tokeniser is not modelled.")
LEVEL_NOTE = "Trusted: Coq kernel; the reference parser as the reading of the documented grammar; Python harness (renders token lists to text)."
RULE = ("generated expressions (depth <= 4; symbols of 1-3 characters, escaped operators, epsilon and $; both spellings of union and concatenation; minimal, "
        "redundant and doubled parentheses; with and without blanks around operators) + ill-formed texts (unbalanced, dangling or doubled operators, "
        "empty groups, leading star); non-trivial = at least two operators")
EXPLANATION = "pyformlang's parser / automaton / grammar / printer compared with the reference parser through certified language equivalence."

SYMS = ["a", "b", "c", "ab", "abc", "x1"]
ESC = ["*", "(", ")", "|", "+", ".", "+ab", "(x", ".5", "*a", "|y", ")z"]


def rand_ast(rng, depth):
    if depth == 0 or rng.random() < 0.25:
        r = rng.random()
        if r < 0.08:
            return ["eps"]
        if r < 0.16:
            return ["sym", rng.choice(ESC), True]
        return ["sym", rng.choice(SYMS), False]
    r = rng.random()
    if r < 0.4:
        return ["cat", rand_ast(rng, depth - 1), rand_ast(rng, depth - 1)]
    if r < 0.75:
        return ["alt", rand_ast(rng, depth - 1), rand_ast(rng, depth - 1)]
    return ["star", rand_ast(rng, depth - 1)]


PREC = {"alt": 0, "cat": 1, "star": 2, "sym": 3, "eps": 3}


def render(rng, ast, ctx_prec=0, extra_p=0.15):
    """returns the token list (strings) of a text for [ast]: parentheses where needed, sometimes redundant ones"""
    k = ast[0]
    if k == "sym":
        toks = [("\\" + ast[1]) if ast[2] else ast[1]]
    elif k == "eps":
        toks = [rng.choice(["epsilon", "$"])]
    elif k == "star":
        toks = render(rng, ast[1], 3, extra_p) + ["*"]
    elif k == "cat":
        op = rng.choice([[], ["."]])
        toks = render(rng, ast[1], 1, extra_p) + op + render(rng, ast[2], 1, extra_p)
    else:
        toks = render(rng, ast[1], 0, extra_p) + [rng.choice(["|", "+"])] + render(rng, ast[2], 0, extra_p)
    need = PREC[k] < ctx_prec or (k == "star" and ctx_prec == 3)
    if need or rng.random() < extra_p:
        toks = ["("] + toks + [")"]
        if rng.random() < 0.1:
            toks = ["("] + toks + [")"]
    return toks


def to_text(rng, toks):
    out = ""
    ops = set("()|+*.")
    for i, t in enumerate(toks):
        if i > 0:
            prev = toks[i - 1]
            # a blank is required between two symbols; optional around operator characters
            if (prev not in ops and t not in ops) or rng.random() < 0.5:
                out += " " * rng.choice([1, 1, 2])
        out += t
    if rng.random() < 0.2:
        out = " " + out + " "
    return out


def _plain_tokens(text):
    """components of a text made of one-character operators, "epsilon", "$" and plain symbols (what the ill-formed texts are made of)"""
    for ch in "()*|+.":
        text = text.replace(ch, " " + ch + " ")
    return text.split()


def malformed(rng):
    base = ["(", ")", "*", "|", "+", ".", "a", "b", "epsilon"]
    k = rng.choice(["unbalanced", "dangling", "empty_group", "leading_star", "random"])
    if k == "unbalanced":
        return rng.choice(["(a b", "a b)", "((a)", "(a))", ")a(", "a ( b", "(a|b)) c"])
    if k == "dangling":
        return rng.choice(["| a", "a | | b", ". a", "a . . b", "+ a b", "a ||"])
    if k == "empty_group":
        return rng.choice(["()", "( )", "a ()", "(()) b", "a | ()", "()*", "( ( ) )"])
    if k == "leading_star":
        return rng.choice(["*", "* a", "(* a)", "a | * b"])
    return " ".join(rng.choice(base) for _ in range(rng.randint(1, 6)))


def generate(ctx):
    n = 400 if ctx.tier == "quick" else 20000
    rng = ctx.rng
    cases = []
    for i in range(n):
        if i % 8 == 7:
            text = malformed(rng)
            cases.append({"op": "malformed", "text": text, "toks": _plain_tokens(text)})
            continue
        ast = rand_ast(rng, rng.randint(1, 4))
        toks = render(rng, ast)
        c = {"op": "parse", "toks": toks, "text": to_text(rng, toks), "ast": ast}
        if i % 8 == 6:
            ast2 = rand_ast(rng, 2)
            t2 = render(rng, ast2)
            c.update(op="combine", toks2=t2, text2=to_text(rng, t2), comb=rng.choice(["union", "concatenate", "kleene_star"]), operator=rng.random() < 0.4)
        cases.append(c)
    return cases


def _alphabet(case):
    syms = []
    for t in case["toks"] + case.get("toks2", []):
        if t in ("(", ")", "|", "+", "*", ".", "epsilon", "$"):
            continue
        v = t[1:] if t.startswith("\\") else t
        if v not in syms:
            syms.append(v)
    return syms[:3] or ["a"]


def _words(case):
    return falib.words_upto(_alphabet(case) + ["zz"], 3 if len(_alphabet(case)) < 3 else 2)


def impl(case):
    from pyformlang.regular_expression import Regex, MisformedRegexError
    from pyformlang.cfg import Terminal
    if case["op"] == "malformed":
        try:
            r = Regex(case["text"])
            return {"accepted": True, "tree": fa_engine.regex_tree(r)}
        except MisformedRegexError:
            return {"refused": "MisformedRegexError"}
        except Exception as e:
            return {"error": type(e).__name__, "msg": str(e)[:100]}
    r = Regex(case["text"])
    r1 = r
    if case["op"] == "combine":
        r2 = Regex(case["text2"])
        if case["comb"] == "union":
            r = (r | r2) if case["operator"] else r.union(r2)
        elif case["comb"] == "concatenate":
            r = (r + r2) if case["operator"] else r.concatenate(r2)
        else:
            r = r.kleene_star()
    ws = _words(case)
    out = {"tree": fa_engine.regex_tree(r), "bits": [bool(r.accepts(w)) for w in ws], "enfa": falib.extract_fa(r.to_epsilon_nfa()),
           "str": str(r)}
    try:
        out["tree_str"] = fa_engine.regex_tree(Regex(out["str"]))
    except Exception as e:
        out["tree_str_error"] = type(e).__name__
    g = r.to_cfg()
    out["cfg_bits"] = [bool(g.contains([Terminal(a) for a in w])) for w in ws]
    out["cfg"] = cfglib.extract_cfg(g)
    if case["op"] == "combine":      # the operands must still answer like freshly parsed expressions once the combination has been compiled
        out["operand_after"] = [[bool(r1.accepts(w)) for w in ws], [bool(r2.accepts(w)) for w in ws] if case["comb"] != "kleene_star" else None]
        out["operand_fresh"] = [[bool(Regex(case["text"]).accepts(w)) for w in ws],
                                [bool(Regex(case["text2"]).accepts(w)) for w in ws] if case["comb"] != "kleene_star" else None]
    return out


def _binary(tree):
    return (len(tree) == 3 if tree[0] in ("cat", "alt") else True) and all(_binary(t) for t in tree[1:] if isinstance(t, list))


def _coq_rvar(v):
    """variables of Regex.to_cfg: the start symbol "S" and the node variables "A<n>" """
    if v == "S":
        return "None"
    if isinstance(v, str) and v[:1] == "A" and v[1:].isdigit() and str(int(v[1:])) == v[1:]:
        return "(Some %d%%nat)" % int(v[1:])
    raise ValueError(v)


def _coq_regex_cfg(g, sym):
    """(variables, terminals, productions) of the grammar returned by to_cfg, as Coq literals over rvar"""
    prods = ["(%s, [%s])" % (_coq_rvar(h), "; ".join("V %s" % _coq_rvar(v) if k == "V" else "T %d" % sym(v) for k, v in b)) for h, b in g["prods"]]
    return "[%s] [%s] [%s]" % ("; ".join(_coq_rvar(v) for v in g["vars"]), "; ".join("%d" % sym(t) for t in g["terms"]), "; ".join(prods))


def _coq_enfa_nat(spec, sym):
    """automaton returned by to_epsilon_nfa as a Coq literal whose states are the counter values (nat)"""
    def st(x):
        if isinstance(x, bool) or not isinstance(x, int) or x < 0:
            raise ValueError(x)
        return "%d%%nat" % x
    trans = ["(%s, %s, %s)" % (st(a), "None" if l is None else "Some %d" % sym(l), st(b)) for a, l, b in spec["trans"]]
    return "(mkE [%s] [%s] [%s] [%s] [%s])" % ("; ".join(st(x) for x in spec["states"]), "; ".join("%d" % sym(a) for a in spec["symbols"]),
                                                  "; ".join(trans), "; ".join(st(x) for x in spec["starts"]), "; ".join(st(x) for x in spec["finals"]))


def _str_tokens(text):
    """tokens of the text printed by str(regex): operators, "$", and symbols (a backslash protects the first character of a symbol)"""
    ops = "()|.*"
    out, i = [], 0
    while i < len(text):
        ch = text[i]
        if ch in ops:
            out.append(ch)
            i += 1
            continue
        j = i + 2 if ch == "\\" else i + 1
        while j < len(text) and text[j] not in ops:
            j += 1
        out.append(text[i:j])
        i = j
    return out


def _coq_toks(toks, sym):
    m = {"(": "TLp", ")": "TRp", "*": "TStar", "|": "TUnion", "+": "TUnion", ".": "TConcat", "epsilon": "TEps", "$": "TEps"}
    out = []
    for t in toks:
        if t in m:
            out.append(m[t])
        else:
            out.append("TSym %d" % sym(t[1:] if t.startswith("\\") else t))
    return "[" + "; ".join(out) + "]"


def check_cases(ctx, cases):
    obs = ctx.impl("c05", cases)
    parts = chunks(list(range(len(cases))), 16)
    srcs, idxs = [], []
    for part in parts:
        lines, keep = [], []
        for i in part:
            c, o = cases[i], obs[i]
            if c["op"] == "malformed" or "tree" not in o:
                continue
            sym = falib.Interner()
            ref = "(parse_regex %s)" % _coq_toks(c["toks"], sym)
            if c["op"] == "combine":
                r2 = "(parse_regex %s)" % _coq_toks(c["toks2"], sym)
                if c["comb"] == "kleene_star":
                    ref = "(option_map RStar %s)" % ref
                else:
                    con = "RAlt" if c["comb"] == "union" else "RCat"
                    ref = "(match %s, %s with Some x, Some y => Some (%s x y) | _, _ => None end)" % (ref, r2, con)
            try:
                T = fa_engine.coq_re(o["tree"], sym)
                TS = fa_engine.coq_re(o["tree_str"], sym) if "tree_str" in o else None
            except ValueError:
                T = None
            E = falib.coq_enfa(o["enfa"], sym)
            ws = cq([[sym(a) for a in w] for w in _words(c)])
            if T is None:
                continue
            # the grammar returned by to_cfg against the model re_cfg applied to pyformlang's own tree (exact: variables, terminals, productions)
            try:
                CG = "re_cfg_same %s %s" % (T, _coq_regex_cfg(o["cfg"], sym)) if (_binary(o["tree"]) and o["cfg"]["start"] == "S") else "false"
            except ValueError:
                CG = "false"
            # the automaton returned by to_epsilon_nfa against the model re_enfa (Thompson construction with the running counter) applied to
            # pyformlang's own tree: same states, symbols, transitions, start and final states
            try:
                TH = "re_enfa_same %s %s" % (T, _coq_enfa_nat(o["enfa"], sym)) if _binary(o["tree"]) else "false"
            except ValueError:
                TH = "false"
            # the token sequence of str(regex) against the model pr_py applied to pyformlang's own tree
            ST = "toks_same (pr_py %s) %s" % (T, _coq_toks(_str_tokens(o["str"]), sym))
            # the mirror of pyformlang's own parser (component level) builds exactly the tree pyformlang built
            # ... which is also, exactly, the tree the proved reference parser builds (r)
            RD = "reader_agrees %s (Some %s) && reader_agrees %s (Some r)" % (_coq_toks(c["toks"], sym), T, _coq_toks(c["toks"], sym)) if c["op"] == "parse" else "true"
            lines.append("Eval vm_compute in (match %s with Some r => Some (judge_re2 r %s, judge (renumber (re_fa r)) %s, map (re_matches r) %s, %s, %s, %s, %s, %s) | None => None end)." % (
                ref, T, E, ws, ("judge_re2 r %s" % TS) if TS else "VFuel", CG, TH, ST, RD))
            keep.append(i)
        srcs.append("From PFL Require Import Eval.FA.\n" + "\n".join(lines) + "\n")
        idxs.append(keep)
    # ill-formed texts: the mirror of pyformlang's parser must refuse (MisformedRegexError) / accept exactly as pyformlang does
    mal = [i for i, c in enumerate(cases) if c["op"] == "malformed" and "toks" in c and ("refused" in obs[i] or "tree" in obs[i])]
    mal_lines = []
    for i in mal:
        sym = falib.Interner()
        try:
            exp = "(Some %s)" % fa_engine.coq_re(obs[i]["tree"], sym) if "tree" in obs[i] else "None"
        except ValueError:
            exp = None
        mal_lines.append("Eval vm_compute in (reader_agrees %s %s)." % (_coq_toks(cases[i]["toks"], sym), exp) if exp else "Eval vm_compute in true.")
    mal_vals = ctx.coq(["From PFL Require Import Eval.FA.\n" + "\n".join(mal_lines) + "\n"])[0] if mal else []
    mal_ok = dict(zip(mal, mal_vals))
    outs = ctx.coq(srcs)
    mvs = {}
    for keep, vals in zip(idxs, outs):
        for i, v in zip(keep, vals):
            mvs[i] = v
    for i, c in enumerate(cases):
        o = obs[i]
        ctx.dist[c["op"]] += 1
        ctx.count(1)
        if c["op"] != "malformed" and sum(1 for t in c["toks"] if t in ("|", "+", "*", ".")) >= 2:
            ctx.nontriv(c["text"])
        if i % 41 == 0:
            ctx.sample({"op": c["op"], "text": c["text"], "text2": c.get("text2")})
        if "timeout" in o or "exc" in o:
            ctx.fail(c["op"] + "-exception", c, {"impl": o})
            continue
        if c["op"] == "malformed":
            if "error" in o:
                ctx.fail("malformed-wrong-exception", c, {"impl": o})
            elif mal_ok.get(i) is False:
                ctx.fail("parser-mirror", c, {"impl": o}, correspondence_only=True)
            elif i in mal_ok:
                ctx.dist["ill-formed text: refusal / acceptance as the mirror of the parser predicts"] += 1
            continue
        if i not in mvs:
            ctx.fail("parse-tree-shape", c, {"tree": o.get("tree")})
            continue
        mv = mvs[i]
        if mv is None:
            raise RuntimeError("HARNESS: the reference parser rejects a generated well-formed text: %r" % (c,))
        if o.get("operand_after") != o.get("operand_fresh"):
            ctx.fail("combine-changes-operand", c, {"after": o.get("operand_after"), "fresh": o.get("operand_fresh")})
            continue
        jt, je, bits, js, cg, thm, strm, rdm = mv[1]
        if jt != "VEq":
            ctx.fail("parse-tree-language", c, {"verdict": str(jt), "tree": o["tree"]})
        elif je != "VEq":
            ctx.fail("to_epsilon_nfa-language", c, {"verdict": str(je)})
        elif bits != o["bits"]:
            ctx.fail("accepts", c, {"impl": o["bits"], "reference": bits})
        elif bits != o["cfg_bits"]:
            ctx.fail("to_cfg-contains", c, {"impl": o["cfg_bits"], "reference": bits})
        elif "tree_str_error" in o:
            ctx.fail("str-does-not-parse", c, {"str": o["str"], "error": o["tree_str_error"]})
        elif js not in ("VEq", "VFuel"):
            ctx.fail("str-roundtrip-language", c, {"str": o["str"], "verdict": str(js)})
        # structural agreement with the proved models, once everything the property speaks about has been checked on this case
        elif cg is not True:
            ctx.fail("to_cfg-model", c, {"impl": o["cfg"], "tree": o["tree"]}, correspondence_only=True)
        elif thm is not True:
            ctx.fail("to_epsilon_nfa-model", c, {"impl": o["enfa"], "tree": o["tree"]}, correspondence_only=True)
        elif strm is not True:
            ctx.fail("str-model", c, {"str": o["str"], "tree": o["tree"]}, correspondence_only=True)
        elif rdm is not True:
            ctx.fail("parser-mirror", c, {"tree": o["tree"]}, correspondence_only=True)
        else:
            ctx.dist["to_cfg, to_epsilon_nfa and str() structurally identical to the proved models"] += 1

def shrink_candidates(case):
    return []
