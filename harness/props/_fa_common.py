TRUSTED = ["Coq 8.16.1 kernel (coqc full .vo build; vm_compute used only to evaluate the model/oracles on concrete cases)",
           "hand-written Gallina models coq/Model/Enfa.v, coq/Model/EnfaOps.v: validated against /repo by the differential correspondence, not derived from the source",
           "certified oracles coq/Oracle/EnfaEquiv*.v (sound and complete when they return Some), coq/Oracle/EnfaMinimal.v",
           "Python harness: generators, accessors through pyformlang's public API, interning of values to N, Coq-output parser"]
ASSUMPTIONS = ["state and symbol values are ints or strings (interned to N for the model); bool/float values are out of scope",
               "the correspondence leg is differential testing (validates the model against the code); the universally quantified claim is carried by the Coq theorems",
               "fuel: model functions exploring exponential spaces return None when 2^40 steps are exhausted; theorems exclude that result, such cases are skipped, never judged, and Proofs/Totality.v proves the fuel sufficient for automata of up to 38 states (determinize, intersection, enfa_equiv)",
               "axioms: none (Print Assumptions closed for every theorem; coqchk -o reports none)"]
TECHNIQUE = "Rocq/Coq proof about an executable Gallina model + differential correspondence (model evaluated by vm_compute inside Coq) + proved-sound equivalence certificate on returned automata"
