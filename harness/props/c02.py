"""C02 — equivalence decided exactly; minimisation reduced and canonical."""
import falib
import fa_engine
from props._fa_common import TRUSTED, ASSUMPTIONS, TECHNIQUE

PROP = "C02"
LEVEL = "proof"
THEOREMS = {"Properties.C02": ["C02_equiv_sound", "C02_equiv_complete", "C02_reduced_certificate", "C02_equiv_total", "C02_minimal_unique", "C02_trim_certificate",
                             "C02_minimize_model", "C02_minimize_canonical"]}
LEVEL_TEXT = ("Coq theorems (no axioms): the model of is_equivalent_to (lock-step subset-pair exploration) returns true exactly when the two languages "
              "are equal (sound and complete whenever it terminates within fuel). pyformlang's minimise-and-walk algorithm is modelled, not mirrored: "
              "the answer is uniquely determined, and is compared on every case. minimize() is modelled by its specification (live states grouped by "
              "language equivalence, quotient) and proved, for every DFA, to return a deterministic, reduced, trim automaton with the same language "
              "(C02_minimize_model); any automaton with these properties is isomorphic to it (C02_minimize_canonical). Each DFA pyformlang returns is "
              "certified language-equal, deterministic, reduced (all states reachable, pairwise distinguished) and trim by proved-sound checkers, "
              "which by the theorem makes it isomorphic to the model's result; sizes are compared as well. The Hopcroft worklist itself is not mirrored.")
LEVEL_NOTE = "Trusted: Coq kernel; model validated by correspondence; Python harness. Hopcroft's data structures are modelled by their specification only."
RULE = ("ordered pairs of random automata: equal languages (an automaton vs its determinisation/eps-removal/renaming/with extra dead, unreachable or sink states), "
        "unequal languages (one mutation), different alphabets x {is_equivalent_to, ==}; plus minimize() outputs checked reduced and size-canonical")
EXPLANATION = "Theorems in Properties/C02.v + correspondence of the verdicts + reducedness certificates."


def variant(rng, a):
    """An automaton with the same language as [a] built by a language-preserving edit."""
    k = rng.randrange(4)
    b = {key: (list(v) if isinstance(v, list) else v) for key, v in a.items()}
    b["kind"] = "enfa"
    if k == 0:      # rename states
        b["states"] = ["n%d" % i for i in range(len(a["states"]))]
        ren = dict(zip(map(falib.vkey, a["states"]), b["states"]))
        b["trans"] = [[ren[falib.vkey(s)], x, ren[falib.vkey(t)]] for s, x, t in a["trans"]]
        b["starts"] = [ren[falib.vkey(s)] for s in a["starts"]]
        b["finals"] = [ren[falib.vkey(s)] for s in a["finals"]]
    elif k == 1:    # add an explicit sink reached on a fresh or existing symbol from the first state
        b["states"] = a["states"] + ["SINK"]
        b["trans"] = a["trans"] + [[a["states"][0], a["symbols"][0], "SINK"]] + [["SINK", x, "SINK"] for x in a["symbols"]]
    elif k == 2:    # add an unreachable part
        b["states"] = a["states"] + ["U1", "U2"]
        b["trans"] = a["trans"] + [["U1", a["symbols"][0], "U2"], ["U2", a["symbols"][-1], "U1"]]
        b["finals"] = a["finals"] + ["U2"]
    else:           # epsilon detour
        if a["starts"]:
            b["states"] = a["states"] + ["E0"]
            b["trans"] = a["trans"] + [["E0", None, s] for s in a["starts"]]
            b["starts"] = ["E0"]
    return b


def generate(ctx):
    n = 600 if ctx.tier == "quick" else 8000
    rng = ctx.rng
    cases = []
    for i in range(n):
        names = rng.choice(["plain", "plain", "int"])
        a = falib.rand_fa(rng, names=names, max_states=4)
        r = i % 5
        if r == 4 and rng.random() < 0.7:
            a = falib.rand_big_dfa(rng)
        if r in (0, 1):
            b = variant(rng, a)
        elif r == 2:
            b = falib.rand_fa(rng, names=names, max_states=4)
        elif r == 3:
            b = variant(rng, a)
            if b["finals"] and rng.random() < 0.7:
                b["finals"] = b["finals"][1:]
            elif b["trans"]:
                b["trans"] = b["trans"][1:]
        else:
            cases.append({"op": "minimize_pair", "fa": a, "fb": variant(rng, a) if rng.random() < 0.8 else falib.rand_fa(rng, names=names, max_states=4)})
            continue
        cases.append({"op": rng.choice(["is_equivalent_to", "is_equivalent_to", "eq"]), "fa": a, "fb": b})
    for _ in range(100 if ctx.tier == "quick" else 1500):
        cases.append(fa_engine.rand_dfa_history(rng))
    for _ in range(8 if ctx.tier == "quick" else 64):
        cases.append({"op": "hopcroft_search", "seed": rng.randrange(10 ** 9), "count": 400, "fa": {"states": [], "profile": "search"}})
    return cases


_search = fa_engine.hopcroft_search


def impl(case):
    if case["op"] == "hopcroft_search":
        return _search(case)
    return fa_engine.impl_case(case)


def check_cases(ctx, cases):
    import random
    search = [c for c in cases if c["op"] == "hopcroft_search"]
    rest = [c for c in cases if c["op"] != "hopcroft_search"]
    if search:
        obs = ctx.impl("c02", search, timeout=300)
        for c, o in zip(search, obs):
            if "timeout" in o or "exc" in o:
                ctx.fail("hopcroft-search-exception", c, {"impl": o})
                continue
            ctx.count(o["tried"])
            ctx.dist["hopcroft_search: DFAs (5-8 states) minimised and pre-filtered in Python"] += o["tried"]
            for spec in o["suspects"]:
                # a suspect is judged like any other case: language and reducedness certified in Coq
                ctx.dist["hopcroft_search: suspects sent to the certified judge"] += 1
                rest.append({"op": "minimize_pair", "fa": spec, "fb": variant(random.Random(c["seed"]), spec), "found_by": "hopcroft_search"})
    fa_engine.check_cases(ctx, "c02", rest)


shrink_candidates = fa_engine.shrink_candidates
KNOWN_PREDICATES = {"state_name_collision": fa_engine.make_name_collision_predicate("c02")}
