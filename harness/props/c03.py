"""C03 — Boolean and rational operations on automata."""
import falib
import fa_engine
from props._fa_common import TRUSTED, ASSUMPTIONS, TECHNIQUE

PROP = "C03"
LEVEL = "proof"
THEOREMS = {"Properties.C03": ["C03_reverse", "C03_intersection", "C03_complement", "C03_union_ref", "C03_concat_ref", "C03_star_ref", "C03_difference", "C03_intersection_total",
                             "C03_union_code_path", "C03_concatenate_code_path", "C03_kleene_star_code_path"]}
LEVEL_TEXT = ("Coq theorems (no axioms): reverse, the product construction and complement-after-determinisation compute exactly the mirror image, "
              "intersection and complement for all automata; difference is their composition. Every automaton pyformlang returns is compared with the "
              "model's construction by the proved-exact equivalence checker. union/concatenate/kleene_star follow the code path to_regex -> Regex "
              "combinator -> to_epsilon_nfa; the composition of the proved models of the two conversions has the intended language for all operands "
              "(C03_*_code_path), and every automaton pyformlang returns is decided language-equal to the proved reference constructions.")
LEVEL_NOTE = ("Trusted: Coq kernel; hand-written model validated by correspondence; Python harness. The text assembly inside to_regex is abstracted (see C06).")
RULE = ("random epsilon-NFAs and ordered pairs (overlapping/disjoint alphabets, same state names in both operands, same object twice) x "
        "{reverse, get_complement, get_intersection, get_difference and their operator forms, union, concatenate, kleene_star}; "
        "non-trivial = at least 2 transitions, a start and a final state in the first operand")
EXPLANATION = "Theorems in Properties/C03.v + correspondence by certified language equivalence against the model's reference constructions."


def generate(ctx):
    n = 900 if ctx.tier == "quick" else 10000
    cases = []
    rng = ctx.rng
    for i in range(n):
        names = rng.choice(["plain", "plain", "int", "adv"])
        a = falib.rand_fa(rng, names=names, max_states=4)
        k = i % 9
        if k >= 6:
            a = falib.rand_fa(rng, names=rng.choice(["plain", "int"]), max_states=3)
            if rng.random() < 0.3:      # the operations go through to_regex: operands on which state elimination has real work to do
                a = falib.rand_elim_fa(rng, names=rng.choice(["plain", "int"]))
            if k == 8:
                cases.append({"op": "kleene_star", "fa": a})
            else:
                b = falib.rand_fa(rng, names=rng.choice(["plain", "int"]), max_states=3)
                cases.append({"op": ["union", "concatenate"][k - 6], "fa": a, "fb": b})
        elif k == 0:
            cases.append({"op": "reverse", "fa": a, "operator": rng.random() < 0.3})
        elif k == 1:
            cases.append({"op": "get_complement", "fa": a, "operator": rng.random() < 0.3})
        else:
            b = falib.rand_fa(rng, names=names, max_states=4)
            if rng.random() < 0.3:   # disjoint / partly overlapping alphabets
                ren = {"a": "d", "b": "e"} if rng.random() < 0.5 else {"a": "d", "b": "e", "c": "f"}
                b = dict(b, symbols=[ren.get(x, x) for x in b["symbols"]],
                         trans=[[s, ren.get(x, x) if x is not None else None, t] for s, x, t in b["trans"]])
            op = "get_intersection" if k in (2, 3) else "get_difference"
            c = {"op": op, "fa": a, "fb": b, "operator": rng.random() < 0.3}
            if rng.random() < 0.08:
                c["same_object"] = True
                c["fb"] = a
            cases.append(c)
    return cases


def impl(case):
    return fa_engine.impl_case(case)


def check_cases(ctx, cases):
    fa_engine.check_cases(ctx, "c03", cases)


shrink_candidates = fa_engine.shrink_candidates
KNOWN_PREDICATES = {"state_name_collision": fa_engine.make_name_collision_predicate("c03")}
