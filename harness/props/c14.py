"""C14 — LL(1): FIRST/FOLLOW, the LL(1) verdict and the table-driven parser."""
import cfglib
import cfg_engine
from cfglib import CfgInterner, coq_cfg
from common import cq
from props._cfg_common import TRUSTED, ASSUMPTIONS, TECHNIQUE
from props.c15 import _tree, _coq_tree

PROP = "C14"
LEVEL = "other"
THEOREMS = {"Properties.C14": ["C14_tree_checker", "C14_member_oracle"]}
LEVEL_TEXT = ("Partial proof + correspondence: FIRST and FOLLOW are modelled as least solutions of the textbook rules (saturation), predict sets and the LL(1) "
              "verdict on top of them, the table-driven parser as a recursive descent over the same table; all are compared exactly with pyformlang's "
              "sets, verdict and parser results. Every returned tree is certified by the proved-sound tree checker and refusals are compared with the exact "
              "membership oracle. The equivalence of the saturation model with derivation-based FIRST/FOLLOW and parser completeness are not proved.")
LEVEL_NOTE = "Trusted: Coq kernel; hand-written LL(1) model validated by correspondence; Python harness."
RULE = ("random grammars without useless symbols (LL(1)-by-construction and arbitrary: nullable variables, nullable non-empty bodies, epsilon productions, common "
        "prefixes, left recursion) x {get_first_set, get_follow_set, is_llone_parsable, get_llone_parse_tree on members, proper prefixes and one-symbol extensions}")
EXPLANATION = "FIRST/FOLLOW/verdict compared with the saturation model; parser results certified by tree checker + membership oracle."


def _useful(g):
    gen, changed = set(), True
    while changed:
        changed = False
        for h, b in g["prods"]:
            if cfglib.vkey(h) not in gen and all(k == "T" or cfglib.vkey(v) in gen for k, v in b):
                gen.add(cfglib.vkey(h))
                changed = True
    reach, todo = {cfglib.vkey(g["start"])}, [g["start"]]
    while todo:
        x = todo.pop()
        for h, b in g["prods"]:
            if cfglib.vkey(h) == cfglib.vkey(x):
                for k, v in b:
                    if k == "V" and cfglib.vkey(v) not in reach:
                        reach.add(cfglib.vkey(v))
                        todo.append(v)
    used_terms = {cfglib.vkey(v) for h, b in g["prods"] if cfglib.vkey(h) in reach for k, v in b if k == "T"}
    return all(cfglib.vkey(v) in gen and cfglib.vkey(v) in reach for v in g["vars"]) and all(cfglib.vkey(t) in used_terms for t in g["terms"])


def generate(ctx):
    n = 300 if ctx.tier == "quick" else 4000
    rng = ctx.rng
    cases, tries = [], 0
    while len(cases) < n and tries < n * 40:
        tries += 1
        if rng.random() < 0.55:
            g = cfglib.rand_ll1(rng, eps_p=0.4)
        else:
            g = cfglib.rand_cfg(rng, profile=rng.choice(["plain", "eps", "unit", "recursive"]), max_vars=3, max_prods=6, max_body=3)
        if rng.random() < 0.35:
            # variables that are nullable only through other variables, standing in front of another variable in a longer body
            vs, ts = list(g["vars"]), g["terms"]
            n1, n2, d1 = "N1", "N2", "D1"
            chain = [[n2, []], [n1, [["V", n2]] * rng.randint(1, 2)], [d1, [["T", rng.choice(ts)]] + ([["V", rng.choice(vs)]] if rng.random() < 0.3 else [])]]
            use = [rng.choice(vs), [["V", n1], ["V", d1]] + ([["T", rng.choice(ts)]] if rng.random() < 0.5 else [])]
            if rng.random() < 0.4:
                chain.append([n2, [["T", rng.choice(ts)]]])
            g = cfglib.normalise(dict(g, prods=g["prods"] + chain + [use], profile=g["profile"] + "+nullchain"))
        if not _useful(g):
            continue
        cases.append({"op": "ll1", "g": g, "words": cfglib.sample_words(g, rng, n=8, maxlen=6) + cfglib.words_upto(g["terms"], 2)})
    return cases


def _set(xs):
    from pyformlang.cfg import Epsilon
    out = []
    for x in xs:
        if x == "$":
            out.append("$")
        elif isinstance(x, Epsilon) or x == Epsilon():
            out.append("eps")
        else:
            out.append(["T", cfglib._v(x)])
    return sorted(out, key=cfglib.vkey)


def impl(case):
    from pyformlang.cfg import Terminal, Variable
    from pyformlang.cfg.cfg import NotParsableException
    from pyformlang.cfg.llone_parser import LLOneParser
    g = cfglib.build_cfg(case["g"])
    p = LLOneParser(g)
    fs, fo = p.get_first_set(), p.get_follow_set()
    out = {"first": {cfglib.vkey(v): _set(fs.get(Variable(v), set())) for v in case["g"]["vars"]},
           "follow": {cfglib.vkey(v): _set(fo.get(Variable(v), set())) for v in case["g"]["vars"]},
           "ll1": bool(p.is_llone_parsable()), "results": []}
    for w in case["words"]:
        try:
            t = p.get_llone_parse_tree([Terminal(a) for a in w])
            out["results"].append({"tree": _tree(t)})
        except NotParsableException:
            out["results"].append({"refused": "NotParsableException"})
        except Exception as e:
            out["results"].append({"error": type(e).__name__, "msg": str(e)[:100]})
    return out


class _Ext:
    @staticmethod
    def coq_expr(case, obs):
        ci = CfgInterner()
        G = coq_cfg(case["g"], ci)
        vs = "[" + "; ".join(str(ci.var(v)) for v in case["g"]["vars"]) + "]"
        items = []
        for w, r in zip(case["words"], obs["results"]):
            cw = cq([ci.ter(a) for a in w])
            t = "Some (tree_judge %s %s %s)" % (G, _coq_tree(r["tree"], ci), cw) if "tree" in r else "@None (bool * bool * bool)"
            items.append("(cfg_member %s %s, match ll1_parse %s 60%%nat %s with Some _ => true | None => false end, %s)" % (G, cw, G, cw, t))
        return "(map (fun A => (A, first_of %s A, follow_of %s A)) %s, is_ll1 %s, [%s])" % (G, G, vs, G, "; ".join(items))

    @staticmethod
    def judge_case(ctx, case, obs, mv):
        if "timeout" in obs or "exc" in obs:
            ctx.fail("ll1-exception", case, {"impl": obs})
            return
        sets, ll1, items = mv
        ci = CfgInterner()
        coq_cfg(case["g"], ci)       # same interning
        ctx.count(1 + len(items))

        def dec(xs, endmark):
            out = []
            for x in xs:
                if x is None:
                    out.append(endmark)
                else:
                    out.append(["T", ci.ter.vals[x[1]]])
            return sorted(out, key=cfglib.vkey)
        for (A, fi, fo) in sets:
            name = cfglib.vkey(ci.var.vals[A])
            if dec(fi, "eps") != obs["first"][name]:
                ctx.fail("get_first_set", case, {"variable": name, "impl": obs["first"][name], "model": dec(fi, "eps")})
                return
            if dec(fo, "$") != obs["follow"][name]:
                ctx.fail("get_follow_set", case, {"variable": name, "impl": obs["follow"][name], "model": dec(fo, "$")})
                return
        if obs["ll1"] != ll1:
            ctx.fail("is_llone_parsable", case, {"impl": obs["ll1"], "model": ll1})
            return
        for w, r, (member, mparse, chk) in zip(case["words"], obs["results"], items):
            if "error" in r:
                ctx.fail("ll1-wrong-exception", case, {"word": w, "impl": r})
                return
            if "tree" in r:
                tok, yok, rok = chk[1]
                if not (tok and yok and rok):
                    ctx.fail("ll1-invalid-tree", case, {"word": w, "tree": r["tree"]})
                    return
            if ll1:
                if ("tree" in r) != member:
                    ctx.fail("ll1-parser-verdict", case, {"word": w, "impl": r.get("refused", "tree"), "member": member})
                    return
                if mparse != member:
                    raise RuntimeError("HARNESS: LL(1) parser model disagrees with membership on an LL(1) grammar: %r %r" % (case, w))


def check_cases(ctx, cases):
    cfg_engine.check_cases(ctx, "c14", cases, ext=_Ext)


shrink_candidates = cfg_engine.shrink_candidates
