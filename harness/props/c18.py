"""C18 — feature grammars: unification is the glb and membership respects unification."""
import itertools
import json
import random
import cfglib
import cfg_engine
from cfglib import CfgInterner, coq_cfg
from common import cq
from falib import Interner
from props._cfg_common import TRUSTED, ASSUMPTIONS, TECHNIQUE
from props.c15 import _tree, _coq_tree

PROP = "C18"
LEVEL = "other"
THEOREMS = {"Properties.C18": ["C18_member_oracle", "C18_tree_checker", "C18_unify_glb", "C18_unify_succeeds_iff", "C18_unify_order_independent"]}
LEVEL_TEXT = ("Partial + correspondence: FCFG.contains is compared with the exact (proved) membership oracle applied to the plain grammar obtained by "
              "instantiating every feature variable with every value (instantiation done by the harness for flat atomic features over a two-value domain); "
              "feature-free FCFGs are compared with the oracle directly, epsilon productions, ambiguity and left recursion included; trees returned by "
              "get_parse_tree are certified by the proved tree checker. Unification on structures without sharing is mirrored by a Gallina function, "
              "compared (result paths/values, failure, symmetry) and PROVED, for consistently typed structures of any size, to return the least upper bound "
              "in the subsumption order (the most general structure carrying the information of both), to fail exactly on conflicting atomic values along a "
              "shared path and to be independent of the argument order (C18_unify_glb, C18_unify_succeeds_iff, C18_unify_order_independent); structures "
              "with shared variables are compared with a second model and checked for order independence, without theorem. No theorem about the Earley loop.")
LEVEL_NOTE = "Trusted: Coq kernel; Python harness incl. the instantiation of feature grammars; hand-written unification model validated by correspondence."
RULE = ("feature-free FCFGs from random grammars (eps, ambiguity, left recursion) x words up to length 3-4 and sampled members; flat-feature FCFGs (two features, "
        "two values, agreement variables shared between head and body; families: specific vs under-specified analysis of one span, nullable agreement, shared unknown vs specific, first constituent with a specific and an unbound analysis) x words; pairs of tree-shaped feature structures (depth <= 3, <= 3 features, <= 3 values) "
        "and pairs with shared variables x unify in both orders")
EXPLANATION = "contains vs exact membership of the instantiated grammar; trees certified; unification vs Gallina model."

FEATS = ["N", "P"]
DOM = ["u", "v"]


def rand_feature_grammar(rng, force=None):
    """Flat agreement grammar: symbols carry at most the features N and P with a value or a variable."""
    if force:
        base = cfglib.rand_cfg(rng, profile="plain", max_vars=2, max_prods=2, max_body=2)
    else:
        base = cfglib.rand_cfg(rng, profile=rng.choice(["plain", "recursive", "cnf", "plain", "eps"]), max_vars=3, max_prods=5, max_body=3)
    prods = []
    for h, b in base["prods"]:
        pvars = ["x", "y"]

        def ann():
            fs = {}
            for f in FEATS:
                r = rng.random()
                if r < 0.3:
                    fs[f] = rng.choice(DOM)
                elif r < 0.6:
                    fs[f] = "?" + rng.choice(pvars)
            return fs
        prods.append({"head": h, "hfs": ann(), "body": [[k, v, (ann() if k == "V" else {})] for k, v in b]})
        if rng.random() < 0.4:      # the same rule again with other (more or less specific) annotations: ambiguity on the same span
            prods.append({"head": h, "hfs": ann(), "body": [[k, v, (ann() if k == "V" else {})] for k, v in b]})
    profile = "feat:" + base["profile"]
    vs = list(base["vars"])
    if rng.random() < 0.35 or force == "specific/general":
        # a constituent with a specific and an under-specified analysis over the same span, passed up through a variable
        t = rng.choice(base["terms"])
        f = rng.choice(FEATS)
        val, other = rng.sample(DOM, 2)
        for v in ("P", "Q"):
            if v not in vs:
                vs.append(v)
        nested = rng.random() < 0.7 or bool(force)
        mid = rng.random() < 0.5
        # the under-specified analysis either lacks the feature or carries it with an unbound variable (derived from a value already
        # drawn, so that the random stream of the other cases is unchanged)
        gen_fs = {f: "?z"} if val == DOM[0] else {}
        extra = [{"head": "P", "hfs": {f: "?x"}, "body": [["V", "Q", {f: "?x"}]], "nested": nested},
                 {"head": "Q", "hfs": {f: val}, "body": [["T", t, {}]], "nested": nested},
                 {"head": base["start"], "hfs": {}, "nested": nested,
                  "body": [["V", "P", {f: rng.choice([val, other])}]] + ([["T", rng.choice(base["terms"]), {}]] if rng.random() < 0.5 else [])}]
        if mid:     # the under-specified analysis goes through an intermediate category (it is completed later)
            if "M" not in vs:
                vs.append("M")
            extra += [{"head": "Q", "hfs": gen_fs, "body": [["V", "M", {}]], "nested": nested}, {"head": "M", "hfs": {}, "body": [["T", t, {}]], "nested": nested}]
        else:
            extra += [{"head": "Q", "hfs": gen_fs, "body": [["T", t, {}]], "nested": nested}]
        rng.shuffle(extra)
        prods = prods + extra
        profile += "+specific/general"
    if rng.random() < 0.25:
        # agreement through a nullable category that has several empty analyses with different feature values
        f = rng.choice(FEATS)
        for v in ("E", "K"):
            if v not in vs:
                vs.append(v)
        ts = base["terms"]
        extra = [{"head": base["start"], "hfs": {}, "body": [["V", "E", {f: "?x"}]] * rng.randint(1, 2) + [["V", "K", {f: "?x"}]]},
                 {"head": "E", "hfs": {f: DOM[0]}, "body": []}, {"head": "E", "hfs": {f: DOM[1]}, "body": []},
                 {"head": "K", "hfs": {f: DOM[0]}, "body": [["T", ts[0], {}]]}, {"head": "K", "hfs": {f: DOM[1]}, "body": [["T", ts[-1], {}]] * rng.randint(1, 2)}]
        rng.shuffle(extra)
        prods = prods + extra
        profile += "+nullable-agreement"
    if rng.random() < 0.2:
        # the same constituent with a shared unknown (N and P are one variable) and with two specific, different values; the continuation needs the latter
        for v in ("X1", "Y1"):
            if v not in vs:
                vs.append(v)
        ts = base["terms"]
        v1, v2 = (DOM[0], DOM[1]) if rng.random() < 0.5 else (DOM[1], DOM[0])
        extra = [{"head": base["start"], "hfs": {}, "body": [["V", "X1", {"N": "?a", "P": "?b"}], ["V", "Y1", {"N": "?a", "P": "?b"}]]},
                 {"head": "X1", "hfs": {"N": "?c", "P": "?c"}, "body": [["T", ts[0], {}]]},
                 {"head": "X1", "hfs": {"N": v1, "P": v2}, "body": [["T", ts[0], {}]]},
                 {"head": "Y1", "hfs": {"N": v1, "P": v2}, "body": [["T", ts[-1], {}]]}]
        rng.shuffle(extra)
        prods = (extra + prods) if rng.random() < 0.5 else (prods + extra)
        profile += "+shared-unknown-vs-specific"
    # a first constituent with a specific and an unbound analysis over the same word, predicted while the agreement variable is still
    # unbound; the second constituent needs the other value. (Own generator seeded from the grammar drawn so far: the random stream of the
    # other families is unchanged.)
    r2 = random.Random("first-unbound|" + json.dumps(prods, sort_keys=True))
    if r2.random() < 0.3 or force == "specific/general":
        f = r2.choice(FEATS)
        val, other = r2.sample(DOM, 2)
        for v in ("X2", "Y2"):
            if v not in vs:
                vs.append(v)
        ts = base["terms"]
        nested2 = r2.random() < 0.5
        extra = [{"head": base["start"], "hfs": {}, "body": [["V", "X2", {f: "?a"}], ["V", "Y2", {f: "?a"}]], "nested": nested2},
                 {"head": "X2", "hfs": {f: val}, "body": [["T", ts[0], {}]], "nested": nested2},
                 {"head": "X2", "hfs": {f: "?z"}, "body": [["T", ts[0], {}]], "nested": nested2},
                 {"head": "Y2", "hfs": {f: other}, "body": [["T", ts[-1], {}]], "nested": nested2}]
        r2.shuffle(extra)
        prods = (extra + prods) if r2.random() < 0.5 else (prods + extra)
        profile += "+first-unbound-vs-specific"
    return {"vars": vs, "terms": base["terms"], "start": base["start"], "fprods": prods, "profile": profile, "prods": base["prods"]}


def instantiate(fg):
    """The plain grammar: nonterminals (X, total assignment); a fresh start symbol derives every instance of the start variable."""
    def name(x, asg):
        return "%s|%s" % (x, "|".join("%s=%s" % (f, asg[f]) for f in FEATS))
    prods = []
    for asg in itertools.product(DOM, repeat=len(FEATS)):
        prods.append(["START", [["V", name(fg["start"], dict(zip(FEATS, asg)))]]])
    for p in fg["fprods"]:
        pv = sorted({v for fs in [p["hfs"]] + [b[2] for b in p["body"]] for v in fs.values() if v.startswith("?")})
        occ = [("h", p["hfs"])] + [(i, b[2]) for i, b in enumerate(p["body"]) if b[0] == "V"]
        free = [(o, f) for o, fs in occ for f in FEATS if f not in fs]
        for sigma in itertools.product(DOM, repeat=len(pv)):
            env = dict(zip(pv, sigma))
            for comp in itertools.product(DOM, repeat=len(free)):
                fr = dict(zip(free, comp))

                def full(o, fs):
                    return {f: (env[fs[f]] if fs.get(f, "").startswith("?") else fs[f]) if f in fs else fr[(o, f)] for f in FEATS}
                body = []
                for i, b in enumerate(p["body"]):
                    body.append(["V", name(b[1], full(i, b[2]))] if b[0] == "V" else ["T", b[1]])
                prods.append([name(p["head"], full("h", p["hfs"])), body])
    return cfglib.normalise({"vars": [], "terms": fg["terms"], "start": "START", "prods": prods})


def fg_text(fg):
    def sym(k, v, fs, nested=False):
        if k == "T":
            return v
        if nested and fs:      # one feature, wrapped in a structure-valued feature AGR: AGR=[N=u] / AGR=?x
            (f, x), = fs.items()
            return v + ("[AGR=%s]" % x if x.startswith("?") else "[AGR=[%s=%s]]" % (f, x))
        return v + ("[" + ",".join("%s=%s" % (f, x) for f, x in fs.items()) + "]" if fs else "")
    lines = []
    for p in fg["fprods"]:
        body = " ".join(sym(*b, nested=p.get("nested", False)) for b in p["body"]) or "$"
        lines.append(sym("V", p["head"], p["hfs"], nested=p.get("nested", False)) + " -> " + body)
    return "\n".join(lines)


def rand_fs(rng, depth=2):
    """tree-shaped feature structure as nested dict {feature: value-string | dict}; leaves may be unspecified (None)"""
    out = {}
    for f in rng.sample(["a", "b", "c"], rng.randint(1, 3)):
        if depth > 0 and rng.random() < 0.35:
            out[f] = rand_fs(rng, depth - 1)
        else:
            out[f] = rng.choice([None, "1", "2", "3", 0, ""])
    return out


def generate(ctx):
    n = 300 if ctx.tier == "quick" else 4000
    rng = ctx.rng
    cases = []
    for i in range(n):
        k = i % 4
        if k == 3:
            def flat():
                nodes = [rng.choice([None, None, "1", "2", 0]) for _ in range(rng.randint(1, 3))]
                feats = {f: rng.randrange(len(nodes)) for f in rng.sample(["a", "b", "c", "d"], rng.randint(1, 4))}
                return {"feats": feats, "nodes": nodes}
            cases.append({"op": "unify_shared", "g": {"profile": "fs-shared", "prods": [], "terms": []}, "a": flat(), "b": flat(), "c": flat()})
        elif k == 0:
            g = cfglib.rand_cfg(rng, profile=rng.choice(["plain", "eps", "recursive", "unit", "cnf"]), max_vars=3, max_prods=6, max_body=3)
            cases.append({"op": "plain_fcfg", "g": g, "words": cfglib.words_upto(g["terms"], 3 if len(g["terms"]) < 3 else 2) + cfglib.sample_words(g, rng, n=5, maxlen=5)})
        elif k == 1:
            # every third feature grammar carries the specific / under-specified ambiguity over one span (nested values), in a random rule order
            fg = rand_feature_grammar(rng, force="specific/general" if i % 12 == 1 else None)
            cases.append({"op": "feature_fcfg", "g": fg, "fg": fg, "words": cfglib.words_upto(fg["terms"], 3 if len(fg["terms"]) < 3 else 2)})
        else:
            a, b = rand_fs(rng), rand_fs(rng)
            cases.append({"op": "unify", "g": {"profile": "fs", "prods": [], "terms": []}, "a": a, "b": b})
    return cases


def _mk_fs(d):
    from pyformlang.fcfg.feature_structure import FeatureStructure
    fs = FeatureStructure()
    for f, v in d.items():
        if isinstance(v, dict):
            fs.add_content(f, _mk_fs(v))
        else:
            fs.add_content(f, FeatureStructure(v))
    return fs


def _read_fs(fs):
    out = []
    for path in fs.get_all_paths():
        if path:
            out.append([path, fs.get_feature_by_path(path).value])
    return sorted(out)


def _mk_flat(d):
    from pyformlang.fcfg.feature_structure import FeatureStructure
    nodes = [FeatureStructure(v) for v in d["nodes"]]
    fs = FeatureStructure()
    for f, n in d["feats"].items():
        fs.add_content(f, nodes[n])
    return fs


def _read_flat(fs):
    groups = {}
    vals = {}
    for f in fs.content:
        node = fs.get_feature_by_path([f]).get_dereferenced()
        groups.setdefault(id(node), []).append(f)
        vals[f] = node.value
    return sorted([f, sorted(groups[id(fs.get_feature_by_path([f]).get_dereferenced())]), vals[f]] for f in fs.content)


def impl(case):
    from pyformlang.cfg import Terminal, Variable
    from pyformlang.cfg.cfg import NotParsableException
    from pyformlang.fcfg import FCFG, FeatureProduction, FeatureStructure
    from pyformlang.fcfg.feature_structure import FeatureStructuresNotCompatibleException
    op = case["op"]
    if op == "unify_shared":
        res = {}
        for name, (x, y) in (("ab", (case["a"], case["b"])), ("ba", (case["b"], case["a"]))):
            fx, fy = _mk_flat(x), _mk_flat(y)
            try:
                fx.unify(fy)
                res[name] = {"flat": _read_flat(fx)}
                fz = _mk_flat(case["c"])
                try:
                    fx.unify(fz)
                    res[name]["then_c"] = _read_flat(fx)
                except FeatureStructuresNotCompatibleException:
                    res[name]["then_c"] = "failed"
            except FeatureStructuresNotCompatibleException:
                res[name] = {"failed": True}
        return res
    if op == "unify":
        res = {}
        for name, (x, y) in (("ab", (case["a"], case["b"])), ("ba", (case["b"], case["a"]))):
            fx, fy = _mk_fs(x), _mk_fs(y)
            try:
                fx.unify(fy)
                res[name] = {"paths": _read_fs(fx)}
            except FeatureStructuresNotCompatibleException:
                res[name] = {"failed": True}
        return res
    if op == "plain_fcfg":
        g = case["g"]
        prods = [FeatureProduction(Variable(h), [Variable(v) if k == "V" else Terminal(v) for k, v in b], FeatureStructure(), [FeatureStructure() for _ in b])
                 for h, b in g["prods"]]
        f = FCFG({Variable(v) for v in g["vars"]}, {Terminal(t) for t in g["terms"]}, Variable(g["start"]), set(prods))
    else:
        f = FCFG.from_text(fg_text(case["fg"]), Variable(case["fg"]["start"]))
    res = []
    for w in case["words"]:
        r = {"contains": bool(f.contains([Terminal(a) for a in w]))}
        if op == "plain_fcfg":
            try:
                r["tree"] = _tree(f.get_parse_tree([Terminal(a) for a in w]))
            except NotParsableException:
                r["refused"] = True
        res.append(r)
    return {"results": res}


def _coq_fs(d, fi, vi):
    kids = []
    for f, v in d.items():
        if isinstance(v, dict):
            kids.append("(%d, %s)" % (fi(f), _coq_fs(v, fi, vi)))
        else:
            kids.append("(%d, FS %s [])" % (fi(f), "None" if v is None else "(Some %d)" % vi(v)))
    return "(FS None [%s])" % "; ".join(kids)


def _coq_flat(d, fi, vi):
    feats = "; ".join("(%d, %d%%nat)" % (fi(f), n) for f, n in d["feats"].items())
    vals = "; ".join("(%d%%nat, %s)" % (i, "None" if v is None else "(Some %d)" % vi(v)) for i, v in enumerate(d["nodes"]))
    return "(mkFlat [%s] [%s])" % (feats, vals)


class _Ext:
    @staticmethod
    def coq_expr(case, obs):
        op = case["op"]
        if op == "unify_shared":
            fi, vi = Interner(), Interner()
            for f in "abcd":
                fi(f)
            A, B = _coq_flat(case["a"], fi, vi), _coq_flat(case["b"], fi, vi)
            return "(unify_flat %s %s, unify_flat %s %s)" % (A, B, B, A)
        if op == "unify":
            fi, vi = Interner(), Interner()
            A, B = _coq_fs(case["a"], fi, vi), _coq_fs(case["b"], fi, vi)
            return "(option_map (paths 10%%nat) (unify 10%%nat %s %s), option_map (paths 10%%nat) (unify 10%%nat %s %s))" % (A, B, B, A)
        ci = CfgInterner()
        G = coq_cfg(case["g"] if op == "plain_fcfg" else instantiate(case["fg"]), ci)
        items = []
        for w, r in zip(case["words"], obs["results"]):
            cw = cq([ci.ter(a) for a in w])
            t = "Some (tree_judge %s %s %s)" % (G, _coq_tree(r["tree"], ci), cw) if "tree" in r else "@None (bool * bool * bool)"
            items.append("(cfg_member %s %s, %s)" % (G, cw, t))
        return "[" + "; ".join(items) + "]"

    @staticmethod
    def judge_case(ctx, case, obs, mv):
        op = case["op"]
        if "timeout" in obs and op in ("feature_fcfg", "plain_fcfg"):
            # pyformlang's Earley loop is exponential on highly ambiguous nullable grammars: a case that does not finish even with the
            # enlarged retry budget is counted and skipped, not judged
            ctx.dist[op + ":impl-timeout(skipped)"] += 1
            return
        if "timeout" in obs or "exc" in obs:
            ctx.fail(op + "-exception", case, {"impl": obs})
            return
        if op == "unify_shared":
            ctx.count(2)
            fi, vi = Interner(), Interner()
            for f in "abcd":
                fi(f)
            _coq_flat(case["a"], fi, vi), _coq_flat(case["b"], fi, vi)
            for name, m in (("ab", mv[0]), ("ba", mv[1])):
                o = obs[name]
                if m is None:
                    if "failed" not in o:
                        ctx.fail("unify-accepts-conflict", case, {"order": name, "impl": o})
                        return
                    continue
                if "failed" in o:
                    ctx.fail("unify-rejects-compatible", case, {"order": name})
                    return
                want = sorted([fi.vals[f], sorted(fi.vals[g] for g in grp), None if v is None else vi.vals[v[1]]] for f, grp, v in m[1])
                if want != o["flat"]:
                    ctx.fail("unify-result-sharing", case, {"order": name, "impl": o["flat"], "model": want})
                    return
            if ("failed" in obs["ab"]) != ("failed" in obs["ba"]) or obs["ab"].get("flat") != obs["ba"].get("flat") or obs["ab"].get("then_c") != obs["ba"].get("then_c"):
                ctx.fail("unify-asymmetric", case, {"ab": obs["ab"], "ba": obs["ba"]})
            return
        if op == "unify":
            ctx.count(2)

            def typed(x, y):       # hypotheses wt / ct of C18_unify_glb: no atomic value facing a complex node along a shared path
                if isinstance(x, dict) and isinstance(y, dict):
                    return all(typed(x[f], y[f]) for f in x if f in y)
                if isinstance(x, dict) or isinstance(y, dict):
                    return (y if isinstance(x, dict) else x) is None
                return True
            ctx.dist["unify:consistently-typed (hypotheses of C18_unify_glb hold)" if typed(case["a"], case["b"]) else "unify:atomic value facing a complex node"] += 1
            fi, vi = Interner(), Interner()
            _coq_fs(case["a"], fi, vi), _coq_fs(case["b"], fi, vi)
            for name, m in (("ab", mv[0]), ("ba", mv[1])):
                o = obs[name]
                if m is None:
                    if "failed" not in o:
                        ctx.fail("unify-accepts-conflict", case, {"order": name, "impl": o})
                        return
                    continue
                if "failed" in o:
                    ctx.fail("unify-rejects-compatible", case, {"order": name})
                    return
                want = sorted([[fi.vals[f] for f in p], None if v is None else vi.vals[v[1]]] for p, v in m[1])
                if want != o["paths"]:
                    ctx.fail("unify-result", case, {"order": name, "impl": o["paths"], "model": want})
                    return
            if ("failed" in obs["ab"]) != ("failed" in obs["ba"]) or obs["ab"].get("paths") != obs["ba"].get("paths"):
                ctx.fail("unify-asymmetric", case, {"ab": obs["ab"], "ba": obs["ba"]})
            return
        for w, r, (member, chk) in zip(case["words"], obs["results"], mv):
            ctx.count(1)
            if r["contains"] != member:
                ctx.fail(op + "-contains", case, {"word": w, "impl": r["contains"], "member": member})
                return
            if op == "plain_fcfg":
                if ("tree" in r) != member:
                    ctx.fail(op + "-parse-tree-verdict", case, {"word": w, "member": member})
                    return
                if "tree" in r and not all(chk[1]):
                    ctx.fail(op + "-invalid-tree", case, {"word": w, "tree": r["tree"], "valid,yield,root": list(chk[1])})
                    return


def check_cases(ctx, cases):
    cfg_engine.check_cases(ctx, "c18", cases, ext=_Ext)


def shrink_candidates(case):
    if case["op"] == "plain_fcfg":
        for c in cfg_engine.shrink_candidates(case):
            yield c
        for i in range(len(case["words"])):
            yield dict(case, words=case["words"][:i] + case["words"][i + 1:])
    elif case["op"] == "feature_fcfg":
        fg = case["fg"]
        for i in range(len(fg["fprods"])):
            fg2 = dict(fg, fprods=fg["fprods"][:i] + fg["fprods"][i + 1:])
            yield dict(case, fg=fg2, g=fg2)
