"""C16 — FST translation is the transduction relation; FST operations compose relations."""
import falib
import fstlib
from common import cq, chunks
from props._fa_common import TRUSTED, ASSUMPTIONS, TECHNIQUE

PROP = "C16"
LEVEL = "proof"
THEOREMS = {"Properties.C16": ["C16_translate", "C16_union", "C16_concatenate", "C16_kleene_star", "C16_to_fst", "C16_translate_total"]}
LEVEL_TEXT = ("Proof + correspondence: the model of translate (exploration of (remaining input, output, state), mirrored up to set-iteration order) is "
              "proved to return exactly the outputs related to the input word, for all transducers and words whenever the exploration terminates (it does "
              "when epsilon cycles write nothing). The mirrored union / concatenate / kleene_star (tagged copies, bridge epsilon moves, fresh start=final "
              "state) and to_fst are proved to have exactly the union, the pairwise concatenation, the Kleene star of the operand relations and the "
              "identity on the automaton's language, for all operands. The transducers pyformlang returns are compared with the models by translating "
              "every input word up to a bound with the proved translate, and pyformlang's own translate output with both.")
LEVEL_NOTE = ("Trusted: Coq kernel; hand-written model validated by correspondence (pyformlang renames states by suffixing an index, the model tags "
              "them; equality of the returned transducer's relation with the model's is checked on bounded inputs only); Python harness. Not proved: "
              "termination of translate when epsilon cycles are silent.")
RULE = ("random FSTs (1-4 states, <= 8 transitions, outputs of length 0-2, several start/final states, epsilon-input moves incl. output-free epsilon cycles, "
        "re-entered start states, final states with outgoing edges, operands sharing state names) x all input words up to length 3|4; outputs compared as sets")
EXPLANATION = "translate proved exact; operations compared with reference constructions on bounded inputs."

OPS = ["translate", "translate", "union", "concatenate", "kleene_star", "to_fst", "nested_star"]


def generate(ctx):
    n = 360 if ctx.tier == "quick" else 5000
    rng = ctx.rng
    cases = []
    for i in range(n):
        op = OPS[i % len(OPS)]
        c = {"op": op, "maxlen": 3 if ctx.tier == "quick" else 4, "operator": rng.random() < 0.3}
        if op == "to_fst":
            c["fa"] = falib.rand_fa(rng, names="plain", max_states=3, max_syms=2)
        elif op == "nested_star":       # ((A* . B)* . C)*: three fresh start/final states are needed, each time on a transducer that already has some
            def silent(f):
                return dict(f, trans=[[s, a, t, ([] if a is None else o)] for s, a, t, o in f["trans"]])
            c["f"], c["f2"], c["f3"] = (silent(fstlib.rand_fst(rng, max_states=2, max_trans=3)) for _ in range(3))
            c["maxlen"] = 2
        else:
            c["f"] = fstlib.rand_fst(rng)
            if op == "kleene_star":     # the star of a relation containing (empty, non-empty) is infinite on every input: keep epsilon moves silent
                c["f"] = dict(c["f"], trans=[[s, a, t, ([] if a is None else o)] for s, a, t, o in c["f"]["trans"]])
            if op in ("union", "concatenate"):
                c["f2"] = fstlib.rand_fst(rng, shared_prefix="" if rng.random() < 0.7 else "t")
                if rng.random() < 0.5:       # names that collide with the renaming scheme (s0 -> s00, s1 -> s10)
                    f2 = fstlib.rand_fst(rng)
                    k = rng.choice([0, 1]) if len(f2["states"]) > 1 else 0
                    extra = "s%d0" % k
                    f2 = dict(f2, states=f2["states"] + [extra],
                              trans=f2["trans"] + [[extra, rng.choice(["a", "b"]), rng.choice(f2["states"]), [rng.choice(["x", "y"])]],
                                                   [rng.choice(f2["states"]), rng.choice(["a", "b"]), extra, [rng.choice(["x", "y"])]]],
                              starts=f2["starts"] + ([extra] if rng.random() < 0.5 else []),
                              finals=f2["finals"] + ([extra] if rng.random() < 0.5 else []))
                    c["f2"] = f2
        cases.append(c)
    return cases


def _words(case):
    return falib.words_upto(["a", "b"], case["maxlen"])


def impl(case):
    op = case["op"]
    if op == "to_fst":
        fa = falib.build_fa(case["fa"])
        res = fa.to_fst()
    else:
        f = fstlib.build_fst(case["f"])
        if op == "translate":
            res = f
        elif op == "union":
            g = fstlib.build_fst(case["f2"])
            res = (f | g) if case.get("operator") else f.union(g)
        elif op == "concatenate":
            g = fstlib.build_fst(case["f2"])
            res = (f + g) if case.get("operator") else f.concatenate(g)
        elif op == "nested_star":
            g, h = fstlib.build_fst(case["f2"]), fstlib.build_fst(case["f3"])
            res = ((f.kleene_star() + g).kleene_star() + h).kleene_star()
        else:
            res = f.kleene_star()
    outs = []
    for w in _words(case):
        outs.append([[fstlib._v(x) for x in o] for o in res.translate(list(w))])
    return {"fst": fstlib.extract_fst(res), "outs": outs}


def _model(case, sym):
    op = case["op"]
    if op == "to_fst":
        return "(enfa_to_fst %s)" % falib.coq_enfa(case["fa"], sym)
    F = fstlib.coq_fst(case["f"], sym)
    if op == "translate":
        return F
    if op == "kleene_star":
        return "(fst_star %s)" % F
    if op == "nested_star":
        return "(fst_star (fst_concat (fst_star (fst_concat (fst_star %s) %s)) %s))" % (F, fstlib.coq_fst(case["f2"], sym), fstlib.coq_fst(case["f3"], sym))
    G = fstlib.coq_fst(case["f2"], sym)
    return "(%s %s %s)" % ({"union": "fst_union", "concatenate": "fst_concat"}[op], F, G)


def check_cases(ctx, cases):
    obs = ctx.impl("c16", cases)
    parts = chunks(list(range(len(cases))), 16)
    srcs, idxs = [], []
    for part in parts:
        lines, keep = [], []
        for i in part:
            if "outs" not in obs[i]:
                continue
            sym = falib.Interner()
            M = _model(cases[i], sym)
            R = fstlib.coq_fst(obs[i]["fst"], sym)
            ws = cq([[sym(a) for a in w] for w in _words(cases[i])])
            lines.append("Eval vm_compute in (map (translate TFUEL %s) %s, map (translate TFUEL %s) %s)." % (M, ws, R, ws))
            keep.append(i)
        srcs.append("From PFL Require Import Eval.FA.\n" + "\n".join(lines) + "\n")
        idxs.append(keep)
    outs = ctx.coq(srcs)
    mvs = {}
    for keep, vals in zip(idxs, outs):
        for i, v in zip(keep, vals):
            mvs[i] = v
    for i, c in enumerate(cases):
        ctx.dist[c["op"]] += 1
        o = obs[i]
        spec = c.get("f") or c.get("fa")
        if len(spec["trans"]) >= 2:
            ctx.nontriv([c["op"], c.get("f"), c.get("f2"), c.get("fa")])
        if i % 37 == 0:
            ctx.sample({"op": c["op"], "f": c.get("f"), "f2": c.get("f2"), "fa": c.get("fa")})
        if "timeout" in o or "exc" in o:
            ctx.fail(c["op"] + "-exception", c, {"impl": o})
            continue
        sym = falib.Interner()
        _model(c, sym)
        fstlib.coq_fst(o["fst"], sym)
        ws = _words(c)
        for w in ws:
            for a in w:
                sym(a)
        mref, mres = mvs[i]
        ctx.count(len(ws))
        for w, got, r1, r2 in zip(ws, o["outs"], mref, mres):
            if r1 is None or r2 is None:
                ctx.notes.append("fuel exhausted on a %s case (skipped word)" % c["op"])
                continue
            want = sorted(set(tuple(x) for x in r1[1]))
            have = sorted(set(tuple(sym(a) for a in x) for x in got))
            own = sorted(set(tuple(x) for x in r2[1]))
            if have != own:
                ctx.fail("translate", c, {"word": w, "impl_outputs": got, "note": "translate() on the returned transducer differs from the relation of its own transitions"})
                break
            if own != want:
                ctx.fail(c["op"] + "-relation", c, {"word": w, "impl_outputs": got, "impl_fst": o["fst"]})
                break


def shrink_candidates(case):
    for key in ("f", "f2", "f3"):
        if key in case:
            f = case[key]
            for i in range(len(f["trans"])):
                yield dict(case, **{key: dict(f, trans=f["trans"][:i] + f["trans"][i + 1:])})
    if case.get("maxlen", 0) > 1:
        yield dict(case, maxlen=case["maxlen"] - 1)
