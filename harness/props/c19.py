"""C19 — objects behave as values: answers never depend on call history or aliasing."""
import json
import cfglib
import falib
import fstlib
import iglib
import pdalib
from common import chunks

PROP = "C19"
LEVEL = "other"
THEOREMS = {"Properties.C19": ["C19_cache_transparent"]}
LEVEL_TEXT = ("Partial + exploration: a Coq state-machine model of a memoising object (caches filled on first use, every answer equal to the pure function of "
              "the object) is proved history-independent for all call sequences; it is tied to the code by the history correspondence below, not derived from it. "
              "The search leg replays random histories of public calls (queries, conversions, conversions of conversions, the same object as both operands, "
              "mutation of returned objects, repeated calls) on automata, regexes, grammars, PDAs, transducers and indexed grammars and compares every answer "
              "with the same call on a freshly built equal object, plus structural snapshots of the operands before and after every call. This part is "
              "exploration (testing), reported as such.")
LEVEL_NOTE = "Trusted: Coq kernel for the small cache model; Python harness for the history exploration, whose coverage is what the evidence counts."
RULE = ("random histories (6-12 calls quick, up to 30 thorough) drawn from ~45 public queries and conversions on six kinds of objects, interleaved with mutations of "
        "returned objects, plus scripted histories (cache-filling query, conversion, mutation of the result, query) for grammars, automata and regexes; every answer compared with the same call on a fresh equal object; operands snapshotted before/after; non-trivial = history with at least "
        "one conversion followed by a query")
EXPLANATION = "History replay against fresh equal objects (exploration) + proved cache-transparency of the memoisation model."
TRUSTED = ["Coq 8.16.1 kernel (cache model)", "Python harness: history generator, canonical observers through the public API"]
ASSUMPTIONS = ["observables are canonical extractions through public accessors; generated names inside results are compared structurally, and semantically (contains on a fixed word list) for conversions whose numbering may legitimately vary",
               "exploration, not proof, for the actual classes"]
TECHNIQUE = "Rocq/Coq proof for a memoisation state-machine model + history exploration against fresh equal objects"

WORDS = falib.words_upto(["a", "b"], 3)


# ---- observers: canonical, JSON-able views -------------------------------------------------
def _obs(x):
    from pyformlang.finite_automaton import FiniteAutomaton
    from pyformlang.cfg import CFG
    from pyformlang.pda import PDA
    from pyformlang.fst import FST
    from pyformlang.regular_expression import Regex
    from pyformlang.indexed_grammar import IndexedGrammar
    if isinstance(x, bool) or x is None or isinstance(x, (int, str)):
        return x
    if isinstance(x, FiniteAutomaton):
        return {"fa": falib.extract_fa(x)}
    if isinstance(x, Regex):
        return {"regex_accepts": [bool(x.accepts(w)) for w in WORDS]}
    if isinstance(x, CFG):
        return {"cfg": cfglib.extract_cfg(x)}
    if isinstance(x, PDA):
        return {"pda": pdalib.extract_pda(x)}
    if isinstance(x, FST):
        return {"fst": fstlib.extract_fst(x)}
    if isinstance(x, IndexedGrammar):
        return {"ig": sorted(map(json.dumps, iglib.extract_rules(x)))}
    if isinstance(x, (set, frozenset)):
        return sorted((json.dumps(_obs(y), sort_keys=True, default=str) for y in x))
    if isinstance(x, (list, tuple)):
        return [_obs(y) for y in x]
    if hasattr(x, "value"):
        return ["obj", type(x).__name__, str(x.value)]
    return str(type(x).__name__)


def _sem(x):
    """semantic observer for conversions whose internal numbering may vary: membership on fixed words"""
    from pyformlang.cfg import CFG, Terminal
    from pyformlang.finite_automaton import FiniteAutomaton
    if isinstance(x, FiniteAutomaton):      # state numbering of Regex automata continues a per-object counter: compare up to renaming
        return {"fa_accepts": [bool(x.accepts(w)) for w in WORDS], "nstates": len(x.states), "ntrans": x.get_number_transitions()}
    if isinstance(x, CFG):
        return {"cfg_contains": [bool(x.contains([Terminal(a) for a in w])) for w in WORDS], "nprods": len(x.productions)}
    return _obs(x)


def _mutate(x, rng_bits):
    """a visible mutation of a returned object through its public API"""
    from pyformlang.finite_automaton import FiniteAutomaton
    from pyformlang.pda import PDA
    from pyformlang.fst import FST
    if isinstance(x, FiniteAutomaton):
        try:
            x.add_transition("mut_q", "a", "mut_r")
            x.add_final_state("mut_r")
            for s in list(x.states):
                x.add_final_state(s)
        except Exception:
            pass
    elif isinstance(x, PDA):
        x.add_transition("mut_q", "a", "mut_Z", "mut_r", [])
        x.add_final_state("mut_r")
    elif isinstance(x, FST):
        x.add_transition("mut_q", "a", "mut_r", ["mut"])
        x.add_final_state("mut_r")


# ---- operations per kind: name -> (callable(obj, other) -> value, observer) ------------------
def _fa_ops():
    T = lambda w: w
    return {
        "accepts_a": lambda o, p: o.accepts(["a"]), "accepts_ab": lambda o, p: o.accepts(["a", "b"]), "accepts_eps": lambda o, p: o.accepts([]),
        "is_empty": lambda o, p: o.is_empty(), "is_deterministic": lambda o, p: o.is_deterministic(), "is_acyclic": lambda o, p: o.is_acyclic(),
        "to_deterministic": lambda o, p: o.to_deterministic(), "minimize": lambda o, p: o.minimize(),
        "remove_epsilon_transitions": lambda o, p: o.remove_epsilon_transitions(), "get_complement": lambda o, p: o.get_complement(),
        "reverse": lambda o, p: o.reverse(), "copy": lambda o, p: o.copy(), "to_regex": lambda o, p: o.to_regex(),
        "self_intersection": lambda o, p: o.get_intersection(o), "intersection": lambda o, p: o.get_intersection(p),
        "difference": lambda o, p: o.get_difference(p), "self_difference": lambda o, p: o.get_difference(o),
        "union": lambda o, p: o.union(p), "concatenate": lambda o, p: o.concatenate(p), "kleene_star": lambda o, p: o.kleene_star(),
        "is_equivalent_to": lambda o, p: o.is_equivalent_to(p), "self_equivalent": lambda o, p: o.is_equivalent_to(o),
        "words2": lambda o, p: sorted(tuple(str(s) for s in w) for w in o.get_accepted_words(2)), "to_fst": lambda o, p: o.to_fst(),
        "n_transitions": lambda o, p: o.get_number_transitions(),
    }


def _regex_ops():
    return {
        "accepts_a": lambda o, p: o.accepts(["a"]), "accepts_ab": lambda o, p: o.accepts(["a", "b"]), "accepts_b": lambda o, p: o.accepts(["b"]),
        "to_epsilon_nfa": lambda o, p: o.to_epsilon_nfa(), "to_cfg": lambda o, p: o.to_cfg(), "str": lambda o, p: str(o),
        "union": lambda o, p: o.union(p), "concatenate": lambda o, p: o.concatenate(p), "kleene_star": lambda o, p: o.kleene_star(),
        "self_union": lambda o, p: o.union(o), "other_accepts_b": lambda o, p: p.accepts(["b"]), "other_accepts_a": lambda o, p: p.accepts(["a"]),
        "n_symbols": lambda o, p: o.get_number_symbols(), "accepts_eps": lambda o, p: o.accepts([]),
    }


def _cfg_ops():
    from pyformlang.cfg import Terminal
    w = lambda *xs: [Terminal(x) for x in xs]
    return {
        "contains_eps": lambda o, p: o.contains([]), "contains_a": lambda o, p: o.contains(w("a")), "contains_ab": lambda o, p: o.contains(w("a", "b")),
        "contains_ba": lambda o, p: o.contains(w("b", "a")), "is_empty": lambda o, p: o.is_empty(), "is_finite": lambda o, p: o.is_finite(),
        "generating": lambda o, p: o.get_generating_symbols(), "nullable": lambda o, p: o.get_nullable_symbols(), "reachable": lambda o, p: o.get_reachable_symbols(),
        "generate_epsilon": lambda o, p: o.generate_epsilon(), "to_normal_form": lambda o, p: o.to_normal_form(),
        "remove_useless_symbols": lambda o, p: o.remove_useless_symbols(), "remove_epsilon": lambda o, p: o.remove_epsilon(),
        "eliminate_unit_productions": lambda o, p: o.eliminate_unit_productions(), "reverse": lambda o, p: o.reverse(),
        "union": lambda o, p: o.union(p), "self_union": lambda o, p: o.union(o), "concatenate": lambda o, p: o.concatenate(p),
        "get_closure": lambda o, p: o.get_closure(), "to_pda": lambda o, p: o.to_pda(), "words2": lambda o, p: sorted(tuple(str(s.value) for s in x) for x in o.get_words(2)),
        "to_text": lambda o, p: sorted(o.to_text().splitlines()), "unit_pairs": lambda o, p: o.get_unit_pairs(),
        "pda_roundtrip": lambda o, p: o.to_pda().to_cfg(),
    }


def _pda_ops():
    return {
        "to_cfg": lambda o, p: o.to_cfg(), "to_final_state": lambda o, p: o.to_final_state(), "to_empty_stack": lambda o, p: o.to_empty_stack(),
        "twice": lambda o, p: o.to_final_state().to_empty_stack(), "n_transitions": lambda o, p: o.get_number_transitions(),
        "snapshot": lambda o, p: pdalib.extract_pda(o),
    }


def _fst_ops():
    return {
        "translate_a": lambda o, p: sorted(map(tuple, o.translate(["a"]))), "translate_ab": lambda o, p: sorted(map(tuple, o.translate(["a", "b"]))),
        "translate_eps": lambda o, p: sorted(map(tuple, o.translate([]))), "union": lambda o, p: o.union(p), "self_union": lambda o, p: o.union(o),
        "concatenate": lambda o, p: o.concatenate(p), "n_transitions": lambda o, p: o.get_number_transitions(),
    }


def _ig_ops():
    return {"is_empty": lambda o, p: o.is_empty(), "remove_useless_rules": lambda o, p: o.remove_useless_rules(), "bool": lambda o, p: bool(o),
            "reachable": lambda o, p: o.get_reachable_non_terminals(), "generating": lambda o, p: o.get_generating_non_terminals()}


KINDS = {"fa": _fa_ops, "regex": _regex_ops, "cfg": _cfg_ops, "pda": _pda_ops, "fst": _fst_ops, "ig": _ig_ops}
SEMANTIC = {("cfg", "pda_roundtrip"), ("pda", "to_cfg"), ("regex", "to_cfg"), ("regex", "to_epsilon_nfa")}
REGEXES = ["a", "a|b", "a b", "(a|b)*", "a* b", "b", "a b|b a", "(a b)*"]


def _build(kind, spec):
    from pyformlang.regular_expression import Regex
    if kind == "fa":
        return falib.build_fa(spec)
    if kind == "regex":
        return Regex(spec)
    if kind == "cfg":
        return cfglib.build_cfg(spec)
    if kind == "pda":
        return pdalib.build_pda(spec)
    if kind == "fst":
        return fstlib.build_fst(spec)
    return iglib.build_ig(spec["rules"], 7)


def generate(ctx):
    n = 260 if ctx.tier == "quick" else 3000
    rng = ctx.rng
    cases = []
    for i in range(n):
        kind = ["fa", "regex", "cfg", "cfg", "pda", "fst", "ig", "fa"][i % 8]
        def spec():
            if kind == "fa":
                return falib.rand_fa(rng, names="plain", max_states=3, max_syms=2)
            if kind == "regex":
                return rng.choice(REGEXES)
            if kind == "cfg":
                return cfglib.rand_cfg(rng, max_vars=3, max_prods=5, max_body=3)
            if kind == "pda":
                return pdalib.rand_pda(rng, max_states=2, max_stack=2, max_trans=4)
            if kind == "fst":
                return fstlib.rand_fst(rng, max_states=3, max_trans=5)
            return iglib.rand_ig(rng, max_nt=3, max_rules=6)
        ops = sorted(n for n in KINDS[kind]() if not (kind == "regex" and n == "accepts_eps"))   # (scripted histories only: keeps the random stream)
        k = rng.randint(6, 12) if ctx.tier == "quick" else rng.randint(8, 30)
        # (subject: 0 = x, j > 0 = the object returned by step j-1 when it is of the same kind; op; mutate the returned object afterwards)
        hist = [[rng.choice([0, 0, 1, 2, 3]) , rng.choice(ops), rng.random() < 0.25] for _ in range(k)]
        cases.append({"op": "history", "kind": kind, "x": spec(), "y": spec(), "hist": hist})
    # scripted histories: [query that may fill a cache] -> [conversion of x] -> [query on the returned object] -> [query on x]
    scripts = {
        "cfg": (["is_empty", "contains_ab", "to_normal_form", "nullable", "generating"],
                ["remove_epsilon", "remove_useless_symbols", "eliminate_unit_productions", "to_normal_form", "reverse", "union", "concatenate", "get_closure"],
                ["is_empty", "generating", "nullable", "contains_eps", "contains_a", "contains_ab", "contains_ba", "words2", "is_finite", "remove_useless_symbols"]),
        "fa": (["accepts_ab", "is_empty", "to_deterministic", "minimize"],
               ["to_deterministic", "minimize", "remove_epsilon_transitions", "get_complement", "reverse", "copy"],
               ["accepts_a", "accepts_ab", "accepts_eps", "is_empty", "is_deterministic", "words2", "minimize", "self_equivalent"]),
    }
    ng = 10 if ctx.tier == "quick" else 80
    for gi in range(ng):
        for kind in ("cfg", "fa"):
            fill, conv, query = scripts[kind]
            if kind == "cfg":
                x = cfglib.rand_cfg(rng, profile=rng.choice(["eps", "epsonly", "epsonly", "unit", "useless", "plain", "recursive"]), max_vars=3, max_prods=5, max_body=3)
                y = cfglib.rand_cfg(rng, max_vars=2, max_prods=3, max_body=2)
            else:
                x = falib.rand_fa(rng, names="plain", max_states=3, max_syms=2)
                y = falib.rand_fa(rng, names="plain", max_states=2, max_syms=2)
            for cv in conv:
                for q in query:
                    hist = [[0, rng.choice(fill), False], [0, cv, rng.random() < 0.3], [1, q, False], [0, rng.choice(query), False]]
                    cases.append({"op": "history", "kind": kind, "x": x, "y": y, "hist": hist})
    # regexes: a conversion whose result is mutated, issued before or after the first query that may fill the automaton cache, then a query
    for rx in REGEXES:
        for cv in ("to_epsilon_nfa", "to_cfg"):
            for q in ("accepts_a", "accepts_ab", "accepts_b", "accepts_eps"):
                cases.append({"op": "history", "kind": "regex", "x": rx, "y": "b", "hist": [[0, cv, True], [0, q, False]]})
                cases.append({"op": "history", "kind": "regex", "x": rx, "y": "b",
                              "hist": [[0, rng.choice(["accepts_a", "accepts_b", "str"]), False], [0, cv, True], [0, q, False], [0, cv, False]]})
    return cases


def _same_kind(kind, r):
    from pyformlang.finite_automaton import FiniteAutomaton
    from pyformlang.cfg import CFG
    from pyformlang.pda import PDA
    from pyformlang.fst import FST
    from pyformlang.regular_expression import Regex
    from pyformlang.indexed_grammar import IndexedGrammar
    return isinstance(r, {"fa": FiniteAutomaton, "cfg": CFG, "pda": PDA, "fst": FST, "regex": Regex, "ig": IndexedGrammar}[kind])


def impl(case):
    kind = case["kind"]
    ops = KINDS[kind]()
    x, y = _build(kind, case["x"]), _build(kind, case["y"])
    results = []            # (object or None, provenance = list of op names applied from x, was mutated)
    out = []
    for step, (subj, name, mut) in enumerate(case["hist"]):
        # choose the subject: x itself, or one of the last results of the same kind (conversions of conversions)
        cands = [r for r in results[-3:] if r[0] is not None and not r[2]]
        heavy = kind == "fa" and name in ("union", "concatenate", "kleene_star", "to_regex", "difference", "intersection")
        if subj > 0 and len(cands) >= subj and len(cands[-subj][1]) < 2 and not heavy:
            target, prov = cands[-subj][0], cands[-subj][1]
        else:
            target, prov = x, []
        obs = _sem if (kind, name) in SEMANTIC else _obs
        snap = lambda: (json.dumps(_obs(x), sort_keys=True, default=str), json.dumps(_obs(y), sort_keys=True, default=str),
                        json.dumps(_obs(target), sort_keys=True, default=str)) if kind != "regex" else None
        before = snap()
        r = None
        try:
            r = ops[name](target, y)
            got = obs(r)
        except Exception as e:
            got = {"exc": type(e).__name__}
        if mut and r is not None:
            _mutate(r, step)
        after = snap()        # taken after the mutation of the returned object: aliasing shows up as a modified operand
        results.append((r if (r is not None and _same_kind(kind, r)) else None, prov + [name], bool(mut)))
        # the same call on freshly built equal objects: replay only the derivation chain of the subject
        fx, fy = _build(kind, case["x"]), _build(kind, case["y"])
        try:
            ft = fx
            for pname in prov:
                ft = ops[pname](ft, fy)
            want = obs(ops[name](ft, fy))
        except Exception as e:
            want = {"exc": type(e).__name__}
        out.append({"same": json.dumps(got, sort_keys=True, default=str) == json.dumps(want, sort_keys=True, default=str),
                    "operands_unchanged": before == after, "chain": prov + [name],
                    "got": json.dumps(got, sort_keys=True, default=str)[:300], "want": json.dumps(want, sort_keys=True, default=str)[:300]})
    return {"steps": out}


def check_cases(ctx, cases):
    obs = ctx.impl("c19", cases, timeout=25)
    for c, o in zip(cases, obs):
        ctx.dist["kind:" + c["kind"]] += 1
        names = [h[1] for h in c["hist"]]
        if any(n in ("to_deterministic", "minimize", "to_normal_form", "to_cfg", "to_pda", "union", "kleene_star", "to_epsilon_nfa", "to_final_state",
                     "remove_useless_rules", "concatenate") for n in names[:-1]):
            ctx.nontriv([c["kind"], c["x"], c["hist"]])
        if len(ctx.samples) < 4:
            ctx.sample({"kind": c["kind"], "x": c["x"], "history": c["hist"]})
        if "timeout" in o:
            ctx.notes.append("a history exceeded the time budget and was not judged (kind %s)" % c["kind"])
            ctx.dist["skipped:timeout"] += 1
            continue
        if "exc" in o:
            ctx.fail("history-exception", c, {"impl": o})
            continue
        for i, s in enumerate(o["steps"]):
            ctx.count(1)
            ctx.dist["op:" + c["kind"] + "." + c["hist"][i][1]] += 1
            if not s["same"]:
                ctx.fail("history-dependent-answer", c, {"step": i, "call": c["hist"][i][1], "chain": s["chain"], "after_history": s["got"], "on_fresh_object": s["want"]})
                break
            if not s["operands_unchanged"]:
                ctx.fail("operand-modified", c, {"step": i, "call": c["hist"][i][1], "chain": s["chain"]})
                break


def shrink_candidates(case):
    h = case["hist"]
    for i in range(len(h) - 1):
        yield dict(case, hist=h[:i] + h[i + 1:])
    for i in range(len(h)):
        if h[i][2]:
            yield dict(case, hist=h[:i] + [[h[i][0], h[i][1], False]] + h[i + 1:])


KNOWN_PREDICATES = {
    "dfa_to_deterministic_returns_self": lambda f: (f["kind"] == "operand-modified" and f["detail"].get("call") == "to_deterministic"
                                                    and f["case"]["kind"] == "fa"),
}
