"""PDA helpers: JSON spec <-> pyformlang PDA, interning, generators."""
import json
from falib import Interner, vkey


def build_pda(spec):
    from pyformlang.pda import PDA
    p = PDA(states=set(spec["states"]), input_symbols=set(spec["inputs"]), stack_alphabet=set(spec["stack"]),
            start_state=spec.get("start"), start_stack_symbol=spec.get("z0"), final_states=set(spec["finals"]))
    for q, a, A, r, push in spec["trans"]:
        p.add_transition(q, "epsilon" if a is None else a, A, r, list(push))
    return p


def _v(x):
    v = x.value if hasattr(x, "value") else x
    if isinstance(v, (int, str)) and not isinstance(v, bool):
        return v
    if isinstance(v, tuple):
        return "<tuple>(" + ", ".join(json.dumps(_v(y)) for y in v) + ")"
    return "<%s>%s" % (type(v).__name__, str(v))


def extract_pda(p):
    from pyformlang.pda import Epsilon
    trans = []
    for (s_from, sym, st_from), outs in p.to_dict().items():
        for (s_to, st_to) in outs:
            lab = None if isinstance(sym, Epsilon) else _v(sym)
            trans.append([_v(s_from), lab, _v(st_from), _v(s_to), [_v(x) for x in st_to]])
    z0 = None
    g = p.to_networkx()
    if "INITIAL_STACK_HIDDEN" in g.nodes:
        try:
            z0 = json.loads(g.nodes["INITIAL_STACK_HIDDEN"]["label"])
        except Exception:
            z0 = _v(p._start_stack_symbol) if getattr(p, "_start_stack_symbol", None) is not None else None
        if not isinstance(z0, (int, str)):
            z0 = _v(p._start_stack_symbol)
    return {"states": sorted((_v(s) for s in p.states), key=vkey), "inputs": sorted((_v(s) for s in p.input_symbols), key=vkey),
            "stack": sorted((_v(s) for s in p.stack_symbols), key=vkey), "trans": sorted(trans, key=vkey),
            "start": _v(p.start_state) if p.start_state is not None else None, "z0": z0,
            "finals": sorted((_v(s) for s in p.final_states), key=vkey)}


class PdaInterner:
    def __init__(self, sym=None):
        self.st = Interner()
        self.sk = Interner()
        self.sym = sym or Interner()


def coq_pda(spec, pi):
    def opt(x, f):
        return "None" if x is None else "(Some %d)" % f(x)
    trans = "[" + "; ".join("(%d, %s, %d, %d, [%s])" % (pi.st(q), "None" if a is None else "(Some %d)" % pi.sym(a), pi.sk(A), pi.st(r),
                                                     "; ".join(str(pi.sk(x)) for x in push)) for q, a, A, r, push in spec["trans"]) + "]"
    return "(mkP [%s] [%s] %s %s %s [%s])" % ("; ".join(str(pi.st(s)) for s in spec["states"]), "; ".join(str(pi.sk(s)) for s in spec["stack"]),
                                             trans, opt(spec.get("start"), pi.st), opt(spec.get("z0"), pi.sk),
                                             "; ".join(str(pi.st(s)) for s in spec["finals"]))


STATES = ["q0", "q1", "q2"]
STACK = ["Z", "X", "Y"]
INPUTS = ["a", "b"]


def rand_pda(rng, names="plain", max_states=3, max_stack=3, max_trans=6, profile=None):
    ns, nk, ni = rng.randint(1, max_states), rng.randint(1, max_stack), rng.randint(1, 2)
    states, stack, inputs = STATES[:ns], STACK[:nk], INPUTS[:ni]
    if names == "adv":
        pool = ["#STARTTOFINAL#", "#ENDTOFINAL#", "#STARTEMPTYS#", "#ENDEMPTYS#", "q0"]
        states = rng.sample(pool, ns)
        stack = rng.sample(["#BOTTOMTOFINAL#", "#BOTTOMEMPTYS#", "Z", "#BOTTOMTOFINAL#0"], nk)
    profile = profile or rng.choice(["plain", "eps", "grow", "nofinal", "pop"])
    trans = []
    for _ in range(rng.randint(1, max_trans)):
        q, r = rng.choice(states), rng.choice(states)
        A = rng.choice(stack)
        a = None if rng.random() < {"eps": 0.6, "grow": 0.5}.get(profile, 0.25) else rng.choice(inputs)
        k = rng.choice({"grow": [1, 2, 2, 3], "pop": [0, 0, 1]}.get(profile, [0, 0, 1, 1, 2, 3]))
        push = [rng.choice(stack) for _ in range(k)]
        if profile == "falike" and rng.random() < 0.8:      # keeps the stack as it is: behaves like a finite automaton, rich final-state language
            a = rng.choice(inputs)
            push = [A]
        t = [q, a, A, r, push]
        if t not in trans:
            trans.append(t)
    if rng.random() < 0.3:
        # two different transitions that reach the same state and push the same string of two or three symbols
        r = rng.choice(states)
        push = [rng.choice(stack) for _ in range(rng.choice([2, 2, 3]))]
        for _ in range(2):
            t = [rng.choice(states), rng.choice([None] + inputs + inputs), rng.choice(stack), r, list(push)]
            if t not in trans:
                trans.append(t)
        for X in stack:                      # make the pushed symbols poppable
            if rng.random() < 0.7:
                t = [r, rng.choice([None] + inputs), X, rng.choice(states), []]
                if t not in trans:
                    trans.append(t)
    if rng.random() < 0.3 and names != "adv":
        # the stack is emptied at the moment a state without any outgoing transition is entered (a state that is only ever a target)
        sink = "sink"
        states = states + [sink]
        srcs = [t for t in trans if len(t[4]) <= 1] or trans
        q, a, A = rng.choice(srcs)[0], rng.choice([None] + inputs), stack[0] if rng.random() < 0.6 else rng.choice(stack)
        t = [q, a, A, sink, []]
        if t not in trans:
            trans.append(t)
        if rng.random() < 0.5:
            t = [states[0], rng.choice(inputs), stack[0], sink, []]
            if t not in trans:
                trans.append(t)
    finals = [] if profile == "nofinal" else rng.sample(states, rng.randint(1 if profile == "falike" else 0, ns))
    return {"states": states, "inputs": inputs, "stack": stack, "trans": trans, "start": states[0], "z0": stack[0],
            "finals": finals, "profile": profile, "names": names}


def nontrivial_pda(spec):
    return len(spec["trans"]) >= 2 and any(len(t[4]) >= 2 for t in spec["trans"])
