"""Finite-automaton helpers shared by the property modules: JSON spec <-> pyformlang object,
interning of Python values into N for the Coq model, random / exhaustive generators."""
import itertools
import json
import random

EPS = None  # epsilon label in specs


def vkey(v):
    return json.dumps(v, sort_keys=True)


class Interner:
    def __init__(self):
        self.idx = {}
        self.vals = []

    def __call__(self, v):
        k = vkey(v)
        if k not in self.idx:
            self.idx[k] = len(self.vals)
            self.vals.append(v)
        return self.idx[k]

    def get(self, v):
        return self.idx.get(vkey(v))


# ---------------------------------------------------------------------------------------
# spec -> pyformlang
# ---------------------------------------------------------------------------------------

def build_fa(spec):
    from pyformlang.finite_automaton import EpsilonNFA, NondeterministicFiniteAutomaton, \
        DeterministicFiniteAutomaton, Epsilon, State, Symbol
    cls = {"enfa": EpsilonNFA, "nfa": NondeterministicFiniteAutomaton, "dfa": DeterministicFiniteAutomaton}[spec["kind"]]
    if spec["kind"] == "dfa":
        fa = cls(states={State(s) for s in spec["states"]}, input_symbols={Symbol(a) for a in spec["symbols"]})
    else:
        fa = cls(states={State(s) for s in spec["states"]}, input_symbols={Symbol(a) for a in spec["symbols"]})
    def lab(a):
        return Epsilon() if a is None else Symbol(a)
    hist = spec.get("history")
    if not hist and spec.get("ctor") and spec["kind"] != "dfa":
        # everything handed to the constructor: a transition function built beforehand, start and final states as arguments;
        # `states` may leave out start / final states (the constructor adds them itself)
        from pyformlang.finite_automaton import NondeterministicTransitionFunction
        tf = NondeterministicTransitionFunction()
        for s, a, t in spec["trans"]:
            tf.add_transition(State(s), lab(a), State(t))
        # only start / final states may be left out of `states` (the constructor adds those itself); the spec may have been edited
        # after the choice was made
        omit = set(map(vkey, spec["ctor"].get("omit", []))) & set(map(vkey, list(spec["starts"]) + list(spec["finals"])))
        return cls(states={State(s) for s in spec["states"] if vkey(s) not in omit}, input_symbols={Symbol(a) for a in spec["symbols"]},
                   transition_function=tf, start_state={State(s) for s in spec["starts"]}, final_states={State(s) for s in spec["finals"]})
    if not hist:
        for s, a, t in spec["trans"]:
            fa.add_transition(State(s), lab(a), State(t))
        for s in spec["starts"]:
            fa.add_start_state(State(s))
        for s in spec["finals"]:
            fa.add_final_state(State(s))
        return fa
    # incremental construction through the public API with queries in between: the final automaton is
    # the same object a user gets by building, querying, editing and querying again
    k = hist["split"]
    for s, a, t in spec["trans"][:k]:
        fa.add_transition(State(s), lab(a), State(t))
    for s in spec["starts"]:
        fa.add_start_state(State(s))
    for s in spec["finals"]:
        fa.add_final_state(State(s))
    for s, a, t in hist.get("extra", []):
        fa.add_transition(State(s), lab(a), State(t))
    _poke(fa, spec)
    # after the first round of queries epsilon edits may use the documented string spellings instead of the Epsilon object
    lab2 = (lambda a: hist["eps_str"] if a is None else Symbol(a)) if hist.get("eps_str") else lab
    for s, a, t in hist.get("extra", []):
        if [s, a, t] not in spec["trans"][:k]:
            fa.remove_transition(State(s), lab2(a), State(t))
    for s, a, t in spec["trans"][k:]:
        fa.add_transition(State(s), lab2(a), State(t))
    if hist.get("poke_twice"):
        _poke(fa, spec)
    return fa


def _poke(fa, spec):
    """A few public queries whose answers are discarded (they may fill caches)."""
    try:
        fa.accepts([])
        for a in spec["symbols"][:2]:
            fa.accepts([a])
            fa.accepts([a, a])
        if hasattr(fa, "eclose"):
            for st in spec["states"]:
                fa.eclose(st)
        fa.is_deterministic()
        fa.is_empty()
        fa.to_deterministic()
        fa.get_number_transitions()
    except Exception:   # the discarded queries must not decide anything
        pass


def _val(x):
    v = x.value if hasattr(x, "value") else x
    if isinstance(v, (int, str)) and not isinstance(v, bool):
        return v
    return "<%s>%s" % (type(v).__name__, str(v))


def extract_fa(fa):
    """Read an automaton back through the public API into a spec (values may be arbitrary:
    non int/str values are rendered as tagged strings)."""
    from pyformlang.finite_automaton import Epsilon
    trans = []
    for s, by in fa.to_dict().items():
        for a, ts in by.items():
            lab = None if isinstance(a, Epsilon) or a == Epsilon() else _val(a)
            if isinstance(ts, (set, frozenset, list, tuple)):
                for t in ts:
                    trans.append([_val(s), lab, _val(t)])
            else:
                trans.append([_val(s), lab, _val(ts)])
    starts = [_val(s) for s in fa.start_states]
    return {"states": sorted((_val(s) for s in fa.states), key=vkey),
            "symbols": sorted((_val(s) for s in fa.symbols), key=vkey),
            "trans": sorted(trans, key=vkey),
            "starts": sorted(starts, key=vkey),
            "finals": sorted((_val(s) for s in fa.final_states), key=vkey),
            "cls": type(fa).__name__}


# ---------------------------------------------------------------------------------------
# spec -> Coq
# ---------------------------------------------------------------------------------------

def coq_enfa(spec, sym_int, st_int=None):
    """Coq literal (N_scope) of an automaton spec. Symbols are interned with the shared [sym_int]
    (symbol identity matters across automata); states with a private interner unless given."""
    from common import cq
    st = st_int or Interner()
    states = [st(s) for s in spec["states"]]
    trans = [(st(s), None if a is None else ("Some", sym_int(a)), st(t)) for s, a, t in spec["trans"]]
    starts = [st(s) for s in spec["starts"]]
    finals = [st(s) for s in spec["finals"]]
    syms = [sym_int(a) for a in spec["symbols"]]
    return "(mkE %s %s %s %s %s)" % (cq(states), cq(syms), cq(trans), cq(starts), cq(finals))


# ---------------------------------------------------------------------------------------
# generators
# ---------------------------------------------------------------------------------------

PLAIN_STATES = ["p", "q", "r", "s", "t", "u", "v"]
PLAIN_SYMS = ["a", "b", "c"]
ADV_STATES = ["a;b", "a; b", "TRASH", "TrashNode", "Empty", 1, "1", "starting_0", 0, "0;1", "b", "c", "b;c", 2, "2"]


def rand_fa(rng, kind=None, profile=None, names="plain", max_states=5, max_syms=3, history_p=0.0):
    kind = kind or rng.choice(["enfa", "enfa", "nfa", "dfa"])
    profile = profile or rng.choice(["sparse", "dense", "eps", "epscycle", "dead", "unreach", "multi"])
    n = rng.randint(1, max_states)
    k = rng.randint(1, max_syms)
    if names == "plain":
        states = PLAIN_STATES[:n]
    elif names == "int":
        states = list(range(n))
    else:
        states = rng.sample(ADV_STATES, min(n, len(ADV_STATES)))
        n = len(states)
    syms = PLAIN_SYMS[:k]
    trans = set()
    dens = {"sparse": 0.15, "dense": 0.5}.get(profile, 0.3)
    if kind == "dfa":
        for s in states:
            for a in syms:
                if rng.random() < max(dens, 0.55):
                    trans.add((s, a, rng.choice(states)))
    else:
        for s in states:
            for a in syms:
                for t in states:
                    if rng.random() < dens / (1 + 0.3 * n):
                        trans.add((s, a, t))
        if kind == "enfa":
            pe = {"eps": 0.35, "epscycle": 0.3}.get(profile, 0.1)
            for s in states:
                for t in states:
                    if rng.random() < pe / (1 + 0.2 * n) and (s != t or rng.random() < 0.3):
                        trans.add((s, None, t))
            if profile == "epscycle" and n >= 2:
                a, b = rng.sample(states, 2)
                trans.add((a, None, b))
                trans.add((b, None, a))
    if kind == "dfa":
        starts = [rng.choice(states)] if rng.random() < 0.95 else []
    else:
        ns = rng.choice([1, 1, 1, 2, 2, 3, 0]) if profile == "multi" else rng.choice([1, 1, 1, 1, 2, 0])
        starts = rng.sample(states, min(ns, n))
    nf = rng.choice([0, 1, 1, 1, 2, 2, 3])
    finals = rng.sample(states, min(nf, n))
    if profile == "dead" and n >= 2:
        d = states[-1]
        trans = {(s, a, t) for (s, a, t) in trans if s != d}
        finals = [f for f in finals if f != d]
    if profile == "unreach" and n >= 2:
        u = states[-1]
        trans = {(s, a, t) for (s, a, t) in trans if t != u}
        starts = [s for s in starts if s != u]
    extra_sym = [PLAIN_SYMS[k]] if (k < len(PLAIN_SYMS) and rng.random() < 0.15) else []
    tl = sorted([list(t) for t in trans], key=vkey)
    history = None
    if history_p and rng.random() < history_p and tl:
        rng.shuffle(tl)
        cand = [s_, a_, t_] = [rng.choice(states), rng.choice(syms + ([None] if kind == "enfa" else [])), rng.choice(states)]
        extra = [cand] if (kind != "dfa" and cand not in tl) else []
        history = {"split": rng.randint(0, len(tl)), "extra": extra, "poke_twice": rng.random() < 0.3}
        if kind == "enfa" and rng.random() < 0.5:
            history["eps_str"] = rng.choice(["epsilon", "\u025b"])
    if profile == "epsonly" and kind == "enfa":       # no input symbol at all: every transition is an epsilon move
        tl = [t for t in tl if t[1] is None] or [[states[0], None, states[-1]]]
        if rng.random() < 0.7 and n >= 2:          # acceptance of the empty word goes through a chain of epsilon moves
            tl = sorted({tuple(t) for t in tl} | {(states[i], None, states[i + 1]) for i in range(n - 1)}, key=vkey)
            tl = [list(t) for t in tl]
            starts, finals = [states[0]], [states[-1]]
        syms, extra_sym = [], []
        history = None
    if history:
        return {"kind": kind, "states": states, "symbols": syms + extra_sym, "trans": tl,
                "starts": starts, "finals": finals, "profile": profile, "names": names, "history": history}
    spec = {"kind": kind, "states": states, "symbols": syms + extra_sym,
            "trans": sorted(tl, key=vkey),
            "starts": starts, "finals": finals, "profile": profile, "names": names}
    if kind != "dfa" and rng.random() < 0.15:
        # built through the constructor arguments instead of add_transition / add_start_state / add_final_state
        sf = starts + [f for f in finals if f not in starts]
        spec["ctor"] = {"omit": [x for x in sf if rng.random() < 0.6]}
    return spec


def rand_elim_fa(rng, names="plain"):
    """One start state, one final state and 2-3 ordinary states in between with many edges among them: eliminating one ordinary
    state creates edges parallel to existing ones between the others (state elimination of to_regex has real work to do)."""
    n = rng.randint(4, 5)
    states = PLAIN_STATES[:n] if names == "plain" else list(range(n))
    syms = PLAIN_SYMS[:rng.randint(2, 3)]
    s0, f, mid = states[0], states[-1], states[1:-1]
    trans = {(s0, rng.choice(syms), rng.choice(mid))}
    for p in mid:
        for q in mid + [f]:
            if rng.random() < 0.6:
                trans.add((p, rng.choice(syms + [None]) if rng.random() < 0.9 else None, q))
    trans.add((rng.choice(mid), rng.choice(syms), f))
    if rng.random() < 0.3:
        trans.add((rng.choice(mid), rng.choice(syms), s0))
    if rng.random() < 0.2:
        trans.add((f, rng.choice(syms), rng.choice(mid)))
    return {"kind": "enfa", "states": states, "symbols": syms, "trans": sorted([list(t) for t in trans], key=vkey),
            "starts": [s0], "finals": [f], "profile": "elim", "names": names}


def words_upto(syms, maxlen):
    out = []
    for l in range(maxlen + 1):
        for w in itertools.product(syms, repeat=l):
            out.append(list(w))
    return out


def enum_e2():
    """All epsilon-NFAs over states {p,q}, alphabet {a,b}: 12 possible edges x 4 start sets x 4 final sets."""
    states = ["p", "q"]
    edges = [(s, a, t) for s in states for a in ["a", "b", None] for t in states]
    subsets = [[], ["p"], ["q"], ["p", "q"]]
    for mask in range(1 << len(edges)):
        trans = [list(edges[i]) for i in range(len(edges)) if mask >> i & 1]
        for st in subsets:
            for fi in subsets:
                yield {"kind": "enfa", "states": states, "symbols": ["a", "b"], "trans": trans,
                       "starts": st, "finals": fi, "profile": "E2", "names": "plain"}


def nontrivial_fa(spec):
    return len(spec["trans"]) >= 2 and spec["starts"] and spec["finals"]


def finite_language(spec):
    """Graph test used only to select cases for the unbounded enumeration: among the states that are both
    reachable from a start state and able to reach a final state, no cycle contains a labelled edge."""
    k = vkey
    succ, pred = {}, {}
    for s, a, t in spec["trans"]:
        succ.setdefault(k(s), set()).add(k(t))
        pred.setdefault(k(t), set()).add(k(s))

    def clos(init, m):
        seen, todo = set(init), list(init)
        while todo:
            x = todo.pop()
            for y in m.get(x, ()):
                if y not in seen:
                    seen.add(y)
                    todo.append(y)
        return seen
    useful = clos([k(s) for s in spec["starts"]], succ) & clos([k(s) for s in spec["finals"]], pred)
    for s, a, t in spec["trans"]:
        if a is not None and k(s) in useful and k(t) in useful:
            # labelled edge s->t inside the useful part: infinite iff t reaches s inside the useful part
            sub = {x: {y for y in ys if y in useful} for x, ys in succ.items() if x in useful}
            if k(s) in clos([k(t)], sub):
                return False
    return True


def rand_big_dfa(rng, nmin=5, nmax=8, k=None):
    """Mostly complete DFAs with 5-8 states over 2-3 symbols (where partition refinement has work to do)."""
    n = rng.randint(nmin, nmax)
    k = k or rng.choice([2, 2, 3])
    states = list(range(n)) if rng.random() < 0.5 else PLAIN_STATES[:7][:n] + ["w"] * 0
    states = states[:n] if len(states) >= n else list(range(n))
    syms = PLAIN_SYMS[:k]
    trans = []
    for s in states:
        for a in syms:
            if rng.random() < 0.92:
                trans.append([s, a, rng.choice(states)])
    nf = rng.randint(1, max(1, n // 2))
    return {"kind": "dfa", "states": states, "symbols": syms, "trans": trans, "starts": [states[0]],
            "finals": rng.sample(states, nf), "profile": "bigdfa", "names": "int" if isinstance(states[0], int) else "plain"}
