"""Indexed-grammar helpers."""
import itertools
from falib import Interner, vkey


def make_rule(r):
    from pyformlang.indexed_grammar import EndRule, ProductionRule, ConsumptionRule, DuplicationRule
    k = r[0]
    if k == "end":
        return EndRule(r[1], r[2])
    if k == "prod":
        return ProductionRule(r[1], r[2], r[3])
    if k == "cons":
        return ConsumptionRule(r[1], r[2], r[3])
    return DuplicationRule(r[1], r[2], r[3])


def build_ig(rules, optim=7, start="S"):
    from pyformlang.indexed_grammar import Rules, IndexedGrammar
    return IndexedGrammar(Rules([make_rule(r) for r in rules], optim), start)


def extract_rules(g):
    out = []
    for r in g.rules.rules:
        if r.is_end_rule():
            out.append(["end", r.left_term, r.right_term])
        elif r.is_production():
            out.append(["prod", r.left_term, r.right_term, r.production])
        elif r.is_duplication():
            out.append(["dup", r.left_term, r.right_terms[0], r.right_terms[1]])
    for f, rs in g.rules.consumption_rules.items():
        for r in rs:
            out.append(["cons", r.f_parameter, r.left_term, r.right])
    return out


def coq_rules(rules, nt, ix, ter):
    def one(r):
        k = r[0]
        if k == "end":
            return "REnd %d %s" % (nt(r[1]), "None" if r[2] == "epsilon" else "(Some %d)" % ter(r[2]))
        if k == "prod":
            return "RProd %d %d %d" % (nt(r[1]), nt(r[2]), ix(r[3]))
        if k == "cons":
            return "RCons %d %d %d" % (ix(r[1]), nt(r[2]), nt(r[3]))
        return "RDup %d %d %d" % (nt(r[1]), nt(r[2]), nt(r[3]))
    return "[" + "; ".join(one(r) for r in rules) + "]"


NTS = ["S", "A", "B", "C"]
IDX = ["f", "g"]
TERS = ["a", "b"]


def rand_ig(rng, max_nt=4, max_rules=8):
    n = rng.randint(1, max_nt)
    nts = NTS[:n]
    idx = IDX[:rng.randint(1, 2)]
    rules = []
    for _ in range(rng.randint(1, max_rules)):
        k = rng.choice(["end", "prod", "prod", "cons", "cons", "cons", "dup", "dup"])
        if k == "end":
            r = ["end", rng.choice(nts), rng.choice(TERS + ["epsilon"])]
        elif k == "prod":
            r = ["prod", rng.choice(nts), rng.choice(nts), rng.choice(idx)]
        elif k == "cons":
            r = ["cons", rng.choice(idx), rng.choice(nts), rng.choice(nts)]
        else:
            r = ["dup", rng.choice(nts), rng.choice(nts), rng.choice(nts)]
        rules.append(r)
    if rng.random() < 0.35:      # several consumption rules for the same index and variable
        f, X = rng.choice(idx), rng.choice(nts)
        for _ in range(2):
            rules.append(["cons", f, X, rng.choice(nts)])
    if rng.random() < 0.15 and rules:  # a duplicated rule
        rules.append(list(rng.choice(rules)))
    return {"rules": rules, "start": "S"}


def rand_chain_ig(rng):
    """Top-down chains: S -> X1[f], X1 -> X2[g], ..., Xk -> a, optionally with a consumption or duplication in the middle."""
    k = rng.randint(1, 3)
    nts = NTS[:k + 1]
    rules = []
    for i in range(k):
        rules.append(["prod", nts[i], nts[i + 1], rng.choice(IDX)])
    if rng.random() < 0.4 and k >= 2:
        rules.insert(rng.randrange(len(rules)), ["dup", nts[rng.randrange(k)], nts[k], nts[k]])
    if rng.random() < 0.8:
        rules.append(["end", nts[k], rng.choice(TERS)])
    if rng.random() < 0.3:
        rules.append(["cons", rng.choice(IDX), nts[rng.randrange(k + 1)], nts[rng.randrange(k + 1)]])
    return {"rules": rules, "start": "S"}


def bounded_nonempty(rules, start="S", depth=4):
    """Untrusted reference (search leg only): True if S[] derives a terminal word using stacks of height <= depth."""
    gen = set()
    changed = True
    stacks = [()]
    idxs = sorted({r[3] for r in rules if r[0] == "prod"} | {r[1] for r in rules if r[0] == "cons"})
    for d in range(1, depth + 1):
        stacks += list(itertools.product(idxs, repeat=d))
    while changed:
        changed = False
        for st in stacks:
            for r in rules:
                k = r[0]
                if k == "end":
                    key = (r[1], st)
                    ok = True
                elif k == "prod":
                    key = (r[1], st)
                    ok = len(st) < depth and (r[2], (r[3],) + st) in gen
                elif k == "cons":
                    if not st or st[0] != r[1]:
                        continue
                    key = (r[2], st)
                    ok = (r[3], st[1:]) in gen
                else:
                    key = (r[1], st)
                    ok = (r[2], st) in gen and (r[3], st) in gen
                if ok and key not in gen:
                    gen.add(key)
                    changed = True
    return (start, ()) in gen
