"""Indexed-grammar helpers."""
import itertools
from falib import Interner, vkey


def make_rule(r):
    from pyformlang.indexed_grammar import EndRule, ProductionRule, ConsumptionRule, DuplicationRule
    k = r[0]
    if k == "end":
        return EndRule(r[1], r[2])
    if k == "prod":
        return ProductionRule(r[1], r[2], r[3])
    if k == "cons":
        return ConsumptionRule(r[1], r[2], r[3])
    return DuplicationRule(r[1], r[2], r[3])


def build_ig(rules, optim=7, start="S"):
    from pyformlang.indexed_grammar import Rules, IndexedGrammar
    return IndexedGrammar(Rules([make_rule(r) for r in rules], optim), start)


def extract_rules(g):
    out = []
    for r in g.rules.rules:
        if r.is_end_rule():
            out.append(["end", r.left_term, r.right_term])
        elif r.is_production():
            out.append(["prod", r.left_term, r.right_term, r.production])
        elif r.is_duplication():
            out.append(["dup", r.left_term, r.right_terms[0], r.right_terms[1]])
    for f, rs in g.rules.consumption_rules.items():
        for r in rs:
            out.append(["cons", r.f_parameter, r.left_term, r.right])
    return out


def coq_rules(rules, nt, ix, ter):
    def one(r):
        k = r[0]
        if k == "end":
            return "REnd %d %s" % (nt(r[1]), "None" if r[2] == "epsilon" else "(Some %d)" % ter(r[2]))
        if k == "prod":
            return "RProd %d %d %d" % (nt(r[1]), nt(r[2]), ix(r[3]))
        if k == "cons":
            return "RCons %d %d %d" % (ix(r[1]), nt(r[2]), nt(r[3]))
        return "RDup %d %d %d" % (nt(r[1]), nt(r[2]), nt(r[3]))
    return "[" + "; ".join(one(r) for r in rules) + "]"


NTS = ["S", "A", "B", "C"]
IDX = ["f", "g"]
TERS = ["a", "b"]


def rand_ig(rng, max_nt=4, max_rules=8):
    n = rng.randint(1, max_nt)
    nts = NTS[:n]
    idx = IDX[:rng.randint(1, 2)]
    rules = []
    for _ in range(rng.randint(1, max_rules)):
        k = rng.choice(["end", "prod", "prod", "cons", "cons", "cons", "dup", "dup"])
        if k == "end":
            r = ["end", rng.choice(nts), rng.choice(TERS + ["epsilon"])]
        elif k == "prod":
            r = ["prod", rng.choice(nts), rng.choice(nts), rng.choice(idx)]
        elif k == "cons":
            r = ["cons", rng.choice(idx), rng.choice(nts), rng.choice(nts)]
        else:
            r = ["dup", rng.choice(nts), rng.choice(nts), rng.choice(nts)]
        rules.append(r)
    if rng.random() < 0.35:      # several consumption rules for the same index and variable
        f, X = rng.choice(idx), rng.choice(nts)
        for _ in range(2):
            rules.append(["cons", f, X, rng.choice(nts)])
    if rng.random() < 0.15 and rules:  # a duplicated rule
        rules.append(list(rng.choice(rules)))
    return {"rules": rules, "start": "S"}


def rand_chain_ig(rng):
    """Top-down chains: S -> X1[f], X1 -> X2[g], ..., Xk -> a, optionally with a consumption or duplication in the middle."""
    k = rng.randint(1, 3)
    nts = NTS[:k + 1]
    rules = []
    for i in range(k):
        rules.append(["prod", nts[i], nts[i + 1], rng.choice(IDX)])
    if rng.random() < 0.4 and k >= 2:
        rules.insert(rng.randrange(len(rules)), ["dup", nts[rng.randrange(k)], nts[k], nts[k]])
    if rng.random() < 0.8:
        rules.append(["end", nts[k], rng.choice(TERS)])
    if rng.random() < 0.3:
        rules.append(["cons", rng.choice(IDX), nts[rng.randrange(k + 1)], nts[rng.randrange(k + 1)]])
    return {"rules": rules, "start": "S"}


def rand_deep_ig(rng):
    """Two indices pushed on top of each other, a duplication between the two consumptions, and a nonterminal that cannot consume the
    deeper index itself while the two it duplicates into can (marked sets of different sizes have to be kept side by side)."""
    f, g = rng.sample(IDX, 2) if rng.random() < 0.7 else (IDX[0], IDX[0])
    rules = [["prod", "S", "A", g], ["prod", "A", "R", f], ["dup", "R", "C", "D"], ["cons", f, "C", "X"], ["cons", f, "D", "W"],
             ["dup", "X", "Y", "Z"], ["cons", g, "Y", "E"], ["cons", g, "Z", "E"], ["end", "E", rng.choice(TERS)], ["end", "W", rng.choice(TERS)]]
    r = rng.random()
    if r < 0.35:
        del rules[rng.randrange(len(rules))]
    elif r < 0.5:
        rules.append(["cons", g, "X", "E"])
    elif r < 0.6:
        rules.append(["end", "X", rng.choice(TERS + ["epsilon"])])
    rng.shuffle(rules)
    return {"rules": rules, "start": "S"}


def bounded_nonempty(rules, start="S", depth=4):
    """Untrusted reference (search leg only): True if S[] derives a terminal word using stacks of height <= depth."""
    gen = set()
    changed = True
    stacks = [()]
    idxs = sorted({r[3] for r in rules if r[0] == "prod"} | {r[1] for r in rules if r[0] == "cons"})
    for d in range(1, depth + 1):
        stacks += list(itertools.product(idxs, repeat=d))
    while changed:
        changed = False
        for st in stacks:
            for r in rules:
                k = r[0]
                if k == "end":
                    key = (r[1], st)
                    ok = True
                elif k == "prod":
                    key = (r[1], st)
                    ok = len(st) < depth and (r[2], (r[3],) + st) in gen
                elif k == "cons":
                    if not st or st[0] != r[1]:
                        continue
                    key = (r[2], st)
                    ok = (r[3], st[1:]) in gen
                else:
                    key = (r[1], st)
                    ok = (r[2], st) in gen and (r[3], st) in gen
                if ok and key not in gen:
                    gen.add(key)
                    changed = True
    return (start, ()) in gen


# ---------------------------------------------------------------------------------------------------------------------
# Untrusted reference for the intersection clause: Aho's marking with antichain pruning (validated against the proved Coq
# model on every plain is_empty case of the run), applied to the product of the rules with an epsilon-free automaton.
class OracleBudget(Exception):
    pass


def aho_is_empty(rules, start="S", budget=120000):
    nts = {start}
    for r in rules:
        nts |= {"end": {r[1]}, "prod": set(r[1:3]), "cons": set(r[2:4]), "dup": set(r[1:4])}[r[0]]
    marked = {A: {frozenset([A])} for A in nts}
    cons = {}
    for r in rules:
        if r[0] == "cons":
            cons.setdefault((r[1], r[2]), []).append(r[3])

    spent = [0]

    def add(A, T):
        spent[0] += 1
        if spent[0] > budget:
            raise OracleBudget()
        cur = marked.setdefault(A, {frozenset([A])})
        if any(t <= T for t in cur):
            return False
        for t in [t for t in cur if T < t]:
            cur.discard(t)
        cur.add(T)
        return True

    changed = True
    while changed:
        changed = False
        for r in rules:
            k = r[0]
            if k == "end":
                changed |= add(r[1], frozenset())
            elif k == "dup":
                for T1 in list(marked.get(r[2], ())):
                    for T2 in list(marked.get(r[3], ())):
                        changed |= add(r[1], T1 | T2)
            elif k == "prod":
                A, B, f = r[1], r[2], r[3]
                for TB in list(marked.get(B, ())):
                    unions = {frozenset()}
                    dead = False
                    for X in TB:
                        alts = {T for Y in cons.get((f, X), []) for T in marked.get(Y, ())}
                        if not alts:
                            dead = True
                            break
                        spent[0] += len(unions) * len(alts)
                        if spent[0] > budget:
                            raise OracleBudget()
                        unions = {u | a for u in unions for a in alts}
                        mins = [u for u in unions if not any(v < u for v in unions)]
                        unions = set(mins)
                    if not dead:
                        for u in unions:
                            changed |= add(A, u)
    return frozenset() not in marked.get(start, set())


def eps_free_nfa(spec):
    """(states, starts, finals, trans[(p, a, q)]) of an equivalent epsilon-free automaton; states are the spec's states."""
    states = list(spec["states"])
    eps = {s: {s} for s in map(vkey, states)}
    byk = {vkey(s): s for s in states}
    ch = True
    while ch:
        ch = False
        for s, a, t in spec["trans"]:
            if a is None:
                for k, cl in eps.items():
                    if vkey(s) in cl and vkey(t) not in cl:
                        cl.add(vkey(t))
                        ch = True
    finals = {vkey(f) for f in spec["finals"]}
    trans = set()
    for k, cl in eps.items():
        for s, a, t in spec["trans"]:
            if a is not None and vkey(s) in cl:
                for t2 in eps[vkey(t)]:
                    trans.add((k, a, t2))
    nfin = {k for k, cl in eps.items() if cl & finals}
    return list(eps), [vkey(s) for s in spec["starts"]], nfin, sorted(trans)


def product_rules(rules, start, spec):
    """Reduced-form rules of the grammar generating L(rules, start) /\\ L(spec); nonterminals are tuples."""
    states, starts, finals, trans = eps_free_nfa(spec)
    out = [["end", ("E",), "epsilon"]]
    for s0 in starts:
        for f in finals:
            out.append(["dup", ("S'",), (s0, start, f), ("E",)])
    for r in rules:
        k = r[0]
        if k == "end":
            if r[2] == "epsilon":
                out += [["end", (p, r[1], p), "epsilon"] for p in states]
            else:
                out += [["end", (p, r[1], q), r[2]] for (p, a, q) in trans if a == r[2]]
        elif k == "prod":
            out += [["prod", (p, r[1], q), (p, r[2], q), r[3]] for p in states for q in states]
        elif k == "cons":
            out += [["cons", r[1], (p, r[2], q), (p, r[3], q)] for p in states for q in states]
        else:
            out += [["dup", (p, r[1], q), (p, r[2], m), (m, r[3], q)] for p in states for q in states for m in states]
    return out, ("S'",)
