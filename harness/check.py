"""./check Cxx [--tier quick|thorough] [--replay file]   (contract: MANIFEST.schema.json)"""
import argparse
import collections
import importlib
import json
import os
import random
import subprocess
import sys
import time
import traceback

import common
from common import log


class Ctx:
    def __init__(self, prop, tier, seed, quiet=False):
        self.prop, self.tier, self.seed, self.quiet = prop, tier, seed, quiet
        self.rng = random.Random(seed)
        self.hashseeds = [1, 2] if tier == "quick" else [1, 2, 3, 4, 5, 6, 7, 8]
        self.evaluations = 0
        self.nontrivial = set()
        self.samples = []
        self.dist = collections.Counter()
        self.failures = []
        self.notes = []
        self.known_seen = []

    # --- recording -------------------------------------------------------------------
    def count(self, n=1):
        self.evaluations += n

    def nontriv(self, key):
        self.nontrivial.add(common.stable_hash(key))

    def sample(self, obj, limit=4):
        if len(self.samples) < limit:
            self.samples.append(obj)

    def fail(self, kind, case, detail, correspondence_only=False):
        """correspondence_only: the implementation and the model differ on this case although every observation the property
        speaks about was checked on it and agrees (a structural difference): the theorems about the model no longer transfer to
        the code, no failing input is known."""
        self.failures.append({"kind": kind, "case": case, "detail": detail, "correspondence_only": correspondence_only})

    # --- running ---------------------------------------------------------------------
    def impl(self, module, cases, timeout=10, hashseeds=None, retry=True):
        t = time.time()
        r = common.run_impl(module, cases, hashseeds or self.hashseeds, per_case_timeout=timeout, retry_done=not retry)
        n_retry = sum(1 for o in r if isinstance(o, dict) and o.get("_retried_after_timeout"))
        if n_retry:
            self.dist["impl cases finished only on the enlarged retry budget"] += n_retry
        self.dist["t_impl_s"] += round(time.time() - t, 1)
        return r

    def coq(self, sources, timeout=900):
        t = time.time()
        # soft limits (see common.coq_eval): tight on the quick tier, generous on the thorough tier where many files run side by side
        quick = self.tier == "quick"
        outs = common.coq_eval(sources, timeout=timeout, soft=60 if quick else 480, line_timeout=30 if quick else 180)
        self.dist["t_coq_s"] += round(time.time() - t, 1)
        t = time.time()
        r = [common.parse_coq_values(o) for o in outs]
        self.dist["t_parse_s"] += round(time.time() - t, 1)
        return r


def leg_t(mod):
    """Proof leg status for this property."""
    st = {"build_ok": False, "obligations": 0, "discharged": 0, "assumptions": {}, "lint": [], "problems": []}
    ok, tail = common.build_coq()
    st["build_ok"] = ok
    if not ok:
        # make -k builds everything that does not depend on the failing file: the failure concerns this property only when one of
        # the modules it needs (its Properties file, the evaluation helpers of the correspondence leg) could not be rebuilt
        needed = [m.replace(".", "/") + ".vo" for m in mod.THEOREMS] + ["Eval/FA.vo", "Eval/CFG.vo", "Eval/IG.vo", "Eval/Labels.vo"]
        stale = [v for v in needed if os.path.exists(os.path.join(common.COQ, v[:-1]))
                 and (subprocess.run(["make", "-q", v], cwd=common.COQ, capture_output=True).returncode != 0 or not common.vo_fresh(v[:-1]))]
        if stale:
            st["problems"].append("coq build failed (%s not rebuilt): %s" % (", ".join(stale), tail[-1500:]))
        else:
            st["unrelated_build_failure"] = tail[-600:]
            st["build_ok"] = True           # everything this property needs was rebuilt
    st["lint"] = common.lint_coq()
    if st["lint"]:
        st["problems"].append("lint: " + "; ".join(st["lint"][:5]))
    for module, thms in mod.THEOREMS.items():
        rel = module.replace(".", "/") + ".v"
        declared = [n for _, n in common.theorem_statements(rel)] if os.path.exists(os.path.join(common.COQ, rel)) else []
        q = subprocess.run(["make", "-q", rel + "o"], cwd=common.COQ, capture_output=True)
        fresh = q.returncode == 0 and common.vo_fresh(rel)
        pa = common.print_assumptions(module, thms) if fresh else {t: "ERROR: module not built" for t in thms}
        for t in thms:
            st["obligations"] += 1
            a = pa[t]
            st["assumptions"][t] = a
            if t not in declared:
                st["problems"].append("theorem %s not declared in %s" % (t, rel))
            elif a == "closed" or (isinstance(a, list) and all(x in getattr(mod, "ALLOWED_AXIOMS", []) for x in a)):
                st["discharged"] += 1
            else:
                st["problems"].append("theorem %s: %s" % (t, a))
    return st


def shrink(mod, prop, tier, seed, failure, budget=30):
    """Greedy shrinking with module-provided candidates; each round is one batched re-check."""
    if not hasattr(mod, "shrink_candidates"):
        return failure
    cur = failure
    t0 = time.time()
    for _ in range(budget):
        if time.time() - t0 > 120:
            break
        cands = list(mod.shrink_candidates(cur["case"]))[:24]
        if not cands:
            break
        sub = Ctx(prop, tier, seed, quiet=True)
        try:
            mod.check_cases(sub, cands)
        except Exception:
            break
        bad = [f for f in sub.failures if f["kind"] == cur["kind"]]
        if not bad:
            break
        cur = min(bad, key=lambda f: len(json.dumps(f["case"], default=str)))
    return cur


def main():
    ap = argparse.ArgumentParser()
    ap.add_argument("prop")
    ap.add_argument("--tier", default=os.environ.get("VERIF_TIER", "quick"))
    ap.add_argument("--replay")
    args = ap.parse_args()
    prop = args.prop.upper()
    tier = args.tier if args.tier in ("quick", "thorough") else "quick"
    seed = int(os.environ.get("VERIF_SEED", "20261001"))
    mod = importlib.import_module("props." + prop.lower())
    t0 = time.time()
    ctx = Ctx(prop, tier, seed)
    status = 0
    lines = []
    harness_error = None
    try:
        lt = leg_t(mod)
        try:
            if args.replay:
                rp = json.load(open(args.replay))
                cases = rp.get("cases") or [rp["case"]]
                mod.check_cases(ctx, cases)
            else:
                # known-finding corpus and regression corpus first
                kf = common.known_findings()
                corpus = [e for e in kf.get("findings", []) if e["property"] == prop and e.get("case")]
                regress = [e for e in kf.get("fixed", []) if e["property"] == prop and e.get("case")]
                if corpus or regress:
                    sub = Ctx(prop, tier, seed, quiet=True)
                    mod.check_cases(sub, [e["case"] for e in corpus] + [e["case"] for e in regress])
                    ctx.evaluations += sub.evaluations
                    failing = {common.stable_hash(f["case"]): f for f in sub.failures}
                    for e in corpus:
                        if common.stable_hash(e["case"]) in failing:
                            lines.append("KNOWN-FINDING: property=%s %s" % (prop, e["what"]))
                            ctx.known_seen.append(e["id"])
                        else:
                            ctx.notes.append("known finding %s no longer reproduces" % e["id"])
                    for e in regress:
                        if common.stable_hash(e["case"]) in failing:
                            ctx.failures.append(failing[common.stable_hash(e["case"])])
                cases = mod.generate(ctx)
                mod.check_cases(ctx, cases)
        except common.HarnessError as e:
            if lt["build_ok"]:
                raise
            ctx.notes.append("model could not be evaluated (build broken): %s" % str(e)[:300])

        # attribute failures to known findings by module predicate
        new_fail = []
        kf = common.known_findings()
        preds = getattr(mod, "KNOWN_PREDICATES", {})
        for f in ctx.failures:
            hit = None
            if new_fail and not new_fail[0].get("correspondence_only"):
                # one failure that no known finding explains is enough for the verdict: the (costly) attribution of the others is skipped
                new_fail.append(f)
                continue
            for e in kf.get("findings", []):
                if e["property"] == prop and e.get("predicate") in preds and preds[e["predicate"]](f):
                    hit = e
                    break
            if hit:
                if hit["id"] not in ctx.known_seen:
                    ctx.known_seen.append(hit["id"])
                    lines.append("KNOWN-FINDING: property=%s %s" % (prop, hit["what"]))
                ctx.dist["known:" + hit["id"]] += 1
            else:
                new_fail.append(f)

        hard = [f for f in new_fail if not f.get("correspondence_only")]
        if new_fail and not hard:
            f = shrink(mod, prop, tier, seed, new_fail[0])
            rp = common.write_replay(prop, {"property": prop, "kind": f["kind"], "broken": "correspondence between the Gallina model and the implementation (%s)" % f["kind"],
                                            "case": f["case"], "detail": f["detail"], "seed": seed, "tier": tier, "legT_problems": lt["problems"],
                                            "note": "the implementation and the model differ on this case, but every observation the property speaks about agrees "
                                                    "on all generated cases: no failing input found; the theorems about the model no longer transfer to the code",
                                            "how": "./check %s --replay <this file>" % prop})
            lines.append("VIOLATION property=%s replay=%s no-failing-input-found" % (prop, rp))
            status = 1
        elif new_fail:
            f = shrink(mod, prop, tier, seed, hard[0])
            rp = common.write_replay(prop, {"property": prop, "kind": f["kind"], "case": f["case"], "detail": f["detail"],
                                            "seed": seed, "tier": tier, "legT_problems": lt["problems"],
                                            "how": "./check %s --replay <this file>" % prop})
            lines.append("VIOLATION property=%s replay=%s" % (prop, rp))
            status = 1
        elif lt["problems"]:
            rp = common.write_replay(prop, {"property": prop, "kind": "proof-obligation", "broken": lt["problems"],
                                            "assumptions": lt["assumptions"], "seed": seed, "tier": tier,
                                            "note": "no failing input found by the correspondence/search legs; "
                                                    "the named theorem(s) or build no longer check"})
            lines.append("VIOLATION property=%s replay=%s no-failing-input-found" % (prop, rp))
            status = 1
    except common.HarnessError as e:
        harness_error = str(e)
    except Exception:
        harness_error = traceback.format_exc()
    wall = time.time() - t0
    if harness_error:
        log("HARNESS-ERROR " + harness_error[-3000:])
        common.cleanup()
        sys.exit(2)

    level = mod.LEVEL
    cov = {
        "evaluations": ctx.evaluations,
        "distinct_nontrivial": len(ctx.nontrivial),
        "rule": mod.RULE,
        "samples": ctx.samples[:4] or ["(replay)"],
        "obligations": lt["obligations"],
        "discharged": lt["discharged"],
        "checker_cmd": "make -C coq (coqc 8.16.1, full .vo build) + coqc Print Assumptions per theorem",
        "trusted_base": mod.TRUSTED,
        "theorem_assumptions": lt["assumptions"],
        "explanation": mod.EXPLANATION,
        "distribution": dict(ctx.dist),
        "hash_seeds": ctx.hashseeds,
        "known_findings_seen": ctx.known_seen,
        "notes": ctx.notes,
        "legT_problems": lt["problems"] + (["(not counted) a Coq file this property does not depend on failed to build: " + lt["unrelated_build_failure"]]
                                           if lt.get("unrelated_build_failure") else []),
    }
    ev = {"property_id": prop, "tier": tier, "seed": seed, "level": level, "coverage": cov,
          "assumptions": mod.ASSUMPTIONS, "wall_s": round(wall, 2), "violations": 1 if status else 0}
    common.write_evidence(prop, ev)
    for l in lines:
        print(l, flush=True)
    log("%s %s: evals=%d nontrivial=%d obligations=%d/%d failures=%d wall=%.1fs" % (
        prop, tier, ctx.evaluations, len(ctx.nontrivial), lt["discharged"], lt["obligations"], len(ctx.failures), wall))
    common.cleanup()
    sys.exit(status)


if __name__ == "__main__":
    main()
