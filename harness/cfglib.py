"""CFG helpers: JSON spec <-> pyformlang CFG, interning for the Coq model, generators."""
import itertools
import json

from falib import Interner, vkey


def build_cfg(spec, pool=None):
    """pool: a dict shared between several calls so that the grammars are built from the same Variable / Terminal objects"""
    from pyformlang.cfg import CFG, Variable, Terminal, Production
    if pool is None:
        V_, T_ = Variable, Terminal
    else:
        def V_(v):
            return pool.setdefault(("V", vkey(v)), Variable(v))

        def T_(v):
            return pool.setdefault(("T", vkey(v)), Terminal(v))
    prods = [Production(V_(h), [V_(v) if k == "V" else T_(v) for k, v in body]) for h, body in spec["prods"]]
    start = V_(spec["start"]) if spec.get("start") is not None else None
    return CFG({V_(v) for v in spec["vars"]}, {T_(t) for t in spec["terms"]}, start,
               set(prods) if not spec.get("prods_as_list") else prods)


def _v(x):
    v = x.value if hasattr(x, "value") else x
    if isinstance(v, (int, str)) and not isinstance(v, bool):
        return v
    return "<%s>%s" % (type(v).__name__, str(v))


def extract_cfg(g):
    from pyformlang.cfg import Variable, Terminal
    prods = []
    for p in g.productions:
        body = []
        for x in p.body:
            if isinstance(x, Variable):
                body.append(["V", _v(x)])
            elif isinstance(x, Terminal):
                body.append(["T", _v(x)])
            else:
                body.append(["?", str(x)])
        prods.append([_v(p.head), body])
    prods.sort(key=vkey)
    return {"vars": sorted((_v(x) for x in g.variables), key=vkey), "terms": sorted((_v(x) for x in g.terminals), key=vkey),
            "start": _v(g.start_symbol) if g.start_symbol is not None else None, "prods": prods}


def extract_symbols(symbols):
    from pyformlang.cfg import Variable
    return sorted((["V", _v(x)] if isinstance(x, Variable) else ["T", _v(x)] for x in symbols), key=vkey)


class CfgInterner:
    def __init__(self):
        self.var = Interner()
        self.ter = Interner()

    def sym(self, ks):
        k, v = ks
        return "(V %d)" % self.var(v) if k == "V" else "(T %d)" % self.ter(v)


def coq_cfg(spec, ci):
    vars_ = "[" + "; ".join(str(ci.var(v)) for v in spec["vars"]) + "]"
    terms = "[" + "; ".join(str(ci.ter(t)) for t in spec["terms"]) + "]"
    start = "None" if spec.get("start") is None else "(Some %d)" % ci.var(spec["start"])
    prods = "[" + "; ".join("(%d, [%s])" % (ci.var(h), "; ".join(ci.sym(x) for x in body)) for h, body in spec["prods"]) + "]"
    return "(mkG %s %s %s %s)" % (vars_, terms, start, prods)


def coq_symbols(syms, ci):
    return "[" + "; ".join(ci.sym(x) for x in syms) + "]"


def normalise(spec):
    """What CFG.__init__ does: heads, body symbols and the start symbol join the variable / terminal sets."""
    vs = list(spec["vars"])
    ts = list(spec["terms"])

    def add(l, x):
        if vkey(x) not in set(map(vkey, l)):
            l.append(x)
    if spec.get("start") is not None:
        add(vs, spec["start"])
    for h, body in spec["prods"]:
        add(vs, h)
        for k, v in body:
            add(vs if k == "V" else ts, v)
    seen, prods = set(), []
    for p in spec["prods"]:
        if vkey(p) not in seen:
            seen.add(vkey(p))
            prods.append(p)
    return dict(spec, vars=vs, terms=ts, prods=prods)


VARS = ["S", "A", "B", "C"]
TERMS = ["a", "b", "c"]
ADV_VARS = ["a#CNF#", "C#CNF#1", "A#SUBS#0", "#STARTUNION#", "Start", "C#CNF#2", "S", "a"]


def rand_cfg(rng, profile=None, names="plain", max_vars=4, max_terms=3, max_prods=8, max_body=4):
    profile = profile or rng.choice(["plain", "eps", "unit", "unitcycle", "unitcycle", "recursive", "useless", "longshared", "nostartprod", "cnf", "cnfnames", "epsonly"])
    nv = rng.randint(1, max_vars)
    if profile in ("unitcycle", "epsonly"):
        nv = rng.randint(2, max_vars)
    if profile == "cnfnames":
        names = "cnf"
        nv = rng.randint(2, max_vars)
    nt = rng.randint(1, max_terms)
    if names == "cnf":
        vs = ["S"] + rng.sample(["C#CNF#1", "C#CNF#2", "C#CNF#3", "C#CNF#5", "a#CNF#", "b#CNF#"], nv - 1)
        if nv >= 3 and rng.random() < 0.5:      # the first fresh names are all taken: the counter has to skip several of them
            vs = ["S", "C#CNF#1", "C#CNF#2"] + (["C#CNF#3"] if nv >= 4 else [])
    else:
        vs = (VARS if names == "plain" else rng.sample(ADV_VARS, len(ADV_VARS)))[:nv]
    if names != "plain" and "S" not in vs:
        vs[0] = "S"
    ts = TERMS[:nt]
    if names == "adv" and rng.random() < 0.35:       # distinct terminals with the same spelling
        ts = [1, "1", "a"][:max(2, nt)]
    start = vs[0]
    prods = []
    n = rng.randint(1, max_prods)
    if profile == "doubling":
        # word lengths with a gap that doubles: B derives words of length 2 only, S -> B | B B (no word of length 3, words of length 4)
        vs = (vs + ["B", "C"])[:3] if len(vs) < 3 else vs[:3]
        S_, B_, C_ = vs[0], vs[1], vs[2]
        a, b = ts[0], ts[-1]
        prods = [[B_, [["T", a], ["T", b]]], [S_, [["V", B_], ["V", B_]]]]
        if rng.random() < 0.6:
            prods.append([S_, [["V", B_]]])
        if rng.random() < 0.4:
            prods = [[B_, [["V", C_], ["V", C_]]], [C_, [["T", a]]]] + prods[1:]
        if rng.random() < 0.3:
            prods.append([B_, [["T", b], ["T", b]]])
        return normalise({"vars": vs, "terms": ts, "start": start, "prods": prods, "profile": profile, "names": names})

    def rbody(maxlen, pv=0.5):
        l = rng.randint(0, maxlen)
        return [["V", rng.choice(vs)] if rng.random() < pv else ["T", rng.choice(ts)] for _ in range(l)]
    for _ in range(n):
        h = rng.choice(vs)
        if profile == "eps":
            b = [] if rng.random() < 0.35 else rbody(3)
        elif profile in ("unit", "unitcycle"):
            b = [["V", rng.choice(vs)]] if rng.random() < 0.45 else rbody(3, 0.3)
        elif profile == "recursive":
            b = rbody(3, 0.6)
            if rng.random() < 0.5:
                pos = rng.choice([0, len(b)])
                b.insert(pos, ["V", h])
        elif profile == "cnfnames":
            b = rbody(5, 0.4) if rng.random() < 0.6 else rbody(2, 0.4)
            while rng.random() < 0.5 and len(b) < 3:
                b.append(["T", rng.choice(ts)])
        elif profile == "longshared":
            suffix = [["T", ts[0]], ["V", vs[-1]], ["T", ts[-1]]]
            b = rbody(2) + (suffix if rng.random() < 0.6 else rbody(3))
        elif profile == "cnf":
            b = [["T", rng.choice(ts)]] if rng.random() < 0.5 else [["V", rng.choice(vs)], ["V", rng.choice(vs)]]
        else:
            b = rbody(max_body if rng.random() < 0.3 else 3, 0.45)
        prods.append([h, b])
    if profile == "cnfnames" and not any(len(b) >= 3 for _, b in prods):
        prods.append([vs[0], [["T", rng.choice(ts)] if rng.random() < 0.6 else ["V", rng.choice(vs)] for _ in range(rng.randint(3, 4))]])
    if profile == "unitcycle" and nv >= 2:
        cyc = rng.sample(vs, rng.randint(2, nv))
        for i in range(len(cyc)):
            prods.append([cyc[i], [["V", cyc[(i + 1) % len(cyc)]]]])
        if rng.random() < 0.4:
            prods.append([vs[0], [["V", vs[0]]]])
    if profile == "useless" and nv >= 2:
        u = vs[-1]
        prods = [p for p in prods if p[0] != u] + [[u, [["V", u], ["T", ts[0]]]]]
    if profile == "epsonly" and nv >= 2:
        # some variable derives only the empty word (possibly through itself)
        e = vs[-1]
        prods = [p for p in prods if p[0] != e] + [[e, []]]
        if rng.random() < 0.5:
            prods.append([e, [["V", e], ["V", e]]])
        prods.append([vs[0], [["V", e], ["T", ts[0]], ["V", e]][:rng.randint(1, 3)]])
    if profile == "nostartprod":
        prods = [p for p in prods if p[0] != start]
    # make most grammars productive: give terminals rules
    if profile not in ("useless", "nostartprod") and rng.random() < 0.8:
        for v in (vs[:-1] if profile == "epsonly" else vs):
            if rng.random() < 0.6:
                prods.append([v, [["T", rng.choice(ts)]]])
    spec = {"vars": vs, "terms": ts, "start": start, "prods": prods, "profile": profile, "names": names}
    return normalise(spec)


def enum_small(max_prods=2):
    """All grammars with <= max_prods productions over heads {S,A}, bodies of length <= 2 over {S,A,a,b}."""
    syms = [["V", "S"], ["V", "A"], ["T", "a"], ["T", "b"]]
    bodies = [[]] + [[x] for x in syms] + [[x, y] for x in syms for y in syms]
    allp = [[h, b] for h in ["S", "A"] for b in bodies]
    for k in range(0, max_prods + 1):
        for combo in itertools.combinations(range(len(allp)), k):
            yield normalise({"vars": ["S"], "terms": [], "start": "S", "prods": [allp[i] for i in combo],
                             "profile": "enum", "names": "plain"})


def words_upto(terms, maxlen, extra=None):
    syms = list(terms) + ([extra] if extra is not None else [])
    out = []
    for l in range(maxlen + 1):
        for w in itertools.product(syms, repeat=l):
            out.append(list(w))
    return out


def nontrivial_cfg(spec):
    return len(spec["prods"]) >= 2 and any(len(b) >= 2 for _, b in spec["prods"])


def rand_ll1(rng, eps_p=0.3):
    """Grammars that are LL(1) by construction most of the time: the alternatives of a variable start with distinct terminals;
    some variables also get an epsilon alternative."""
    nv = rng.randint(1, 3)
    nt = rng.randint(2, 3)
    vs, ts = VARS[:nv], TERMS[:nt]
    prods = []
    for v in vs:
        k = rng.randint(1, nt)
        for t in rng.sample(ts, k):
            body = [["T", t]] + [(["V", rng.choice(vs)] if rng.random() < 0.45 else ["T", rng.choice(ts)]) for _ in range(rng.randint(0, 3))]
            prods.append([v, body])
        if rng.random() < eps_p:
            prods.append([v, []])
    return normalise({"vars": vs, "terms": ts, "start": vs[0], "prods": prods, "profile": "ll1", "names": "plain"})


def sample_words(spec, rng, n=12, maxlen=7):
    """Member words by random expansion (budgeted), plus near-misses (one symbol dropped / appended / replaced)."""
    by_head = {}
    for h, b in spec["prods"]:
        by_head.setdefault(vkey(h), []).append(b)
    words = []
    for _ in range(n * 6):
        form = [["V", spec["start"]]]
        steps = 0
        while steps < 40 and any(k == "V" for k, _ in form) and len(form) <= maxlen + 3:
            i = next(j for j, (k, _) in enumerate(form) if k == "V")
            alts = by_head.get(vkey(form[i][1]))
            if not alts:
                break
            alts = sorted(alts, key=len) if steps > 12 else alts
            b = alts[0] if steps > 12 else rng.choice(alts)
            form = form[:i] + b + form[i + 1:]
            steps += 1
        if all(k == "T" for k, _ in form) and len(form) <= maxlen:
            w = [v for _, v in form]
            if w not in words:
                words.append(w)
        if len(words) >= n:
            break
    out = list(words)
    for w in words[:n]:
        r = rng.random()
        if w and r < 0.4:
            i = rng.randrange(len(w))
            out.append(w[:i] + w[i + 1:])
        elif r < 0.7:
            out.append(w + [rng.choice(spec["terms"])] if spec["terms"] else w)
        elif w:
            i = rng.randrange(len(w))
            out.append(w[:i] + [rng.choice(spec["terms"])] + w[i + 1:])
    seen, res = set(), []
    for w in out:
        if vkey(w) not in seen:
            seen.add(vkey(w))
            res.append(w)
    return res
