"""Correspondence engine for the CFG properties (C08, C09, C10, C12).
Case: {"op": ..., "g": spec, ["g2": spec], ["maxlen": k], ...}"""
import common
import cfglib
from cfglib import CfgInterner, coq_cfg, coq_symbols
from common import cq, chunks
from falib import vkey

STAGES = {
    # op: (model expr or None, shape expr, drops epsilon)
    "remove_useless_symbols": ("(remove_useless {G})", "only_useful {H}", False),
    "remove_epsilon": ("(remove_epsilon {G})", "no_eps_prods {H}", True),
    "eliminate_unit_productions": ("(eliminate_unit {G})", "no_unit_prods {H}", False),
    "to_normal_form": (None, "is_normal_form {H}", True),
}
SYMBOL_SETS = {
    "get_generating_symbols": "(generating_symbols {G})",
    "get_nullable_symbols": "(map V (nullable_vars {G}))",
    "get_reachable_symbols": "(reachable_symbols {G})",
}
BOOLS = {"is_empty": "(is_empty_cfg {G})", "generate_epsilon": "(generate_epsilon {G})"}
EXTRA_OPS = ("get_words", "is_finite")


def eff_len(case):
    """word-length bound adapted to the alphabet size so that the number of words stays comparable"""
    k = len(case["g"]["terms"]) + (1 if case.get("foreign") else 0)
    base = case.get("maxlen", 4)
    return {0: base, 1: base + 2, 2: base}.get(k, base - 1)


def words_of(case):
    return cfglib.words_upto(case["g"]["terms"], eff_len(case), extra="zz" if case.get("foreign") else None)


def impl_case(case):
    op = case["op"]
    g = cfglib.build_cfg(case["g"])
    if case.get("warm"):            # discarded queries that may fill caches
        for q in case["warm"]:
            try:
                getattr(g, q)()
            except Exception:
                pass
    if op == "contains":
        from pyformlang.cfg import Terminal
        ws = words_of(case)
        if case.get("via_in"):
            return {"bits": [bool([Terminal(a) for a in w] in g) for w in ws]}
        return {"bits": [bool(g.contains([Terminal(a) for a in w])) for w in ws]}
    if op in BOOLS:
        return {"bool": bool(getattr(g, op)())}
    if op == "get_words":
        # unbounded mode (finite languages only): the model is asked for every word up to case["n"], a bound the generator guarantees
        return {"words": [[cfglib._v(x) for x in w] for w in (g.get_words() if case.get("unbounded") else g.get_words(case["n"]))]}
    if op == "is_finite":
        return {"bool": bool(g.is_finite())}
    if op in SYMBOL_SETS:
        return {"symbols": cfglib.extract_symbols(getattr(g, op)())}
    if op in STAGES:
        res = getattr(g, op)()
        out = {"out": cfglib.extract_cfg(res), "operand_unchanged": cfglib.extract_cfg(g) == cfglib.extract_cfg(cfglib.build_cfg(case["g"]))}
        if op == "to_normal_form":
            out["is_nf"] = bool(res.is_normal_form())
        return out
    raise ValueError(op)


def coq_expr(case, obs):
    op = case["op"]
    ci = CfgInterner()
    G = coq_cfg(case["g"], ci)
    if op == "contains":
        ws = [[ci.ter(a) for a in w] for w in words_of(case)]
        return "(map (cfg_member %s) %s, map (contains NFFUEL %s) %s)" % (G, cq(ws), G, cq(ws))
    if op == "get_words":
        return "(get_words %s %d%%nat)" % (G, case["n"])
    if op == "is_finite":
        return "(is_finite NFFUEL %s, option_map nf_vars_useful (to_normal_form NFFUEL %s))" % (G, G)
    if op in BOOLS:
        extra = ", cfg_member %s []" % G if op == "generate_epsilon" else ", true"
        return "(%s%s)" % (BOOLS[op].format(G=G), extra)
    if op in SYMBOL_SETS:
        if "symbols" not in obs:
            return None
        return "(eqset %s %s)" % (SYMBOL_SETS[op].format(G=G), coq_symbols(obs["symbols"], ci))
    if op in STAGES:
        if "out" not in obs:
            return None
        H = coq_cfg(obs["out"], ci)
        model, shape, drop = STAGES[op]
        ts = "[" + "; ".join(str(ci.ter(t)) for t in case["g"]["terms"]) + "]"
        ws = "(all_words %s %d%%nat)" % (ts, eff_len(case))
        same = "same_prods %s %s" % (model.format(G=G), H) if model else "true"
        return "(lang_diff %s %s %s %s, %s, %s)" % (G, H, ws, cq(drop), shape.format(H=H), same)
    raise ValueError(op)


def judge_case(ctx, case, obs, mv):
    op = case["op"]
    if "timeout" in obs:
        ctx.fail(op + "-timeout", case, {"impl": "timeout"})
        return
    if "exc" in obs:
        ctx.fail(op + "-exception", case, {"impl": obs})
        return
    if op == "contains":
        oracle, model = mv
        mbits = [m[1] if isinstance(m, tuple) else None for m in model]
        if any(m is not None and m != o for m, o in zip(mbits, oracle)):
            raise RuntimeError("HARNESS: mirrored contains model disagrees with the certified membership oracle on %r" % (case,))
        ctx.count(len(oracle))
        if obs["bits"] != oracle:
            ws = words_of(case)
            bad = [ws[j] for j in range(len(ws)) if obs["bits"][j] != oracle[j]]
            ctx.fail("contains", case, {"words": bad[:3], "hashseed": obs.get("_hs")})
        return
    ctx.count(1)
    if op == "get_words":
        ci = CfgInterner()
        coq_cfg(case["g"], ci)
        want = sorted(tuple(w) for w in mv)
        got = sorted(tuple(ci.ter(a) for a in w) for w in obs["words"])
        if want != got:
            ctx.fail("get_words", case, {"missing_interned": [w for w in want if w not in got][:3], "extra_interned": [w for w in got if w not in want][:3],
                                         "duplicates": len(got) != len(set(got)), "hashseed": obs.get("_hs")})
        return
    if op == "is_finite":
        fin, useful = mv
        if useful is None or useful[1] is not True:
            if case["g"].get("start") is not None and useful is not None:
                raise RuntimeError("HARNESS: the normal form of the model has a useless variable (hypothesis of C12_is_finite fails) on %r" % (case,))
            ctx.dist["is_finite:no-start-symbol(theorem hypothesis n/a)"] += 1
        if fin is not None and obs["bool"] != fin[1]:
            ctx.fail("is_finite", case, {"impl": obs["bool"], "model": fin[1]})
        return
    if op in BOOLS:
        m, o = mv
        if op == "generate_epsilon" and m != o:
            raise RuntimeError("HARNESS: generate_epsilon model disagrees with the oracle on %r" % (case,))
        if obs["bool"] != m:
            ctx.fail(op, case, {"impl": obs["bool"], "model": m, "hashseed": obs.get("_hs")})
        return
    if op in SYMBOL_SETS:
        if mv is not True:
            ctx.fail(op, case, {"impl": obs["symbols"], "hashseed": obs.get("_hs")})
        return
    if op in STAGES:
        diff, shape, same = mv
        if diff is not None:
            ctx.fail(op + "-language", case, {"word_interned": diff[1] if isinstance(diff, tuple) else diff, "impl_out": obs["out"], "hashseed": obs.get("_hs")})
        elif shape is not True or obs.get("is_nf") is False:
            ctx.fail(op + "-shape", case, {"impl_out": obs["out"], "is_normal_form()": obs.get("is_nf")})
        elif not obs.get("operand_unchanged", True):
            ctx.fail(op + "-mutates-operand", case, {})
        elif same is not True:
            ctx.fail(op + "-model-divergence", case, {"impl_out": obs["out"], "note": "productions differ from the mirrored model's although language (bounded) and shape agree"})
        return
    raise ValueError(op)


def check_cases(ctx, module, cases, ext=None):
    """ext: optional object with coq_expr(case, obs) / judge_case(ctx, case, obs, mv) for ops this engine does not know."""
    obs = ctx.impl(module, cases)
    parts = chunks(list(range(len(cases))), 16)
    srcs, idxs = [], []
    for part in parts:
        lines, keep = [], []
        for i in part:
            c = cases[i]
            if "exc" in obs[i] or "timeout" in obs[i]:
                e = None
            elif c["op"] in _KNOWN_OPS:
                e = coq_expr(c, obs[i])
            else:
                e = ext.coq_expr(c, obs[i])
            if e is not None:
                lines.append("Eval vm_compute in %s." % e)
                keep.append(i)
        srcs.append("From PFL Require Import Eval.CFG.\n" + "\n".join(lines) + "\n")
        idxs.append(keep)
    outs = ctx.coq(srcs)
    mvs = [None] * len(cases)
    has = [False] * len(cases)
    for keep, vals in zip(idxs, outs):
        assert len(keep) == len(vals), (len(keep), len(vals))
        for i, v in zip(keep, vals):
            mvs[i] = v
            has[i] = True
    for i, c in enumerate(cases):
        ctx.dist[c["op"]] += 1
        ctx.dist["profile:" + c["g"].get("profile", "?")] += 1
        if cfglib.nontrivial_cfg(c["g"]):
            ctx.nontriv([c["op"], c["g"], c.get("g2")])
        if i % 41 == 0:
            ctx.sample({"op": c["op"], "g": c["g"]})
        if not has[i] and "exc" not in obs[i] and "timeout" not in obs[i]:
            continue
        if mvs[i] == common.MODEL_TIMEOUT:
            ctx.dist["model / oracle evaluation exceeded its time budget (case skipped, not judged)"] += 1
            continue
        if c["op"] in _KNOWN_OPS:
            judge_case(ctx, c, obs[i], mvs[i])
        else:
            ext.judge_case(ctx, c, obs[i], mvs[i])


_KNOWN_OPS = set(["contains"]) | set(BOOLS) | set(SYMBOL_SETS) | set(STAGES) | set(EXTRA_OPS)


def shrink_candidates(case):
    for key in ("g", "g2"):
        if key not in case:
            continue
        spec = case[key]
        for i in range(len(spec["prods"])):
            yield dict(case, **{key: cfglib.normalise(dict(spec, prods=spec["prods"][:i] + spec["prods"][i + 1:]))})
        for i, (h, b) in enumerate(spec["prods"]):
            for j in range(len(b)):
                p2 = [h, b[:j] + b[j + 1:]]
                yield dict(case, **{key: cfglib.normalise(dict(spec, prods=spec["prods"][:i] + [p2] + spec["prods"][i + 1:]))})
    if case.get("maxlen", 0) > 1:
        yield dict(case, maxlen=case["maxlen"] - 1)
