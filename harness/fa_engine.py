"""Correspondence engine for the finite-automaton properties (C01-C04, parts of C06/C19).
A case is {"op": name, "fa": spec, ["fb": spec], ["maxlen": k], ...}.  impl_case() runs pyformlang,
coq_expr() gives the Coq expression evaluating the model / certified oracle on the same case, and
judge_case() compares."""
import common
import falib
from common import cq, chunks

# op -> (arity, kind)   kind: 'lang' = returned automaton judged against a reference construction
UNARY_LANG = {
    "to_deterministic": ("{A}", "dfa_b {R}"),
    "remove_epsilon_transitions": ("{A}", "eps_free_b {R}"),
    "minimize": ("{A}", "dfa_b {R}"),
    "copy": ("{A}", "true"),
    "reverse": ("(reverse {A})", "true"),
    "get_complement": ("(ref_complement {A})", "true"),
}
BINARY_LANG = {
    "get_intersection": "(ref_intersection {A} {B})",
    "get_difference": "(ref_difference {A} {B})",
}
RATIONAL = {"union": "(fa_union {A} {B})", "concatenate": "(fa_concat {A} {B})", "kleene_star": "(fa_star {A})"}
OPERATOR_FORM = {"get_intersection": "and", "get_difference": "sub", "get_complement": "neg", "reverse": "invert"}
QUERIES = {"is_empty": "is_empty {A}", "is_deterministic": "is_deterministic {A}", "is_acyclic": "is_acyclic {A}"}


def words_of(case):
    syms = list(case["fa"]["symbols"]) + ["zz"]
    return falib.words_upto(syms, case.get("maxlen", 3))


def history_snapshots(case):
    """Replays the edit steps of an edit_history case on plain sets; returns the spec at each query."""
    spec = {k: (list(v) if isinstance(v, list) else v) for k, v in case["fa"].items()}
    spec["trans"] = [list(t) for t in spec["trans"]]
    snaps = []
    for st in case["steps"]:
        k = st[0]
        if k == "add":
            if st[1:] not in spec["trans"]:
                spec["trans"].append(st[1:])
            for q in (st[1], st[3]):
                if q not in spec["states"]:
                    spec["states"].append(q)
            if st[2] is not None and st[2] not in spec["symbols"]:
                spec["symbols"].append(st[2])
        elif k == "rem":
            spec["trans"] = [t for t in spec["trans"] if t != st[1:]]
        elif k == "start+":
            if spec.get("kind") == "dfa":
                spec["starts"] = [st[1]]
                if st[1] not in spec["states"]:
                    spec["states"].append(st[1])
            elif st[1] not in spec["starts"]:
                spec["starts"].append(st[1])
        elif k == "final+":
            if st[1] not in spec["finals"]:
                spec["finals"].append(st[1])
        elif k == "final-":
            spec["finals"] = [x for x in spec["finals"] if x != st[1]]
        elif k == "start-":
            spec["starts"] = [x for x in spec["starts"] if x != st[1]]
        elif k == "query":
            snaps.append({kk: (list(v) if isinstance(v, list) else v) for kk, v in spec.items()})
    return snaps


def history_words(case):
    return falib.words_upto(["a", "b"], case.get("maxlen", 3))


def impl_history(case):
    from pyformlang.finite_automaton import State, Symbol, Epsilon
    fa = falib.build_fa(case["fa"])
    lab = lambda a: Epsilon() if a is None else Symbol(a)
    out = []
    ws = history_words(case)
    for st in case["steps"]:
        k = st[0]
        if k == "add":
            fa.add_transition(State(st[1]), lab(st[2]), State(st[3]))
        elif k == "rem":
            fa.remove_transition(State(st[1]), lab(st[2]), State(st[3]))
        elif k == "start+":
            fa.add_start_state(State(st[1]))
        elif k == "start-":
            fa.remove_start_state(State(st[1]))
        elif k == "final+":
            fa.add_final_state(State(st[1]))
        elif k == "final-":
            fa.remove_final_state(State(st[1]))
        elif k == "query" and case["op"] == "dfa_history":
            other = falib.build_fa(case["fb"])
            out.append({"min": falib.extract_fa(fa.minimize()), "eqv": bool(fa.is_equivalent_to(other)), "eqv2": bool(other == fa),
                        "bits": [bool(fa.accepts(w)) for w in ws]})
        elif k == "query":
            q = {"bits": [bool(fa.accepts(w)) for w in ws], "empty": bool(fa.is_empty()),
                 "det": falib.extract_fa(fa.to_deterministic()), "noeps": falib.extract_fa(fa.remove_epsilon_transitions()),
                 "isdet": bool(fa.is_deterministic())}
            out.append(q)
    return {"queries": out}


def impl_case(case):
    op = case["op"]
    if op in ("edit_history", "dfa_history"):
        return impl_history(case)
    fa = falib.build_fa(case["fa"])
    if op == "accepts":
        return {"bits": [bool(fa.accepts(w)) for w in words_of(case)]}
    if op in UNARY_LANG:
        if case.get("operator"):
            res = {"neg": lambda: -fa, "invert": lambda: ~fa}[OPERATOR_FORM[op]]()
        else:
            res = getattr(fa, op)()
        out = {"out": falib.extract_fa(res)}
        if op in ("to_deterministic", "minimize"):
            out["isdet"] = bool(res.is_deterministic())
        return out
    if op in BINARY_LANG:
        fb = falib.build_fa(case["fb"]) if not case.get("same_object") else fa
        before = (falib.extract_fa(fa), falib.extract_fa(fb))
        if case.get("operator"):
            res = (fa & fb) if op == "get_intersection" else (fa - fb)
        else:
            res = getattr(fa, op)(fb)
        after = (falib.extract_fa(fa), falib.extract_fa(fb))
        return {"out": falib.extract_fa(res), "operands_unchanged": before == after}
    if op in QUERIES:
        return {"bool": bool(getattr(fa, op)())}
    if op == "to_regex":
        return {"tree": regex_tree(fa.to_regex())}
    if op in RATIONAL:
        if op == "kleene_star":
            return {"out": falib.extract_fa(fa.kleene_star())}
        fb = falib.build_fa(case["fb"]) if not case.get("same_object") else fa
        return {"out": falib.extract_fa(getattr(fa, op)(fb))}
    if op == "get_accepted_words":
        ws = [[falib._val(x) for x in w] for w in fa.get_accepted_words(case["n"])]
        return {"words": ws}
    if op == "minimize_pair":
        fb = falib.build_fa(case["fb"])
        ma, mb = fa.minimize(), fb.minimize()
        xa, xb = falib.extract_fa(ma), falib.extract_fa(mb)
        return {"out": xa, "out2": xb, "iso": dfa_isomorphic(xa, xb), "equiv": bool(fa.is_equivalent_to(fb))}
    if op in ("is_equivalent_to", "eq"):
        fb = falib.build_fa(case["fb"])
        return {"bool": bool(fa.is_equivalent_to(fb)) if op == "is_equivalent_to" else bool(fa == fb)}
    raise ValueError(op)


def regex_tree(rx):
    """Read a pyformlang Regex object back as a nested list through its public head/sons attributes."""
    name = type(rx.head).__name__
    sons = [regex_tree(s) for s in (rx.sons or [])]
    if name == "Symbol":
        return ["sym", falib._val(rx.head)]
    if name == "Epsilon":
        return ["eps"]
    if name == "Empty":
        return ["empty"]
    if name == "Concatenation":
        return ["cat"] + sons
    if name == "Union":
        return ["alt"] + sons
    if name == "KleeneStar":
        return ["star"] + sons
    return ["unknown:" + name] + sons


def coq_re(tree, sym_int):
    k = tree[0]
    if k == "sym":
        return "(RSym %d)" % sym_int(tree[1])
    if k == "eps":
        return "REps"
    if k == "empty":
        return "REmpty"
    if k in ("cat", "alt"):
        c = "RCat" if k == "cat" else "RAlt"
        if len(tree) < 3:
            raise ValueError("operator with %d sons" % (len(tree) - 1))
        acc = coq_re(tree[-1], sym_int)
        for t in reversed(tree[1:-1]):
            acc = "(%s %s %s)" % (c, coq_re(t, sym_int), acc)
        return acc
    if k == "star":
        if len(tree) == 2:
            return "(RStar %s)" % coq_re(tree[1], sym_int)
        raise ValueError("star with %d sons" % (len(tree) - 1))
    raise ValueError(k)


def dfa_isomorphic(xa, xb):
    """Isomorphism of two extracted deterministic automata (lock-step walk from the start states)."""
    if len(xa["states"]) != len(xb["states"]) or len(xa["trans"]) != len(xb["trans"]) or \
            len(xa["starts"]) != len(xb["starts"]) or len(xa["finals"]) != len(xb["finals"]):
        return False
    if not xa["starts"]:
        return not xa["states"] and not xb["states"] or len(xa["states"]) == len(xb["states"])
    k = falib.vkey
    da = {(k(s), k(a)): k(t) for s, a, t in xa["trans"]}
    db = {(k(s), k(a)): k(t) for s, a, t in xb["trans"]}
    fa_, fb_ = set(map(k, xa["finals"])), set(map(k, xb["finals"]))
    m = {k(xa["starts"][0]): k(xb["starts"][0])}
    todo = [k(xa["starts"][0])]
    while todo:
        p = todo.pop()
        q = m[p]
        if (p in fa_) != (q in fb_):
            return False
        oa = {a: t for (s, a), t in da.items() if s == p}
        ob = {a: t for (s, a), t in db.items() if s == q}
        if set(oa) != set(ob):
            return False
        for a, t in oa.items():
            if t in m:
                if m[t] != ob[a]:
                    return False
            else:
                m[t] = ob[a]
                todo.append(t)
    return len(set(m.values())) == len(m) and len(m) == len(xa["states"])


def coq_expr(case, obs):
    """Coq expression (type depends on op) for one case, or None when there is nothing to evaluate."""
    op = case["op"]
    si = falib.Interner()
    if op == "dfa_history":
        if "queries" not in obs:
            return None
        items = []
        ws = cq([[si(a) for a in w] for w in history_words(case)])
        B = falib.coq_enfa(case["fb"], si)
        for snap, q in zip(history_snapshots(case), obs["queries"]):
            A = falib.coq_enfa(snap, si)
            M = falib.coq_enfa(q["min"], si)
            items.append("(map (accepts %s) %s, enfa_equiv %s %s FUEL, judge %s %s, dfa_b %s && is_reduced_b %s FUEL)" % (A, ws, A, B, A, M, M, M))
        return "[" + "; ".join(items) + "]"
    if op == "edit_history":
        if "queries" not in obs:
            return None
        items = []
        ws = cq([[si(a) for a in w] for w in history_words(case)])
        for snap, q in zip(history_snapshots(case), obs["queries"]):
            A = falib.coq_enfa(snap, si)
            items.append("(map (accepts %s) %s, is_empty %s, is_deterministic %s, judge %s %s, judge %s %s)" % (
                A, ws, A, A, A, falib.coq_enfa(q["det"], si), A, falib.coq_enfa(q["noeps"], si)))
        return "[" + "; ".join(items) + "]"
    A = falib.coq_enfa(case["fa"], si)
    if op == "accepts":
        ws = cq([[si(a) for a in w] for w in words_of(case)])
        fn = {"enfa": "accepts", "nfa": "accepts_nfa", "dfa": "accepts_dfa"}[case["fa"]["kind"]]
        return "(map (accepts %s) %s, map (%s %s) %s)" % (A, ws, fn, A, ws)
    if op in UNARY_LANG:
        if "out" not in obs:
            return None
        R = falib.coq_enfa(obs["out"], si)
        ref, shape = UNARY_LANG[op]
        j = "judge_opt" if ref.startswith("(ref_") else "judge"
        return "(%s %s %s, %s)" % (j, ref.format(A=A), R, shape.format(R=R))
    if op in BINARY_LANG:
        if "out" not in obs:
            return None
        B = A if case.get("same_object") else falib.coq_enfa(case["fb"], si)
        R = falib.coq_enfa(obs["out"], si)
        return "(judge_opt %s %s, true)" % (BINARY_LANG[op].format(A=A, B=B), R)
    if op in QUERIES:
        return QUERIES[op].format(A=A)
    if op == "to_regex":
        if "tree" not in obs:
            return None
        # second component: the expression of the proved model of to_regex (state elimination) and pyformlang's agree on all short words
        R = coq_re(obs["tree"], si)
        return "(judge_re %s %s 60%%nat 5%%nat, to_regex_model_agrees %s %s 4%%nat)" % (A, R, A, R)
    if op in RATIONAL:
        if "out" not in obs:
            return None
        B = A if (case.get("same_object") or "fb" not in case) else falib.coq_enfa(case["fb"], si)
        R = falib.coq_enfa(obs["out"], si)
        return "(judge %s %s, true)" % (RATIONAL[op].format(A=A, B=B), R)
    if op == "get_accepted_words":
        n = case["n"]
        return "(accepted_words FUEL %s %s)" % (A, "None" if n is None else "(Some %d%%nat)" % n)
    if op == "minimize_pair":
        if "out" not in obs:
            return None
        B = falib.coq_enfa(case["fb"], si)
        R = falib.coq_enfa(obs["out"], si)
        R2 = falib.coq_enfa(obs["out2"], si)
        # last component: the proved model of minimize (Model/Minimize.v) has as many states, transitions and final states as the result
        MM = "minimize_model_agrees %s %s" % (A, R) if case["fa"].get("kind") == "dfa" else "true"
        return ("(enfa_equiv %s %s FUEL, judge %s %s, judge %s %s, dfa_b %s && is_reduced_b %s FUEL, dfa_b %s && is_reduced_b %s FUEL, trim_b %s && trim_b %s, %s)"
                % (A, B, A, R, B, R2, R, R, R2, R2, R, R2, MM))
    if op in ("is_equivalent_to", "eq"):
        B = falib.coq_enfa(case["fb"], si)
        return "(enfa_equiv %s %s FUEL)" % (A, B)
    raise ValueError(op)


def judge_case(ctx, case, obs, mv):
    """mv = parsed model value (None if nothing was evaluated)."""
    op = case["op"]
    if "timeout" in obs:
        ctx.fail(op + "-timeout", case, {"impl": "timeout", "model": str(mv)[:200]})
        return
    if "exc" in obs:
        ctx.fail(op + "-exception", case, {"impl": obs})
        return
    if op == "dfa_history":
        ctx.count(len(mv))
        for i, (m, q) in enumerate(zip(mv, obs["queries"])):
            bits, eqv, jm, red = m
            bad = None
            if bits != q["bits"]:
                bad = "accepts"
            elif eqv is not None and (eqv[1] != q["eqv"] or eqv[1] != q["eqv2"]):
                bad = "is_equivalent_to"
            elif jm not in ("VEq", "VFuel"):
                bad = "minimize-language"
            elif not red:
                bad = "minimize-not-reduced"
            if bad:
                ctx.fail("history-" + bad, case, {"query_index": i, "hashseed": obs.get("_hs")})
                return
        return
    if op == "edit_history":
        ctx.count(len(mv))
        for i, (m, q) in enumerate(zip(mv, obs["queries"])):
            bits, emp, isdet, jd, jn = m
            bad = None
            if bits != q["bits"]:
                bad = "accepts"
            elif emp != q["empty"]:
                bad = "is_empty"
            elif isdet != q["isdet"]:
                bad = "is_deterministic"
            elif jd not in ("VEq", "VFuel"):
                bad = "to_deterministic"
            elif jn not in ("VEq", "VFuel"):
                bad = "remove_epsilon_transitions"
            if bad:
                ctx.fail("history-" + bad, case, {"query_index": i, "hashseed": obs.get("_hs")})
                return
        return
    if op == "accepts":
        ref, cls = mv
        if ref != cls:
            raise RuntimeError("model inconsistency accepts vs class loop on %r" % (case,))
        ctx.count(len(ref))
        if obs["bits"] != ref:
            ws = words_of(case)
            bad = [ws[j] for j in range(len(ws)) if obs["bits"][j] != ref[j]]
            ctx.fail("accepts", case, {"words": bad[:3], "hashseed": obs.get("_hs")})
        return
    ctx.count(1)
    if op in UNARY_LANG or op in BINARY_LANG or op in RATIONAL or op == "to_regex":
        verdict, shape = mv
        if verdict == "VFuel":
            ctx.notes.append("fuel exhausted on a %s case (skipped)" % op)
            return
        if isinstance(verdict, tuple) and verdict[0] == "VEqBounded":
            ctx.dist["bounded-comparison"] += 1
            verdict = "VEq"
        if verdict != "VEq":
            w = verdict[1] if isinstance(verdict, tuple) else None
            ctx.fail(op + "-language", case, {"distinguishing_word_interned": w, "impl_out": obs.get("out", obs.get("tree")), "hashseed": obs.get("_hs")})
        elif shape is not True:
            ctx.fail(op + ("-model" if op == "to_regex" else "-shape"), case, {"impl_out": obs.get("out", obs.get("tree"))}, **({"correspondence_only": True} if op == "to_regex" else {}))
        elif obs.get("isdet") is False:
            ctx.fail(op + "-shape", case, {"impl_out": obs["out"], "is_deterministic()": False})
        elif obs.get("operands_unchanged") is False:
            ctx.fail(op + "-mutates-operand", case, {})
        return
    if op == "get_accepted_words":
        if mv is None:
            return
        si = falib.Interner()
        falib.coq_enfa(case["fa"], si)     # same interning as coq_expr
        want = sorted(tuple(w) for w in mv[1])
        got = sorted(tuple(si(a) for a in w) for w in obs["words"])
        if want != got:
            missing = [w for w in want if w not in got]
            extra = [w for w in got if w not in want]
            dup = len(got) != len(set(got))
            ctx.fail("get_accepted_words", case, {"missing_interned": missing[:3], "extra_interned": extra[:3], "duplicates": dup,
                                                  "hashseed": obs.get("_hs")})
        return
    if op == "minimize_pair":
        eq, j1, j2, red1, red2, trim, mm = mv
        if eq is None or j1 == "VFuel" or j2 == "VFuel":
            return
        if eq[1] and j1 == "VEq" and j2 == "VEq" and red1 and red2 and trim:
            ctx.dist["minimize_pair:isomorphism forced by C02_minimal_unique"] += 1
        eq = eq[1]
        if j1 != "VEq" or j2 != "VEq":
            ctx.fail("minimize-language", case, {"impl_out": obs["out"], "impl_out2": obs["out2"], "verdicts": [str(j1), str(j2)]})
        elif not (red1 and red2):
            ctx.fail("minimize-not-reduced", case, {"impl_out": obs["out"], "impl_out2": obs["out2"], "reduced": [red1, red2]})
        elif eq and not obs["iso"]:
            ctx.fail("minimize-not-canonical", case, {"impl_out": obs["out"], "impl_out2": obs["out2"]})
        elif obs["equiv"] != eq:
            ctx.fail("is_equivalent_to", case, {"impl": obs["equiv"], "model": eq})
        elif mm is not True:
            # the result is certified language-equal, deterministic and reduced, yet its size differs from the proved model's
            ctx.fail("minimize-model", case, {"impl_out": obs["out"]}, correspondence_only=True)
        elif case["fa"].get("kind") == "dfa":
            ctx.dist["minimize_pair:same size as the proved model of minimize (isomorphic by C02_minimize_canonical)"] += 1
        return
    if op in QUERIES:
        if obs["bool"] != mv:
            ctx.fail(op, case, {"impl": obs["bool"], "model": mv, "hashseed": obs.get("_hs")})
        return
    if op in ("is_equivalent_to", "eq"):
        if mv is None:
            ctx.notes.append("fuel exhausted on an equivalence case (skipped)")
            return
        want = mv[1] if isinstance(mv, tuple) else mv
        if obs["bool"] != want:
            ctx.fail(op, case, {"impl": obs["bool"], "model": want, "hashseed": obs.get("_hs")})
        return
    raise ValueError(op)


def check_cases(ctx, module, cases, extra_judge=None):
    obs = ctx.impl(module, cases)
    parts = chunks(list(range(len(cases))), 16)
    srcs, idxs = [], []
    for part in parts:
        lines, keep = [], []
        for i in part:
            e = coq_expr(cases[i], obs[i])
            if e is not None:
                lines.append("Eval vm_compute in %s." % e)
                keep.append(i)
        srcs.append("From PFL Require Import Eval.FA.\n" + "\n".join(lines) + "\n")
        idxs.append(keep)
    outs = ctx.coq(srcs)
    mvs = [None] * len(cases)
    for keep, vals in zip(idxs, outs):
        assert len(keep) == len(vals), (len(keep), len(vals))
        for i, v in zip(keep, vals):
            mvs[i] = v
    for i, c in enumerate(cases):
        ctx.dist[c["op"]] += 1
        ctx.dist["kind:" + c["fa"]["kind"] + "/" + c["fa"].get("profile", "?")] += 1
        if falib.nontrivial_fa(c["fa"]):
            ctx.nontriv([c["op"], c["fa"], c.get("fb")])
        if i % 37 == 0:
            ctx.sample({"op": c["op"], "fa": c["fa"], "fb": c.get("fb"), "impl": {k: v for k, v in obs[i].items() if k in ("bool", "exc")}})
        if mvs[i] == common.MODEL_TIMEOUT:
            ctx.dist["model / oracle evaluation exceeded its time budget (case skipped, not judged)"] += 1
            continue
        judge_case(ctx, c, obs[i], mvs[i])
        if extra_judge:
            extra_judge(ctx, c, obs[i], mvs[i])


def rand_history(rng, nsteps=None):
    """Edit stream on a small epsilon-NFA, biased to epsilon edges, with a query after every edit."""
    states = falib.PLAIN_STATES[:rng.randint(2, 4)]
    base = falib.rand_fa(rng, kind="enfa", names="plain", max_states=len(states), max_syms=2)
    base["symbols"] = ["a", "b"]
    base["states"] = list(states)
    base["trans"] = [t for t in base["trans"] if t[0] in states and t[2] in states]
    base["starts"] = [x for x in base["starts"] if x in states] or [states[0]]
    base["finals"] = [x for x in base["finals"] if x in states]
    steps = [["query"]]
    cur = [list(t) for t in base["trans"]]
    for _ in range(nsteps or rng.randint(3, 8)):
        r = rng.random()
        if r < 0.55:
            t = [rng.choice(states), rng.choice([None, None, "a", "b"]), rng.choice(states)]
            steps.append(["add"] + t)
            if t not in cur:
                cur.append(t)
        elif r < 0.8 and cur:
            t = rng.choice(cur)
            steps.append(["rem"] + t)
            cur = [x for x in cur if x != t]
        elif r < 0.9:
            steps.append([rng.choice(["final+", "final-"]), rng.choice(states)])
        else:
            steps.append([rng.choice(["start+", "start-"]), rng.choice(states)])
        steps.append(["query"])
    return {"op": "edit_history", "fa": base, "steps": steps, "maxlen": 3}


def rand_dfa_history(rng):
    """Edit stream on a live DFA (transitions, start state replaced or removed, final states) with minimize / equivalence queries after every edit."""
    base = falib.rand_fa(rng, kind="dfa", names="plain", max_states=4, max_syms=2)
    base["symbols"] = ["a", "b"]
    states = list(base["states"])
    other = falib.rand_fa(rng, names="plain", max_states=3, max_syms=2)
    if rng.random() < 0.5:
        other = dict(base, kind="enfa")           # equal at the beginning, so that edits flip the verdict
    cur = {(t[0], t[1]): t[2] for t in base["trans"]}
    steps = [["query"]]
    for _ in range(rng.randint(2, 6)):
        r = rng.random()
        if r < 0.3:
            s_, a_ = rng.choice(states), rng.choice(["a", "b"])
            if (s_, a_) not in cur:
                t_ = rng.choice(states)
                cur[(s_, a_)] = t_
                steps.append(["add", s_, a_, t_])
            else:
                steps.append(["rem", s_, a_, cur.pop((s_, a_))])
        elif r < 0.65:
            steps.append(["start+", rng.choice(states)])
        elif r < 0.75:
            steps.append(["start-", rng.choice(states)])
        else:
            steps.append([rng.choice(["final+", "final-"]), rng.choice(states)])
        steps.append(["query"])
    return {"op": "dfa_history", "fa": base, "fb": other, "steps": steps, "maxlen": 3}


def shrink_candidates(case):
    """Smaller variants of a case: drop one transition / state / start / final, shorten words."""
    if case["op"] in ("edit_history", "dfa_history"):
        st = case["steps"]
        for i in range(len(st)):
            if st[i][0] != "query":
                yield dict(case, steps=st[:i] + st[i + 1:])
        for i in range(len(st)):
            if st[i][0] == "query" and i != len(st) - 1:
                yield dict(case, steps=st[:i] + st[i + 1:])
        return
    for key in ("fa", "fb"):
        if key not in case:
            continue
        spec = case[key]
        for i in range(len(spec["trans"])):
            s2 = dict(spec, trans=spec["trans"][:i] + spec["trans"][i + 1:])
            yield dict(case, **{key: s2})
        for st in spec["states"]:
            if len(spec["states"]) > 1:
                s2 = dict(spec, states=[x for x in spec["states"] if x != st],
                          trans=[t for t in spec["trans"] if t[0] != st and t[2] != st],
                          starts=[x for x in spec["starts"] if x != st], finals=[x for x in spec["finals"] if x != st])
                yield dict(case, **{key: s2})
        for f in ("starts", "finals"):
            for i in range(len(spec[f])):
                if len(spec[f]) > 1:
                    yield dict(case, **{key: dict(spec, **{f: spec[f][:i] + spec[f][i + 1:]})})
    if case.get("maxlen", 0) > 1:
        yield dict(case, maxlen=case["maxlen"] - 1)


# ---------------------------------------------------------------------------------------
# known finding: pyformlang names merged / paired states with str(value) joined by ';' or '; '
# ---------------------------------------------------------------------------------------

def _adversarial_names(case):
    for key in ("fa", "fb"):
        if key in case:
            vals = case[key]["states"]
            strs = [str(v) for v in vals]
            if len(set(strs)) < len(set(map(falib.vkey, vals))):
                return True
            if any(";" in s or s in ("TrashNode", "TRASH", "Empty", "") for s in strs):
                return True
    return False


def rename_plain(case):
    out = dict(case)
    for key in ("fa", "fb"):
        if key in case:
            spec = case[key]
            ren = {}
            for v in spec["states"]:
                ren.setdefault(falib.vkey(v), "n%d%s" % (len(ren), key[-1]))
            r = lambda v: ren[falib.vkey(v)]
            out[key] = dict(spec, states=[r(v) for v in spec["states"]],
                            trans=[[r(s), a, r(t)] for s, a, t in spec["trans"]],
                            starts=[r(v) for v in spec["starts"]], finals=[r(v) for v in spec["finals"]])
    return out


def make_name_collision_predicate(module):
    def pred(failure):
        """True iff the failing case uses state values whose str() collide / look like merged names AND the
        failure disappears when the states are renamed injectively to plain names (so it depends on spelling only)."""
        case = failure["case"]
        if not _adversarial_names(case):
            return False
        import check
        sub = check.Ctx("sub", "quick", 0, quiet=True)
        try:
            check_cases(sub, module, [rename_plain(case)])
        except Exception:
            return False
        return not sub.failures
    return pred


# ---- search stage for the partition refinement: many mid-sized DFAs, pre-filtered in Python; only the suspects go to the certified judge ----
def _trim_minimal_count(spec):
    """number of states of the minimal trim DFA of a deterministic spec (independent Moore refinement)"""
    vk = falib.vkey
    delta = {(vk(s), a): vk(t) for s, a, t in spec["trans"]}
    syms = list(spec["symbols"])
    reach, todo = set(), [vk(x) for x in spec["starts"]]
    while todo:
        q = todo.pop()
        if q in reach:
            continue
        reach.add(q)
        todo += [delta[(q, a)] for a in syms if (q, a) in delta]
    finals = {vk(x) for x in spec["finals"]} & reach
    co, changed = set(finals), True
    while changed:
        changed = False
        for (q, a), t in delta.items():
            if q in reach and t in co and q not in co:
                co.add(q)
                changed = True
    live = reach & co
    cls = {q: (q in finals) for q in live}
    while True:
        sig = {q: (cls[q], tuple(cls.get(delta.get((q, a))) for a in syms)) for q in live}
        if len(set(sig.values())) == len(set(cls.values())):
            return len(set(sig.values()))
        cls = sig


def _accepts(spec, w):
    vk = falib.vkey
    delta = {(vk(s), a): vk(t) for s, a, t in spec["trans"]}
    cur = [vk(x) for x in spec["starts"]]
    if len(cur) != 1:
        return False
    q = cur[0]
    for a in w:
        q = delta.get((q, a))
        if q is None:
            return False
    return q in {vk(x) for x in spec["finals"]}


def hopcroft_search(case):
    import random
    rng = random.Random(case["seed"])
    suspects, tried = [], 0
    for _ in range(case["count"]):
        spec = falib.rand_big_dfa(rng)
        tried += 1
        try:
            x = falib.extract_fa(falib.build_fa(spec).minimize())
        except Exception:
            suspects.append(spec)
        else:
            k = len(spec["symbols"])
            ws = falib.words_upto(spec["symbols"], 7 if k == 2 else 5)
            det = len({(falib.vkey(s), a) for s, a, t in x["trans"]}) == len(x["trans"]) and all(a is not None for s, a, t in x["trans"])
            t_count = _trim_minimal_count(spec)
            if not det or any(_accepts(spec, w) != _accepts(x, w) for w in ws) or not (t_count <= len(x["states"]) <= t_count + 1):
                suspects.append(spec)
        if len(suspects) >= 3:
            break
    return {"tried": tried, "suspects": suspects}
