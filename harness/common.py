"""Shared machinery of the pyformlang verification harness (see DESIGN.md section 2).

Leg T  : build the Coq development, check the property theorems and their assumptions.
Leg C  : run the implementation (real pyformlang, several PYTHONHASHSEEDs) and the Gallina
         model (evaluated inside Coq with vm_compute) on the same cases, compare observables.
Leg S  : on any failure, shrink / report a replay.
"""
import fcntl
import hashlib
import json
import os
import re
import shutil
import subprocess
import sys
import time
from concurrent.futures import ThreadPoolExecutor

ROOT = os.path.dirname(os.path.dirname(os.path.abspath(__file__)))
REPO = os.environ.get("VERIF_REPO", "/repo")
COQ = os.path.join(ROOT, "coq")
PY = "/venv/bin/python"
WORK = os.path.join(ROOT, ".work")
NCPU = int(os.environ.get("VERIF_NCPU", "16"))
GUARD = "PYFORMLANG_VERIF"

STD_AXIOMS_ALLOWED = {
    # none are expected; anything printed by Print Assumptions is reported in the evidence
}


def log(*a):
    print(*a, file=sys.stderr, flush=True)


def workdir():
    d = os.path.join(WORK, str(os.getpid()))
    os.makedirs(d, exist_ok=True)
    return d


def cleanup():
    if os.environ.get("VERIF_KEEP"):
        return
    shutil.rmtree(os.path.join(WORK, str(os.getpid())), ignore_errors=True)


# ---------------------------------------------------------------------------------------
# Leg T: build + assumptions + lint
# ---------------------------------------------------------------------------------------

def build_coq(timeout=3000):
    """(Re)generate Gen/*.v from /repo, then make. Returns (ok, tail_of_log)."""
    os.makedirs(WORK, exist_ok=True)
    lock = open(os.path.join(WORK, "build.lock"), "w")
    fcntl.flock(lock, fcntl.LOCK_EX)
    try:
        gen = subprocess.run([PY, os.path.join(ROOT, "tools", "pygen.py")], capture_output=True, text=True,
                             env=impl_env(0), timeout=120)
        if gen.returncode != 0:
            return False, "pygen failed:\n" + gen.stdout[-2000:] + gen.stderr[-2000:]
        vs = sorted(os.path.relpath(os.path.join(dp, fn), COQ) for dp, _, fns in os.walk(COQ) for fn in fns if fn.endswith(".v"))
        proj = "-Q . PFL\n" + "\n".join(vs) + "\n"
        pj = os.path.join(COQ, "_CoqProject")
        if not os.path.exists(pj) or open(pj).read() != proj:
            open(pj, "w").write(proj)
        if not os.path.exists(os.path.join(COQ, "Makefile")) or \
                os.path.getmtime(os.path.join(COQ, "Makefile")) < os.path.getmtime(os.path.join(COQ, "_CoqProject")):
            subprocess.run(["coq_makefile", "-f", "_CoqProject", "-o", "Makefile"], cwd=COQ, check=True,
                           capture_output=True)
        p = subprocess.run(["timeout", str(timeout), "make", "-k", "-j%d" % NCPU], cwd=COQ, capture_output=True, text=True)
        out = p.stdout + p.stderr
        with open(os.path.join(WORK, "build.log"), "w") as f:
            f.write(out)
        return p.returncode == 0, out[-4000:]
    finally:
        fcntl.flock(lock, fcntl.LOCK_UN)
        lock.close()


def vo_fresh(rel_v):
    v = os.path.join(COQ, rel_v)
    vo = v[:-2] + ".vo"
    return os.path.exists(vo) and os.path.getmtime(vo) >= os.path.getmtime(v)


def print_assumptions(module, theorems):
    """module e.g. 'Properties.C01'; returns {thm: 'closed' | [axiom names] | 'ERROR: ...'}"""
    res = {}
    d = workdir()
    for t in theorems:
        f = os.path.join(d, "pa_%s.v" % t)
        with open(f, "w") as fh:
            fh.write("From PFL Require Import %s.\nPrint Assumptions %s.\n" % (module, t))
        p = subprocess.run(["timeout", "300", "coqc", "-Q", COQ, "PFL", f], capture_output=True, text=True, cwd=d)
        out = p.stdout
        if p.returncode != 0:
            res[t] = "ERROR: " + (p.stderr.strip().splitlines() or ["?"])[-1]
        elif "Closed under the global context" in out:
            res[t] = "closed"
        else:
            m = out.split("Axioms:", 1)
            axs = re.findall(r"^([A-Za-z_][\w.']*)\s*:", m[1] if len(m) > 1 else out, flags=re.M)
            res[t] = axs or ("ERROR: unparsed: " + out[:200])
    return res


LINT_RE = re.compile(r"\b(Admitted|admit|Axiom|Axioms|Parameter|Parameters|Conjecture|Abort All)\b|Unset Guard|bypass_check|type-in-type|impredicative-set|Admit Obligations")


def lint_coq():
    bad = []
    for dp, _, fns in os.walk(COQ):
        for fn in fns:
            if fn.endswith(".v"):
                path = os.path.join(dp, fn)
                txt = open(path, encoding="utf-8").read()
                txt_nc = re.sub(r"\(\*.*?\*\)", lambda m: " " * len(m.group(0)), txt, flags=re.S)
                for i, line in enumerate(txt_nc.splitlines(), 1):
                    if LINT_RE.search(line):
                        bad.append("%s:%d: %s" % (os.path.relpath(path, ROOT), i, line.strip()))
    cp = open(os.path.join(COQ, "_CoqProject")).read()
    if "-type-in-type" in cp or "impredicative" in cp or "-vos" in cp:
        bad.append("_CoqProject: forbidden flag")
    return bad


def theorem_statements(rel_v):
    """Return the list of (kind, name) declared in a Properties file and check its discipline:
    only Theorem ... Proof. exact ... Qed. / Print Assumptions / Requires / comments."""
    txt = open(os.path.join(COQ, rel_v), encoding="utf-8").read()
    txt = re.sub(r"\(\*.*?\*\)", "", txt, flags=re.S)
    names = re.findall(r"^\s*(Theorem|Example)\s+([\w']+)", txt, flags=re.M)
    return names


# ---------------------------------------------------------------------------------------
# Leg C, model side: evaluation inside Coq
# ---------------------------------------------------------------------------------------

MODEL_TIMEOUT = "MODEL_TIMEOUT"


def coq_eval(sources, timeout=900, tag="case", soft=60, line_timeout=30):
    """Each source is a complete .v file whose output contains Eval results. Returns list of stdout.

    Cost control: the proved oracles are exact but some (PDA acceptance on products that push long strings) are exponential in
    parameters a random generator occasionally hits. A file that runs longer than `soft` seconds is stopped and its `Eval` lines are
    evaluated one per process with `line_timeout` seconds each; a line that still does not finish prints the value MODEL_TIMEOUT, which
    the engines count and skip (never judge)."""
    d = workdir()
    files = []
    for i, s in enumerate(sources):
        f = os.path.join(d, "%s_%d.v" % (tag, i))
        with open(f, "w", encoding="utf-8") as fh:
            fh.write(s)
        files.append(f)

    def coqc(f, limit):
        return subprocess.run("ulimit -s unlimited 2>/dev/null; exec timeout %d coqc -Q %s PFL %s" % (limit, COQ, f),
                              shell=True, capture_output=True, text=True, cwd=d)

    def splittable(src):
        lines = src.rstrip("\n").split("\n")
        k = next((j for j, l in enumerate(lines) if l.startswith("Eval ")), None)
        if k is None or not all(l.startswith("Eval ") for l in lines[k:]):
            return None
        return lines[:k], lines[k:]

    def run(args):
        f, src = args
        sp = splittable(src)
        p = coqc(f, soft if sp else timeout)
        if p.returncode == 124 and sp:
            head, evals = sp
            def one(jl):
                j, l = jl
                g = f[:-2] + "_l%d.v" % j
                with open(g, "w", encoding="utf-8") as fh:
                    fh.write("\n".join(head + [l]) + "\n")
                q = coqc(g, line_timeout)
                if q.returncode == 124:
                    return "     = %s\n     : unit\n" % MODEL_TIMEOUT
                if q.returncode != 0:
                    raise HarnessError("coqc failed on %s (exit %d): %s" % (g, q.returncode, (q.stderr[-1500:] + "\n" + q.stdout[-300:])))
                return q.stdout
            with ThreadPoolExecutor(max_workers=2) as ex2:
                return "".join(ex2.map(one, list(enumerate(evals))))
        if p.returncode != 0:
            raise HarnessError("coqc failed on %s (exit %d): %s" % (f, p.returncode, (p.stderr[-1500:] + "\n" + p.stdout[-300:])))
        return p.stdout
    with ThreadPoolExecutor(max_workers=NCPU) as ex:
        return list(ex.map(run, list(zip(files, sources))))


class HarnessError(Exception):
    pass


_TOK = re.compile(r"\s*(\[|\]|\(|\)|;|,|-?\d+|[A-Za-z_][\w']*|%[A-Za-z_]+)")


def parse_coq_values(out):
    """Parse every '= value : type' block of coqc output into Python values.
    lists -> list, tuples -> tuple, numbers -> int, true/false -> bool, None -> None,
    'Some x' -> ('Some', x), other constructors -> (name, args...)."""
    vals = []
    for blk in re.split(r"^\s*= ", out, flags=re.M)[1:]:
        # cut the trailing ': type'
        idx = blk.rfind("\n     : ")
        if idx < 0:
            idx = blk.rfind(" : ")
        body = blk[:idx]
        toks = [t for t in _TOK.findall(body)]
        toks = [t for t in toks if not t.startswith("%")]
        pos = [0]

        def atom():
            t = toks[pos[0]]
            if t == "[":
                pos[0] += 1
                items = []
                if toks[pos[0]] == "]":
                    pos[0] += 1
                    return items
                while True:
                    items.append(app())
                    t2 = toks[pos[0]]
                    pos[0] += 1
                    if t2 == "]":
                        return items
                    assert t2 == ";", (t2, body[:200])
            if t == "(":
                pos[0] += 1
                items = [app()]
                while toks[pos[0]] == ",":
                    pos[0] += 1
                    items.append(app())
                assert toks[pos[0]] == ")", body[:200]
                pos[0] += 1
                return items[0] if len(items) == 1 else tuple(items)
            pos[0] += 1
            if re.fullmatch(r"-?\d+", t):
                return int(t)
            if t == "true":
                return True
            if t == "false":
                return False
            if t == "None":
                return None
            return ("@", t)

        def app():
            h = atom()
            if isinstance(h, tuple) and len(h) == 2 and h[0] == "@":
                args = []
                while pos[0] < len(toks) and toks[pos[0]] not in ("]", ")", ";", ","):
                    args.append(atom())
                args = [a[1] if (isinstance(a, tuple) and len(a) == 2 and a[0] == "@") else a for a in args]
                return (h[1],) + tuple(args) if args else h[1]
            return h
        v = app()
        assert pos[0] == len(toks), (toks[pos[0]:pos[0] + 5], body[:300])
        vals.append(v)
    return vals


def cq(v):
    """Python value -> Coq term (N numerals; N_scope must be open). tuples -> tuples, lists -> lists,
    None -> None, ('Some', x) -> Some x, bool -> true/false, str -> raw Coq text."""
    if isinstance(v, bool):
        return "true" if v else "false"
    if isinstance(v, int):
        return str(v) if v >= 0 else "(%d)" % v
    if v is None:
        return "None"
    if isinstance(v, str):
        return v
    if isinstance(v, list):
        return "[" + "; ".join(cq(x) for x in v) + "]"
    if isinstance(v, tuple):
        if len(v) == 2 and v[0] == "Some":
            return "(Some %s)" % cq(v[1])
        return "(" + ", ".join(cq(x) for x in v) + ")"
    raise TypeError(v)


def chunks(lst, n):
    k = max(1, (len(lst) + n - 1) // n)
    return [lst[i:i + k] for i in range(0, len(lst), k)]


# ---------------------------------------------------------------------------------------
# Leg C, implementation side: worker processes under several hash seeds
# ---------------------------------------------------------------------------------------

def impl_env(hashseed):
    env = dict(os.environ)
    env["PYTHONPATH"] = REPO + os.pathsep + os.path.join(ROOT, "harness")
    env["PYTHONHASHSEED"] = str(hashseed)
    env[GUARD] = "1"
    env["PYTHONDONTWRITEBYTECODE"] = "1"
    return env


def run_impl(module, cases, hashseeds, per_case_timeout=10, shards=None, retry_done=False):
    """Runs module.impl(case) for every case in fresh interpreters (one per shard); shard i uses
    hashseeds[i % len]. Returns list of observables (same order). Case i is given the hash seed in
    the result as obs['_hs']."""
    d = workdir()
    shards = shards or NCPU
    idx = list(range(len(cases)))
    parts = [idx[i::shards] for i in range(shards)]
    parts = [p for p in parts if p]
    procs = []
    for si, part in enumerate(parts):
        fin = os.path.join(d, "impl_in_%d.json" % si)
        fout = os.path.join(d, "impl_out_%d.json" % si)
        with open(fin, "w") as fh:
            json.dump([cases[i] for i in part], fh)
        hs = hashseeds[si % len(hashseeds)]
        p = subprocess.Popen([PY, os.path.join(ROOT, "harness", "impl_worker.py"), module, fin, fout,
                              str(per_case_timeout)], env=impl_env(hs), cwd=d,
                             stdout=subprocess.PIPE, stderr=subprocess.PIPE, text=True)
        procs.append((p, part, fout, hs))
    res = [None] * len(cases)
    for p, part, fout, hs in procs:
        out, err = p.communicate()
        if p.returncode != 0 or not os.path.exists(fout):
            raise HarnessError("impl worker failed (%s): %s" % (module, err[-2000:]))
        obs = json.load(open(fout))
        for i, o in zip(part, obs):
            if isinstance(o, dict):
                o["_hs"] = hs
            res[i] = o
    # a time-out under load is not evidence of anything: every timed-out case is run again, alone, with a much larger budget;
    # only a case that still does not finish keeps its {"timeout": true} observable
    slow = [i for i, o in enumerate(res) if isinstance(o, dict) and o.get("timeout") and not retry_done]
    # the retries go in small batches; once 6 cases in a row still do not finish when run alone the hang is systematic (these
    # persistent time-outs are reported as they are) and the remaining ones are not retried
    persistent = 0
    for b in range(0, len(slow), 3):
        if persistent >= 6:
            break
        for i in slow[b:b + 3]:
            hs = res[i].get("_hs", hashseeds[0])
            fin = os.path.join(d, "impl_retry_in.json")
            fout = os.path.join(d, "impl_retry_out.json")
            with open(fin, "w") as fh:
                json.dump([cases[i]], fh)
            p = subprocess.run([PY, os.path.join(ROOT, "harness", "impl_worker.py"), module, fin, fout, str(max(60, 8 * per_case_timeout))],
                               env=impl_env(hs), cwd=d, capture_output=True, text=True)
            if p.returncode != 0 or not os.path.exists(fout):
                raise HarnessError("impl worker failed on retry (%s): %s" % (module, p.stderr[-2000:]))
            o = json.load(open(fout))[0]
            if isinstance(o, dict):
                o["_hs"] = hs
                if not o.get("timeout"):
                    o["_retried_after_timeout"] = True
                    persistent = 0
                else:
                    persistent += 1
            res[i] = o
    return res


# ---------------------------------------------------------------------------------------
# Evidence / violations / known findings
# ---------------------------------------------------------------------------------------

def known_findings():
    p = os.path.join(ROOT, "known_findings.json")
    if not os.path.exists(p):
        return {"findings": [], "fixed": []}
    return json.load(open(p))


def write_replay(prop, obj):
    os.makedirs(os.path.join(ROOT, "replays"), exist_ok=True)
    blob = json.dumps(obj, sort_keys=True, indent=1, default=str)
    h = hashlib.sha1(blob.encode()).hexdigest()[:10]
    path = os.path.join(ROOT, "replays", "%s-%s.json" % (prop, h))
    with open(path, "w") as fh:
        fh.write(blob)
    return os.path.relpath(path, ROOT)


def write_evidence(prop, ev):
    os.makedirs(os.path.join(ROOT, "evidence"), exist_ok=True)
    path = os.path.join(ROOT, "evidence", "%s.json" % prop)
    tmp = path + ".tmp%d" % os.getpid()
    with open(tmp, "w") as fh:
        json.dump(ev, fh, indent=1, sort_keys=True, default=str)
    os.replace(tmp, path)


def stable_hash(obj):
    return hashlib.sha1(json.dumps(obj, sort_keys=True, default=str).encode()).hexdigest()[:12]
