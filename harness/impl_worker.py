"""Runs props.<module>.impl(case) on every case of a JSON file inside one fresh interpreter
(PYTHONHASHSEED and PYTHONPATH are set by the parent). Each call is guarded by SIGALRM."""
import importlib
import json
import signal
import sys
import traceback


class _Timeout(BaseException):
    pass


def _alarm(signum, frame):
    raise _Timeout()


def main():
    modname, fin, fout, tmo = sys.argv[1:5]
    tmo = int(tmo)
    mod = importlib.import_module("props." + modname)
    cases = json.load(open(fin))
    signal.signal(signal.SIGALRM, _alarm)
    out = []
    sys.setrecursionlimit(20000)
    for case in cases:
        signal.alarm(tmo)
        try:
            obs = mod.impl(case)
        except _Timeout:
            obs = {"timeout": True}
        except RecursionError:
            obs = {"exc": "RecursionError"}
        except Exception as e:  # an uncaught implementation exception is an observable
            obs = {"exc": type(e).__name__, "msg": str(e)[:200], "tb": traceback.format_exc()[-600:]}
        finally:
            signal.alarm(0)
        out.append(obs)
    json.dump(out, open(fout, "w"))


if __name__ == "__main__":
    main()
