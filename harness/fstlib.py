"""FST helpers."""
from falib import Interner, vkey


def build_fst(spec):
    from pyformlang.fst import FST
    f = FST()
    for s, a, t, out in spec["trans"]:
        f.add_transition(s, "epsilon" if a is None else a, t, list(out))
    for s in spec["starts"]:
        f.add_start_state(s)
    for s in spec["finals"]:
        f.add_final_state(s)
    return f


def _v(v):
    if isinstance(v, (int, str)) and not isinstance(v, bool):
        return v
    return "<%s>%s" % (type(v).__name__, str(v))


def extract_fst(f):
    trans = []
    for (s, a), outs in f.transitions.items():
        for t, o in outs:
            trans.append([_v(s), None if a == "epsilon" else _v(a), _v(t), [_v(x) for x in o]])
    return {"states": sorted((_v(s) for s in f.states), key=vkey), "trans": sorted(trans, key=vkey),
            "starts": sorted((_v(s) for s in f.start_states), key=vkey), "finals": sorted((_v(s) for s in f.final_states), key=vkey)}


def coq_fst(spec, sym, st=None):
    st = st or Interner()
    tr = "; ".join("(%d, %s, %d, [%s])" % (st(s), "None" if a is None else "(Some %d)" % sym(a), st(t), "; ".join(str(sym(x)) for x in o))
                   for s, a, t, o in spec["trans"])
    return "(mkF [%s] [%s] [%s])" % (tr, "; ".join(str(st(s)) for s in spec["starts"]), "; ".join(str(st(s)) for s in spec["finals"]))


STATES = ["s0", "s1", "s2", "s3"]
INS = ["a", "b"]
OUTS = ["x", "y", "a", "xy"]      # "xy" vs "x","y": output words that spell the same text must stay distinct


def _silence_eps_cycles(states, trans):
    """outputs of epsilon-input transitions that lie on an epsilon cycle are emptied"""
    eps = {}
    for s, a, t, o in trans:
        if a is None:
            eps.setdefault(s, set()).add(t)

    def reach(x):
        seen, todo = set(), [x]
        while todo:
            y = todo.pop()
            for z in eps.get(y, ()):
                if z not in seen:
                    seen.add(z)
                    todo.append(z)
        return seen
    out = []
    for s, a, t, o in trans:
        if a is None and (s == t or s in reach(t)):
            o = []
        out.append([s, a, t, o])
    return out


def rand_fst(rng, max_states=4, max_trans=8, shared_prefix=""):
    n = rng.randint(1, max_states)
    states = [shared_prefix + s for s in STATES[:n]]
    trans = []
    for _ in range(rng.randint(1, max_trans)):
        s, t = rng.choice(states), rng.choice(states)
        a = None if rng.random() < 0.25 else rng.choice(INS)
        o = [rng.choice(OUTS) for _ in range(rng.choice([0, 1, 1, 2]))]
        tr = [s, a, t, o]
        if tr not in trans:
            trans.append(tr)
    trans = _silence_eps_cycles(states, trans)
    starts = rng.sample(states, rng.choice([1, 1, 1, 2]) if n > 1 else 1)
    finals = rng.sample(states, rng.randint(0, min(2, n)))
    return {"states": states, "trans": trans, "starts": starts, "finals": finals}


def nontrivial_fst(spec):
    return len(spec["trans"]) >= 2 and spec["finals"]
