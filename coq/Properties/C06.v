(* C06 — automaton to regular expression. *)
From Coq Require Import List NArith.
From PFL Require Import Base.ListSet Spec.Enfa Spec.Regex Model.RegexFA Proofs.RegexFA.

(* the reference automaton of a regular expression accepts exactly its denotation; used to decide, with the
   exact equivalence check, that the expression returned by to_regex() denotes the automaton's language *)
Theorem C06_regex_automaton : forall (r : re) (w : list N), Lang (re_fa r) w <-> den r w.
Proof. exact re_fa_lang. Qed.
Print Assumptions C06_regex_automaton.
