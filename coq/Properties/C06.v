(* C06 — automaton to regular expression. *)
From Coq Require Import List NArith.
From PFL Require Import Base.ListSet Spec.Enfa Spec.Regex Model.RegexFA Proofs.RegexFA Model.Kleene Proofs.Kleene.

(* the reference automaton of a regular expression accepts exactly its denotation; used to decide, with the
   exact equivalence check, that the expression returned by to_regex() denotes the automaton's language *)
Theorem C06_regex_automaton : forall (r : re) (w : list N), Lang (re_fa r) w <-> den r w.
Proof. exact re_fa_lang. Qed.
Print Assumptions C06_regex_automaton.

(* the state-elimination algorithm of EpsilonNFA.to_regex, modelled on expression trees (fresh start state when there are several
   start states; one elimination per final state; every state other than the start and the final one removed, its paths replaced by
   in.(loop)*.out; the closing formula (ss + se ee* es)* se ee*, or (ss)* when the start state is the final state; the union over the
   final states): the expression denotes exactly the language of the automaton, for every well-formed automaton. *)
Theorem C06_to_regex_model : forall (Q : Type) (E : EqDec Q) (A : enfa Q), wf A -> forall w, Lang A w <-> den (to_regex A) w.
Proof. exact (@to_regex_correct). Qed.
Print Assumptions C06_to_regex_model.

(* to_regex().to_epsilon_nfa() closes the round trip *)
Theorem C06_round_trip_model : forall (Q : Type) (E : EqDec Q) (A : enfa Q), wf A -> forall w, Lang (re_fa (to_regex A)) w <-> Lang A w.
Proof. intros Q E A W w. rewrite (re_fa_lang (to_regex A) w). symmetry. exact (@to_regex_correct Q E A W w). Qed.
Print Assumptions C06_round_trip_model.

(* ... and with pyformlang's own construction of the automaton of an expression (Model/Thompson.v) *)
From PFL Require Import Model.Thompson Proofs.Rational.
Theorem C06_round_trip_code_path : forall (Q : Type) (E : EqDec Q) (c : nat) (A : enfa Q) (w : list N),
  wf A -> (Lang (re_enfa_at c (to_regex A)) w <-> Lang A w).
Proof. exact (@to_regex_round_trip). Qed.
Print Assumptions C06_round_trip_code_path.
