(* C04 — emptiness and determinism queries. *)
From Coq Require Import List NArith.
Import ListNotations.
From PFL Require Import Base.ListSet Spec.Enfa Model.Enfa Model.EnfaOps Proofs.EnfaAccepts Proofs.EnfaEmpty Proofs.EnfaClasses.

Theorem C04_is_empty : forall (Q : Type) (E : EqDec Q) (A : enfa Q),
  is_empty A = true <-> forall w, ~ Lang A w.
Proof. exact (@is_empty_spec). Qed.
Print Assumptions C04_is_empty.

(* at most one start state, at most one successor per state and label, no epsilon path from a state to another one *)
Theorem C04_is_deterministic : forall (Q : Type) (E : EqDec Q) (A : enfa Q),
  is_deterministic A = true <->
  (one_start A /\
   (forall p l q q', In (p, l, q) (e_delta A) -> In (p, l, q') (e_delta A) -> q = q') /\
   (forall q r, In q (e_states A) -> epath A [q] r -> r = q)).
Proof. exact (@is_deterministic_spec). Qed.
Print Assumptions C04_is_deterministic.
