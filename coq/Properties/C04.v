(* C04 — emptiness and determinism queries. *)
From Coq Require Import List NArith.
Import ListNotations.
From PFL Require Import Base.ListSet Base.Closure Spec.Enfa Model.Enfa Model.EnfaOps Model.EnfaWords Proofs.EnfaAccepts Proofs.EnfaEmpty Proofs.EnfaClasses Proofs.EnfaWords.

Theorem C04_is_empty : forall (Q : Type) (E : EqDec Q) (A : enfa Q),
  is_empty A = true <-> forall w, ~ Lang A w.
Proof. exact (@is_empty_spec). Qed.
Print Assumptions C04_is_empty.

(* at most one start state, at most one successor per state and label, no epsilon path from a state to another one *)
Theorem C04_is_deterministic : forall (Q : Type) (E : EqDec Q) (A : enfa Q),
  is_deterministic A = true <->
  (one_start A /\
   (forall p l q q', In (p, l, q) (e_delta A) -> In (p, l, q') (e_delta A) -> q = q') /\
   (forall q r, In q (e_states A) -> epath A [q] r -> r = q)).
Proof. exact (@is_deterministic_spec). Qed.
Print Assumptions C04_is_deterministic.

(* no state reachable from a start state (through any edges) lies on a cycle *)
Theorem C04_is_acyclic : forall (Q : Type) (E : EqDec Q) (A : enfa Q),
  is_acyclic A = true <->
  forall q, reach (all_succs A) (e_starts A) q -> ~ exists r, In r (all_succs A q) /\ reach (all_succs A) [r] q.
Proof. exact (@is_acyclic_spec). Qed.
Print Assumptions C04_is_acyclic.

(* get_accepted_words(n): every accepted word of length at most n (any length for n = None), exactly once, nothing else;
   [fuel] bounds the exploration (2^fuel steps) and the statement excludes the out-of-fuel result *)
Theorem C04_accepted_words : forall (Q : Type) (E : EqDec Q) (A : enfa Q) (n : option nat) (fuel : nat) (ws : list (list N)),
  accepted_words fuel A n = Some ws ->
  NoDup ws /\ forall w, In w ws <-> (Lang A w /\ match n with Some k => length w <= k | None => True end).
Proof. exact (@accepted_words_spec). Qed.
Print Assumptions C04_accepted_words.
