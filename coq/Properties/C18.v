(* C18 — feature grammars: the exact oracles applied to the instantiated grammars and to returned trees. *)
From Coq Require Import List NArith.
From PFL Require Import Base.ListSet Spec.Cfg Oracle.CfgTree Oracle.CfgMember Oracle.CfgMemberSound.

Theorem C18_member_oracle : forall (Vr : Type) (E : EqDec Vr) (G : cfg Vr) (w : list N),
  cfg_member G w = true <-> LangG G w.
Proof. exact (@cfg_member_spec). Qed.
Print Assumptions C18_member_oracle.

Theorem C18_tree_checker : forall (Vr : Type) (E : EqDec Vr) (G : cfg Vr) (t : tree Vr),
  tree_ok G t = true -> valid_tree G t /\ derives G (root t) (yield t).
Proof. intros Vr E G t H. split; [exact (tree_ok_sound G t H)|exact (valid_tree_derives G t (tree_ok_sound G t H))]. Qed.
Print Assumptions C18_tree_checker.
