(* C18 — feature grammars: the exact oracles applied to the instantiated grammars and to returned trees. *)
From Coq Require Import List NArith.
From PFL Require Import Base.ListSet Spec.Cfg Oracle.CfgTree Oracle.CfgMember Oracle.CfgMemberSound Model.Feat Proofs.FeatGlb.

Theorem C18_member_oracle : forall (Vr : Type) (E : EqDec Vr) (G : cfg Vr) (w : list N),
  cfg_member G w = true <-> LangG G w.
Proof. exact (@cfg_member_spec). Qed.
Print Assumptions C18_member_oracle.

Theorem C18_tree_checker : forall (Vr : Type) (E : EqDec Vr) (G : cfg Vr) (t : tree Vr),
  tree_ok G t = true -> valid_tree G t /\ derives G (root t) (yield t).
Proof. intros Vr E G t H. split; [exact (tree_ok_sound G t H)|exact (valid_tree_derives G t (tree_ok_sound G t H))]. Qed.
Print Assumptions C18_tree_checker.

(* unification of feature structures without sharing (the model mirrored from FeatureStructure.unify): for consistently typed
   structures (a value only on a node without features; never an atomic value facing a complex node: wt, ct) and enough fuel, the
   result is the least upper bound of both arguments in the subsumption order, i.e. the most general structure carrying the
   information of both; when there is no result the two structures carry conflicting atomic values at the end of a shared path *)
Theorem C18_unify_glb : forall (n : nat) (a b : fs), depth b <= n -> wt a -> wt b -> ct a b ->
  match unify n a b with
  | Some c => sub a c /\ sub b c /\ (forall d, sub a d -> sub b d -> sub c d) /\ wt c
  | None => conflict a b
  end.
Proof. exact unify_glb. Qed.
Print Assumptions C18_unify_glb.

Theorem C18_unify_succeeds_iff : forall (n : nat) (a b : fs), depth b <= n -> wt a -> wt b -> ct a b ->
  (unify n a b <> None <-> ~ conflict a b) /\ (unify n a b = None <-> forall d, ~ (sub a d /\ sub b d)).
Proof. exact unify_succeeds_iff. Qed.
Print Assumptions C18_unify_succeeds_iff.

Theorem C18_unify_order_independent : forall (n : nat) (a b : fs), depth a <= n -> depth b <= n -> wt a -> wt b -> ct a b ->
  match unify n a b, unify n b a with
  | Some c, Some c' => sub c c' /\ sub c' c
  | None, None => True
  | _, _ => False
  end.
Proof. exact unify_order_independent. Qed.
Print Assumptions C18_unify_order_independent.
