(* C16 — transducers. *)
From Coq Require Import List NArith.
From PFL Require Import Base.ListSet Spec.Fst Model.Fst Proofs.FstTranslate.

(* translate yields exactly the outputs o such that some path from a start state to a final state reads w and writes o
   ([fuel] bounds the exploration; the statement excludes the out-of-fuel result) *)
Theorem C16_translate : forall (Q : Type) (E : EqDec Q) (F : fst Q) (w : list N) (fuel : nat) (outs : list (list N)),
  translate fuel F w = Some outs -> forall o, In o outs <-> Rel F w o.
Proof. exact (@translate_spec). Qed.
Print Assumptions C16_translate.
