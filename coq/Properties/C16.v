(* C16 — transducers. *)
From Coq Require Import List NArith.
From PFL Require Import Base.ListSet Spec.Fst Model.Fst Proofs.FstTranslate.

(* translate yields exactly the outputs o such that some path from a start state to a final state reads w and writes o
   ([fuel] bounds the exploration; the statement excludes the out-of-fuel result) *)
Theorem C16_translate : forall (Q : Type) (E : EqDec Q) (F : fst Q) (w : list N) (fuel : nat) (outs : list (list N)),
  translate fuel F w = Some outs -> forall o, In o outs <-> Rel F w o.
Proof. exact (@translate_spec). Qed.
Print Assumptions C16_translate.

(* union, concatenate, kleene_star (tagged copies of the operands, so shared state names cannot interfere) and to_fst *)
From PFL Require Import Spec.Enfa Proofs.FstOps.
Theorem C16_union : forall (Q1 Q2 : Type) (A : fst Q1) (B : fst Q2) (w o : list N),
  Rel (fst_union A B) w o <-> Rel A w o \/ Rel B w o.
Proof. exact (@fst_union_rel). Qed.
Print Assumptions C16_union.

Theorem C16_concatenate : forall (Q1 Q2 : Type) (A : fst Q1) (B : fst Q2) (w o : list N),
  Rel (fst_concat A B) w o <-> exists w1 w2 o1 o2, w = w1 ++ w2 /\ o = o1 ++ o2 /\ Rel A w1 o1 /\ Rel B w2 o2.
Proof. exact (@fst_concat_rel). Qed.
Print Assumptions C16_concatenate.

Theorem C16_kleene_star : forall (Q : Type) (A : fst Q) (w o : list N),
  Rel (fst_star A) w o <->
  exists pairs : list (list N * list N), w = concat (map (@Datatypes.fst _ _) pairs) /\ o = concat (map (@snd _ _) pairs) /\
                                       Forall (fun p => Rel A (Datatypes.fst p) (snd p)) pairs.
Proof. exact (@fst_star_rel). Qed.
Print Assumptions C16_kleene_star.

Theorem C16_to_fst : forall (Q : Type) (A : enfa Q) (w o : list N),
  Rel (enfa_to_fst A) w o <-> o = w /\ Lang A w.
Proof. exact (@to_fst_rel). Qed.
Print Assumptions C16_to_fst.

(* translate finishes when epsilon-input moves write nothing: the reachable (remaining input, output, state) configurations lie in
   the finite universe t_univ; fuel n with 3 * |t_univ| < 2^n suffices *)
From Coq Require Import Arith.
From PFL Require Import Proofs.FstTotal.
Theorem C16_translate_total : forall (Q : Type) (E : EqDec Q) (F : fst Q) (w : list N),
  (forall q r out, In (q, None, r, out) (f_delta F) -> out = nil) ->
  forall n, (3 * length (t_univ F w) < 2 ^ n)%nat -> exists outs, translate n F w = Some outs.
Proof. exact (@translate_total). Qed.
Print Assumptions C16_translate_total.
