(* C11 — intersection with a regular language: the exact oracles used on operands and results. *)
From Coq Require Import List NArith.
From PFL Require Import Base.ListSet Spec.Cfg Spec.Pda Spec.Enfa Model.Enfa Proofs.EnfaAccepts Oracle.PdaAccept Oracle.PdaAcceptFinal
  Proofs.PdaBigStep Oracle.CfgMember Oracle.CfgMemberSound.

Theorem C11_member_oracle : forall (Vr : Type) (E : EqDec Vr) (G : cfg Vr) (w : list N),
  cfg_member G w = true <-> LangG G w.
Proof. exact (@cfg_member_spec). Qed.
Print Assumptions C11_member_oracle.

Theorem C11_accepts_final_oracle : forall (Q G : Type) (EQ : EqDec Q) (EG : EqDec G) (P : pda Q G) (w : list N),
  pda_accepts_final P w = true <-> acc_final P w.
Proof.
  intros Q G EQ EG P w. rewrite pda_accepts_final_spec. unfold acc_final. split.
  - intros [s [z [E1 [E2 D]]]]. apply fin_small_step in D. destruct D as [f [st [Hf R]]]. exists s, z, f, st. auto.
  - intros [s [z [f [st [E1 [E2 [Hf R]]]]]]]. exists s, z. split; [exact E1|split; [exact E2|]]. apply fin_small_step. eauto.
Qed.
Print Assumptions C11_accepts_final_oracle.

Theorem C11_automaton_accepts : forall (Q : Type) (E : EqDec Q) (A : enfa Q) (w : list N),
  accepts A w = true <-> Lang A w.
Proof. exact (@accepts_spec). Qed.
Print Assumptions C11_automaton_accepts.
