(* C11 — intersection with a regular language: the exact oracles used on operands and results. *)
From Coq Require Import List NArith.
From PFL Require Import Base.ListSet Spec.Cfg Spec.Pda Spec.Enfa Model.Enfa Proofs.EnfaAccepts Oracle.PdaAccept Oracle.PdaAcceptFinal
  Proofs.PdaBigStep Oracle.CfgMember Oracle.CfgMemberSound.

Theorem C11_member_oracle : forall (Vr : Type) (E : EqDec Vr) (G : cfg Vr) (w : list N),
  cfg_member G w = true <-> LangG G w.
Proof. exact (@cfg_member_spec). Qed.
Print Assumptions C11_member_oracle.

Theorem C11_accepts_final_oracle : forall (Q G : Type) (EQ : EqDec Q) (EG : EqDec G) (P : pda Q G) (w : list N),
  pda_accepts_final P w = true <-> acc_final P w.
Proof.
  intros Q G EQ EG P w. rewrite pda_accepts_final_spec. unfold acc_final. split.
  - intros [s [z [E1 [E2 D]]]]. apply fin_small_step in D. destruct D as [f [st [Hf R]]]. exists s, z, f, st. auto.
  - intros [s [z [f [st [E1 [E2 [Hf R]]]]]]]. exists s, z. split; [exact E1|split; [exact E2|]]. apply fin_small_step. eauto.
Qed.
Print Assumptions C11_accepts_final_oracle.

Theorem C11_automaton_accepts : forall (Q : Type) (E : EqDec Q) (A : enfa Q) (w : list N),
  accepts A w = true <-> Lang A w.
Proof. exact (@accepts_spec). Qed.
Print Assumptions C11_automaton_accepts.

(* ---- the constructions themselves, for all operands and all words ---- *)
From PFL Require Import Model.EnfaOps Model.Cfg Model.CfgInter Model.Pda Proofs.CfgInter Proofs.PdaInter Proofs.InterDet.

(* CFG.intersection: Bar-Hillel triples over the normal form, for a deterministic D *)
Theorem C11_cfg_intersection_dfa : forall (Vr QD : Type) (EV : EqDec Vr) (EQ : EqDec QD) (fuel : nat) (G : cfg Vr) (D : enfa QD) (R : cfg (bvar QD (cvar Vr))),
  is_dfa D -> wf D -> cfg_inter fuel G D = Some R -> forall w, LangG R w <-> LangG G w /\ Lang D w.
Proof. exact (@cfg_inter_lang). Qed.
Print Assumptions C11_cfg_intersection_dfa.

(* ... and for any automaton, determinised first (what pyformlang does for Regex, NFA, epsilon-NFA and DFA operands) *)
Theorem C11_cfg_intersection : forall (Vr Q : Type) (EV : EqDec Vr) (EQ : EqDec Q) (CQ : Canon Q) (b : bool) (A : enfa Q) (n fuel : nat) (G : cfg Vr)
    (D : enfa (list Q)) (R : cfg (bvar (list Q) (cvar Vr))),
  (b = false -> eps_free A) -> wf A -> determinize b A n = Some D -> cfg_inter fuel G D = Some R ->
  forall w, LangG R w <-> LangG G w /\ Lang A w.
Proof. exact (@cfg_inter_det). Qed.
Print Assumptions C11_cfg_intersection.

(* PDA.intersection: product over the reachable pairs; the automaton's epsilon moves, if any, are self-loops *)
Theorem C11_pda_intersection_product : forall (Q G QD : Type) (E1 : EqDec Q) (E3 : EqDec QD) (P : pda Q G) (D : enfa QD),
  (forall p q, In (p, None, q) (e_delta D) -> p = q) ->
  forall (n : nat) (R : pda (Q * QD) G), pda_inter P D n = Some R ->
  forall w, one_start D -> (acc_final R w <-> acc_final P w /\ Lang D w).
Proof. exact (@pda_inter_spec). Qed.
Print Assumptions C11_pda_intersection_product.

Theorem C11_pda_intersection_deterministic : forall (Q0 G0 Q : Type) (E1 : EqDec Q0) (E2 : EqDec G0) (E3 : EqDec Q) (A : enfa Q) (m : nat) (P : pda Q0 G0)
    (R : pda (Q0 * Q) G0),
  is_deterministic A = true -> wf A -> pda_inter P A m = Some R -> forall w, acc_final R w <-> acc_final P w /\ Lang A w.
Proof. exact (@pda_inter_deterministic). Qed.
Print Assumptions C11_pda_intersection_deterministic.

Theorem C11_pda_intersection : forall (Q0 G0 Q : Type) (E1 : EqDec Q0) (E2 : EqDec G0) (E3 : EqDec Q) (CQ : Canon Q) (b : bool) (A : enfa Q) (n m : nat)
    (P : pda Q0 G0) (D : enfa (list Q)) (R : pda (Q0 * list Q) G0),
  (b = false -> eps_free A) -> wf A -> determinize b A n = Some D -> pda_inter P D m = Some R ->
  forall w, acc_final R w <-> acc_final P w /\ Lang A w.
Proof. exact (@pda_inter_det). Qed.
Print Assumptions C11_pda_intersection.

(* the product exploration of PDA.intersection finishes *)
From Coq Require Import Arith.
From PFL Require Import Proofs.Totality.
Theorem C11_pda_intersection_total : forall (Q G QD : Type) (E1 : EqDec Q) (E2 : EqDec G) (E3 : EqDec QD) (P : pda Q G) (D : enfa QD), wf D ->
  (forall q l A r push, In (q, l, A, r, push) (p_delta P) -> In r (p_states P)) -> (forall s, p_start P = Some s -> In s (p_states P)) ->
  forall n, (3 * (length (p_states P) * length (e_states D)) < 2 ^ n)%nat -> exists R, pda_inter P D n = Some R.
Proof. exact (@pda_inter_total). Qed.
Print Assumptions C11_pda_intersection_total.

(* a Regex operand: to_epsilon_nfa (the counter-based construction, Model/Thompson.v), determinisation, then the product:
   the result accepts exactly the words of the grammar / PDA that the expression denotes *)
From PFL Require Import Spec.Regex Model.Thompson Proofs.Rational.
Theorem C11_cfg_intersection_regex : forall (Vr : Type) (EV : EqDec Vr) (c : nat) (r : re) (n fuel : nat) (G : cfg Vr)
    (D : enfa (list nat)) (R : cfg (bvar (list nat) (cvar Vr))),
  determinize true (re_enfa_at c r) n = Some D -> cfg_inter fuel G D = Some R ->
  forall w, LangG R w <-> LangG G w /\ den r w.
Proof. exact (@cfg_inter_regex). Qed.
Print Assumptions C11_cfg_intersection_regex.
Theorem C11_pda_intersection_regex : forall (Q0 G0 : Type) (E1 : EqDec Q0) (E2 : EqDec G0) (c : nat) (r : re) (n m : nat) (P : pda Q0 G0)
    (D : enfa (list nat)) (R : pda (Q0 * list nat) G0),
  determinize true (re_enfa_at c r) n = Some D -> pda_inter P D m = Some R ->
  forall w, acc_final R w <-> acc_final P w /\ den r w.
Proof. exact (@pda_inter_regex). Qed.
Print Assumptions C11_pda_intersection_regex.
