(* C08 — membership = derivability. *)
From Coq Require Import List NArith.
From PFL Require Import Base.ListSet Spec.Cfg Oracle.CfgMember Oracle.CfgMemberSound.

(* exact for arbitrary grammars: epsilon, unit cycles, useless symbols, recursion, missing start productions *)
Theorem C08_member_oracle : forall (Vr : Type) (E : EqDec Vr) (G : cfg Vr) (w : list N),
  cfg_member G w = true <-> LangG G w.
Proof. exact (@cfg_member_spec). Qed.
Print Assumptions C08_member_oracle.
