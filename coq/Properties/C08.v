(* C08 — membership = derivability. *)
From Coq Require Import List NArith.
From PFL Require Import Base.ListSet Spec.Cfg Oracle.CfgMember Oracle.CfgMemberSound.

(* exact for arbitrary grammars: epsilon, unit cycles, useless symbols, recursion, missing start productions *)
Theorem C08_member_oracle : forall (Vr : Type) (E : EqDec Vr) (G : cfg Vr) (w : list N),
  cfg_member G w = true <-> LangG G w.
Proof. exact (@cfg_member_spec). Qed.
Print Assumptions C08_member_oracle.

From PFL Require Import Model.Cfg Proofs.CfgSymbols Proofs.CfgCyk.
(* the empty word *)
Theorem C08_generate_epsilon : forall (Vr : Type) (E : EqDec Vr) (G : cfg Vr),
  generate_epsilon G = true <-> LangG G nil.
Proof. exact (@generate_epsilon_spec). Qed.
Print Assumptions C08_generate_epsilon.

(* the CYK table on a grammar in Chomsky normal form, non-empty words *)
Theorem C08_cyk : forall (X : Type) (E : EqDec X) (G : cfg X) (w : list N),
  is_normal_form G = true -> w <> nil -> (cyk G w = true <-> LangG G w).
Proof. intros X E G w Hn. exact (cyk_spec G Hn w). Qed.
Print Assumptions C08_cyk.

(* the mirrored CFG.contains (generate_epsilon for the empty word; to_normal_form + CYK otherwise) answers derivability, for
   every grammar and every word, whenever the model's normal-form recursion finishes within its fuel (the correspondence
   leg checks that it does on every generated grammar, where pyformlang itself would otherwise recurse for ever) *)
From PFL Require Import Proofs.CfgNormalForm.
Theorem C08_contains : forall (Vr : Type) (E : EqDec Vr) (fuel : nat) (G : cfg Vr) (w : list N) (b : bool),
  contains fuel G w = Some b -> (b = true <-> LangG G w).
Proof. exact (@contains_spec). Qed.
Print Assumptions C08_contains.

(* ... and it always finishes *)
From PFL Require Import Proofs.CfgNfTotal.
Theorem C08_contains_total : forall (Vr : Type) (E : EqDec Vr) (G : cfg Vr) (n : nat) (w : list N), exists b, contains (S n) G w = Some b.
Proof. exact (@contains_total). Qed.
Print Assumptions C08_contains_total.
