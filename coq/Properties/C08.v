(* C08 — membership = derivability. *)
From Coq Require Import List NArith.
From PFL Require Import Base.ListSet Spec.Cfg Oracle.CfgMember Oracle.CfgMemberSound.

(* exact for arbitrary grammars: epsilon, unit cycles, useless symbols, recursion, missing start productions *)
Theorem C08_member_oracle : forall (Vr : Type) (E : EqDec Vr) (G : cfg Vr) (w : list N),
  cfg_member G w = true <-> LangG G w.
Proof. exact (@cfg_member_spec). Qed.
Print Assumptions C08_member_oracle.

From PFL Require Import Model.Cfg Proofs.CfgSymbols Proofs.CfgCyk.
(* the empty word *)
Theorem C08_generate_epsilon : forall (Vr : Type) (E : EqDec Vr) (G : cfg Vr),
  generate_epsilon G = true <-> LangG G nil.
Proof. exact (@generate_epsilon_spec). Qed.
Print Assumptions C08_generate_epsilon.

(* the CYK table on a grammar in Chomsky normal form, non-empty words *)
Theorem C08_cyk : forall (X : Type) (E : EqDec X) (G : cfg X) (w : list N),
  is_normal_form G = true -> w <> nil -> (cyk G w = true <-> LangG G w).
Proof. intros X E G w Hn. exact (cyk_spec G Hn w). Qed.
Print Assumptions C08_cyk.
