(* C09 *)

(* ---- the stages keep the language and produce the promised shape (all grammars, all words) ---- *)
From Coq Require Import List NArith.
From PFL Require Import Base.ListSet Spec.Cfg Model.Cfg Base.Closure Proofs.CfgUseless Proofs.CfgEpsilon Proofs.CfgUnit Proofs.CfgDecompose Proofs.CfgNormalForm.

Theorem C09_remove_useless_lang : forall (Vr : Type) (E : EqDec Vr) (G : cfg Vr) (w : list N),
  LangG (remove_useless G) w <-> LangG G w.
Proof. exact (@remove_useless_lang). Qed.
Print Assumptions C09_remove_useless_lang.

(* every symbol of every remaining production derives a terminal word in the result and is reachable from the start symbol in the result *)
Theorem C09_remove_useless_shape : forall (Vr : Type) (E : EqDec Vr) (G : cfg Vr) (A : Vr) (body : list (symb Vr)) (s : Vr),
  g_start G = Some s -> In (A, body) (g_prods (remove_useless G)) ->
  forall X, X = V A \/ In X body ->
    (exists w, derives (remove_useless G) X w) /\ reach (sym_succs (remove_useless G)) (V s :: nil) X.
Proof. exact (@remove_useless_shape). Qed.
Print Assumptions C09_remove_useless_shape.

(* the empty word is the documented exception *)
Theorem C09_remove_epsilon_lang : forall (Vr : Type) (E : EqDec Vr) (G : cfg Vr) (w : list N),
  LangG (remove_epsilon G) w <-> (LangG G w /\ w <> nil).
Proof. exact (@remove_epsilon_lang). Qed.
Print Assumptions C09_remove_epsilon_lang.

Theorem C09_remove_epsilon_shape : forall (Vr : Type) (E : EqDec Vr) (G : cfg Vr) (A : Vr) (b : list (symb Vr)),
  In (A, b) (g_prods (remove_epsilon G)) -> b <> nil.
Proof. exact (@remove_epsilon_shape). Qed.
Print Assumptions C09_remove_epsilon_shape.

(* the hypotheses are what CFG.__init__ guarantees (heads and body variables are registered); they hold of every mkcfg value *)
Theorem C09_eliminate_unit_lang : forall (Vr : Type) (E : EqDec Vr) (G : cfg Vr),
  (forall A body, In (A, body) (g_prods G) -> In A (g_vars G)) ->
  (forall A body B, In (A, body) (g_prods G) -> In (V B) body -> In B (g_vars G)) ->
  forall w : list N, LangG (eliminate_unit G) w <-> LangG G w.
Proof. exact (@eliminate_unit_lang). Qed.
Print Assumptions C09_eliminate_unit_lang.

Theorem C09_eliminate_unit_shape : forall (Vr : Type) (E : EqDec Vr) (G : cfg Vr) (A : Vr) (body : list (symb Vr)),
  In (A, body) (g_prods (eliminate_unit G)) -> is_unit (A, body) = false.
Proof. exact (@eliminate_unit_shape). Qed.
Print Assumptions C09_eliminate_unit_shape.

(* binarisation with the shared-suffix cache: every non-fresh symbol keeps its language *)
Theorem C09_decompose_lang : forall (Vr : Type) (E : EqDec Vr) vs ts st (ps : list (cvar Vr * list (symb (cvar Vr)))),
  Forall nocc_prod ps -> forall X w, nocc_sym X ->
  (derives (Gd vs ts st ps) X w <-> derives (Gin vs ts st ps) X w).
Proof. exact (@decompose_lang). Qed.
Print Assumptions C09_decompose_lang.

(* to_normal_form (fast path, five-stage clean-up, terminal lifting, binarisation): same non-empty words, Chomsky shape *)
Theorem C09_to_normal_form_lang : forall (Vr : Type) (E : EqDec Vr) (fuel : nat) (G : cfg Vr) (C : cfg (cvar Vr)) (w : list N),
  to_normal_form fuel G = Some C -> w <> nil -> (LangG C w <-> LangG G w).
Proof. exact (@to_normal_form_lang). Qed.
Print Assumptions C09_to_normal_form_lang.

Theorem C09_to_normal_form_shape : forall (Vr : Type) (E : EqDec Vr) (fuel : nat) (G : cfg Vr) (C : cfg (cvar Vr)),
  to_normal_form fuel G = Some C -> is_normal_form C = true.
Proof. exact (@to_normal_form_nf). Qed.
Print Assumptions C09_to_normal_form_shape.

(* the recursion of to_normal_form always finishes: one clean-up reaches the fast path (or leaves no production) *)
From PFL Require Import Proofs.CfgNfTotal.
Theorem C09_to_normal_form_total : forall (Vr : Type) (E : EqDec Vr) (G : cfg Vr) (n : nat), exists C, to_normal_form (S n) G = Some C.
Proof. exact (@to_normal_form_total). Qed.
Print Assumptions C09_to_normal_form_total.
