(* C09 *)

(* tie to the source: the nullable expansion of the model is the function regenerated from cfg/utils_cfg.py on every build *)
From Coq Require Import List.
From PFL Require Import Base.ListSet Spec.Cfg Model.Cfg Gen.PyFun Proofs.GenTieC09.
Theorem C09_nullable_sub_from_source : forall (Vr : Type) (E : EqDec Vr) (nul : list Vr) (body : list (symb Vr)),
  py_remove_nullable_production_sub nul body = nullable_sub nul body.
Proof. exact (@py_nullable_sub_eq). Qed.
Print Assumptions C09_nullable_sub_from_source.
