(* C01 — acceptance and language-preserving transformations. Only statements live here. *)
From PFL Require Import Spec.Enfa Model.Enfa Proofs.EnfaAccepts.

Theorem C01_accepts : forall A w, accepts A w = true <-> Lang A w.
Proof. exact accepts_spec. Qed.
Print Assumptions C01_accepts.
