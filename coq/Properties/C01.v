(* C01 — acceptance and language-preserving transformations. Only statements live here. *)
From Coq Require Import List NArith.
From PFL Require Import Base.ListSet Spec.Enfa Model.Enfa Model.EnfaOps Proofs.EnfaAccepts
  Proofs.EnfaClasses Proofs.EnfaRemoveEps Proofs.EnfaDet Oracle.EnfaEquiv Oracle.EnfaEquivSound.

(* accepts(w) is true exactly when some run from a start state spells w and ends in a final state *)
Theorem C01_accepts : forall (Q : Type) (E : EqDec Q) (A : enfa Q) (w : list N),
  accepts A w = true <-> Lang A w.
Proof. exact (@accepts_spec). Qed.
Print Assumptions C01_accepts.

(* the overriding loops of the NFA and DFA classes, under the invariants those classes maintain *)
Theorem C01_accepts_nfa : forall (Q : Type) (E : EqDec Q) (A : enfa Q) (w : list N),
  eps_free A -> (accepts_nfa A w = true <-> Lang A w).
Proof. exact (@accepts_nfa_spec). Qed.
Print Assumptions C01_accepts_nfa.

Theorem C01_accepts_dfa : forall (Q : Type) (E : EqDec Q) (A : enfa Q) (w : list N),
  is_dfa A -> (accepts_dfa A w = true <-> Lang A w).
Proof. exact (@accepts_dfa_spec). Qed.
Print Assumptions C01_accepts_dfa.

Theorem C01_remove_eps : forall (Q : Type) (E : EqDec Q) (A : enfa Q),
  wf A -> lang_eq (remove_eps A) A /\ eps_free (remove_eps A).
Proof. intros Q E A W. split; [exact (remove_eps_lang A W)|exact (remove_eps_eps_free A)]. Qed.
Print Assumptions C01_remove_eps.

(* subset construction; [b] = close under epsilon (EpsilonNFA) or not (NFA: then no epsilon edge may exist);
   [n] is the exploration fuel (2^n steps), the statement excludes the out-of-fuel result *)
Theorem C01_determinize : forall (Q : Type) (E : EqDec Q) (C : Canon Q) (b : bool) (A : enfa Q) (n : nat) (D : enfa (list Q)),
  (b = false -> eps_free A) -> wf A -> determinize b A n = Some D -> lang_eq D A /\ is_dfa D.
Proof.
  intros Q E C b A n D Hb W HD. split.
  - exact (determinize_lang b A Hb (proj1 (proj2 W)) n D HD).
  - exact (determinize_is_dfa b A n D HD).
Qed.
Print Assumptions C01_determinize.

(* the instance-level certificate used for every automaton pyformlang returns (minimize, copy included) *)
Theorem C01_equiv_certificate : forall (Q1 Q2 : Type) (E1 : EqDec Q1) (E2 : EqDec Q2) (C1 : Canon Q1) (C2 : Canon Q2)
  (A : enfa Q1) (B : enfa Q2) (n : nat), enfa_equiv A B n = Some true -> lang_eq A B.
Proof. exact (@enfa_equiv_sound). Qed.
Print Assumptions C01_equiv_certificate.

(* the subset construction finishes: with fuel n such that 3 * 2^|states| < 2^n the out-of-fuel branch is unreachable *)
From Coq Require Import Arith.
From PFL Require Import Proofs.Totality.
Theorem C01_determinize_total : forall (b : bool) (A : enfa N), wf A ->
  forall n, (3 * 2 ^ length (e_states A) < 2 ^ n)%nat -> exists D, determinize b A n = Some D.
Proof. exact determinize_total. Qed.
Print Assumptions C01_determinize_total.

(* minimize(): the specification-level model (live states grouped by language equivalence, quotient; Proofs/Minimize.v) keeps the
   language and is deterministic, for every DFA; pyformlang's result is tied to it by its certificates (see C02_minimize_canonical) *)
From PFL Require Import Oracle.EnfaEquiv Oracle.EnfaMinimal Model.Minimize Proofs.Minimize.
Theorem C01_minimize_model : forall (Q : Type) (E : EqDec Q) (C : Canon Q) (A : enfa Q) (n : nat),
  is_dfa A -> wf A -> (forall p q, enfa_equiv (reroot A p) (reroot A q) n <> None) ->
  lang_eq (minimize_model A n) A /\ is_dfa (minimize_model A n).
Proof. intros Q E C A n D W Hf. split; [apply minimize_lang; assumption|apply minimize_dfa; assumption]. Qed.
Print Assumptions C01_minimize_model.
