(* C02 — equivalence is decided exactly. *)
From Coq Require Import List NArith.
From PFL Require Import Base.ListSet Spec.Enfa Model.Enfa Oracle.EnfaEquiv Oracle.EnfaEquivSound Oracle.EnfaEquivComplete.

Theorem C02_equiv_sound : forall (Q1 Q2 : Type) (E1 : EqDec Q1) (E2 : EqDec Q2) (C1 : Canon Q1) (C2 : Canon Q2)
  (A : enfa Q1) (B : enfa Q2) (n : nat), enfa_equiv A B n = Some true -> lang_eq A B.
Proof. exact (@enfa_equiv_sound). Qed.
Print Assumptions C02_equiv_sound.

Theorem C02_equiv_complete : forall (Q1 Q2 : Type) (E1 : EqDec Q1) (E2 : EqDec Q2) (C1 : Canon Q1) (C2 : Canon Q2)
  (A : enfa Q1) (B : enfa Q2) (n : nat), enfa_equiv A B n = Some false -> ~ lang_eq A B.
Proof. exact (@enfa_equiv_complete). Qed.
Print Assumptions C02_equiv_complete.

(* certificate used on every DFA returned by minimize(): all states reachable, pairwise distinguishable *)
From PFL Require Import Oracle.EnfaMinimal.
Theorem C02_reduced_certificate : forall (Q : Type) (E : EqDec Q) (C : Canon Q) (B : enfa Q) (n : nat),
  is_reduced_b B n = true ->
  (forall q, In q (e_states B) -> exists s w, In s (e_starts B) /\ run B s w q) /\
  (forall p q, In p (e_states B) -> In q (e_states B) -> p <> q -> ~ lang_eq (reroot B p) (reroot B q)).
Proof. exact (@is_reduced_b_sound). Qed.
Print Assumptions C02_reduced_certificate.

(* the exploration behind is_equivalent_to's oracle finishes (automata with numbered states; fuel n with 3 * 2^(|A|+|B|) < 2^n) *)
From Coq Require Import Arith.
From PFL Require Import Proofs.Totality.
Theorem C02_equiv_total : forall (A B : enfa N), wf A -> wf B ->
  forall n, (3 * (2 ^ length (e_states A) * 2 ^ length (e_states B)) < 2 ^ n)%nat -> exists b, enfa_equiv A B n = Some b.
Proof. exact enfa_equiv_total. Qed.
Print Assumptions C02_equiv_total.

(* uniqueness of the minimal automaton: two deterministic, reduced, trim automata with the same language are isomorphic (the states
   reached by the same word correspond); with the instance certificates for "reduced" and "trim" this backs the isomorphism
   verdict on the results of minimize() for equivalent inputs *)
From PFL Require Import Oracle.EnfaMinimal Proofs.EnfaIso.
Theorem C02_minimal_unique : forall (Q1 Q2 : Type) (E1 : EqDec Q1) (E2 : EqDec Q2) (B1 : enfa Q1) (B2 : enfa Q2),
  is_dfa B1 -> is_dfa B2 -> wf B1 -> wf B2 -> reduced B1 -> reduced B2 -> trim B1 -> trim B2 -> lang_eq B1 B2 ->
  isomorphism B1 B2 (Rel B1 B2).
Proof. exact (@minimal_dfa_unique). Qed.
Print Assumptions C02_minimal_unique.

Theorem C02_trim_certificate : forall (Q : Type) (E : EqDec Q) (B : enfa Q), trim_b B = true -> trim B.
Proof. exact (@trim_b_sound). Qed.
Print Assumptions C02_trim_certificate.

(* minimize(), modelled by its specification (states that are reachable and lead to a final state, grouped by language equivalence,
   quotient): the result accepts the same language, is deterministic, well formed, reduced and trim, for every DFA; and every
   automaton carrying the certificates checked on pyformlang's result is isomorphic to it *)
From PFL Require Import Model.Minimize Proofs.Minimize.
Theorem C02_minimize_model : forall (Q : Type) (E : EqDec Q) (C : Canon Q) (A : enfa Q) (n : nat),
  is_dfa A -> wf A -> (forall p q, enfa_equiv (reroot A p) (reroot A q) n <> None) ->
  lang_eq (minimize_model A n) A /\ is_dfa (minimize_model A n) /\ wf (minimize_model A n) /\
  reduced (minimize_model A n) /\ trim (minimize_model A n).
Proof.
  intros Q E C A n D W Hf. split; [apply minimize_lang; assumption|]. split; [apply minimize_dfa; assumption|].
  split; [apply minimize_wf; assumption|]. split; [apply minimize_reduced; assumption|apply minimize_trim; assumption].
Qed.
Print Assumptions C02_minimize_model.

Theorem C02_minimize_canonical : forall (Q Q2 : Type) (E : EqDec Q) (C : Canon Q) (E2 : EqDec Q2) (A : enfa Q) (n : nat) (B : enfa Q2),
  is_dfa A -> wf A -> (forall p q, enfa_equiv (reroot A p) (reroot A q) n <> None) ->
  is_dfa B -> wf B -> reduced B -> trim B -> lang_eq B A ->
  isomorphism (minimize_model A n) B (Rel (minimize_model A n) B).
Proof. exact (@minimize_canonical). Qed.
Print Assumptions C02_minimize_canonical.
