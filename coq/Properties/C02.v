(* C02 — equivalence is decided exactly. *)
From Coq Require Import List NArith.
From PFL Require Import Base.ListSet Spec.Enfa Model.Enfa Oracle.EnfaEquiv Oracle.EnfaEquivSound Oracle.EnfaEquivComplete.

Theorem C02_equiv_sound : forall (Q1 Q2 : Type) (E1 : EqDec Q1) (E2 : EqDec Q2) (C1 : Canon Q1) (C2 : Canon Q2)
  (A : enfa Q1) (B : enfa Q2) (n : nat), enfa_equiv A B n = Some true -> lang_eq A B.
Proof. exact (@enfa_equiv_sound). Qed.
Print Assumptions C02_equiv_sound.

Theorem C02_equiv_complete : forall (Q1 Q2 : Type) (E1 : EqDec Q1) (E2 : EqDec Q2) (C1 : Canon Q1) (C2 : Canon Q2)
  (A : enfa Q1) (B : enfa Q2) (n : nat), enfa_equiv A B n = Some false -> ~ lang_eq A B.
Proof. exact (@enfa_equiv_complete). Qed.
Print Assumptions C02_equiv_complete.

(* certificate used on every DFA returned by minimize(): all states reachable, pairwise distinguishable *)
From PFL Require Import Oracle.EnfaMinimal.
Theorem C02_reduced_certificate : forall (Q : Type) (E : EqDec Q) (C : Canon Q) (B : enfa Q) (n : nat),
  is_reduced_b B n = true ->
  (forall q, In q (e_states B) -> exists s w, In s (e_starts B) /\ run B s w q) /\
  (forall p q, In p (e_states B) -> In q (e_states B) -> p <> q -> ~ lang_eq (reroot B p) (reroot B q)).
Proof. exact (@is_reduced_b_sound). Qed.
Print Assumptions C02_reduced_certificate.
