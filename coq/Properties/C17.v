(* C17 — IndexedGrammar.is_empty. *)
From Coq Require Import List NArith.
From PFL Require Import Spec.Ig Model.Ig Proofs.IgMark.

(* Aho's marking, as the least fixed point of the rules the code iterates, answers "empty" exactly when no terminal word
   can be rewritten from the start nonterminal with an empty index stack (rewriting semantics of Spec/Ig.v) *)
Theorem C17_is_empty : forall (R : list irule) (S : N), ig_is_empty R S = true <-> ~ ig_nonempty R S.
Proof. exact ig_is_empty_spec. Qed.
Print Assumptions C17_is_empty.

(* tree-shaped derivations and rewriting agree on terminal words *)
Theorem C17_tree_vs_rewriting : forall (R : list irule) (A : N) (s w : list N), ider R A s w <-> isteps R (INT A s :: nil) (map IT w).
Proof. exact ider_small_step. Qed.
Print Assumptions C17_tree_vs_rewriting.

(* the meaning of a marked pair (A, T): on every stack, A derives a word as soon as every member of T does *)
Theorem C17_marks_sound : forall (R : list irule) (S : N) (it : mitem), In it (marks R S) -> Sem R it.
Proof. exact marks_sound. Qed.
Print Assumptions C17_marks_sound.

(* remove_useless_rules (rules all of whose nonterminals are generating when stacks are ignored and reachable from the start
   nonterminal are kept): the derivable words with an empty stack, hence the emptiness verdict, are unchanged, for every rule set *)
From PFL Require Import Model.IgUseless Proofs.IgUseless.
Theorem C17_remove_useless_rules : forall (R : list irule) (S : N),
  (forall w, ider (ig_remove_useless R S) S nil w <-> ider R S nil w) /\
  (ig_nonempty (ig_remove_useless R S) S <-> ig_nonempty R S) /\
  ig_is_empty (ig_remove_useless R S) S = ig_is_empty R S.
Proof.
  intros R S. split; [exact (remove_useless_lang R S)|]. split; [exact (remove_useless_nonempty R S)|exact (remove_useless_is_empty R S)].
Qed.
Print Assumptions C17_remove_useless_rules.
