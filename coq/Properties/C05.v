(* C05 — regular expressions: denotation, automaton, matcher, equivalence. *)
From Coq Require Import List NArith.
From PFL Require Import Base.ListSet Spec.Enfa Spec.Regex Model.RegexFA Proofs.RegexFA Oracle.ReMatch Oracle.EnfaEquiv Oracle.EnfaEquivSound.
From PFL Require Import Spec.Cfg Model.Thompson Proofs.Thompson Model.RegexCfg Proofs.RegexCfg.

Theorem C05_regex_automaton : forall (r : re) (w : list N), Lang (re_fa r) w <-> den r w.
Proof. exact re_fa_lang. Qed.
Print Assumptions C05_regex_automaton.

Theorem C05_matcher : forall (r : re) (w : list N), re_matches r w = true <-> den r w.
Proof. exact re_matches_spec. Qed.
Print Assumptions C05_matcher.

Theorem C05_equiv_certificate : forall (Q1 Q2 : Type) (E1 : EqDec Q1) (E2 : EqDec Q2) (C1 : Canon Q1) (C2 : Canon Q2)
  (A : enfa Q1) (B : enfa Q2) (n : nat), enfa_equiv A B n = Some true -> lang_eq A B.
Proof. exact (@enfa_equiv_sound). Qed.
Print Assumptions C05_equiv_certificate.

(* tie to the source: operator spellings regenerated from regular_expression/regex_objects.py on every build *)
From PFL Require Import Gen.PyConst Proofs.GenTieC05.
Theorem C05_operator_spellings_from_source :
  re_UNION_SYMBOLS = ((124%N :: nil) :: (43%N :: nil) :: nil) /\ re_CONCATENATION_SYMBOLS = ((46%N :: nil) :: nil) /\
  re_KLEENE_STAR_SYMBOLS = ((42%N :: nil) :: nil) /\ re_PARENTHESIS = ((40%N :: nil) :: (41%N :: nil) :: nil) /\
  re_EPSILON_SYMBOLS = ((101%N :: 112%N :: 115%N :: 105%N :: 108%N :: 111%N :: 110%N :: nil) :: (36%N :: nil) :: nil).
Proof. exact regex_operator_spellings. Qed.
Print Assumptions C05_operator_spellings_from_source.

(* the documented precedences and the refusal of ill-formed text, on the reference parser (fixed instances evaluated by the kernel):
   star binds tighter than concatenation, which binds tighter than union; parentheses group; an empty group, a leading star and a
   dangling union are refused *)
From PFL Require Import Model.RegexParse Proofs.RegexParse.
Theorem C05_precedence_instances :
  parse_regex (TSym 1 :: TUnion :: TSym 2 :: TSym 3 :: TStar :: nil) = Some (RAlt (RSym 1) (RCat (RSym 2) (RStar (RSym 3)))) /\
  parse_regex (TLp :: TSym 1 :: TUnion :: TSym 2 :: TRp :: TSym 3 :: nil) = Some (RCat (RAlt (RSym 1) (RSym 2)) (RSym 3)) /\
  parse_regex (TSym 1 :: TConcat :: TSym 2 :: TUnion :: TEps :: nil) = Some (RAlt (RCat (RSym 1) (RSym 2)) REps) /\
  parse_regex (TSym 1 :: TStar :: TStar :: nil) = Some (RStar (RStar (RSym 1))) /\
  parse_regex (TLp :: TRp :: nil) = None /\ parse_regex (TStar :: nil) = None /\ parse_regex (TSym 1 :: TUnion :: nil) = None.
Proof. repeat split; reflexivity. Qed.
Print Assumptions C05_precedence_instances.

(* Regex.to_epsilon_nfa: the model of pyformlang's construction (states named by the running counter, whose value c at the call is not reset by
   earlier compilations of the same object; two fresh states per operator or branch) accepts exactly the denotation of the expression, for every expression. The automaton pyformlang
   returns is compared with this model state by state and transition by transition on every generated expression. *)
Theorem C05_to_epsilon_nfa_model : forall (c : nat) (r : re) (w : list N), Lang (re_enfa_at c r) w <-> den r w.
Proof. exact re_enfa_at_lang. Qed.
Print Assumptions C05_to_epsilon_nfa_model.

(* Regex.to_cfg: the model of pyformlang's construction (one variable "A<n>" per node, the productions of get_cfg_rules)
   generates exactly the denotation of the expression, for every expression. The grammar pyformlang returns is compared with
   this model (variables, terminals, productions) on every generated expression. *)
Theorem C05_to_cfg_model : forall (r : re) (w : list N), LangG (re_cfg r) w <-> den r w.
Proof. exact re_cfg_lang. Qed.
Print Assumptions C05_to_cfg_model.

(* the reference parser implements the documented precedences: every expression (without the empty language, which has no text
   of its own) is read back from its text with the fewest parentheses that star > concatenation > union and right grouping
   allow, whether concatenation is written "." (dot = true) or by juxtaposition (dot = false) *)
Theorem C05_parser_reads_minimal_text : forall (dot : bool) (r : re), no_empty r -> parse_regex (pr dot 0 r) = Some r.
Proof. exact parse_print. Qed.
Print Assumptions C05_parser_reads_minimal_text.


(* Regex.accepts as pyformlang computes it: compile with to_epsilon_nfa (the counter-based construction), then run the
   epsilon-NFA acceptance loop — composition of the two proved models *)
From PFL Require Import Model.Enfa Proofs.Rational.
Theorem C05_accepts_code_path : forall (c : nat) (r : re) (w : list N), accepts (re_enfa_at c r) w = true <-> den r w.
Proof. exact re_enfa_accepts. Qed.
Print Assumptions C05_accepts_code_path.

(* str(regex): the fully parenthesised text of Regex.__repr__ (Model/RegexParse.pr_py) is read back by the reference parser to the same
   expression; the token sequence of str() on pyformlang's own tree is compared with pr_py on every generated expression *)
From PFL Require Import Proofs.RegexStr.
Theorem C05_str_round_trip : forall r : re, no_empty r -> parse_regex (pr_py r) = Some r.
Proof. exact str_round_trip. Qed.
Print Assumptions C05_str_round_trip.

(* the mirror of pyformlang's own parser (Model/RegexReader.v: outer-parenthesis stripping, _compute_precedence with its insertion of
   parentheses around the operand of a star, the split into first group / operator / rest) reads back the text of str() of every
   expression; proved through bracket-depth lemmas for _get_parenthesis_depths / index(0, from) *)
From PFL Require Import Model.RegexReader Proofs.RegexReader Proofs.RegexReaderStar.
Theorem C05_parser_mirror_reads_str : forall r : re, no_empty r -> reader_regex (pr_py r) = inl r.
Proof. exact reader_str_round_trip_all. Qed.
Print Assumptions C05_parser_mirror_reads_str.
