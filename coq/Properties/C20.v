(* C20 — round trips. *)
From Coq Require Import List NArith.
From PFL Require Import Base.ListSet Spec.Enfa Model.TextMarkers Oracle.EnfaEquiv Oracle.EnfaEquivSound.

Theorem C20_symbol_text_roundtrip : forall s : gsym, eps_spelling (value_of s) = false -> from_text (to_text s) = Some s.
Proof. exact symbol_text_roundtrip. Qed.
Print Assumptions C20_symbol_text_roundtrip.

(* certificate used for every box of a recursive automaton against the union of its right-hand sides *)
Theorem C20_box_certificate : forall (Q1 Q2 : Type) (E1 : EqDec Q1) (E2 : EqDec Q2) (C1 : Canon Q1) (C2 : Canon Q2)
  (A : enfa Q1) (B : enfa Q2) (n : nat), enfa_equiv A B n = Some true -> lang_eq A B.
Proof. exact (@enfa_equiv_sound). Qed.
Print Assumptions C20_box_certificate.

(* tie to the source: the epsilon spellings of from_text and the renaming suffix, regenerated from cfg/cfg.py on every build *)
From PFL Require Import Gen.PyConst Proofs.GenTieC20.
Theorem C20_text_constants_from_source :
  In (101%N :: 112%N :: 115%N :: 105%N :: 108%N :: 111%N :: 110%N :: nil) cfg_EPSILON_SYMBOLS /\ In (36%N :: nil) cfg_EPSILON_SYMBOLS.
Proof. split; [exact (proj1 cfg_text_constants)|exact (proj1 (proj2 cfg_text_constants))]. Qed.
Print Assumptions C20_text_constants_from_source.

(* ... lifted to bodies and to the whole list of productions: reading back the printed lines gives the same productions *)
From PFL Require Import Proofs.TextLines.
Theorem C20_grammar_text_roundtrip : forall prods : list (sval * list gsym),
  Forall (fun p => Forall (fun s => eps_spelling (value_of s) = false) (snd p)) prods ->
  lines_from_text (lines_to_text prods) = prods.
Proof. exact grammar_text_roundtrip. Qed.
Print Assumptions C20_grammar_text_roundtrip.

(* a box of a recursive automaton as pyformlang builds it (Regex(body).to_epsilon_nfa().minimize()): the composition of the proved
   mirrors of the counter-based construction, the subset construction and minimisation accepts exactly the denotation of the body
   and is deterministic; the box pyformlang returns is certified equal to the union of the alternatives' automata on every case *)
From PFL Require Import Spec.Regex Model.Enfa Model.EnfaOps Oracle.EnfaMinimal Model.Thompson Proofs.Rational Proofs.RsaBox.
Theorem C20_box_code_path : forall (c n m : nat) (r : re) (B : enfa (list nat)),
  box_model c n m r = Some B ->
  (forall D, determinize true (re_enfa_at c r) n = Some D -> forall p q, enfa_equiv (reroot D p) (reroot D q) m <> None) ->
  (forall w, Lang B w <-> den r w) /\ is_dfa B.
Proof. exact box_model_lang. Qed.
Print Assumptions C20_box_code_path.
