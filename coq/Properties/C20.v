(* C20 — round trips. *)
From Coq Require Import List NArith.
From PFL Require Import Base.ListSet Spec.Enfa Model.TextMarkers Oracle.EnfaEquiv Oracle.EnfaEquivSound.

Theorem C20_symbol_text_roundtrip : forall s : gsym, eps_spelling (value_of s) = false -> from_text (to_text s) = Some s.
Proof. exact symbol_text_roundtrip. Qed.
Print Assumptions C20_symbol_text_roundtrip.

(* certificate used for every box of a recursive automaton against the union of its right-hand sides *)
Theorem C20_box_certificate : forall (Q1 Q2 : Type) (E1 : EqDec Q1) (E2 : EqDec Q2) (C1 : Canon Q1) (C2 : Canon Q2)
  (A : enfa Q1) (B : enfa Q2) (n : nat), enfa_equiv A B n = Some true -> lang_eq A B.
Proof. exact (@enfa_equiv_sound). Qed.
Print Assumptions C20_box_certificate.

(* ... lifted to bodies and to the whole list of productions: reading back the printed lines gives the same productions *)
From PFL Require Import Proofs.TextLines.
Theorem C20_grammar_text_roundtrip : forall prods : list (sval * list gsym),
  Forall (fun p => Forall (fun s => eps_spelling (value_of s) = false) (snd p)) prods ->
  lines_from_text (lines_to_text prods) = prods.
Proof. exact grammar_text_roundtrip. Qed.
Print Assumptions C20_grammar_text_roundtrip.

(* a box of a recursive automaton as pyformlang builds it (Regex(body).to_epsilon_nfa().minimize()): the composition of the proved
   mirrors of the counter-based construction, the subset construction and minimisation accepts exactly the denotation of the body
   and is deterministic; the box pyformlang returns is certified equal to the union of the alternatives' automata on every case *)
From PFL Require Import Spec.Regex Model.Enfa Model.EnfaOps Oracle.EnfaMinimal Model.Thompson Proofs.Rational Proofs.RsaBox.
Theorem C20_box_code_path : forall (c n m : nat) (r : re) (B : enfa (list nat)),
  box_model c n m r = Some B ->
  (forall D, determinize true (re_enfa_at c r) n = Some D -> forall p q, enfa_equiv (reroot D p) (reroot D q) m <> None) ->
  (forall w, Lang B w <-> den r w) /\ is_dfa B.
Proof. exact box_model_lang. Qed.
Print Assumptions C20_box_code_path.

(* edge labels of the networkx export: str.split as pyformlang uses it (leftmost non-overlapping cuts, exactly two parts or
   ValueError) reads back the fields of a label in which each separator occurs at exactly one position *)
From PFL Require Import Model.GraphLabels Proofs.GraphLabels.
Theorem C20_split_unique : forall sep a r : str, sep <> nil -> occ sep (a ++ sep ++ r) = 1 -> split sep (a ++ sep ++ r) = a :: r :: nil.
Proof. exact split_unique. Qed.
Print Assumptions C20_split_unique.

Theorem C20_pda_label_roundtrip : forall a b c : str,
  occ sep_arrow (pda_label a b c) = 1 -> occ sep_slash (b ++ sep_slash ++ c) = 1 ->
  read_pda_label (pda_label a b c) = Some (a, b, c).
Proof. exact pda_label_roundtrip. Qed.
Print Assumptions C20_pda_label_roundtrip.

Theorem C20_fst_label_roundtrip : forall a b : str,
  occ sep_arrow (fst_label a b) = 1 -> read_fst_label (fst_label a b) = Some (a, b).
Proof. exact fst_label_roundtrip. Qed.
Print Assumptions C20_fst_label_roundtrip.

(* conversely, reading is sound: split is inverted by join, so whatever from_networkx reads from a label, the label was exactly
   the assembly of what it read (no label is read as two different transitions, no character is lost or invented) *)
From PFL Require Import Proofs.GraphLabelsJoin.
Theorem C20_join_split : forall sep s : str, sep <> nil -> join sep (split sep s) = s.
Proof. exact join_split. Qed.
Print Assumptions C20_join_split.

Theorem C20_read_pda_label_sound : forall l a b c : str, read_pda_label l = Some (a, b, c) -> l = pda_label a b c.
Proof. exact read_pda_label_sound. Qed.
Print Assumptions C20_read_pda_label_sound.

Theorem C20_read_fst_label_sound : forall l a b : str, read_fst_label l = Some (a, b) -> l = fst_label a b.
Proof. exact read_fst_label_sound. Qed.
Print Assumptions C20_read_fst_label_sound.

(* the premises reduced to the fields alone: non-empty texts free of both separators whose first and last characters are not
   separator characters (json texts of strings, non-negative numbers and lists) are read back exactly *)
From PFL Require Import Proofs.GraphLabelsSuff.
Theorem C20_pda_label_roundtrip_fields : forall (a0 : str) (ea : N) (b0 : str) (eb : N) (c : str),
  ~ In ea sep_chars -> ~ In eb sep_chars -> head_not_in sep_chars (b0 ++ eb :: nil) -> head_not_in sep_chars c ->
  occ sep_arrow (a0 ++ ea :: nil) = 0 -> occ sep_arrow (b0 ++ eb :: nil) = 0 -> occ sep_arrow c = 0 ->
  occ sep_slash (b0 ++ eb :: nil) = 0 -> occ sep_slash c = 0 ->
  read_pda_label (pda_label (a0 ++ ea :: nil) (b0 ++ eb :: nil) c) = Some (a0 ++ ea :: nil, b0 ++ eb :: nil, c).
Proof. exact pda_label_roundtrip_fields. Qed.
Print Assumptions C20_pda_label_roundtrip_fields.

Theorem C20_fst_label_roundtrip_fields : forall (a0 : str) (ea : N) (b : str),
  ~ In ea sep_chars -> head_not_in sep_chars b -> occ sep_arrow (a0 ++ ea :: nil) = 0 -> occ sep_arrow b = 0 ->
  read_fst_label (fst_label (a0 ++ ea :: nil) b) = Some (a0 ++ ea :: nil, b).
Proof. exact fst_label_roundtrip_fields. Qed.
Print Assumptions C20_fst_label_roundtrip_fields.
