(* C10 — grammar operations. *)
From Coq Require Import List NArith.
From PFL Require Import Spec.Cfg Model.CfgOps Proofs.CfgOps.

Theorem C10_reverse : forall (Vr : Type) (G : cfg Vr) (w : list N), LangG (reverse_cfg G) w <-> LangG G (rev w).
Proof. exact (@reverse_cfg_spec). Qed.
Print Assumptions C10_reverse.

(* substitute: the language is the substituted language, for every grammar and every substitution whose grammars have a start symbol *)
From Coq Require Import NArith.
From PFL Require Import Model.Cfg Proofs.CfgSubst Proofs.CfgTemplates.
Theorem C10_substitute : forall (V0 V1 : Type) (G : cfg V0) (sigma : list (N * cfg V1)),
  (forall a H, In (a, H) sigma -> g_start H <> None) ->
  forall w, LangG (substitute G sigma) w <-> exists u, LangG G u /\ subst_rel sigma u w.
Proof. exact (@substitute_lang). Qed.
Print Assumptions C10_substitute.

(* the four templates (t0, t1: the placeholder terminals "#0UNION#", "#1UNION#", ...); operands may share variables or be the same grammar *)
Theorem C10_union : forall (V1 : Type) (t0 t1 : N) (G1 G2 : cfg V1), t0 <> t1 -> g_start G1 <> None -> g_start G2 <> None ->
  forall w, LangG (union_cfg t0 t1 G1 G2) w <-> LangG G1 w \/ LangG G2 w.
Proof. exact (@union_lang). Qed.
Print Assumptions C10_union.

Theorem C10_concatenate : forall (V1 : Type) (t0 t1 : N) (G1 G2 : cfg V1), t0 <> t1 -> g_start G1 <> None -> g_start G2 <> None ->
  forall w, LangG (concat_cfg t0 t1 G1 G2) w <-> exists w1 w2, w = w1 ++ w2 /\ LangG G1 w1 /\ LangG G2 w2.
Proof. exact (@concat_lang). Qed.
Print Assumptions C10_concatenate.

Theorem C10_closure : forall (V1 : Type) (t1 : N) (G1 : cfg V1), g_start G1 <> None ->
  forall w, LangG (closure_cfg t1 G1) w <-> exists ws, w = concat ws /\ Forall (LangG G1) ws.
Proof. exact (@closure_lang). Qed.
Print Assumptions C10_closure.

Theorem C10_positive_closure : forall (V1 : Type) (t1 : N) (G1 : cfg V1), g_start G1 <> None ->
  forall w, LangG (pos_closure_cfg t1 G1) w <-> exists ws, ws <> nil /\ w = concat ws /\ Forall (LangG G1) ws.
Proof. exact (@pos_closure_lang). Qed.
Print Assumptions C10_positive_closure.
