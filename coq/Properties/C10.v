(* C10 — grammar operations. *)
From Coq Require Import List NArith.
From PFL Require Import Spec.Cfg Model.CfgOps Proofs.CfgOps.

Theorem C10_reverse : forall (Vr : Type) (G : cfg Vr) (w : list N), LangG (reverse_cfg G) w <-> LangG G (rev w).
Proof. exact (@reverse_cfg_spec). Qed.
Print Assumptions C10_reverse.
