(* C14 — LL(1). Instance-level certificates used on every parser result. *)
From Coq Require Import List NArith.
From PFL Require Import Base.ListSet Spec.Cfg Oracle.CfgTree Oracle.CfgMember Oracle.CfgMemberSound.

Theorem C14_tree_checker : forall (Vr : Type) (E : EqDec Vr) (G : cfg Vr) (t : tree Vr),
  tree_ok G t = true -> valid_tree G t /\ derives G (root t) (yield t).
Proof. intros Vr E G t H. split; [exact (tree_ok_sound G t H)|exact (valid_tree_derives G t (tree_ok_sound G t H))]. Qed.
Print Assumptions C14_tree_checker.

Theorem C14_member_oracle : forall (Vr : Type) (E : EqDec Vr) (G : cfg Vr) (w : list N),
  cfg_member G w = true <-> LangG G w.
Proof. exact (@cfg_member_spec). Qed.
Print Assumptions C14_member_oracle.

(* ---- FIRST / FOLLOW are the textbook sets; the LL(1) parser is sound and, on grammars passing the LL(1) test, complete ---- *)
From PFL Require Import Model.Cfg Model.LL1 Proofs.LL1.

(* registration invariants of CFG.__init__ (heads, body variables, body terminals are registered) are hypotheses throughout;
   "every body symbol derives some word" is the absence of non-generating symbols the property assumes *)
Theorem C14_first_set : forall (Vr : Type) (E : EqDec Vr) (G : cfg Vr),
  (forall A body, In (A, body) (g_prods G) -> In A (g_vars G)) ->
  (forall A body a, In (A, body) (g_prods G) -> In (T a) body -> In a (g_terms G)) ->
  (forall A body X, In (A, body) (g_prods G) -> In X body -> exists w, derives G X w) ->
  forall A l, In (A, l) (first_set G) <-> exists u, derives G (V A) u /\ la u = l.
Proof. exact (@first_set_spec). Qed.
Print Assumptions C14_first_set.

Theorem C14_follow_set : forall (Vr : Type) (E : EqDec Vr) (G : cfg Vr),
  (forall A body, In (A, body) (g_prods G) -> In A (g_vars G)) ->
  (forall A body B, In (A, body) (g_prods G) -> In (V B) body -> In B (g_vars G)) ->
  (forall A body a, In (A, body) (g_prods G) -> In (T a) body -> In a (g_terms G)) ->
  (forall A body X, In (A, body) (g_prods G) -> In X body -> exists w, derives G X w) ->
  forall B l, In B (g_vars G) -> (In (B, l) (follow_set G) <-> Follows G B l).
Proof. exact (@follow_set_spec). Qed.
Print Assumptions C14_follow_set.

(* whatever the tables contain, a returned tree is a parse tree of the whole word rooted at the start symbol *)
Theorem C14_parser_sound : forall (Vr : Type) (E : EqDec Vr) (G : cfg Vr) (fuel : nat) (w : list N) (t : tree Vr),
  ll1_parse G fuel w = Some t -> valid_tree G t /\ yield t = w /\ (exists s, g_start G = Some s /\ root t = V s) /\ LangG G w.
Proof. exact (@ll1_parse_sound). Qed.
Print Assumptions C14_parser_sound.

(* on a grammar that passes is_llone_parsable, every word of the language is parsed (with any fuel above a bound: the parser terminates) *)
Theorem C14_parser_complete : forall (Vr : Type) (E : EqDec Vr) (G : cfg Vr),
  (forall A body, In (A, body) (g_prods G) -> In A (g_vars G)) ->
  (forall A body B, In (A, body) (g_prods G) -> In (V B) body -> In B (g_vars G)) ->
  (forall A body a, In (A, body) (g_prods G) -> In (T a) body -> In a (g_terms G)) ->
  is_ll1 G = true ->
  forall w, (forall s, g_start G = Some s -> In s (g_vars G)) -> LangG G w ->
  exists f t, forall f', f <= f' -> ll1_parse G f' w = Some t.
Proof. exact (@ll1_parse_complete). Qed.
Print Assumptions C14_parser_complete.

(* FOLLOW by rules = FOLLOW by sentential forms: B is followed by l in a form derivable from the start symbol whose rest is completed
   to a terminal word. The first direction holds for every grammar; the converse when no variable is unreachable and body symbols and
   the start symbol are generating (the property's "no useless symbols") *)
From PFL Require Import Proofs.FollowForms.
Theorem C14_follow_sentential_sound : forall (Vr : Type) (G : cfg Vr) (s : Vr), g_start G = Some s ->
  forall B l, FollowsForm G s B l -> Follows G B l.
Proof. exact (@form_follows). Qed.
Print Assumptions C14_follow_sentential_sound.

Theorem C14_follow_sentential_complete : forall (Vr : Type) (G : cfg Vr) (s : Vr), g_start G = Some s ->
  (forall A body, In (A, body) (g_prods G) -> exists pre post, steps G (V s :: nil) (pre ++ V A :: post)) ->
  (forall A body X, In (A, body) (g_prods G) -> In X body -> exists w, derives G X w) ->
  forall B l, (exists w, derives G (V s) w) -> Follows G B l -> FollowsForm G s B l.
Proof. exact (@follows_form). Qed.
Print Assumptions C14_follow_sentential_complete.
