(* C03 — Boolean operations on automata. *)
From Coq Require Import List NArith.
From PFL Require Import Base.ListSet Spec.Enfa Model.Enfa Model.EnfaOps Proofs.EnfaReverse Proofs.EnfaProduct Proofs.EnfaComplement.

Theorem C03_reverse : forall (Q : Type) (E : EqDec Q) (A : enfa Q) (w : list N),
  Lang (reverse A) w <-> Lang A (rev w).
Proof. intros Q E A w. exact (reverse_spec A w). Qed.
Print Assumptions C03_reverse.

Theorem C03_intersection : forall (Q1 Q2 : Type) (E1 : EqDec Q1) (E2 : EqDec Q2) (A : enfa Q1) (B : enfa Q2) (n : nat) (P : enfa (Q1 * Q2)),
  wf A -> wf B -> intersection A B n = Some P -> forall w, Lang P w <-> Lang A w /\ Lang B w.
Proof. intros Q1 Q2 E1 E2 A B n P WA WB HP. exact (intersection_lang A B (proj1 (proj2 WA)) (proj1 (proj2 WB)) n P HP). Qed.
Print Assumptions C03_intersection.

(* complement relative to the automaton's own alphabet, on a deterministic automaton with a start state
   (what get_complement works on after determinising) *)
Theorem C03_complement : forall (Q : Type) (E : EqDec Q) (A : enfa Q) (w : list N),
  is_dfa A -> wf A -> (exists s, In s (e_starts A)) -> (forall a, In a w -> In a (e_syms A)) ->
  (Lang (complement A) w <-> ~ Lang A w).
Proof. intros Q E A w D W. exact (complement_spec A D W w). Qed.
Print Assumptions C03_complement.

(* reference constructions for union / concatenation / star of automata: pyformlang computes these through
   to_regex and the regex combinators; its results are compared with these constructions by the exact equivalence check *)
From PFL Require Import Spec.Regex Model.RegexFA Proofs.RegexFA.
Theorem C03_union_ref : forall (Q1 Q2 : Type) (A : enfa Q1) (B : enfa Q2) (w : list N),
  Lang (fa_union A B) w <-> Lang A w \/ Lang B w.
Proof. exact (@fa_union_lang). Qed.
Print Assumptions C03_union_ref.
Theorem C03_concat_ref : forall (Q1 Q2 : Type) (A : enfa Q1) (B : enfa Q2) (w : list N),
  Lang (fa_concat A B) w <-> exists u v, w = u ++ v /\ Lang A u /\ Lang B v.
Proof. exact (@fa_concat_lang). Qed.
Print Assumptions C03_concat_ref.
Theorem C03_star_ref : forall (Q : Type) (A : enfa Q) (w : list N),
  Lang (fa_star A) w <-> lstar (Lang A) w.
Proof. exact (@fa_star_lang). Qed.
Print Assumptions C03_star_ref.

(* get_difference (the right operand is given the joint alphabet, determinised and complemented, then the product) *)
From PFL Require Import Proofs.EnfaDifference.
Theorem C03_difference : forall (Q1 Q2 : Type) (E1 : EqDec Q1) (E2 : EqDec Q2) (C2 : Canon Q2) (A : enfa Q1) (B : enfa Q2) (n m : nat)
    (P : enfa (Q1 * option (list Q2))),
  wf A -> wf B -> difference_fa A B n m = Some P -> forall w, Lang P w <-> Lang A w /\ ~ Lang B w.
Proof. exact (@difference_spec). Qed.
Print Assumptions C03_difference.

(* the product exploration finishes *)
From Coq Require Import Arith.
From PFL Require Import Proofs.Totality.
Theorem C03_intersection_total : forall (Q1 Q2 : Type) (E1 : EqDec Q1) (E2 : EqDec Q2) (A : enfa Q1) (B : enfa Q2), wf A -> wf B ->
  forall n, (3 * (length (e_states A) * length (e_states B)) < 2 ^ n)%nat -> exists P, intersection A B n = Some P.
Proof. exact (@intersection_total). Qed.
Print Assumptions C03_intersection_total.

(* union / concatenate / kleene_star as pyformlang computes them (regexable.py): to_regex, the Regex combinator, to_epsilon_nfa —
   the composition of the proved models of the two conversions (Model/Kleene.v, Model/Thompson.v) has the intended language *)
From PFL Require Import Model.Kleene Model.Thompson Proofs.Rational.
Theorem C03_union_code_path : forall (Q1 Q2 : Type) (E1 : EqDec Q1) (E2 : EqDec Q2) (A : enfa Q1) (B : enfa Q2) (w : list N),
  wf A -> wf B -> (Lang (union_model A B) w <-> Lang A w \/ Lang B w).
Proof. exact (@union_model_lang). Qed.
Print Assumptions C03_union_code_path.
Theorem C03_concatenate_code_path : forall (Q1 Q2 : Type) (E1 : EqDec Q1) (E2 : EqDec Q2) (A : enfa Q1) (B : enfa Q2) (w : list N),
  wf A -> wf B -> (Lang (concat_model A B) w <-> exists u v, w = u ++ v /\ Lang A u /\ Lang B v).
Proof. exact (@concat_model_lang). Qed.
Print Assumptions C03_concatenate_code_path.
Theorem C03_kleene_star_code_path : forall (Q1 : Type) (E1 : EqDec Q1) (A : enfa Q1) (w : list N),
  wf A -> (Lang (star_model A) w <-> lstar (Lang A) w).
Proof. exact (@star_model_lang). Qed.
Print Assumptions C03_kleene_star_code_path.
