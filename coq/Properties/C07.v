(* C07 — the matcher used to evaluate the Gallina reading of the documented Python subset is exact. *)
From Coq Require Import List NArith.
From PFL Require Import Spec.Regex Oracle.ReMatch.

Theorem C07_matcher : forall (r : re) (w : list N), re_matches r w = true <-> den r w.
Proof. exact re_matches_spec. Qed.
Print Assumptions C07_matcher.
