(* C07 — the matcher used to evaluate the Gallina reading of the documented Python subset is exact. *)
From Coq Require Import List NArith.
From PFL Require Import Spec.Regex Oracle.ReMatch.

Theorem C07_matcher : forall (r : re) (w : list N), re_matches r w = true <-> den r w.
Proof. exact re_matches_spec. Qed.
Print Assumptions C07_matcher.

(* tie to the source: the characters escaped inside a character set, regenerated from regular_expression/python_regex.py *)
From PFL Require Import Gen.PyConst Proofs.GenTieC07.
Theorem C07_brackets_escape_from_source : In 46%N pyre_TO_ESCAPE_IN_BRACKETS /\ In 36%N pyre_TO_ESCAPE_IN_BRACKETS.
Proof. split; [exact (proj1 brackets_escape_dot_dollar)|exact (proj1 (proj2 brackets_escape_dot_dollar))]. Qed.
Print Assumptions C07_brackets_escape_from_source.

(* the translation of the documented subset to plain regular expressions agrees with a direct semantics of the subset
   (literals, '.', sets and negated sets over string.printable, alternation, *, +, ?, {m,n} as m..n repetitions) *)
From PFL Require Import Model.PyRegex Proofs.PyRegexSem.
Theorem C07_translation_semantics : forall (universe : list N) (p : pyre) (w : list N),
  den (py_translate universe p) w <-> pyden universe p w.
Proof. exact py_translate_sem. Qed.
Print Assumptions C07_translation_semantics.

(* PythonRegex(p).accepts(s) as pyformlang computes it once the pattern has been rewritten: the expression is compiled by
   to_epsilon_nfa (proved mirror) and run by the epsilon-NFA acceptance loop (proved mirror) *)
From PFL Require Import Base.ListSet Model.Enfa Model.Thompson Proofs.Rational.
Theorem C07_accepts_code_path : forall (universe : list N) (c : nat) (p : pyre) (w : list N),
  accepts (re_enfa_at c (py_translate universe p)) w = true <-> pyden universe p w.
Proof. exact pyre_accepts. Qed.
Print Assumptions C07_accepts_code_path.
