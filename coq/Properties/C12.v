(* C12 — symbol classes and emptiness are exact. *)
From Coq Require Import List NArith.
Import ListNotations.
From PFL Require Import Base.ListSet Spec.Cfg Model.Cfg Proofs.CfgSymbols.

Theorem C12_generating : forall (Vr : Type) (E : EqDec Vr) (G : cfg Vr) (A : Vr),
  In A (generating_vars G) <-> exists w, derives G (V A) w.
Proof. exact (@generating_vars_spec). Qed.
Print Assumptions C12_generating.

Theorem C12_nullable : forall (Vr : Type) (E : EqDec Vr) (G : cfg Vr) (A : Vr),
  In A (nullable_vars G) <-> derives G (V A) [].
Proof. exact (@nullable_vars_spec). Qed.
Print Assumptions C12_nullable.

(* exactly the symbols that occur in a sentential form derivable from the start symbol *)
Theorem C12_reachable : forall (Vr : Type) (E : EqDec Vr) (G : cfg Vr) (s : Vr) (X : symb Vr),
  g_start G = Some s ->
  (In X (reachable_symbols G) <-> exists pre post, steps G [V s] (pre ++ X :: post)).
Proof. exact (@reachable_symbols_spec). Qed.
Print Assumptions C12_reachable.

Theorem C12_is_empty : forall (Vr : Type) (E : EqDec Vr) (G : cfg Vr),
  is_empty_cfg G = true <-> forall w, ~ LangG G w.
Proof. exact (@is_empty_cfg_spec). Qed.
Print Assumptions C12_is_empty.

(* get_words(n): each generated word of length at most n exactly once, nothing else (modelled by its specification) *)
From PFL Require Import Model.CfgWords Proofs.CfgWords.
Theorem C12_get_words : forall (Vr : Type) (E : EqDec Vr) (G : cfg Vr) (n : nat),
  NoDup (get_words G n) /\ forall w, In w (get_words G n) <-> (LangG G w /\ length w <= n).
Proof. exact (@get_words_spec). Qed.
Print Assumptions C12_get_words.

(* is_finite: the cycle test on the variable graph of the normal form decides finiteness of the language; nf_vars_useful (every
   variable of the normal form generating and reachable) is evaluated on every case of the correspondence leg *)
From PFL Require Import Proofs.CfgFinite.
Theorem C12_graph_acyclic : forall (X : Type) (E : EqDec X) (C : cfg X), is_normal_form C = true -> nf_vars_useful C = true ->
  (graph_acyclic C = true <-> lang_finite C).
Proof. exact (@graph_acyclic_useful). Qed.
Print Assumptions C12_graph_acyclic.

Theorem C12_is_finite : forall (Vr : Type) (E : EqDec Vr) (fuel : nat) (G : cfg Vr) (C : cfg (cvar Vr)) (b : bool),
  to_normal_form fuel G = Some C -> nf_vars_useful C = true -> is_finite fuel G = Some b -> (b = true <-> lang_finite G).
Proof. exact (@is_finite_spec). Qed.
Print Assumptions C12_is_finite.

(* ... and that hypothesis always holds: the normal form computed by to_normal_form has no useless variable, so is_finite decides
   finiteness for every registered grammar (cfg_wf: what CFG.__init__ establishes) that has a start symbol *)
From PFL Require Import Proofs.CfgNfUseful.
Theorem C12_normal_form_useful : forall (Vr : Type) (E : EqDec Vr) (fuel : nat) (G : cfg Vr) (C : cfg (cvar Vr)),
  cfg_wf G -> g_start G <> None -> to_normal_form fuel G = Some C -> nf_vars_useful C = true.
Proof. exact (@to_normal_form_useful). Qed.
Print Assumptions C12_normal_form_useful.

Theorem C12_is_finite_correct : forall (Vr : Type) (E : EqDec Vr) (fuel : nat) (G : cfg Vr) (b : bool),
  cfg_wf G -> g_start G <> None -> is_finite fuel G = Some b -> (b = true <-> lang_finite G).
Proof. exact (@is_finite_correct). Qed.
Print Assumptions C12_is_finite_correct.

(* get_words() without a bound: the enumeration by increasing length returns once `total_no_modification > current_length / 2`,
   i.e. after the last processed length L there were k consecutive lengths without any new word for any variable of the normal form,
   with L + 1 < 2 k. In Chomsky normal form no longer word can then exist: nothing is missed by stopping. *)
From PFL Require Import Proofs.CfgStopRule.
Theorem C12_get_words_stop_rule : forall (X : Type) (G : cfg X), is_normal_form G = true ->
  forall L k : nat, L + 1 < 2 * k -> k <= L ->
  (forall m, L - k < m <= L -> no_word_of_length G m) ->
  forall A w, derives G (V A) w -> length w <= L - k.
Proof. exact (@stop_rule_all_words). Qed.
Print Assumptions C12_get_words_stop_rule.

(* get_words(n) mirrored end to end (Model/WordsDp.v): the empty word when the start symbol is nullable, then the length-indexed
   table on the normal form (words of length 1 from the terminal productions; words of length m from a production A -> B C, a split
   m = i + j and the levels i, j already filled): exactly the generated words of length at most n, each once *)
From PFL Require Import Model.CfgOps Model.WordsDp Proofs.WordsDpCode.
Theorem C12_get_words_code : forall (Vr : Type) (E : EqDec Vr) (fuel : nat) (G : cfg Vr) (n : nat) (ws : list (list N)),
  get_words_code fuel G n = Some ws -> (forall w, In w ws <-> LangG G w /\ length w <= n) /\ NoDup ws.
Proof. intros Vr E fuel G n ws H. split; [exact (get_words_code_spec fuel G n ws H)|exact (get_words_code_nodup fuel G n ws H)]. Qed.
Print Assumptions C12_get_words_code.
