(* C15 — parse trees and derivation listings: proved-sound checkers applied to every object handed out. *)
From Coq Require Import List NArith.
From PFL Require Import Base.ListSet Spec.Cfg Oracle.CfgTree Oracle.CfgMember Oracle.CfgMemberSound.

Theorem C15_tree_checker : forall (Vr : Type) (E : EqDec Vr) (G : cfg Vr) (t : tree Vr),
  tree_ok G t = true -> valid_tree G t.
Proof. exact (@tree_ok_sound). Qed.
Print Assumptions C15_tree_checker.

Theorem C15_tree_derives : forall (Vr : Type) (E : EqDec Vr) (G : cfg Vr) (t : tree Vr),
  valid_tree G t -> derives G (root t) (yield t).
Proof. intros Vr E G t. exact (valid_tree_derives G t). Qed.
Print Assumptions C15_tree_derives.

Theorem C15_leftmost_checker : forall (Vr : Type) (E : EqDec Vr) (G : cfg Vr) (f g : list (symb Vr)),
  lstep_b G f g = true -> lstep G f g.
Proof. exact (@lstep_b_sound). Qed.
Print Assumptions C15_leftmost_checker.

Theorem C15_rightmost_checker : forall (Vr : Type) (E : EqDec Vr) (G : cfg Vr) (f g : list (symb Vr)),
  rstep_b G f g = true -> rstep G f g.
Proof. exact (@rstep_b_sound). Qed.
Print Assumptions C15_rightmost_checker.

(* refusals are compared with exact membership *)
Theorem C15_member_oracle : forall (Vr : Type) (E : EqDec Vr) (G : cfg Vr) (w : list N),
  cfg_member G w = true <-> LangG G w.
Proof. exact (@cfg_member_spec). Qed.
Print Assumptions C15_member_oracle.

(* get_leftmost_derivation / get_rightmost_derivation, mirrored (Model/Deriv.v: the loop over the sons with its `start` / `end`
   accumulators and the dropped repeated first line): for every valid tree the listing starts at the root symbol, every line follows
   from the previous one by rewriting the leftmost (rightmost) variable with one production, and the last line is the yield *)
From PFL Require Import Model.Deriv Proofs.Deriv.
Theorem C15_leftmost_listing : forall (Vr : Type) (G : cfg Vr) (t : tree Vr), valid_tree G t ->
  lm t <> nil /\ hd nil (lm t) = (root t :: nil) /\ lchain G (lm t) /\ last (lm t) nil = map T (yield t).
Proof. exact (@lm_spec). Qed.
Print Assumptions C15_leftmost_listing.

Theorem C15_rightmost_listing : forall (Vr : Type) (G : cfg Vr) (t : tree Vr), valid_tree G t ->
  rm t <> nil /\ hd nil (rm t) = (root t :: nil) /\ rchain G (rm t) /\ last (rm t) nil = map T (yield t).
Proof. exact (@rm_spec). Qed.
Print Assumptions C15_rightmost_listing.
