(* C15 — parse trees and derivation listings: proved-sound checkers applied to every object handed out. *)
From Coq Require Import List NArith.
From PFL Require Import Base.ListSet Spec.Cfg Oracle.CfgTree Oracle.CfgMember Oracle.CfgMemberSound.

Theorem C15_tree_checker : forall (Vr : Type) (E : EqDec Vr) (G : cfg Vr) (t : tree Vr),
  tree_ok G t = true -> valid_tree G t.
Proof. exact (@tree_ok_sound). Qed.
Print Assumptions C15_tree_checker.

Theorem C15_tree_derives : forall (Vr : Type) (E : EqDec Vr) (G : cfg Vr) (t : tree Vr),
  valid_tree G t -> derives G (root t) (yield t).
Proof. intros Vr E G t. exact (valid_tree_derives G t). Qed.
Print Assumptions C15_tree_derives.

Theorem C15_leftmost_checker : forall (Vr : Type) (E : EqDec Vr) (G : cfg Vr) (f g : list (symb Vr)),
  lstep_b G f g = true -> lstep G f g.
Proof. exact (@lstep_b_sound). Qed.
Print Assumptions C15_leftmost_checker.

Theorem C15_rightmost_checker : forall (Vr : Type) (E : EqDec Vr) (G : cfg Vr) (f g : list (symb Vr)),
  rstep_b G f g = true -> rstep G f g.
Proof. exact (@rstep_b_sound). Qed.
Print Assumptions C15_rightmost_checker.

(* refusals are compared with exact membership *)
Theorem C15_member_oracle : forall (Vr : Type) (E : EqDec Vr) (G : cfg Vr) (w : list N),
  cfg_member G w = true <-> LangG G w.
Proof. exact (@cfg_member_spec). Qed.
Print Assumptions C15_member_oracle.
