(* C13 — CFG <-> PDA conversions. The acceptance oracles are exact w.r.t. the small-step semantics. *)
From Coq Require Import List NArith.
From PFL Require Import Base.ListSet Spec.Cfg Spec.Pda Oracle.PdaAccept Oracle.PdaAcceptSound Oracle.PdaAcceptFinal
  Proofs.PdaBigStep Oracle.CfgMember Oracle.CfgMemberSound.

Theorem C13_accepts_empty_oracle : forall (Q G : Type) (EQ : EqDec Q) (EG : EqDec G) (P : pda Q G) (w : list N),
  pda_accepts_empty P w = true <-> acc_empty P w.
Proof.
  intros Q G EQ EG P w. rewrite pda_accepts_empty_spec. unfold acc_empty. split.
  - intros [s [z [p [E1 [E2 D]]]]]. exists s, z, p. split; [exact E1|split; [exact E2|]]. now apply pop_small_step.
  - intros [s [z [q [E1 [E2 R]]]]]. exists s, z, q. split; [exact E1|split; [exact E2|]]. now apply pop_small_step.
Qed.
Print Assumptions C13_accepts_empty_oracle.

Theorem C13_accepts_final_oracle : forall (Q G : Type) (EQ : EqDec Q) (EG : EqDec G) (P : pda Q G) (w : list N),
  pda_accepts_final P w = true <-> acc_final P w.
Proof.
  intros Q G EQ EG P w. rewrite pda_accepts_final_spec. unfold acc_final. split.
  - intros [s [z [E1 [E2 D]]]]. apply fin_small_step in D. destruct D as [f [st [Hf R]]]. exists s, z, f, st. auto.
  - intros [s [z [f [st [E1 [E2 [Hf R]]]]]]]. exists s, z. split; [exact E1|split; [exact E2|]]. apply fin_small_step. eauto.
Qed.
Print Assumptions C13_accepts_final_oracle.

Theorem C13_member_oracle : forall (Vr : Type) (E : EqDec Vr) (G : cfg Vr) (w : list N),
  cfg_member G w = true <-> LangG G w.
Proof. exact (@cfg_member_spec). Qed.
Print Assumptions C13_member_oracle.

(* ---- the four conversions, for every grammar / automaton and every word ---- *)
From PFL Require Import Model.Cfg Model.Pda Proofs.PdaCfg Proofs.PdaWrap.

(* CFG.to_pda; the hypothesis is what CFG.__init__ establishes (body terminals are registered) *)
Theorem C13_cfg_to_pda : forall (Vr : Type) (Gm : cfg Vr),
  (forall A body a, In (A, body) (g_prods Gm) -> In (T a) body -> In a (g_terms Gm)) ->
  forall w, acc_empty (cfg_to_pda Gm) w <-> LangG Gm w.
Proof. exact (@cfg_to_pda_lang). Qed.
Print Assumptions C13_cfg_to_pda.

(* PDA.to_cfg (triples pruned by CFGVariableConverter's validity test); hypothesis: add_transition registers the target state *)
Theorem C13_pda_to_cfg : forall (Q G : Type) (EQ : EqDec Q) (EG : EqDec G) (P : pda Q G),
  (forall q l A r push, In (q, l, A, r, push) (p_delta P) -> In r (p_states P)) ->
  forall w, LangG (pda_to_cfg P) w <-> acc_empty P w.
Proof. exact (@pda_to_cfg_lang). Qed.
Print Assumptions C13_pda_to_cfg.

(* pda_wf: targets and the start state are registered states, the start stack symbol and pushed symbols registered stack symbols *)
Theorem C13_to_final_state : forall (Q G : Type) (P : pda Q G), pda_wf P ->
  forall w, acc_final (to_final_state P) w <-> acc_empty P w.
Proof. exact (@to_final_state_wf). Qed.
Print Assumptions C13_to_final_state.

Theorem C13_to_empty_stack : forall (Q G : Type) (P : pda Q G), pda_wf P ->
  forall w, acc_empty (to_empty_stack P) w <-> acc_final P w.
Proof. exact (@to_empty_stack_wf). Qed.
Print Assumptions C13_to_empty_stack.

(* CFG.to_pda().to_cfg(): the grammar that comes back generates the language of the original *)
From PFL Require Import Proofs.PdaRoundTrip.
Theorem C13_cfg_pda_cfg_round_trip : forall (Vr : Type) (E : EqDec Vr) (Gm : cfg Vr),
  (forall A body a, In (A, body) (g_prods Gm) -> In (T a) body -> In a (g_terms Gm)) ->
  forall w, LangG (pda_to_cfg (cfg_to_pda Gm)) w <-> LangG Gm w.
Proof. exact (@cfg_pda_cfg). Qed.
Print Assumptions C13_cfg_pda_cfg_round_trip.
