(* C13 — CFG <-> PDA conversions. The acceptance oracles are exact w.r.t. the small-step semantics. *)
From Coq Require Import List NArith.
From PFL Require Import Base.ListSet Spec.Cfg Spec.Pda Oracle.PdaAccept Oracle.PdaAcceptSound Oracle.PdaAcceptFinal
  Proofs.PdaBigStep Oracle.CfgMember Oracle.CfgMemberSound.

Theorem C13_accepts_empty_oracle : forall (Q G : Type) (EQ : EqDec Q) (EG : EqDec G) (P : pda Q G) (w : list N),
  pda_accepts_empty P w = true <-> acc_empty P w.
Proof.
  intros Q G EQ EG P w. rewrite pda_accepts_empty_spec. unfold acc_empty. split.
  - intros [s [z [p [E1 [E2 D]]]]]. exists s, z, p. split; [exact E1|split; [exact E2|]]. now apply pop_small_step.
  - intros [s [z [q [E1 [E2 R]]]]]. exists s, z, q. split; [exact E1|split; [exact E2|]]. now apply pop_small_step.
Qed.
Print Assumptions C13_accepts_empty_oracle.

Theorem C13_accepts_final_oracle : forall (Q G : Type) (EQ : EqDec Q) (EG : EqDec G) (P : pda Q G) (w : list N),
  pda_accepts_final P w = true <-> acc_final P w.
Proof.
  intros Q G EQ EG P w. rewrite pda_accepts_final_spec. unfold acc_final. split.
  - intros [s [z [E1 [E2 D]]]]. apply fin_small_step in D. destruct D as [f [st [Hf R]]]. exists s, z, f, st. auto.
  - intros [s [z [f [st [E1 [E2 [Hf R]]]]]]]. exists s, z. split; [exact E1|split; [exact E2|]]. apply fin_small_step. eauto.
Qed.
Print Assumptions C13_accepts_final_oracle.

Theorem C13_member_oracle : forall (Vr : Type) (E : EqDec Vr) (G : cfg Vr) (w : list N),
  cfg_member G w = true <-> LangG G w.
Proof. exact (@cfg_member_spec). Qed.
Print Assumptions C13_member_oracle.
