(* C19 — value semantics of memoising objects: whatever the history of queries, each answer is the pure function of the object. *)
From Coq Require Import List.
From PFL Require Import Model.Cache.

Theorem C19_cache_transparent : forall (Obj Op Ans : Type) (pure : Obj -> Op -> Ans) (op_eqb : Op -> Op -> bool),
  (forall a b, op_eqb a b = true -> a = b) ->
  forall (x : Obj) (ops : list Op), run Obj Op Ans pure op_eqb x nil ops = map (pure x) ops.
Proof.
  intros Obj Op Ans pure op_eqb H x ops. apply (cache_transparent Obj Op Ans pure op_eqb H x ops nil).
  intros o a E. discriminate.
Qed.
Print Assumptions C19_cache_transparent.
