(* Reference semantics of indexed grammars in (Aho's) reduced form (the part to be believed).
   Nonterminals, indices and terminals are N. A sentential form is a list of terminals and of nonterminals
   carrying an index stack (head = top). *)
From Coq Require Import List NArith.
Import ListNotations.

Inductive irule :=
| REnd (A : N) (a : option N)          (* A[σ] -> a        (None = the empty word), the stack is dropped *)
| RProd (A B f : N)                    (* A[σ] -> B[fσ] *)
| RCons (f A B : N)                    (* A[fσ] -> B[σ] *)
| RDup (A B C : N).                    (* A[σ] -> B[σ] C[σ] *)

Inductive isym := IT (a : N) | INT (A : N) (stack : list N).

Inductive istep (R : list irule) : list isym -> list isym -> Prop :=
| is_end pre A a s post : In (REnd A a) R ->
    istep R (pre ++ INT A s :: post) (pre ++ match a with Some x => [IT x] | None => [] end ++ post)
| is_prod pre A B f s post : In (RProd A B f) R -> istep R (pre ++ INT A s :: post) (pre ++ INT B (f :: s) :: post)
| is_cons pre f A B s post : In (RCons f A B) R -> istep R (pre ++ INT A (f :: s) :: post) (pre ++ INT B s :: post)
| is_dup pre A B C s post : In (RDup A B C) R -> istep R (pre ++ INT A s :: post) (pre ++ INT B s :: INT C s :: post).
Inductive isteps (R : list irule) : list isym -> list isym -> Prop :=
| iss_refl f : isteps R f f
| iss_step f g h : istep R f g -> isteps R g h -> isteps R f h.

Definition ig_nonempty (R : list irule) (S : N) : Prop :=
  exists w, isteps R [INT S []] (map IT w).
