(* Reference semantics of finite-state transducers (the part to be believed). Input and output symbols are N. *)
From Coq Require Import List NArith.
Import ListNotations.

Record fst (Q : Type) := mkF {
  f_delta  : list (Q * option N * Q * list N);    (* (source, input label or None = epsilon, target, output) *)
  f_starts : list Q;
  f_finals : list Q }.
Arguments mkF {Q}. Arguments f_delta {Q}. Arguments f_starts {Q}. Arguments f_finals {Q}.

Inductive frun {Q} (F : fst Q) : Q -> list N -> list N -> Q -> Prop :=
| fr_nil q : frun F q [] [] q
| fr_eps q q' o w o' r : In (q, None, q', o) (f_delta F) -> frun F q' w o' r -> frun F q w (o ++ o') r
| fr_sym q a q' o w o' r : In (q, Some a, q', o) (f_delta F) -> frun F q' w o' r -> frun F q (a :: w) (o ++ o') r.

Definition Rel {Q} (F : fst Q) (w o : list N) : Prop :=
  exists s f, In s (f_starts F) /\ In f (f_finals F) /\ frun F s w o f.
