(* Reference semantics of pushdown automata (the part to be believed).
   States Q and stack symbols G are arbitrary types; input symbols are N. A transition
   (q, l, A, r, push) reads l (None = epsilon) with A on top, goes to r and replaces A by [push]
   (head of [push] = new top). *)
From Coq Require Import List NArith.
Import ListNotations.

Section P.
  Context {Q G : Type}.

  Record pda := mkP {
    p_states : list Q;
    p_stack  : list G;
    p_delta  : list (Q * option N * G * Q * list G);
    p_start  : option Q;
    p_z0     : option G;
    p_finals : list Q }.

  Definition conf := (Q * list N * list G)%type.

  Inductive pstep (P : pda) : conf -> conf -> Prop :=
  | ps_eps q A p push w rest : In (q, None, A, p, push) (p_delta P) ->
      pstep P (q, w, A :: rest) (p, w, push ++ rest)
  | ps_sym q a A p push w rest : In (q, Some a, A, p, push) (p_delta P) ->
      pstep P (q, a :: w, A :: rest) (p, w, push ++ rest).
  Inductive pstar (P : pda) : conf -> conf -> Prop :=
  | pstar_refl c : pstar P c c
  | pstar_step c d e : pstep P c d -> pstar P d e -> pstar P c e.

  Definition acc_empty (P : pda) (w : list N) : Prop :=
    exists s z q, p_start P = Some s /\ p_z0 P = Some z /\ pstar P (s, w, [z]) (q, [], []).
  Definition acc_final (P : pda) (w : list N) : Prop :=
    exists s z f st, p_start P = Some s /\ p_z0 P = Some z /\ In f (p_finals P) /\ pstar P (s, w, [z]) (f, [], st).

  (* big-step presentation: [Pop q A u p] = from state q with A on top, reading exactly u, the automaton can
     remove A (and everything pushed meanwhile) and end in state p; equivalent to the small-step relation
     (Proofs/PdaBigStep.v) *)
  Definition olab (l : option N) : list N := match l with Some a => [a] | None => [] end.
  Inductive Pop (P : pda) : Q -> G -> list N -> Q -> Prop :=
  | pop_intro q l A r push u p : In (q, l, A, r, push) (p_delta P) -> PopL P r push u p -> Pop P q A (olab l ++ u) p
  with PopL (P : pda) : Q -> list G -> list N -> Q -> Prop :=
  | popl_nil r : PopL P r [] [] r
  | popl_cons r B push u1 r1 u2 p : Pop P r B u1 r1 -> PopL P r1 push u2 p -> PopL P r (B :: push) (u1 ++ u2) p.

  (* [Fin q A u]: from state q with A on top (anything below), reading exactly u, a final state is reached *)
  Inductive Fin (P : pda) : Q -> G -> list N -> Prop :=
  | fin_here q A : In q (p_finals P) -> Fin P q A []
  | fin_step q l A r push u : In (q, l, A, r, push) (p_delta P) -> FinL P r push u -> Fin P q A (olab l ++ u)
  with FinL (P : pda) : Q -> list G -> list N -> Prop :=
  | finl_done r push : In r (p_finals P) -> FinL P r push []
  | finl_here r B push u : Fin P r B u -> FinL P r (B :: push) u
  | finl_skip r B push u1 r1 u2 : Pop P r B u1 r1 -> FinL P r1 push u2 -> FinL P r (B :: push) (u1 ++ u2).
End P.
Arguments pda : clear implicits.
Arguments conf : clear implicits.

Scheme Pop_ind2 := Induction for Pop Sort Prop with PopL_ind2 := Induction for PopL Sort Prop.
Combined Scheme Pop_mutind from Pop_ind2, PopL_ind2.
Scheme Fin_ind2 := Induction for Fin Sort Prop with FinL_ind2 := Induction for FinL Sort Prop.
Combined Scheme Fin_mutind from Fin_ind2, FinL_ind2.
