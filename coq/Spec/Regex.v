(* Regular expressions and their denotation (the part to be believed). Symbols are N.
   REmpty is pyformlang's Regex("") (the empty language), REps is epsilon / $. *)
From Coq Require Import List NArith.
Import ListNotations.

Inductive re : Type :=
| REmpty | REps | RSym (a : N) | RCat (r s : re) | RAlt (r s : re) | RStar (r : re).

Inductive den : re -> list N -> Prop :=
| d_eps : den REps []
| d_sym a : den (RSym a) [a]
| d_cat r s u v : den r u -> den s v -> den (RCat r s) (u ++ v)
| d_altl r s u : den r u -> den (RAlt r s) u
| d_altr r s u : den s u -> den (RAlt r s) u
| d_star0 r : den (RStar r) []
| d_star1 r u v : den r u -> den (RStar r) v -> den (RStar r) (u ++ v).
