(* Reference semantics of finite automata with epsilon moves (the part to be believed).
   States are of an arbitrary type Q (N for automata read from pyformlang, lists / pairs for the
   results of the subset and product constructions); symbols are N. *)
From Coq Require Import List NArith.
Import ListNotations.

Record enfa (Q : Type) := mkE {
  e_states : list Q;                       (* .states *)
  e_syms   : list N;                       (* .symbols (the alphabet) *)
  e_delta  : list (Q * option N * Q);      (* (source, label, target); None = epsilon *)
  e_starts : list Q;
  e_finals : list Q }.
Arguments mkE {Q}. Arguments e_states {Q}. Arguments e_syms {Q}. Arguments e_delta {Q}.
Arguments e_starts {Q}. Arguments e_finals {Q}.

Inductive run {Q} (A : enfa Q) : Q -> list N -> Q -> Prop :=
| run_nil q : run A q [] q
| run_eps q q' w r : In (q, None, q') (e_delta A) -> run A q' w r -> run A q w r
| run_sym q a q' w r : In (q, Some a, q') (e_delta A) -> run A q' w r -> run A q (a :: w) r.

Definition Lang {Q} (A : enfa Q) (w : list N) : Prop :=
  exists s f, In s (e_starts A) /\ In f (e_finals A) /\ run A s w f.

Definition eps_free {Q} (A : enfa Q) : Prop := forall p q, ~ In (p, None, q) (e_delta A).
Definition functional {Q} (A : enfa Q) : Prop :=
  forall p a q q', In (p, Some a, q) (e_delta A) -> In (p, Some a, q') (e_delta A) -> q = q'.
Definition one_start {Q} (A : enfa Q) : Prop :=
  forall s s', In s (e_starts A) -> In s' (e_starts A) -> s = s'.
Definition is_dfa {Q} (A : enfa Q) : Prop := eps_free A /\ functional A /\ one_start A.
Definition lang_eq {Q1 Q2} (A : enfa Q1) (B : enfa Q2) : Prop := forall w, Lang A w <-> Lang B w.

(* well-formedness as delivered by the public API: every endpoint is a state, every label a symbol *)
Definition wf {Q} (A : enfa Q) : Prop :=
  (forall p l q, In (p, l, q) (e_delta A) -> In p (e_states A) /\ In q (e_states A)) /\
  (forall p a q, In (p, Some a, q) (e_delta A) -> In a (e_syms A)) /\
  incl (e_starts A) (e_states A) /\ incl (e_finals A) (e_states A).
