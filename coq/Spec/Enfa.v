(* Reference semantics of finite automata with epsilon moves (the part to be believed). *)
From Coq Require Import List NArith.
Import ListNotations.

Record enfa := mkE {
  e_states : list N;                       (* .states *)
  e_syms   : list N;                       (* .symbols (the alphabet) *)
  e_delta  : list (N * option N * N);      (* (source, label, target); None = epsilon *)
  e_starts : list N;
  e_finals : list N }.

Inductive run (A : enfa) : N -> list N -> N -> Prop :=
| run_nil q : run A q [] q
| run_eps q q' w r : In (q, None, q') (e_delta A) -> run A q' w r -> run A q w r
| run_sym q a q' w r : In (q, Some a, q') (e_delta A) -> run A q' w r -> run A q (a :: w) r.

Definition Lang (A : enfa) (w : list N) : Prop :=
  exists s f, In s (e_starts A) /\ In f (e_finals A) /\ run A s w f.

Definition eps_free (A : enfa) : Prop := forall p q, ~ In (p, None, q) (e_delta A).
Definition functional (A : enfa) : Prop :=
  forall p a q q', In (p, Some a, q) (e_delta A) -> In (p, Some a, q') (e_delta A) -> q = q'.
Definition is_dfa (A : enfa) : Prop :=
  eps_free A /\ functional A /\ (forall s s', In s (e_starts A) -> In s' (e_starts A) -> s = s').
Definition lang_eq (A B : enfa) : Prop := forall w, Lang A w <-> Lang B w.
