(* Reference semantics of context-free grammars (the part to be believed).
   Variables are of an arbitrary type Vr (N for grammars read from pyformlang, structured types for the fresh
   variables the constructions introduce); terminals are N. *)
From Coq Require Import List NArith.
Import ListNotations.

Section G.
  Context {Vr : Type}.

  Inductive symb := V (x : Vr) | T (a : N).

  Record cfg := mkG {
    g_vars  : list Vr;                      (* .variables *)
    g_terms : list N;                       (* .terminals *)
    g_start : option Vr;                    (* .start_symbol (None when absent) *)
    g_prods : list (Vr * list symb) }.      (* (head, body) *)

  (* big-step, tree-shaped derivability of a terminal word *)
  Inductive derives (G : cfg) : symb -> list N -> Prop :=
  | dv_ter a : derives G (T a) [a]
  | dv_var A body w : In (A, body) (g_prods G) -> derives_list G body w -> derives G (V A) w
  with derives_list (G : cfg) : list symb -> list N -> Prop :=
  | dl_nil : derives_list G [] []
  | dl_cons X rest u v : derives G X u -> derives_list G rest v -> derives_list G (X :: rest) (u ++ v).

  Definition LangG (G : cfg) (w : list N) : Prop :=
    match g_start G with Some s => derives G (V s) w | None => False end.

  (* one-step rewriting of sentential forms, and the symbols occurring in forms derivable from the start symbol *)
  Inductive step (G : cfg) : list symb -> list symb -> Prop :=
  | step_intro pre A body post : In (A, body) (g_prods G) -> step G (pre ++ V A :: post) (pre ++ body ++ post).
  Inductive steps (G : cfg) : list symb -> list symb -> Prop :=
  | steps_refl f : steps G f f
  | steps_trans f g h : step G f g -> steps G g h -> steps G f h.
  Inductive lstep (G : cfg) : list symb -> list symb -> Prop :=       (* leftmost *)
  | lstep_intro pre A body post : In (A, body) (g_prods G) ->
      lstep G (map T pre ++ V A :: post) (map T pre ++ body ++ post).
  Inductive rstep (G : cfg) : list symb -> list symb -> Prop :=       (* rightmost *)
  | rstep_intro pre A body post : In (A, body) (g_prods G) ->
      rstep G (pre ++ V A :: map T post) (pre ++ body ++ map T post).

  (* parse trees *)
  Inductive tree := Node (s : symb) (sons : list tree).
  Definition root (t : tree) : symb := match t with Node s _ => s end.
  Fixpoint yield (t : tree) : list N :=
    match t with
    | Node (T a) [] => [a]
    | Node _ sons => flat_map yield sons
    end.
  Inductive valid_tree (G : cfg) : tree -> Prop :=
  | vt_leaf a : valid_tree G (Node (T a) [])
  | vt_node A sons : In (A, map root sons) (g_prods G) -> Forall (valid_tree G) sons ->
                     valid_tree G (Node (V A) sons).

  (* FOLLOW by its three textbook rules over true derivations; None is the end marker *)
  Inductive Follows (G : cfg) : Vr -> option N -> Prop :=
  | fo_start s : g_start G = Some s -> Follows G s None
  | fo_first A pre B post a v : In (A, pre ++ V B :: post) (g_prods G) -> derives_list G post (a :: v) -> Follows G B (Some a)
  | fo_nullable A pre B post l : In (A, pre ++ V B :: post) (g_prods G) -> derives_list G post [] -> Follows G A l -> Follows G B l.
End G.
Arguments symb : clear implicits.
Arguments cfg : clear implicits.
Arguments tree : clear implicits.

Scheme derives_ind2 := Induction for derives Sort Prop
  with derives_list_ind2 := Induction for derives_list Sort Prop.
Combined Scheme derives_mutind from derives_ind2, derives_list_ind2.
