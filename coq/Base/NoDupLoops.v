(* The outputs of the worklist closure and of the saturation loop are duplicate-free (needed where the code compares lengths). *)
From Coq Require Import List Bool Arith Lia Permutation.
From PFL Require Import Base.Loop Base.ListSet Base.Closure Base.Saturate.
Import ListNotations.

Section C.
  Context {A : Type} `{EqDec A}.
  Variable succ : A -> list A.
  Lemma push_new_nodup cands : forall todo seen todo' seen',
    push_new cands todo seen = (todo', seen') -> NoDup seen -> NoDup seen'.
  Proof.
    induction cands as [|c cs IH]; cbn [push_new]; intros todo seen todo' seen' E ND.
    - now inversion E; subst.
    - destruct (mem c seen) eqn:M; [eapply IH; eauto|]. apply mem_nIn in M. eapply IH; [exact E|]. now constructor.
  Qed.
  Lemma close_from_nodup n init r : close_from succ n init = Some r -> NoDup r.
  Proof.
    unfold close_from. intros E.
    assert (Step : forall s, NoDup (snd s) -> match close_step succ s with inl s' => NoDup (snd s') | inr r0 => NoDup r0 end).
    { intros [todo seen] Hs. unfold close_step. cbn [fst snd] in *. destruct todo as [|x rest]; [exact Hs|].
      destruct (push_new (succ x) rest seen) as [todo' seen'] eqn:E'. cbn [snd]. eapply push_new_nodup; eauto. }
    pose proof (loop_inv _ _ (close_step succ) (fun s => NoDup (snd s)) (fun r => NoDup r) Step n (dedup init, dedup init) (dedup_NoDup init)) as L.
    destruct (loop (close_step succ) n (dedup init, dedup init)) as [|r0]; [discriminate|]. inversion E; subst. exact L.
  Qed.
  Lemma closure_nodup U init : NoDup (closure succ U init).
  Proof. unfold closure. destruct (close_from succ (length U + 2) init) as [r|] eqn:E; [now apply close_from_nodup in E|constructor]. Qed.
End C.

Section S.
  Context {A : Type} `{EqDec A}.
  Variable cands : list A.
  Variable ok : list A -> A -> bool.
  Hypothesis Hnd : NoDup cands.

  Lemma NoDup_app_l (l1 l2 : list A) : NoDup (l1 ++ l2) -> NoDup l1.
  Proof. induction l2 as [|x l2 IH]; [now rewrite app_nil_r|]. intros ND. apply IH. now apply NoDup_remove_1 in ND. Qed.
  Lemma partition_perm (f : A -> bool) l : Permutation l (fst (partition f l) ++ snd (partition f l)).
  Proof.
    induction l as [|y r IH]; cbn [partition]; [constructor|]. destruct (partition f r) as [g d]. cbn [fst snd] in *.
    destruct (f y); cbn [fst snd app]; [now constructor|]. eapply perm_trans; [apply perm_skip; exact IH|]. apply Permutation_middle.
  Qed.

  Lemma saturate_fuel_nodup n R : saturate_fuel cands ok n = Some R -> NoDup R.
  Proof.
    unfold saturate_fuel. intros E.
    assert (Step : forall st, NoDup (fst st ++ snd st) -> match sat_step ok st with inl st' => NoDup (fst st' ++ snd st') | inr r => NoDup r end).
    { intros [S pend] ND. unfold sat_step. cbn [fst snd] in *. pose proof (partition_perm (ok S) pend) as PP.
      destruct (partition (ok S) pend) as [new rest]. cbn [fst snd] in *. destruct new as [|c0 new].
      - now apply NoDup_app_l in ND.
      - apply (Permutation_NoDup (l := S ++ pend)); [|exact ND].
        eapply perm_trans; [apply Permutation_app_head; exact PP|]. rewrite app_assoc. apply Permutation_app_tail. apply Permutation_app_comm. }
    pose proof (loop_inv _ _ (sat_step ok) (fun st => NoDup (fst st ++ snd st)) (fun r => NoDup r) Step n ([], cands) Hnd) as L.
    destruct (loop (sat_step ok) n ([], cands)) as [|r]; [discriminate|]. inversion E; subst. exact L.
  Qed.
  Lemma saturate_nodup : NoDup (saturate cands ok).
  Proof. unfold saturate. destruct (saturate_fuel cands ok (length cands + 1)) as [R|] eqn:E; [now apply saturate_fuel_nodup in E|constructor]. Qed.
End S.
