(* Generic saturation (least fixed point by rounds: each round adds every admissible candidate) inside a finite universe.
   [ok S c] says that candidate [c] may be added given the current set [S]; it must be monotone in S.
   Used for generating / nullable symbols, charts, FIRST / FOLLOW, markings. *)
From Coq Require Import List Bool Arith Lia.
From PFL Require Import Base.Loop Base.ListSet.
Import ListNotations.

Section Sat.
  Context {A : Type} `{EqDec A}.
  Variable cands : list A.
  Variable ok : list A -> A -> bool.
  Hypothesis ok_mono : forall S S' c, incl S S' -> ok S c = true -> ok S' c = true.

  (* one round adds every candidate that is currently admissible *)
  Definition sat_step (S : list A) : list A + list A :=
    match filter (fun c => negb (mem c S) &&& ok S c) cands with
    | [] => inr S
    | new => inl (new ++ S)
    end.

  Definition saturate_fuel (n : nat) : option (list A) :=
    match loop sat_step n [] with inr r => Some r | inl _ => None end.

  (* invariant: everything in S was added legitimately *)
  Inductive Gen : A -> Prop :=
  | gen_intro S c : (forall x, In x S -> Gen x) -> In c cands -> ok S c = true -> Gen c.

  Lemma sat_step_inv S : (forall x, In x S -> Gen x) ->
    match sat_step S with
    | inl S' => forall x, In x S' -> Gen x
    | inr R => (forall x, In x R -> Gen x) /\ (forall c, In c cands -> ok R c = true -> In c R)
    end.
  Proof.
    intros I. unfold sat_step. destruct (filter _ cands) as [|c0 new] eqn:F.
    - split; [exact I|]. intros c Hc Ho. destruct (mem c S) eqn:M; [now apply mem_In|]. exfalso.
      assert (X : In c (filter (fun c => negb (mem c S) &&& ok S c) cands)) by (apply filter_In; rewrite M, Ho; auto).
      rewrite F in X. destruct X.
    - intros x Hx. apply in_app_iff in Hx. destruct Hx as [Hx|Hx]; [|now apply I].
      rewrite <- F in Hx. apply filter_In in Hx. destruct Hx as [Hc E]. apply land_true_iff in E. destruct E as [_ E].
      now apply gen_intro with S.
  Qed.

  Lemma saturate_fuel_spec n R : saturate_fuel n = Some R ->
    (forall x, In x R -> Gen x) /\ (forall c, In c cands -> ok R c = true -> In c R).
  Proof.
    unfold saturate_fuel. intros E.
    pose proof (loop_inv _ _ sat_step (fun S => forall x, In x S -> Gen x)
                  (fun R => (forall x, In x R -> Gen x) /\ (forall c, In c cands -> ok R c = true -> In c R))
                  sat_step_inv n [] (fun x (F : In x []) => match F with end)) as L.
    destruct (loop sat_step n []) as [|r]; [discriminate|]. inversion E; subst. exact L.
  Qed.

  Lemma unseen_app_le (l S : list A) : unseen cands (l ++ S) <= unseen cands S.
  Proof.
    induction l as [|x l IH]; cbn [app]; [lia|]. pose proof (unseen_add_le cands (l ++ S) x). lia.
  Qed.
  Lemma unseen_app_lt (l S : list A) c : In c l -> In c cands -> mem c S = false ->
    unseen cands (l ++ S) < unseen cands S.
  Proof.
    induction l as [|x l IH]; intros Hl Hc M; [destruct Hl|]. cbn [app].
    destruct (mem c l) eqn:Ml.
    - apply mem_In in Ml. pose proof (IH Ml Hc M). pose proof (unseen_add_le cands (l ++ S) x). lia.
    - destruct Hl as [->|Hl]; [|apply mem_In in Hl; congruence].
      assert (M2 : mem c (l ++ S) = false).
      { apply mem_nIn. intros X. apply in_app_iff in X. destruct X as [X|X]; apply mem_In in X; congruence. }
      pose proof (unseen_add_lt cands (l ++ S) c Hc M2). pose proof (unseen_app_le l S). lia.
  Qed.

  Lemma sat_step_progress S : incl S cands ->
    match sat_step S with inl S' => incl S' cands /\ unseen cands S' < unseen cands S | inr _ => True end.
  Proof.
    intros I. unfold sat_step. destruct (filter _ cands) as [|c0 new] eqn:F; [exact Logic.I|].
    assert (X : In c0 (filter (fun c => negb (mem c S) &&& ok S c) cands)) by (rewrite F; now left).
    apply filter_In in X. destruct X as [Hc E]. apply land_true_iff in E. destruct E as [E _]. apply negb_true_iff in E.
    split.
    - intros x Hx. apply in_app_iff in Hx. destruct Hx as [Hx|Hx]; [|now apply I].
      rewrite <- F in Hx. apply filter_In in Hx. tauto.
    - apply unseen_app_lt with c0; [now left|exact Hc|exact E].
  Qed.

  Lemma saturate_terminates : exists R, saturate_fuel (length cands + 1) = Some R.
  Proof.
    unfold saturate_fuel.
    destruct (loop_terminates _ _ sat_step (unseen cands) (fun S => incl S cands) sat_step_progress
                (length cands + 1) []) as [r Hr].
    - intros x [].
    - pose proof (unseen_le cands []). assert (length cands < 2 ^ length cands) by (clear; induction (length cands); cbn [Nat.pow]; lia).
      replace (length cands + 1) with (S (length cands)) by lia. cbn [Nat.pow]. lia.
    - exists r. now rewrite Hr.
  Qed.

  Definition saturate : list A := match saturate_fuel (length cands + 1) with Some R => R | None => [] end.

  Theorem saturate_sound x : In x saturate -> Gen x.
  Proof. unfold saturate. destruct saturate_terminates as [R E]. rewrite E. apply (saturate_fuel_spec _ _ E). Qed.
  Theorem saturate_closed c : In c cands -> ok saturate c = true -> In c saturate.
  Proof. unfold saturate. destruct saturate_terminates as [R E]. rewrite E. apply (saturate_fuel_spec _ _ E). Qed.

  (* Gen is the least predicate closed under the rule, and saturate contains every Gen element *)
  Theorem Gen_least (P : A -> Prop) :
    (forall S c, (forall x, In x S -> P x) -> In c cands -> ok S c = true -> P c) -> forall x, Gen x -> P x.
  Proof. intros HP x G. induction G as [S c _ IH Hc Ho]. eapply HP; eauto. Qed.

  Theorem saturate_complete x : Gen x -> In x saturate.
  Proof.
    induction 1 as [S c _ IH Hc Ho]. apply saturate_closed; [exact Hc|].
    apply ok_mono with S; [exact IH|exact Ho].
  Qed.

  Corollary saturate_spec x : In x saturate <-> Gen x.
  Proof. split; [apply saturate_sound|apply saturate_complete]. Qed.
End Sat.
