(* Generic saturation (least fixed point by rounds: each round adds every admissible candidate) inside a finite universe.
   [ok S c] says that candidate [c] may be added given the current set [S]; it must be monotone in S.
   Used for generating / nullable symbols, charts, FIRST / FOLLOW, markings. *)
From Coq Require Import List Bool Arith Lia.
From PFL Require Import Base.Loop Base.ListSet.
Import ListNotations.

Section Sat.
  Context {A : Type} `{EqDec A}.
  Variable cands : list A.
  Variable ok : list A -> A -> bool.
  Hypothesis ok_mono : forall S S' c, incl S S' -> ok S c = true -> ok S' c = true.

  (* one round adds every pending candidate that is currently admissible; state = (set so far, pending candidates) *)
  Definition sat_step (st : list A * list A) : (list A * list A) + list A :=
    match partition (ok (fst st)) (snd st) with
    | ([], _) => inr (fst st)
    | (new, rest) => inl (new ++ fst st, rest)
    end.

  Definition saturate_fuel (n : nat) : option (list A) :=
    match loop sat_step n ([], cands) with inr r => Some r | inl _ => None end.

  (* invariant: everything in S was added legitimately *)
  Inductive Gen : A -> Prop :=
  | gen_intro S c : (forall x, In x S -> Gen x) -> In c cands -> ok S c = true -> Gen c.

  Definition sat_inv (st : list A * list A) : Prop :=
    (forall x, In x (fst st) -> Gen x) /\ (forall c, In c cands -> In c (fst st) \/ In c (snd st)) /\ incl (snd st) cands.

  Lemma partition_In (f : A -> bool) l x : In x l <-> In x (fst (partition f l)) \/ In x (snd (partition f l)).
  Proof.
    induction l as [|y r IH]; cbn [partition]; [cbn; tauto|]. destruct (partition f r) as [g d]. cbn [fst snd] in *.
    destruct (f y); cbn [fst snd In]; rewrite IH; tauto.
  Qed.
  Lemma partition_fst (f : A -> bool) l x : In x (fst (partition f l)) -> In x l /\ f x = true.
  Proof.
    induction l as [|y r IH]; cbn [partition]; [cbn; tauto|]. destruct (partition f r) as [g d]. cbn [fst snd] in *.
    destruct (f y) eqn:E; cbn [fst In]; [intros [<-|Hx]; [auto|]|intros Hx]; destruct (IH Hx); auto.
  Qed.
  Lemma partition_snd (f : A -> bool) l x : In x (snd (partition f l)) -> In x l /\ f x = false.
  Proof.
    induction l as [|y r IH]; cbn [partition]; [cbn; tauto|]. destruct (partition f r) as [g d]. cbn [fst snd] in *.
    destruct (f y) eqn:E; cbn [snd In]; [intros Hx|intros [<-|Hx]; [auto|]]; destruct (IH Hx); auto.
  Qed.
  Lemma partition_len (f : A -> bool) l : length (fst (partition f l)) + length (snd (partition f l)) = length l.
  Proof.
    induction l as [|y r IH]; cbn [partition]; [reflexivity|]. destruct (partition f r) as [g d]. cbn [fst snd] in *.
    destruct (f y); cbn [fst snd length]; lia.
  Qed.

  Lemma sat_step_inv st : sat_inv st ->
    match sat_step st with
    | inl st' => sat_inv st'
    | inr R => (forall x, In x R -> Gen x) /\ (forall c, In c cands -> ok R c = true -> In c R)
    end.
  Proof.
    destruct st as [S pend]. intros (I1 & I2 & I3). unfold sat_step. cbn [fst snd] in *.
    pose proof (partition_fst (ok S) pend) as PF. pose proof (partition_snd (ok S) pend) as PS.
    pose proof (partition_In (ok S) pend) as PI.
    destruct (partition (ok S) pend) as [new rest]. cbn [fst snd] in *. destruct new as [|c0 new].
    - split; [exact I1|]. intros c Hc Ho. destruct (I2 c Hc) as [X|X]; [exact X|].
      apply PI in X. destruct X as [[]|X]. destruct (PS _ X). congruence.
    - repeat split; cbn [fst snd].
      + intros x Hx. apply in_app_iff in Hx. destruct Hx as [Hx|Hx]; [|now apply I1].
        destruct (PF _ Hx) as [Hp Ho]. apply gen_intro with S; auto.
      + intros c Hc. destruct (I2 c Hc) as [X|X]; [left; apply in_or_app; now right|].
        apply PI in X. destruct X as [X|X]; [left; apply in_or_app; now left|now right].
      + intros x Hx. apply I3. now destruct (PS _ Hx).
  Qed.

  Lemma sat_inv_init : sat_inv ([], cands).
  Proof. repeat split; cbn [fst snd]; [intros x []|intros c Hc; now right|apply incl_refl]. Qed.

  Lemma saturate_fuel_spec n R : saturate_fuel n = Some R ->
    (forall x, In x R -> Gen x) /\ (forall c, In c cands -> ok R c = true -> In c R).
  Proof.
    unfold saturate_fuel. intros E.
    pose proof (loop_inv _ _ sat_step sat_inv
                  (fun R => (forall x, In x R -> Gen x) /\ (forall c, In c cands -> ok R c = true -> In c R))
                  sat_step_inv n _ sat_inv_init) as L.
    destruct (loop sat_step n ([], cands)) as [|r]; [discriminate|]. inversion E; subst. exact L.
  Qed.

  Lemma sat_step_progress st : True ->
    match sat_step st with inl st' => True /\ length (snd st') < length (snd st) | inr _ => True end.
  Proof.
    intros _. destruct st as [S pend]. unfold sat_step. cbn [fst snd].
    pose proof (partition_len (ok S) pend) as PL. destruct (partition (ok S) pend) as [new rest]. cbn [fst snd] in *.
    destruct new as [|c0 new]; [exact I|]. split; [exact I|]. cbn [snd length] in *. lia.
  Qed.

  Lemma saturate_terminates : exists R, saturate_fuel (length cands + 1) = Some R.
  Proof.
    unfold saturate_fuel.
    destruct (loop_terminates _ _ sat_step (fun st => length (snd st)) (fun _ => True) sat_step_progress
                (length cands + 1) ([], cands) I) as [r Hr].
    - cbn [snd]. assert (length cands < 2 ^ length cands) by (clear; induction (length cands); cbn [Nat.pow]; lia).
      replace (length cands + 1) with (S (length cands)) by lia. cbn [Nat.pow]. lia.
    - exists r. now rewrite Hr.
  Qed.

  Definition saturate : list A := match saturate_fuel (length cands + 1) with Some R => R | None => [] end.

  Theorem saturate_sound x : In x saturate -> Gen x.
  Proof. unfold saturate. destruct saturate_terminates as [R E]. rewrite E. apply (saturate_fuel_spec _ _ E). Qed.
  Theorem saturate_closed c : In c cands -> ok saturate c = true -> In c saturate.
  Proof. unfold saturate. destruct saturate_terminates as [R E]. rewrite E. apply (saturate_fuel_spec _ _ E). Qed.

  (* Gen is the least predicate closed under the rule, and saturate contains every Gen element *)
  Theorem Gen_least (P : A -> Prop) :
    (forall S c, (forall x, In x S -> P x) -> In c cands -> ok S c = true -> P c) -> forall x, Gen x -> P x.
  Proof. intros HP x G. induction G as [S c _ IH Hc Ho]. eapply HP; eauto. Qed.

  Theorem saturate_complete x : Gen x -> In x saturate.
  Proof.
    induction 1 as [S c _ IH Hc Ho]. apply saturate_closed; [exact Hc|].
    apply ok_mono with S; [exact IH|exact Ho].
  Qed.

  Corollary saturate_spec x : In x saturate <-> Gen x.
  Proof. split; [apply saturate_sound|apply saturate_complete]. Qed.
End Sat.
