(* Generic saturation (least fixed point by one-at-a-time chaotic iteration) inside a finite universe.
   [ok S c] says that candidate [c] may be added given the current set [S]; it must be monotone in S.
   Used for generating / nullable symbols, charts, FIRST / FOLLOW, markings. *)
From Coq Require Import List Bool Arith Lia.
From PFL Require Import Base.Loop Base.ListSet.
Import ListNotations.

Section Sat.
  Context {A : Type} `{EqDec A}.
  Variable cands : list A.
  Variable ok : list A -> A -> bool.
  Hypothesis ok_mono : forall S S' c, incl S S' -> ok S c = true -> ok S' c = true.

  Definition sat_step (S : list A) : list A + list A :=
    match find (fun c => negb (mem c S) && ok S c) cands with
    | Some c => inl (c :: S)
    | None => inr S
    end.

  Definition saturate_fuel (n : nat) : option (list A) :=
    match loop sat_step n [] with inr r => Some r | inl _ => None end.

  (* invariant: everything in S was added legitimately *)
  Inductive Gen : A -> Prop :=
  | gen_intro S c : (forall x, In x S -> Gen x) -> In c cands -> ok S c = true -> Gen c.

  Lemma sat_step_inv S : (forall x, In x S -> Gen x) ->
    match sat_step S with
    | inl S' => forall x, In x S' -> Gen x
    | inr R => (forall x, In x R -> Gen x) /\ (forall c, In c cands -> ok R c = true -> In c R)
    end.
  Proof.
    intros I. unfold sat_step. destruct (find _ cands) as [c|] eqn:F.
    - apply find_some in F. destruct F as [Hc F]. apply andb_true_iff in F. destruct F as [_ F].
      intros x [<-|Hx]; [|now apply I]. now apply gen_intro with S.
    - split; [exact I|]. intros c Hc Ho. pose proof (find_none _ _ F c Hc) as N. cbv beta in N.
      rewrite Ho, andb_true_r in N. apply negb_false_iff in N. now apply mem_In.
  Qed.

  Lemma saturate_fuel_spec n R : saturate_fuel n = Some R ->
    (forall x, In x R -> Gen x) /\ (forall c, In c cands -> ok R c = true -> In c R).
  Proof.
    unfold saturate_fuel. intros E.
    pose proof (loop_inv _ _ sat_step (fun S => forall x, In x S -> Gen x)
                  (fun R => (forall x, In x R -> Gen x) /\ (forall c, In c cands -> ok R c = true -> In c R))
                  sat_step_inv n [] (fun x (F : In x []) => match F with end)) as L.
    destruct (loop sat_step n []) as [|r]; [discriminate|]. inversion E; subst. exact L.
  Qed.

  Lemma sat_step_progress S : incl S cands ->
    match sat_step S with inl S' => incl S' cands /\ unseen cands S' < unseen cands S | inr _ => True end.
  Proof.
    intros I. unfold sat_step. destruct (find _ cands) as [c|] eqn:F; [|exact Logic.I].
    apply find_some in F. destruct F as [Hc F]. apply andb_true_iff in F. destruct F as [F _].
    apply negb_true_iff in F. split.
    - intros x [<-|Hx]; auto.
    - now apply unseen_add_lt.
  Qed.

  Lemma saturate_terminates : exists R, saturate_fuel (length cands + 1) = Some R.
  Proof.
    unfold saturate_fuel.
    destruct (loop_terminates _ _ sat_step (unseen cands) (fun S => incl S cands) sat_step_progress
                (length cands + 1) []) as [r Hr].
    - intros x [].
    - pose proof (unseen_le cands []). assert (length cands < 2 ^ length cands) by (clear; induction (length cands); cbn [Nat.pow]; lia).
      replace (length cands + 1) with (S (length cands)) by lia. cbn [Nat.pow]. lia.
    - exists r. now rewrite Hr.
  Qed.

  Definition saturate : list A := match saturate_fuel (length cands + 1) with Some R => R | None => [] end.

  Theorem saturate_sound x : In x saturate -> Gen x.
  Proof. unfold saturate. destruct saturate_terminates as [R E]. rewrite E. apply (saturate_fuel_spec _ _ E). Qed.
  Theorem saturate_closed c : In c cands -> ok saturate c = true -> In c saturate.
  Proof. unfold saturate. destruct saturate_terminates as [R E]. rewrite E. apply (saturate_fuel_spec _ _ E). Qed.

  (* Gen is the least predicate closed under the rule, and saturate contains every Gen element *)
  Theorem Gen_least (P : A -> Prop) :
    (forall S c, (forall x, In x S -> P x) -> In c cands -> ok S c = true -> P c) -> forall x, Gen x -> P x.
  Proof. intros HP x G. induction G as [S c _ IH Hc Ho]. eapply HP; eauto. Qed.

  Theorem saturate_complete x : Gen x -> In x saturate.
  Proof.
    induction 1 as [S c _ IH Hc Ho]. apply saturate_closed; [exact Hc|].
    apply ok_mono with S; [exact IH|exact Ho].
  Qed.

  Corollary saturate_spec x : In x saturate <-> Gen x.
  Proof. split; [apply saturate_sound|apply saturate_complete]. Qed.
End Sat.
