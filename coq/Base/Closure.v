(* Generic worklist closure: the shape of every reachability-style loop in pyformlang
   (eclose, is_empty, subset construction, products, unit pairs, ...). *)
From Coq Require Import List Bool Arith Lia.
From PFL Require Import Base.Loop Base.ListSet.
Import ListNotations.

Section Closure.
  Context {A : Type} `{EqDec A}.
  Variable succ : A -> list A.

  Fixpoint push_new (cands todo seen : list A) : list A * list A :=
    match cands with
    | [] => (todo, seen)
    | c :: cs => if mem c seen then push_new cs todo seen
                 else push_new cs (c :: todo) (c :: seen)
    end.

  Definition close_step (s : list A * list A) : (list A * list A) + list A :=
    match fst s with
    | [] => inr (snd s)
    | x :: rest => inl (push_new (succ x) rest (snd s))
    end.

  Definition close_from (n : nat) (init : list A) : option (list A) :=
    let i := dedup init in
    match loop close_step n (i, i) with inr r => Some r | inl _ => None end.

  Inductive reach (init : list A) : A -> Prop :=
  | reach_init x : In x init -> reach init x
  | reach_step x y : reach init x -> In y (succ x) -> reach init y.

  Definition inv (init : list A) (s : list A * list A) : Prop :=
    let '(todo, seen) := s in
    (forall x, In x init -> In x seen) /\ (forall x, In x todo -> In x seen) /\
    (forall x, In x seen -> reach init x) /\
    (forall x, In x seen -> ~ In x todo -> forall y, In y (succ x) -> In y seen).

  Lemma push_new_spec cands : forall todo seen todo' seen',
    push_new cands todo seen = (todo', seen') ->
    (forall x, In x seen' <-> In x seen \/ In x cands) /\
    (forall x, In x todo' <-> In x todo \/ (In x cands /\ ~ In x seen)).
  Proof.
    induction cands as [|c cs IH]; cbn [push_new]; intros todo seen todo' seen' E.
    - inversion E; subst. cbn. intuition.
    - destruct (mem c seen) eqn:M.
      + apply mem_In in M. destruct (IH _ _ _ _ E) as [I1 I2]. split; intro x.
        * rewrite I1. cbn. intuition (subst; auto).
        * rewrite I2. cbn. intuition (subst; tauto).
      + apply mem_nIn in M. destruct (IH _ _ _ _ E) as [I1 I2]. split; intro x.
        * rewrite I1. cbn. intuition.
        * rewrite I2. cbn [In]. split.
          -- intros [[->|Hx]|[Hx Hn]]; [right; split; [now left|exact M] | now left |].
             right. split; [now right|]. intro F. apply Hn. now right.
          -- intros [Hx|[[->|Hx] Hn]]; [left; now right | left; now left |].
             destruct (eqb_spec x c) as [->|Ne]; [left; now left|].
             right. split; [exact Hx|]. intros [F|F]; [congruence|tauto].
  Qed.

  Lemma close_step_inv init s : inv init s ->
    match close_step s with
    | inl s' => inv init s'
    | inr r => forall x, In x r <-> reach init x
    end.
  Proof.
    destruct s as [todo seen]. unfold close_step. cbn [fst snd]. intros (I1 & I2 & I3 & I4).
    destruct todo as [|x rest].
    - intro y. split; [apply I3|]. intro R. induction R as [y Hy|y z R IH Hz]; [auto|].
      apply (I4 y IH (fun F => F) z Hz).
    - destruct (push_new (succ x) rest seen) as [todo' seen'] eqn:E.
      destruct (push_new_spec _ _ _ _ _ E) as [S1 S2]. cbn [inv]. repeat split.
      + intros y Hy. apply S1. auto.
      + intros y Hy. apply S1. apply S2 in Hy. destruct Hy as [Hy|[Hy _]]; [left; apply I2; now right|now right].
      + intros y Hy. apply S1 in Hy. destruct Hy as [Hy|Hy]; [auto|].
        apply reach_step with x; auto. apply I3, I2. now left.
      + intros y Hy Hn z Hz. apply S1.
        destruct (eqb_spec y x) as [->|Ne]; [now right|].
        destruct (mem y seen) eqn:M.
        * apply mem_In in M. left. apply (I4 y M); auto.
          intros [F|F]; [congruence|]. apply Hn, S2. now left.
        * apply mem_nIn in M. exfalso. apply Hn, S2. right. split; [|exact M].
          apply S1 in Hy. tauto.
  Qed.

  Lemma inv_init init : inv init (dedup init, dedup init).
  Proof.
    cbn [inv]. repeat split.
    - intros x Hx. now apply dedup_In.
    - auto.
    - intros x Hx. apply reach_init. apply dedup_In. exact Hx.
    - intros x Hx Hn. contradiction.
  Qed.

  Theorem close_sound n init r :
    close_from n init = Some r -> forall x, In x r <-> reach init x.
  Proof.
    unfold close_from. intros E.
    pose proof (loop_inv _ _ close_step (inv init) (fun r => forall x, In x r <-> reach init x)
                  (close_step_inv init) n _ (inv_init init)) as L.
    destruct (loop close_step n (dedup init, dedup init)) as [s'|r']; [discriminate|].
    inversion E; subst. exact L.
  Qed.

  (* ---- termination inside a finite universe ---- *)
  Variable U : list A.
  Hypothesis U_closed : forall x, In x U -> incl (succ x) U.

  Definition mu (s : list A * list A) : nat := 2 * unseen U (snd s) + length (fst s).

  Lemma push_new_mu cands : forall todo seen todo' seen',
    incl cands U -> push_new cands todo seen = (todo', seen') ->
    (2 * unseen U seen' + length todo' <= 2 * unseen U seen + length todo) /\ (incl todo U -> incl todo' U).
  Proof.
    induction cands as [|c cs IH]; cbn [push_new]; intros todo seen todo' seen' HU E.
    - inversion E; subst. split; [lia|auto].
    - assert (HU' : incl cs U) by (intros z Hz; apply HU; now right).
      destruct (mem c seen) eqn:M; [now apply IH|].
      destruct (IH _ _ _ _ HU' E) as [L I]. split.
      + assert (In c U) by (apply HU; now left).
        pose proof (unseen_add_lt U seen c H0 M). cbn [length] in L. lia.
      + intros T. apply I. intros z [<-|Hz]; [apply HU; now left|auto].
  Qed.

  Lemma close_step_progress s : incl (fst s) U ->
    match close_step s with inl s' => incl (fst s') U /\ mu s' < mu s | inr _ => True end.
  Proof.
    destruct s as [todo seen]. unfold close_step, mu. cbn [fst snd]. intros T.
    destruct todo as [|x rest]; [exact I|].
    destruct (push_new (succ x) rest seen) as [todo' seen'] eqn:E. cbn [fst snd].
    assert (Hx : incl (succ x) U) by (apply U_closed, T; now left).
    destruct (push_new_mu _ _ _ _ _ Hx E) as [L I]. split.
    - apply I. intros z Hz. apply T. now right.
    - cbn [length]. lia.
  Qed.

  Lemma pow2_gt n : n < 2 ^ n.
  Proof. induction n; cbn [Nat.pow]; lia. Qed.

  Theorem close_terminates init :
    incl init U -> exists r, close_from (length U + 2) init = Some r.
  Proof.
    intros HI. unfold close_from.
    assert (HD : incl (dedup init) U) by (intros z Hz; apply HI; apply (proj1 (dedup_In z init)); exact Hz).
    destruct (loop_terminates _ _ close_step mu (fun s => incl (fst s) U) close_step_progress
                (length U + 2) (dedup init, dedup init) HD) as [r Hr].
    - unfold mu. cbn [fst snd].
      assert (length (dedup init) <= length U) by (apply NoDup_incl_length; [apply dedup_NoDup|exact HD]).
      pose proof (unseen_le U (dedup init)).
      replace (length U + 2) with (S (S (length U))) by lia. cbn [Nat.pow].
      pose proof (pow2_gt (length U)). lia.
    - exists r. now rewrite Hr.
  Qed.

  (* total closure inside a universe *)
  Definition closure (init : list A) : list A :=
    match close_from (length U + 2) init with Some r => r | None => [] end.

  Theorem closure_spec init : incl init U -> forall x, In x (closure init) <-> reach init x.
  Proof.
    intros HI. unfold closure. destruct (close_terminates init HI) as [r Hr]. rewrite Hr.
    exact (close_sound _ _ _ Hr).
  Qed.
End Closure.
