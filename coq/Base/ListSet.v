(* Finite sets as lists over a type with boolean equality. *)
From Coq Require Import List Bool Arith NArith Lia.
Import ListNotations.

(* lazy conjunction: under vm_compute (call by value) [a && b] evaluates b even when a is false *)
Notation "a &&& b" := (if a then b else false) (at level 40, left associativity).
Lemma land_true_iff (a b : bool) : a &&& b = true <-> a = true /\ b = true.
Proof. destruct a, b; intuition congruence. Qed.

Class EqDec (A : Type) := { eqb : A -> A -> bool; eqb_spec : forall x y, reflect (x = y) (eqb x y) }.

Lemma eqb_refl {A} `{EqDec A} (x : A) : eqb x x = true.
Proof. destruct (eqb_spec x x); congruence. Qed.
Lemma eqb_eq {A} `{EqDec A} (x y : A) : eqb x y = true <-> x = y.
Proof. destruct (eqb_spec x y); split; congruence. Qed.
Lemma eqb_neq {A} `{EqDec A} (x y : A) : eqb x y = false <-> x <> y.
Proof. destruct (eqb_spec x y); split; congruence. Qed.

#[export] Instance EqDec_N : EqDec N := {| eqb := N.eqb; eqb_spec := N.eqb_spec |}.
#[export] Instance EqDec_nat : EqDec nat := {| eqb := Nat.eqb; eqb_spec := Nat.eqb_spec |}.
#[export] Instance EqDec_bool : EqDec bool := {| eqb := Bool.eqb; eqb_spec := Bool.eqb_spec |}.

Definition prod_eqb {A B} `{EqDec A} `{EqDec B} (p q : A * B) : bool :=
  eqb (fst p) (fst q) && eqb (snd p) (snd q).
Lemma prod_eqb_spec {A B} `{EqDec A} `{EqDec B} (p q : A * B) : reflect (p = q) (prod_eqb p q).
Proof.
  destruct p as [a b], q as [c d]; unfold prod_eqb; cbn.
  destruct (eqb_spec a c), (eqb_spec b d); cbn; constructor; congruence.
Qed.
#[export] Instance EqDec_prod {A B} `{EqDec A} `{EqDec B} : EqDec (A * B) :=
  {| eqb := prod_eqb; eqb_spec := prod_eqb_spec |}.

Definition option_eqb {A} `{EqDec A} (p q : option A) : bool :=
  match p, q with Some a, Some b => eqb a b | None, None => true | _, _ => false end.
Lemma option_eqb_spec {A} `{EqDec A} (p q : option A) : reflect (p = q) (option_eqb p q).
Proof.
  destruct p as [a|], q as [b|]; cbn; try (constructor; congruence).
  destruct (eqb_spec a b); constructor; congruence.
Qed.
#[export] Instance EqDec_option {A} `{EqDec A} : EqDec (option A) :=
  {| eqb := option_eqb; eqb_spec := option_eqb_spec |}.

Fixpoint list_eqb {A} `{EqDec A} (p q : list A) : bool :=
  match p, q with
  | [], [] => true
  | a :: p', b :: q' => eqb a b && list_eqb p' q'
  | _, _ => false
  end.
Lemma list_eqb_spec {A} `{EqDec A} (p q : list A) : reflect (p = q) (list_eqb p q).
Proof.
  revert q; induction p as [|a p IH]; intros [|b q]; cbn; try (constructor; congruence).
  destruct (eqb_spec a b); cbn; [|constructor; congruence].
  destruct (IH q); constructor; congruence.
Qed.
#[export] Instance EqDec_list {A} `{EqDec A} : EqDec (list A) :=
  {| eqb := list_eqb; eqb_spec := list_eqb_spec |}.

Section Sets.
  Context {A : Type} `{EqDec A}.

  Fixpoint mem (x : A) (l : list A) : bool :=
    match l with [] => false | y :: r => eqb x y || mem x r end.

  Lemma mem_In x l : mem x l = true <-> In x l.
  Proof.
    induction l as [|y r IH]; cbn; [split; [discriminate|tauto]|].
    rewrite orb_true_iff, IH, eqb_eq. split; intros [E|E]; auto.
  Qed.
  Lemma mem_nIn x l : mem x l = false <-> ~ In x l.
  Proof. rewrite <- mem_In. destruct (mem x l); split; congruence. Qed.

  Definition add (x : A) (l : list A) := if mem x l then l else x :: l.
  Lemma add_In x y l : In y (add x l) <-> y = x \/ In y l.
  Proof.
    unfold add. destruct (mem x l) eqn:E; cbn; [|intuition].
    apply mem_In in E. split; [auto|]. intros [->|]; auto.
  Qed.

  Fixpoint dedup (l : list A) : list A :=
    match l with [] => [] | x :: r => add x (dedup r) end.
  Lemma dedup_In x l : In x (dedup l) <-> In x l.
  Proof. induction l as [|y r IH]; cbn; [tauto|]. rewrite add_In, IH. intuition. Qed.
  Lemma add_NoDup x l : NoDup l -> NoDup (add x l).
  Proof.
    unfold add. destruct (mem x l) eqn:E; auto. intros. constructor; auto. now apply mem_nIn.
  Qed.
  Lemma dedup_NoDup l : NoDup (dedup l).
  Proof. induction l; cbn; [constructor|now apply add_NoDup]. Qed.

  Definition union (l1 l2 : list A) : list A := fold_right add l2 l1.
  Lemma union_In x l1 l2 : In x (union l1 l2) <-> In x l1 \/ In x l2.
  Proof. induction l1 as [|y r IH]; cbn; [tauto|]. rewrite add_In, IH. intuition. Qed.

  Definition subset (l1 l2 : list A) : bool := forallb (fun x => mem x l2) l1.
  Lemma subset_spec l1 l2 : subset l1 l2 = true <-> incl l1 l2.
  Proof.
    unfold subset, incl. rewrite forallb_forall. split; intros H0 x Hx.
    - apply mem_In; auto.
    - apply mem_In; auto.
  Qed.
  Definition eqset (l1 l2 : list A) : bool := subset l1 l2 && subset l2 l1.
  Lemma eqset_spec l1 l2 : eqset l1 l2 = true <-> (forall x, In x l1 <-> In x l2).
  Proof.
    unfold eqset. rewrite andb_true_iff, !subset_spec. unfold incl. firstorder.
  Qed.

  Definition inter (l1 l2 : list A) : list A := filter (fun x => mem x l2) l1.
  Lemma inter_In x l1 l2 : In x (inter l1 l2) <-> In x l1 /\ In x l2.
  Proof. unfold inter. rewrite filter_In, mem_In. tauto. Qed.
  Definition diff (l1 l2 : list A) : list A := filter (fun x => negb (mem x l2)) l1.
  Lemma diff_In x l1 l2 : In x (diff l1 l2) <-> In x l1 /\ ~ In x l2.
  Proof. unfold diff. rewrite filter_In, negb_true_iff, mem_nIn. tauto. Qed.

  Lemma existsb_In (f : A -> bool) l : existsb f l = true <-> exists x, In x l /\ f x = true.
  Proof. apply existsb_exists. Qed.

  (* number of elements of [u] outside [seen]; strictly decreases when a new element of u is added *)
  Definition unseen (u seen : list A) : nat := length (filter (fun x => negb (mem x seen)) u).
  Lemma filter_length_le (f g : A -> bool) l :
    (forall x, f x = true -> g x = true) -> length (filter f l) <= length (filter g l).
  Proof.
    intros Hfg. induction l as [|y r IH]; cbn [filter]; [lia|].
    destruct (f y) eqn:Ef; [rewrite (Hfg _ Ef); cbn [length]; lia|].
    destruct (g y); cbn [length]; lia.
  Qed.
  Lemma filter_length_lt (f g : A -> bool) l c :
    (forall x, f x = true -> g x = true) -> In c l -> f c = false -> g c = true ->
    length (filter f l) < length (filter g l).
  Proof.
    intros Hfg. induction l as [|y r IH]; cbn [filter In]; [tauto|]. intros [->|Hin] Hf Hg.
    - rewrite Hf, Hg. cbn [length]. pose proof (filter_length_le f g r Hfg). lia.
    - specialize (IH Hin Hf Hg). destruct (f y) eqn:Ef; [rewrite (Hfg _ Ef); cbn [length]; lia|].
      destruct (g y); cbn [length]; lia.
  Qed.
  Lemma unseen_le u seen : unseen u seen <= length u.
  Proof.
    unfold unseen. induction u as [|y r IH]; cbn [filter length]; [lia|].
    destruct (negb (mem y seen)); cbn [length]; lia.
  Qed.
  Lemma unseen_add_le u seen c : unseen u (c :: seen) <= unseen u seen.
  Proof.
    unfold unseen. apply filter_length_le. intros x. cbn [mem].
    rewrite !negb_true_iff, orb_false_iff. tauto.
  Qed.
  Lemma unseen_add_lt u seen c : In c u -> mem c seen = false -> unseen u (c :: seen) < unseen u seen.
  Proof.
    intros Hin Hc. unfold unseen. apply filter_length_lt with (c := c); auto.
    - intros x. cbn [mem]. rewrite !negb_true_iff, orb_false_iff. tauto.
    - cbn [mem]. now rewrite eqb_refl.
    - now rewrite Hc.
  Qed.
End Sets.

(* canonical representatives of sets of N: strictly sorted lists *)
Fixpoint insertN (x : N) (l : list N) : list N :=
  match l with
  | [] => [x]
  | y :: r => match N.compare x y with
              | Lt => x :: l
              | Eq => l
              | Gt => y :: insertN x r
              end
  end.
Definition canon (l : list N) : list N := fold_right insertN [] l.
Lemma insertN_In x y l : In y (insertN x l) <-> y = x \/ In y l.
Proof.
  induction l as [|z r IH]; cbn; [intuition|].
  destruct (N.compare_spec x z); cbn; [subst|..]; try rewrite IH; intuition.
Qed.
Lemma canon_In x l : In x (canon l) <-> In x l.
Proof. induction l as [|y r IH]; cbn; [tauto|]. rewrite insertN_In, IH. intuition. Qed.

(* normalisation of list-represented sets: any function that keeps the elements; sorted
   duplicate-free lists for N (canonical: makes subset explorations terminate quickly),
   duplicate removal otherwise *)
Class Canon (A : Type) := { norm : list A -> list A; norm_In : forall x l, In x (norm l) <-> In x l }.
#[export] Instance Canon_N : Canon N := {| norm := canon; norm_In := canon_In |}.
Definition Canon_dedup {A} `{EqDec A} : Canon A := {| norm := dedup; norm_In := dedup_In |}.
#[export] Instance Canon_prod {A B} `{EqDec A} `{EqDec B} : Canon (A * B) := Canon_dedup.
#[export] Instance Canon_list {A} `{EqDec A} : Canon (list A) := Canon_dedup.
#[export] Instance Canon_option {A} `{EqDec A} : Canon (option A) := Canon_dedup.

(* equality and normalisation on sums, unit *)
Definition sum_eqb {A B} `{EqDec A} `{EqDec B} (p q : A + B) : bool :=
  match p, q with inl a, inl b => eqb a b | inr a, inr b => eqb a b | _, _ => false end.
Lemma sum_eqb_spec {A B} `{EqDec A} `{EqDec B} (p q : A + B) : reflect (p = q) (sum_eqb p q).
Proof.
  destruct p as [a|a], q as [b|b]; cbn; try (constructor; congruence);
    destruct (eqb_spec a b); constructor; congruence.
Qed.
#[export] Instance EqDec_sum {A B} `{EqDec A} `{EqDec B} : EqDec (A + B) :=
  {| eqb := sum_eqb; eqb_spec := sum_eqb_spec |}.
#[export] Instance Canon_sum {A B} `{EqDec A} `{EqDec B} : Canon (A + B) := Canon_dedup.
Lemma unit_eqb_spec (p q : unit) : reflect (p = q) true.
Proof. destruct p, q. now constructor. Qed.
#[export] Instance EqDec_unit : EqDec unit := {| eqb := fun _ _ => true; eqb_spec := unit_eqb_spec |}.
#[export] Instance Canon_unit : Canon unit := Canon_dedup.
#[export] Instance Canon_bool : Canon bool := Canon_dedup.
