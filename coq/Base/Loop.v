(* Bounded iteration with exponential reach: [loop n] performs at most 2^n steps of
   [step] with recursion depth n, so "practically unbounded" fuel never appears as a
   large unary numeral.  A run that does not finish is reported as [inl _]. *)
From Coq Require Import Arith Lia.

Section Loop.
  Variables (St R : Type) (step : St -> St + R).

  Fixpoint loop (n : nat) (s : St) : St + R :=
    match n with
    | 0 => step s
    | S m => match loop m s with
             | inl s' => loop m s'
             | inr r => inr r
             end
    end.

  Lemma loop_inv (P : St -> Prop) (Q : R -> Prop) :
    (forall s, P s -> match step s with inl s' => P s' | inr r => Q r end) ->
    forall n s, P s -> match loop n s with inl s' => P s' | inr r => Q r end.
  Proof.
    intros Hstep n; induction n as [|m IH]; intros s Hs; cbn [loop].
    - apply Hstep, Hs.
    - pose proof (IH s Hs) as H1. destruct (loop m s) as [s'|r]; [apply IH; exact H1 | exact H1].
  Qed.

  (* termination: a measure that strictly decreases on every unfinished step *)
  Lemma loop_progress (mu : St -> nat) (P : St -> Prop) :
    (forall s, P s -> match step s with inl s' => P s' /\ mu s' < mu s | inr _ => True end) ->
    forall n s, P s ->
      match loop n s with inl s' => P s' /\ mu s' + 2 ^ n <= mu s | inr _ => True end.
  Proof.
    intros Hstep n; induction n as [|m IH]; intros s Hs; cbn [loop].
    - specialize (Hstep s Hs). destruct (step s); [|exact I]. destruct Hstep as [HP HL]. split; [exact HP|]. cbn [Nat.pow]. lia.
    - pose proof (IH s Hs) as H1. destruct (loop m s) as [s1|r]; [|exact I].
      destruct H1 as [P1 L1]. pose proof (IH s1 P1) as H2.
      destruct (loop m s1) as [s2|r]; [|exact I]. destruct H2 as [P2 L2].
      split; [exact P2|]. cbn [Nat.pow]. lia.
  Qed.

  Lemma loop_terminates (mu : St -> nat) (P : St -> Prop) :
    (forall s, P s -> match step s with inl s' => P s' /\ mu s' < mu s | inr _ => True end) ->
    forall n s, P s -> mu s < 2 ^ n -> exists r, loop n s = inr r.
  Proof.
    intros Hstep n s Hs Hmu. pose proof (loop_progress mu P Hstep n s Hs) as H.
    destruct (loop n s) as [s'|r]; [|eauto]. destruct H as [_ H]. lia.
  Qed.
End Loop.

Arguments loop {St R} step n s.
