(* Mirror of pyformlang's own regex parser (regular_expression/regex_reader.py, class RegexReader) at the level of components
   (tokens): stripping of the outer parentheses, _compute_precedence (which inserts parentheses around the first operand of a star
   and around the operand of a union), then the split into first group / operator / rest and the recursive parses of the parts.
   The tokeniser (_pre_process_regex, _get_regex_componants) is outside the model.  Errors: EMis = MisformedRegexError,
   EOther = any other exception, EFuel = the model ran out of fuel (never on the lengths evaluated). *)
From Coq Require Import List Bool Arith NArith ZArith.
From PFL Require Import Spec.Regex Model.RegexParse.
Import ListNotations.

Inductive rerr := EMis | EOther | EFuel.
Inductive nk := KNone | KSym | KCat | KUnion | KStar.
Definition kind_of (t : tok) : nk :=
  match t with TSym _ | TEps | TLp | TRp => KSym | TConcat => KCat | TUnion => KUnion | TStar => KStar end.

Definition pval (t : tok) : Z := match t with TLp => 1%Z | TRp => (-1)%Z | _ => 0%Z end.
Fixpoint depths_from (d : Z) (l : list tok) : list Z :=
  match l with [] => [] | t :: r => let d' := (d + pval t)%Z in d' :: depths_from d' r end.
(* parenthesis_depths.index(0, from): first position >= from whose depth is 0 *)
Fixpoint find_zero (ds : list Z) (i from : nat) : option nat :=
  match ds with
  | [] => None
  | d :: r => if Nat.leb from i && Z.eqb d 0 then Some i else find_zero r (S i) from
  end.
Definition first_closing (comps : list tok) (from : nat) : option nat := find_zero (depths_from 0 comps) 0 from.

Definition surrounded (comps : list tok) : bool :=
  match first_closing comps 0 with Some k => Nat.eqb k (length comps - 1) | None => false end.

Fixpoint strip_outer (fuel : nat) (comps : list tok) : list tok + rerr :=
  match fuel with
  | O => inr EFuel
  | S f =>
    match comps with
    | TLp :: _ =>
      if surrounded comps
      then match removelast (tl comps) with [] => inr EMis | inner => strip_outer f inner end
      else inl comps
    | _ => inl comps
    end
  end.

Definition end_first_group (comps : list tok) (idx : nat) : nat + rerr :=
  if Nat.leb (length comps) idx then inl idx
  else match nth idx comps TEps with
       | TRp => inr EMis
       | TLp => match first_closing comps idx with
                | Some k => if Nat.ltb 0 k then inl (S k) else inr EMis
                | None => inr EMis
                end
       | _ => inl (S idx)
       end.

Definition insert_at (i : nat) (t : tok) (l : list tok) : list tok := firstn i l ++ t :: skipn i l.
Definition insert_parens (comps : list tok) (i j : nat) : list tok := insert_at (S j) TRp (insert_at i TLp comps).

Definition node_at (comps : list tok) (e : nat) (dflt : nk) : nk :=
  if Nat.ltb e (length comps) then kind_of (nth e comps TEps) else dflt.

(* the while loop of _compute_precedent_when_not_kleene_nor_union *)
Fixpoint scan_groups (fuel : nat) (comps : list tok) (e : nat) (node : nk) : (nat * nk) + rerr :=
  match fuel with
  | O => inr EFuel
  | S f =>
    if Nat.ltb e (length comps) && match node with KUnion => false | _ => true end
    then let e1 := match node with KCat | KUnion => S e | _ => e end in
         match end_first_group comps e1 with
         | inr x => inr x
         | inl e2 => scan_groups f comps e2 (node_at comps e2 node)
         end
    else inl (e, node)
  end.

Fixpoint compute_precedence (fuel : nat) (comps : list tok) : list tok + rerr :=
  match fuel with
  | O => inr EFuel
  | S f =>
    if Nat.leb (length comps) 1
    then match scan_groups (S (length comps)) comps 0 KNone with inr x => inr x | inl _ => inl comps end
    else match end_first_group comps 0 with
         | inr x => inr x
         | inl e =>
           match node_at comps e KNone with
           | KStar => compute_precedence f (insert_parens comps 0 (S e))
           | KUnion => inl comps
           | node => match scan_groups (S (length comps)) comps e node with
                     | inr x => inr x
                     | inl (e', KUnion) => inl (insert_parens comps 0 e')
                     | inl _ => inl comps
                     end
           end
         end
  end.

Fixpoint reader (fuel : nat) (comps : list tok) : re + rerr :=
  match fuel with
  | O => inr EFuel
  | S f =>
    let n0 := S (length comps) in
    match strip_outer n0 comps with
    | inr x => inr x
    | inl s1 =>
      match compute_precedence (S n0) s1 with
      | inr x => inr x
      | inl p =>
        match strip_outer (S (S (S (length p)))) p with
        | inr x => inr x
        | inl s2 =>
          match s2 with
          | [] => inl REmpty
          | [t] => match t with
                   | TSym a => inl (RSym a)
                   | TEps => inl REps
                   | TLp | TRp => inr EOther
                   | _ => inr EMis
                   end
          | _ =>
            match end_first_group s2 0 with
            | inr x => inr x
            | inl e =>
              if Nat.leb (length s2) e then inr EOther
              else
                let first := reader f (firstn e s2) in
                match kind_of (nth e s2 TEps) with
                | KStar => match first with inl a => inl (RStar a) | inr x => inr x end
                | KSym => match first, reader f (skipn e s2) with
                          | inl a, inl b => inl (RCat a b) | inr x, _ => inr x | _, inr x => inr x end
                | KCat => match first, reader f (skipn (S e) s2) with
                          | inl a, inl b => inl (RCat a b) | inr x, _ => inr x | _, inr x => inr x end
                | KUnion => match first, reader f (skipn (S e) s2) with
                            | inl a, inl b => inl (RAlt a b) | inr x, _ => inr x | _, inr x => inr x end
                | KNone => inr EOther
                end
            end
          end
        end
      end
    end
  end.

Definition reader_regex (comps : list tok) : re + rerr := reader (S (S (length comps))) comps.
