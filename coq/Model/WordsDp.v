(* Model of the length-indexed table of CFG.get_words (C12): on the normal form, the words of length 1 of a variable are its terminal
   productions; the words of length m >= 2 are the concatenations l ++ r for a production A -> B C, a split m = i + j and words l, r
   of B, C of lengths i, j taken from the levels already filled. *)
From Coq Require Import List Bool Arith NArith.
From PFL Require Import Base.ListSet Spec.Cfg Model.Cfg Model.CfgOps.
Import ListNotations.

Section DP.
  Context {X : Type} `{EqDec X}.
  Variable G : cfg X.

  Definition dp_vars : list X :=
    dedup (flat_map (fun p => fst p :: flat_map (fun s => match s with V B => [B] | T _ => [] end) (snd p)) (g_prods G)).

  Definition level : Type := list (X * list (list N)).
  Definition lookup_level (l : level) (A : X) : list (list N) :=
    match find (fun e => eqb (fst e) A) l with Some e => snd e | None => [] end.
  (* prev = [L_k; ...; L_1]; the level of length i *)
  Definition get (prev : list level) (k i : nat) (A : X) : list (list N) := lookup_level (nth (k - i) prev []) A.

  Definition words1 (A : X) : list (list N) :=
    dedup (flat_map (fun p => match p with (A', [T a]) => if eqb A' A then [[a]] else [] | _ => [] end) (g_prods G)).
  Definition words_next (prev : list level) (k : nat) (A : X) : list (list N) :=
    dedup (flat_map (fun p => match p with
                              | (A', [V B; V C]) =>
                                if eqb A' A
                                then flat_map (fun i => flat_map (fun l => map (fun r => l ++ r) (get prev k (S k - i) C)) (get prev k i B)) (seq 1 k)
                                else []
                              | _ => [] end) (g_prods G)).

  Fixpoint tab (n : nat) : list level :=
    match n with
    | O => []
    | S k => let prev := tab k in
             map (fun A => (A, match k with O => words1 A | _ => words_next prev k A end)) dp_vars :: prev
    end.

  Definition get_words_dp (n : nat) : list (list N) :=
    match g_start G with
    | Some s => flat_map (fun i => get (tab n) n i s) (seq 1 n)
    | None => []
    end.
End DP.

(* CFG.get_words(n): the empty word when the start symbol is nullable, then (for n > 0) the table on the normal form *)
Definition get_words_code {Vr} `{EqDec Vr} (fuel : nat) (G : cfg Vr) (n : nat) : option (list (list N)) :=
  match to_normal_form fuel G with
  | Some C => Some ((if generate_epsilon G then [[]] else []) ++ (match n with O => [] | _ => get_words_dp C n end))
  | None => None
  end.

