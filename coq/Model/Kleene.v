(* Model of EpsilonNFA.to_regex (C06): state elimination on an automaton whose edges carry regular expressions.
   pyformlang builds the labels as text (_create_or_transitions merges parallel edges into a union, _remove_state
   replaces the paths through the removed state by in.(loop)*.out, get_regex_sub / _get_regex_simple give
   (ss + se ee* es)* se ee* for the remaining start and final state); the model builds the same expressions as trees.
   States are [option Q]: None is the fresh start state "#STARTREGEX#" used when there are several start states. *)
From Coq Require Import List Bool NArith.
From PFL Require Import Base.ListSet Spec.Enfa Spec.Regex.
Import ListNotations.

Section Kleene.
  Context {Q : Type} `{EqDec Q}.
  Definition gedge : Type := (Q * re * Q).
  Definition src (e : gedge) : Q := fst (fst e).
  Definition lbl (e : gedge) : re := snd (fst e).
  Definition dst (e : gedge) : Q := snd e.

  Definition alts (rs : list re) : re := fold_right RAlt REmpty rs.
  Definition between (G : list gedge) (p q : Q) : re :=
    alts (map lbl (filter (fun e => eqb (src e) p && eqb (dst e) q) G)).

  Definition elim (k : Q) (G : list gedge) : list gedge :=
    let loop := RStar (between G k k) in
    let ins := filter (fun e => negb (eqb (src e) k) && eqb (dst e) k) G in
    let outs := filter (fun e => eqb (src e) k && negb (eqb (dst e) k)) G in
    filter (fun e => negb (eqb (src e) k) && negb (eqb (dst e) k)) G ++
    flat_map (fun i => map (fun o => (src i, RCat (lbl i) (RCat loop (lbl o)), dst o)) outs) ins.

  Definition elim_all (s f : Q) (states : list Q) (G : list gedge) : list gedge :=
    fold_left (fun G k => if eqb k s || eqb k f then G else elim k G) states G.

  Definition two_state_regex (G : list gedge) (s f : Q) : re :=
    if eqb s f then RStar (between G s s)
    else
      let ss := between G s s in let se := between G s f in
      let es := between G f s in let ee := between G f f in
      RCat (RStar (RAlt ss (RCat se (RCat (RStar ee) es)))) (RCat se (RStar ee)).
End Kleene.

Definition lab_of (l : option N) : re := match l with None => REps | Some a => RSym a end.

Section ToRegex.
  Context {Q : Type} `{EqDec Q}.
  Definition g_init (A : enfa Q) : list (@gedge (option Q)) :=
    map (fun t => (Some (fst (fst t)), lab_of (snd (fst t)), Some (snd t))) (e_delta A) ++
    match e_starts A with
    | _ :: _ :: _ => map (fun s => (None, REps, Some s)) (e_starts A)
    | _ => []
    end.
  Definition g_start (A : enfa Q) : option (option Q) :=
    match e_starts A with [] => None | [s] => Some (Some s) | _ => Some None end.

  Definition to_regex (A : enfa Q) : re :=
    match g_start A with
    | None => REmpty
    | Some s =>
      alts (map (fun f => two_state_regex (elim_all s (Some f) (map Some (e_states A)) (g_init A)) s (Some f))
                (e_finals A))
    end.
End ToRegex.
