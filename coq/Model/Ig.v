(* Model of IndexedGrammar.is_empty: Aho's marking, as the least fixed point of the marking rules (saturation).
   A marked pair (A, T) means: for every stack σ, A[σ] derives a form whose nonterminals are exactly the members of T,
   each carrying σ. The code iterates the same rules in list order until a pass changes nothing; the least fixed
   point does not depend on that order. *)
From Coq Require Import List Bool Arith NArith.
From PFL Require Import Base.ListSet Base.Saturate Spec.Ig.
Import ListNotations.

Definition nts_of (R : list irule) (S : N) : list N :=
  canon (S :: flat_map (fun r => match r with
                         | REnd A _ => [A] | RProd A B _ => [A; B] | RCons _ A B => [A; B] | RDup A B C => [A; B; C] end) R).

Fixpoint subsets (l : list N) : list (list N) :=
  match l with
  | [] => [[]]
  | x :: r => let s := subsets r in s ++ map (fun t => x :: t) s
  end.

Definition mitem := (N * list N)%type.        (* (nonterminal, canonical set of nonterminals) *)

Section M.
  Variable R : list irule.
  Variable S : N.

  Definition marked_of (Mk : list mitem) (A : N) : list (list N) :=
    flat_map (fun it => if N.eqb (fst it) A then [snd it] else []) Mk.

  (* all unions obtained by choosing, for every member X of TB, one consumption rule f: X -> Y and one marked set of Y *)
  Fixpoint combos (Mk : list mitem) (f : N) (TB : list N) : list (list N) :=
    match TB with
    | [] => [[]]
    | X :: rest =>
      let alts := flat_map (fun r => match r with RCons f' X' Y => if N.eqb f f' &&& N.eqb X X' then marked_of Mk Y else [] | _ => [] end) R in
      flat_map (fun rest_u => map (fun a => canon (a ++ rest_u)) alts) (combos Mk f rest)
    end.

  Definition mark_ok (Mk : list mitem) (it : mitem) : bool :=
    match it with (A, T) =>
      eqb T [A] ||
      existsb (fun r => match r with
        | REnd A' _ => N.eqb A A' &&& eqb T []
        | RDup A' B C => N.eqb A A' &&& existsb (fun T1 => existsb (fun T2 => eqb T (canon (T1 ++ T2))) (marked_of Mk C)) (marked_of Mk B)
        | RProd A' B f => N.eqb A A' &&& existsb (fun TB => mem T (combos Mk f TB)) (marked_of Mk B)
        | RCons _ _ _ => false
        end) R
    end.

  Definition mark_cands : list mitem := list_prod (nts_of R S) (map canon (subsets (nts_of R S))).
  Definition marks : list mitem := saturate mark_cands mark_ok.
  Definition ig_is_empty : bool := negb (mem (S, []) marks).
End M.
