(* Model of DeterministicFiniteAutomaton.minimize by its specification (C01/C02): keep the states that are reachable
   and from which a final state can be reached (_get_reachable_states, _get_states_leading_to_final), group the
   language-equivalent ones (what the Hopcroft partition computes) and build the quotient on the kept states. A class is
   represented by its first member in the order of the state list; pyformlang names it by joining the names of its members.
   State equivalence is decided by the proved-exact equivalence check on the re-rooted automaton. *)
From Coq Require Import List Bool NArith.
From PFL Require Import Base.ListSet Base.Closure Spec.Enfa Model.Enfa Model.EnfaOps Oracle.EnfaEquiv Oracle.EnfaMinimal.
Import ListNotations.

Section Minim.
  Context {Q : Type} `{EqDec Q} `{Canon Q}.
  Variable A : enfa Q.
  Variable n : nat.      (* fuel of the equivalence check *)

  Definition refinal (q : Q) : enfa Q := mkE (e_states A) (e_syms A) (e_delta A) (e_starts A) [q].
  Definition liveb (q : Q) : bool := negb (is_empty (refinal q)) && negb (is_empty (reroot A q)).
  Definition live : list Q := filter liveb (dedup (e_states A)).
  Definition equivb (p q : Q) : bool :=
    match enfa_equiv (reroot A p) (reroot A q) n with Some true => true | _ => false end.
  Definition rep (q : Q) : Q := match find (fun r => equivb r q) live with Some r => r | None => q end.

  Definition minimize_model : enfa Q :=
    mkE (dedup (map rep live)) (e_syms A)
        (dedup (flat_map (fun t => match t with
                                   | (p, Some a, q) => if mem p live && mem q live then [(rep p, Some a, rep q)] else []
                                   | _ => [] end) (e_delta A)))
        (dedup (map rep (filter (fun s => mem s live) (e_starts A))))
        (dedup (map rep (filter (fun f => mem f live) (e_finals A)))).
End Minim.
