(* CFG operations (C10): reverse, substitute and the four template constructions built on it. No proofs here.
   pyformlang makes the variable sets of the operands disjoint by renaming (X -> X#SUBS#i); the model uses tagged
   variables: [SV0 x] for the grammar substituted into, [SVi i x] for the i-th substituted grammar. *)
From Coq Require Import List Bool Arith NArith.
From PFL Require Import Base.ListSet Spec.Cfg Model.Cfg.
Import ListNotations.

Section Rev.
  Context {Vr : Type}.
  Definition reverse_cfg (G : cfg Vr) : cfg Vr :=
    mkG (g_vars G) (g_terms G) (g_start G) (map (fun p => (fst p, rev (snd p))) (g_prods G)).
End Rev.

Inductive svar (V0 V1 : Type) := SV0 (x : V0) | SVi (i : nat) (x : V1).
Arguments SV0 {V0 V1}. Arguments SVi {V0 V1}.
Definition svar_eqb {V0 V1} `{EqDec V0} `{EqDec V1} (a b : svar V0 V1) : bool :=
  match a, b with
  | SV0 x, SV0 y => eqb x y
  | SVi i x, SVi j y => Nat.eqb i j && eqb x y
  | _, _ => false
  end.
Lemma svar_eqb_spec {V0 V1} `{EqDec V0} `{EqDec V1} (a b : svar V0 V1) : reflect (a = b) (svar_eqb a b).
Proof.
  destruct a as [x|i x], b as [y|j y]; cbn; try (constructor; congruence).
  - destruct (eqb_spec x y); constructor; congruence.
  - destruct (Nat.eqb_spec i j); cbn; [|constructor; congruence]. destruct (eqb_spec x y); constructor; congruence.
Qed.
#[export] Instance EqDec_svar {V0 V1} `{EqDec V0} `{EqDec V1} : EqDec (svar V0 V1) :=
  {| eqb := svar_eqb; eqb_spec := svar_eqb_spec |}.

Section Subst.
  Context {V0 V1 : Type}.
  Notation sv := (svar V0 V1).

  (* index and start variable of the grammar substituted for terminal a, if any *)
  Fixpoint lookup_subst (a : N) (i : nat) (sigma : list (N * cfg V1)) : option (nat * cfg V1) :=
    match sigma with
    | [] => None
    | (b, H) :: r => if N.eqb a b then Some (i, H) else lookup_subst a (S i) r
    end.

  Definition subst_symb (sigma : list (N * cfg V1)) (X : symb V0) : symb sv :=
    match X with
    | V A => V (SV0 A)
    | T a => match lookup_subst a 0 sigma with
             | Some (i, H) => match g_start H with Some s => V (SVi i s) | None => T a end
             | None => T a
             end
    end.
  Definition tag_symb (i : nat) (X : symb V1) : symb sv := match X with V A => V (SVi i A) | T a => T a end.

  Fixpoint tag_all (i : nat) (sigma : list (N * cfg V1)) : list (sv * list (symb sv)) :=
    match sigma with
    | [] => []
    | (_, H) :: r => map (fun p => (SVi i (fst p), map (tag_symb i) (snd p))) (g_prods H) ++ tag_all (S i) r
    end.

  (* CFG.substitute *)
  Definition substitute (G : cfg V0) (sigma : list (N * cfg V1)) : cfg sv :=
    let prods := tag_all 0 sigma ++ map (fun p => (SV0 (fst p), map (subst_symb sigma) (snd p))) (g_prods G) in
    mkG (map SV0 (g_vars G) ++ flat_map (fun ih => map (SVi (fst ih)) (g_vars (snd (snd ih))))
                                         (combine (seq 0 (length sigma)) sigma))
        (dedup (flat_map (fun p => flat_map (fun X => match X with T a => [a] | V _ => [] end) (snd p)) prods))
        (option_map SV0 (g_start G)) prods.
End Subst.

(* the template grammars of union / concatenate / get_closure / get_positive_closure; t0, t1 are the template's
   placeholder terminals (pyformlang: "#0UNION#", "#1UNION#", ...), assumed not to occur in the operands *)
Section Templates.
  Context {V1 : Type}.
  Definition union_cfg (t0 t1 : N) (G1 G2 : cfg V1) : cfg (svar bool V1) :=
    substitute (mkG [true] [t0; t1] (Some true) [(true, [T t0]); (true, [T t1])]) [(t0, G1); (t1, G2)].
  Definition concat_cfg (t0 t1 : N) (G1 G2 : cfg V1) : cfg (svar bool V1) :=
    substitute (mkG [true] [t0; t1] (Some true) [(true, [T t0; T t1])]) [(t0, G1); (t1, G2)].
  Definition closure_cfg (t1 : N) (G1 : cfg V1) : cfg (svar bool V1) :=
    substitute (mkG [true] [t1] (Some true) [(true, [T t1]); (true, [V true; V true]); (true, [])]) [(t1, G1)].
  Definition pos_closure_cfg (t1 : N) (G1 : cfg V1) : cfg (svar bool V1) :=
    substitute (mkG [true; false] [t1] (Some true)
                    [(true, [T t1; V false]); (false, [V false; V false]); (false, [T t1]); (false, [])]) [(t1, G1)].
End Templates.
