(* Executable models of pyformlang's PDA conversions (C13, C11). No proofs here. *)
From Coq Require Import List Bool Arith NArith.
From PFL Require Import Base.Loop Base.ListSet Base.Closure Spec.Enfa Spec.Cfg Spec.Pda Model.Enfa Model.EnfaOps Model.Cfg.
Import ListNotations.

(* ---- acceptance-mode wrappers: fresh start / end states and a fresh bottom marker ---- *)
Inductive wst (Q : Type) := WOld (q : Q) | WStart | WEnd.
Inductive wsym (G : Type) := SOld (A : G) | SBottom.
Arguments WOld {Q}. Arguments WStart {Q}. Arguments WEnd {Q}. Arguments SOld {G}. Arguments SBottom {G}.

Definition wst_eqb {Q} `{EqDec Q} (a b : wst Q) : bool :=
  match a, b with WOld x, WOld y => eqb x y | WStart, WStart => true | WEnd, WEnd => true | _, _ => false end.
Lemma wst_eqb_spec {Q} `{EqDec Q} (a b : wst Q) : reflect (a = b) (wst_eqb a b).
Proof. destruct a as [x| |], b as [y| |]; cbn; try (constructor; congruence). destruct (eqb_spec x y); constructor; congruence. Qed.
#[export] Instance EqDec_wst {Q} `{EqDec Q} : EqDec (wst Q) := {| eqb := wst_eqb; eqb_spec := wst_eqb_spec |}.
Definition wsym_eqb {G} `{EqDec G} (a b : wsym G) : bool :=
  match a, b with SOld x, SOld y => eqb x y | SBottom, SBottom => true | _, _ => false end.
Lemma wsym_eqb_spec {G} `{EqDec G} (a b : wsym G) : reflect (a = b) (wsym_eqb a b).
Proof. destruct a as [x|], b as [y|]; cbn; try (constructor; congruence). destruct (eqb_spec x y); constructor; congruence. Qed.
#[export] Instance EqDec_wsym {G} `{EqDec G} : EqDec (wsym G) := {| eqb := wsym_eqb; eqb_spec := wsym_eqb_spec |}.

Section Wrap.
  Context {Q G : Type}.
  Definition lift_tr (t : Q * option N * G * Q * list G) : wst Q * option N * wsym G * wst Q * list (wsym G) :=
    match t with (q, l, A, r, push) => (WOld q, l, SOld A, WOld r, map SOld push) end.
  Definition init_tr (P : pda Q G) : list (wst Q * option N * wsym G * wst Q * list (wsym G)) :=
    match p_start P, p_z0 P with
    | Some s, Some z => [(WStart, None, SBottom, WOld s, [SOld z; SBottom])]
    | _, _ => []
    end.
  (* PDA.to_final_state: accept by final state what P accepts by empty stack *)
  Definition to_final_state (P : pda Q G) : pda (wst Q) (wsym G) :=
    mkP (WStart :: WEnd :: map WOld (p_states P)) (SBottom :: map SOld (p_stack P))
        (map lift_tr (p_delta P) ++ init_tr P ++ map (fun q => (WOld q, None, SBottom, WEnd, [])) (p_states P))
        (Some WStart) (Some SBottom) [WEnd].
  (* PDA.to_empty_stack: accept by empty stack what P accepts by final state *)
  Definition to_empty_stack (P : pda Q G) : pda (wst Q) (wsym G) :=
    let syms := SBottom :: map SOld (p_stack P) in
    mkP (WStart :: WEnd :: map WOld (p_states P)) syms
        (map lift_tr (p_delta P) ++ init_tr P ++
         flat_map (fun f => map (fun X => (WOld f, None, X, WEnd, [])) syms) (p_finals P) ++
         map (fun X => (WEnd, None, X, WEnd, [])) syms)
        (Some WStart) (Some SBottom) [].
End Wrap.

(* ---- CFG.to_pda: one state, the stack holds grammar symbols ---- *)
Section CfgToPda.
  Context {Vr : Type}.
  Definition cfg_to_pda (Gm : cfg Vr) : pda unit (symb Vr) :=
    mkP [tt] (map V (g_vars Gm) ++ map T (g_terms Gm))
        (map (fun p => (tt, None, V (fst p), tt, snd p)) (g_prods Gm) ++
         map (fun a => (tt, Some a, T a, tt, [])) (g_terms Gm))
        (Some tt) (option_map V (g_start Gm)) [].
End CfgToPda.

(* ---- PDA.to_cfg: triple construction with the validity pruning of CFGVariableConverter ---- *)
Inductive tvar (Q G : Type) := TStart | TTriple (q : Q) (A : G) (p : Q).
Arguments TStart {Q G}. Arguments TTriple {Q G}.
Definition tvar_eqb {Q G} `{EqDec Q} `{EqDec G} (a b : tvar Q G) : bool :=
  match a, b with
  | TStart, TStart => true
  | TTriple q A p, TTriple q' A' p' => eqb q q' && eqb A A' && eqb p p'
  | _, _ => false
  end.
Lemma tvar_eqb_spec {Q G} `{EqDec Q} `{EqDec G} (a b : tvar Q G) : reflect (a = b) (tvar_eqb a b).
Proof.
  destruct a as [|q A p], b as [|q' A' p']; cbn; try (constructor; congruence).
  destruct (eqb_spec q q'), (eqb_spec A A'), (eqb_spec p p'); cbn; constructor; congruence.
Qed.
#[export] Instance EqDec_tvar {Q G} `{EqDec Q} `{EqDec G} : EqDec (tvar Q G) := {| eqb := tvar_eqb; eqb_spec := tvar_eqb_spec |}.

Section PdaToCfg.
  Context {Q G : Type} `{EqDec Q} `{EqDec G}.
  Variable P : pda Q G.
  (* set_valid: (q, A, _) is valid iff some transition leaves q with A on top *)
  Definition valid_top (q : Q) (A : G) : bool :=
    existsb (fun t => match t with (q', _, A', _, _) => eqb q q' &&& eqb A A' end) (p_delta P).
  (* _generate_all_rules: all chains of triples from r through [push] ending in p, through valid triples only *)
  Fixpoint chains (r : Q) (push : list G) (p : Q) : list (list (symb (tvar Q G))) :=
    match push with
    | [] => [[]]                                   (* only used when r = p, see below *)
    | [B] => if valid_top r B then [[V (TTriple r B p)]] else []
    | B :: rest => if valid_top r B
                   then flat_map (fun r1 => map (fun c => V (TTriple r B r1) :: c) (chains r1 rest p)) (p_states P)
                   else []
    end.
  Definition pda_to_cfg : cfg (tvar Q G) :=
    let start_prods := match p_start P, p_z0 P with
                       | Some s, Some z => map (fun p => (TStart, [V (TTriple s z p)])) (p_states P)
                       | _, _ => [] end in
    let tr_prods := flat_map (fun t => match t with (q, l, A, r, push) =>
        flat_map (fun p =>
          match push with
          | [] => if eqb p r then [(TTriple q A p, match l with Some a => [T a] | None => [] end)] else []
          | _ => map (fun c => (TTriple q A p, match l with Some a => T a :: c | None => c end)) (chains r push p)
          end) (p_states P) end) (p_delta P) in
    mkG [] [] (Some TStart) (start_prods ++ tr_prods).
End PdaToCfg.

(* ---- PDA.intersection with a deterministic automaton: product over reachable pairs ---- *)
Section Inter.
  Context {Q G QD : Type} `{EqDec Q} `{EqDec G} `{EqDec QD}.
  Variable P : pda Q G.
  Variable D : enfa QD.
  Definition d_next (d : QD) (l : option N) : list QD :=
    match l with None => [d] | Some a => succs D (Some a) d end.
  Definition pi_succ (qd : Q * QD) : list (Q * QD) :=
    flat_map (fun t => match t with (q, l, A, r, push) =>
      if eqb q (fst qd) then map (fun d' => (r, d')) (d_next (snd qd) l) else [] end) (p_delta P).
  Definition pda_inter (n : nat) : option (pda (Q * QD) G) :=
    match p_start P, e_starts D with
    | Some s, d0 :: _ =>
      match close_from pi_succ n [(s, d0)] with
      | None => None
      | Some pairs =>
        Some (mkP pairs (p_stack P)
                  (flat_map (fun qd => flat_map (fun t => match t with (q, l, A, r, push) =>
                       if eqb q (fst qd) then map (fun d' => (qd, l, A, (r, d'), push)) (d_next (snd qd) l) else [] end) (p_delta P)) pairs)
                  (Some (s, d0)) (p_z0 P)
                  (filter (fun qd => mem (fst qd) (p_finals P) &&& mem (snd qd) (e_finals D)) pairs))
      end
    | _, _ => Some (mkP [] [] [] None None [])
    end.
End Inter.
