(* Model of ParseTree.get_leftmost_derivation / get_rightmost_derivation (C15): the listing of sentential forms built from a tree. *)
From Coq Require Import List Bool Arith NArith.
From PFL Require Import Base.ListSet Spec.Cfg.
Import ListNotations.

Section D.
  Context {Vr : Type}.
  Notation form := (list (symb Vr)).

  Fixpoint tdepth (t : tree Vr) : nat :=
    match t with Node _ sons => S (fold_right (fun x m => Nat.max (tdepth x) m) 0 sons) end.

  (* the loop over the sons: [start] = what the sons already processed have become, [first] = this is son number 0;
     the first line of a son's listing repeats the current form and is dropped, except for son number 0 *)
  Fixpoint lm_go (lmf : tree Vr -> list form) (l : list (tree Vr)) (start : form) (first : bool) : list form :=
    match l with
    | [] => []
    | son :: rest =>
      let end_ := map root rest in
      let ds := lmf son in
      let ds' := if first then ds else match ds with (_ :: _) :: tl => tl | _ => ds end in
      map (fun d => start ++ d ++ end_) ds' ++
      lm_go lmf rest (match ds' with [] => start ++ [root son] | _ => start ++ last ds' [] end) false
    end.

  Fixpoint lm_fuel (n : nat) (t : tree Vr) : list form :=
    match n with
    | O => []
    | S k =>
      match t with
      | Node s [] => match s with V _ => [[s]; []] | T _ => [[s]] end
      | Node s sons => [s] :: lm_go (lm_fuel k) sons [] true
      end
    end.
  Definition lm (t : tree Vr) : list form := lm_fuel (tdepth t) t.

  (* rightmost: the sons are visited from the last one, [end_] accumulates on the right *)
  Fixpoint rm_go (rmf : tree Vr -> list form) (l : list (tree Vr)) (end_ : form) (first : bool) : list form :=
    match l with                (* l = the sons not yet processed, in REVERSE order *)
    | [] => []
    | son :: rest =>
      let start := map root (rev rest) in
      let ds := rmf son in
      let ds' := if first then ds else match ds with (_ :: _) :: tl => tl | _ => ds end in
      map (fun d => start ++ d ++ end_) ds' ++
      rm_go rmf rest (match ds' with [] => root son :: end_ | _ => last ds' [] ++ end_ end) false
    end.
  Fixpoint rm_fuel (n : nat) (t : tree Vr) : list form :=
    match n with
    | O => []
    | S k =>
      match t with
      | Node s [] => match s with V _ => [[s]; []] | T _ => [[s]] end
      | Node s sons => [s] :: rm_go (rm_fuel k) (rev sons) [] true
      end
    end.
  Definition rm (t : tree Vr) : list form := rm_fuel (tdepth t) t.
End D.
