(* A memoising object as a state machine (C19): each query has a pure answer that depends on the object's
   content only; the implementation stores answers in caches filled on first use. *)
From Coq Require Import List Bool NArith.
Import ListNotations.

Section Cache.
  Variables (Obj Op Ans : Type).
  Variable pure : Obj -> Op -> Ans.                      (* the value semantics of every query *)
  Variable op_eqb : Op -> Op -> bool.
  Hypothesis op_eqb_eq : forall a b, op_eqb a b = true -> a = b.

  Definition cache := list (Op * Ans).
  Fixpoint find_cache (c : cache) (o : Op) : option Ans :=
    match c with [] => None | (o', a) :: r => if op_eqb o o' then Some a else find_cache r o end.

  (* a query looks in the cache first and fills it otherwise; the object itself never changes *)
  Definition step (x : Obj) (c : cache) (o : Op) : cache * Ans :=
    match find_cache c o with
    | Some a => (c, a)
    | None => ((o, pure x o) :: c, pure x o)
    end.
  Fixpoint run (x : Obj) (c : cache) (ops : list Op) : list Ans :=
    match ops with [] => [] | o :: r => let '(c', a) := step x c o in a :: run x c' r end.

  Definition cache_ok (x : Obj) (c : cache) : Prop := forall o a, find_cache c o = Some a -> a = pure x o.

  Lemma step_ok x c o : cache_ok x c -> cache_ok x (fst (step x c o)) /\ snd (step x c o) = pure x o.
  Proof.
    intros H. unfold step. destruct (find_cache c o) as [a|] eqn:E; cbn [fst snd].
    - split; [exact H|now apply H].
    - split; [|reflexivity]. intros o' a'. cbn [find_cache]. destruct (op_eqb o' o) eqn:Q.
      + intros X. inversion X; subst. now rewrite (op_eqb_eq _ _ Q).
      + apply H.
  Qed.

  Theorem cache_transparent x ops : forall c, cache_ok x c -> run x c ops = map (pure x) ops.
  Proof.
    induction ops as [|o r IH]; intros c H; cbn [run map]; [reflexivity|].
    destruct (step x c o) as [c' a] eqn:E. pose proof (step_ok x c o H) as [H1 H2]. rewrite E in H1, H2. cbn [fst snd] in *.
    rewrite H2. f_equal. now apply IH.
  Qed.
End Cache.
