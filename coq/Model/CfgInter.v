(* CFG.intersection with a deterministic automaton: Bar-Hillel triples over the Chomsky normal form (C11). No proofs here. *)
From Coq Require Import List Bool Arith NArith.
From PFL Require Import Base.ListSet Spec.Enfa Spec.Cfg Model.Enfa Model.EnfaOps Model.Cfg.
Import ListNotations.

Inductive bvar (QD X : Type) := BStart | BTriple (p : QD) (A : X) (q : QD).
Arguments BStart {QD X}. Arguments BTriple {QD X}.
Definition bvar_eqb {QD X} `{EqDec QD} `{EqDec X} (a b : bvar QD X) : bool :=
  match a, b with
  | BStart, BStart => true
  | BTriple p A q, BTriple p' A' q' => eqb p p' && eqb A A' && eqb q q'
  | _, _ => false
  end.
Lemma bvar_eqb_spec {QD X} `{EqDec QD} `{EqDec X} (a b : bvar QD X) : reflect (a = b) (bvar_eqb a b).
Proof.
  destruct a as [|p A q], b as [|p' A' q']; cbn; try (constructor; congruence).
  destruct (eqb_spec p p'), (eqb_spec A A'), (eqb_spec q q'); cbn; constructor; congruence.
Qed.
#[export] Instance EqDec_bvar {QD X} `{EqDec QD} `{EqDec X} : EqDec (bvar QD X) := {| eqb := bvar_eqb; eqb_spec := bvar_eqb_spec |}.

Section BH.
  Context {QD X : Type} `{EqDec QD} `{EqDec X}.
  (* C in Chomsky normal form, D deterministic; [ge]: add Start -> epsilon *)
  Definition bar_hillel (C : cfg X) (D : enfa QD) (ge : bool) : cfg (bvar QD X) :=
    let states := e_states D in
    let two := flat_map (fun pr => match snd pr with
                 | [V B; V Cc] => flat_map (fun p => flat_map (fun r => map (fun q =>
                                    (BTriple p (fst pr) r, [V (BTriple p B q); V (BTriple q Cc r)])) states) states) states
                 | _ => [] end) (g_prods C) in
    let one := flat_map (fun pr => match snd pr with
                 | [T a] => flat_map (fun p => match succs D (Some a) p with q :: _ => [(BTriple p (fst pr) q, [T a])] | [] => [] end) states
                 | _ => [] end) (g_prods C) in
    let starts := match e_starts D, g_start C with
                  | d0 :: _, Some s => map (fun f => (BStart, [V (BTriple d0 s f)])) (e_finals D)
                  | _, _ => [] end in
    mkcfg [] [] (Some BStart) (two ++ one ++ starts ++ (if ge then [(BStart, [])] else [])).
End BH.

(* CFG.intersection(D) for a deterministic D (pyformlang determinises the operand first) *)
Definition cfg_inter {Vr QD} `{EqDec Vr} `{EqDec QD} (fuel : nat) (G : cfg Vr) (D : enfa QD) : option (cfg (bvar QD (cvar Vr))) :=
  if is_empty D then Some (mkcfg [] [] None [])
  else match to_normal_form fuel G with
       | Some C => Some (bar_hillel C D (generate_epsilon G && accepts D []))
       | None => None
       end.
