(* get_words and is_finite (C12). get_words is modelled by its specification (every word of the language up to the
   bound, once), is_finite mirrors the code: cycle test on the variable graph of the normal form. *)
From Coq Require Import List Bool Arith NArith.
From PFL Require Import Base.ListSet Base.Closure Spec.Cfg Model.Cfg Oracle.CfgMember.
Import ListNotations.

Fixpoint words_upto (syms : list N) (k : nat) : list (list N) :=
  match k with
  | O => [[]]
  | S k' => [] :: flat_map (fun w => map (fun a => a :: w) syms) (words_upto syms k')
  end.

Section W.
  Context {Vr : Type} `{EqDec Vr}.
  Definition prod_terms (G : cfg Vr) : list N := dedup (flat_map (fun p => body_terms (snd p)) (g_prods G)).
  Definition get_words (G : cfg Vr) (n : nat) : list (list N) :=
    dedup (filter (cfg_member G) (words_upto (prod_terms G) n)).

  Definition var_succs (G : cfg Vr) (A : Vr) : list Vr :=
    flat_map (fun p => if eqb A (fst p) then match snd p with [V B; V C] => [B; C] | _ => [] end else []) (g_prods G).
  Definition graph_acyclic (G : cfg Vr) : bool :=
    let vs := dedup (map fst (g_prods G) ++ flat_map (fun p => body_vars (snd p)) (g_prods G)) in
    forallb (fun A => negb (mem A (closure (var_succs G) vs (var_succs G A)))) vs.
  (* hypothesis of the finiteness theorem, evaluated on every case: every variable of the (normal-form) grammar is generating
     and reachable from the start symbol in the variable graph *)
  Definition nf_vars_useful (C : cfg Vr) : bool :=
    match g_start C with
    | Some s =>
      let vs := dedup (map fst (g_prods C) ++ flat_map (fun p => body_vars (snd p)) (g_prods C)) in
      forallb (fun A => mem A (generating_vars C) && (eqb A s || mem A (closure (var_succs C) (s :: vs) [s]))) vs
    | None => false
    end.
End W.

Definition is_finite {Vr} `{EqDec Vr} (fuel : nat) (G : cfg Vr) : option bool :=
  option_map graph_acyclic (to_normal_form fuel G).
