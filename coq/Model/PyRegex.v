(* The documented subset of Python regular expressions (C07) as an abstract syntax with a denotation, and its
   translation to plain regular expressions over character codes (what PythonRegex computes through its textual rewrites).
   Characters are N (code points); [universe] is string.printable. *)
From Coq Require Import List Bool Arith NArith.
From PFL Require Import Spec.Regex.
Import ListNotations.

Inductive pyre :=
| PLit (c : N)                              (* a literal or an escaped metacharacter *)
| PDot                                      (* any character but newline *)
| PSet (neg : bool) (ranges : list (N * N)) (* [a-cx] / [^...]; a single character c is the range (c, c) *)
| PCat (p q : pyre) | PAlt (p q : pyre)
| PStar (p : pyre) | PPlus (p : pyre) | POpt (p : pyre)
| PRep (p : pyre) (m n : nat).              (* {m,n}; {m} is {m,m} *)

Definition in_ranges (c : N) (rs : list (N * N)) : bool := existsb (fun r => N.leb (fst r) c && N.leb c (snd r)) rs.

Section T.
  Variable universe : list N.               (* string.printable *)
  Definition newline : N := 10%N.

  Fixpoint alt_of (cs : list N) : re :=
    match cs with [] => REmpty | [c] => RSym c | c :: r => RAlt (RSym c) (alt_of r) end.
  Fixpoint rep (r : re) (k : nat) : re := match k with O => REps | S k' => RCat r (rep r k') end.
  Fixpoint opt_rep (r : re) (k : nat) : re := match k with O => REps | S k' => RCat (RAlt r REps) (opt_rep r k') end.

  Fixpoint py_translate (p : pyre) : re :=
    match p with
    | PLit c => RSym c
    | PDot => alt_of (filter (fun c => negb (N.eqb c newline)) universe)
    | PSet false rs => alt_of (filter (fun c => in_ranges c rs) universe)
    | PSet true rs => alt_of (filter (fun c => negb (in_ranges c rs)) universe)
    | PCat a b => RCat (py_translate a) (py_translate b)
    | PAlt a b => RAlt (py_translate a) (py_translate b)
    | PStar a => RStar (py_translate a)
    | PPlus a => RCat (py_translate a) (RStar (py_translate a))
    | POpt a => RAlt (py_translate a) REps
    | PRep a m n => RCat (rep (py_translate a) m) (opt_rep (py_translate a) (n - m))
    end.
End T.
