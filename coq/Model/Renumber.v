(* Renaming the states of an automaton to N by their position in the list of all states: language preserved
   (Proofs/Renumber.v). Used to run the subset-pair exploration on sorted lists of numbers when the states
   are structured (sums, pairs, lists). *)
From Coq Require Import List Bool NArith.
From PFL Require Import Base.ListSet Spec.Enfa.
Import ListNotations.

Section Ren.
  Context {Q : Type} `{EqDec Q}.
  Fixpoint index_of (x : Q) (l : list Q) : option N :=
    match l with
    | [] => None
    | y :: r => if eqb x y then Some 0%N else option_map N.succ (index_of x r)
    end.
  Definition all_states (A : enfa Q) : list Q :=
    dedup (e_states A ++ e_starts A ++ e_finals A ++ map (fun t => fst (fst t)) (e_delta A) ++ map (fun t => snd t) (e_delta A)).
  Definition num (l : list Q) (x : Q) : N := match index_of x l with Some i => i | None => 0%N end.
  Definition renumber (A : enfa Q) : enfa N :=
    let l := all_states A in
    mkE (map (num l) (e_states A)) (e_syms A)
        (map (fun t => match t with (p, a, q) => (num l p, a, num l q) end) (e_delta A))
        (map (num l) (e_starts A)) (map (num l) (e_finals A)).
End Ren.
