(* Executable model of FST.translate and reference constructions for union / concatenate / kleene_star (C16). *)
From Coq Require Import List Bool Arith NArith.
From PFL Require Import Base.Loop Base.ListSet Base.Closure Spec.Fst Spec.Enfa.
Import ListNotations.

Section T.
  Context {Q : Type} `{EqDec Q}.
  Notation cfgT := (list N * list N * Q)%type.       (* remaining input, generated output, state *)

  Definition tsucc (F : fst Q) (c : cfgT) : list cfgT :=
    match c with (rem, gen, q) =>
      flat_map (fun t => match t with (p, l, r, out) =>
        if eqb p q then
          match l, rem with
          | None, _ => [(rem, gen ++ out, r)]
          | Some a, b :: rest => if N.eqb a b then [(rest, gen ++ out, r)] else []
          | Some _, [] => []
          end
        else [] end) (f_delta F) end.

  (* FST.translate(w) with max_length = -1: exploration of (remaining, generated, state); [None] = fuel exhausted
     (happens when an epsilon cycle writes output: infinitely many configurations) *)
  Definition translate (fuel : nat) (F : fst Q) (w : list N) : option (list (list N)) :=
    match close_from (tsucc F) fuel (map (fun s => (w, [], s)) (f_starts F)) with
    | Some R => Some (dedup (flat_map (fun c => match c with (rem, gen, q) =>
                         match rem with [] => if mem q (f_finals F) then [gen] else [] | _ => [] end end) R))
    | None => None
    end.
End T.

(* reference constructions with structured states *)
Definition lift_ft {Q R} (f : Q -> R) (d : list (Q * option N * Q * list N)) : list (R * option N * R * list N) :=
  map (fun t => match t with (p, l, q, o) => (f p, l, f q, o) end) d.
Definition fst_union {Q1 Q2} (A : fst Q1) (B : fst Q2) : fst (Q1 + Q2) :=
  mkF (lift_ft inl (f_delta A) ++ lift_ft inr (f_delta B))
      (map inl (f_starts A) ++ map inr (f_starts B)) (map inl (f_finals A) ++ map inr (f_finals B)).
Definition fst_concat {Q1 Q2} (A : fst Q1) (B : fst Q2) : fst (Q1 + Q2) :=
  mkF (lift_ft inl (f_delta A) ++ lift_ft inr (f_delta B) ++
       flat_map (fun f => map (fun s => (inl f, None, inr s, [])) (f_starts B)) (f_finals A))
      (map inl (f_starts A)) (map inr (f_finals B)).
Definition fst_star {Q} (A : fst Q) : fst (option Q) :=
  mkF (lift_ft Some (f_delta A) ++ map (fun s => (None, None, Some s, [])) (f_starts A) ++
       map (fun f => (Some f, None, None, [])) (f_finals A))
      [None] [None].
(* FiniteAutomaton.to_fst: the identity relation on the automaton's language *)
Definition enfa_to_fst {Q} (A : enfa Q) : fst Q :=
  mkF (map (fun t => match t with (p, l, q) => (p, l, q, match l with Some a => [a] | None => [] end) end) (e_delta A))
      (e_starts A) (e_finals A).
