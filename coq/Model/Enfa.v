(* Executable model of pyformlang's epsilon-NFA core: eclose, accepts. No proofs here. *)
From Coq Require Import List Bool NArith.
From PFL Require Import Base.ListSet Base.Closure Spec.Enfa.
Import ListNotations.

Section M.
  Context {Q : Type} `{EqDec Q}.

Definition succs (A : enfa Q) (l : option N) (q : Q) : list Q :=
  flat_map (fun t => match t with (p, l', r) => if eqb p q && eqb l l' then [r] else [] end) (e_delta A).

Definition targets (A : enfa Q) : list Q := map (fun t => snd t) (e_delta A).

(* EpsilonNFA.eclose_iterable: the union of the eclose of each member = closure of the set *)
Definition eclose (A : enfa Q) (S : list Q) : list Q :=
  closure (succs A None) (S ++ targets A) S.

(* _get_next_states_iterable *)
Definition step_set (A : enfa Q) (S : list Q) (a : N) : list Q :=
  flat_map (succs A (Some a)) S.

Definition dstep (A : enfa Q) (S : list Q) (a : N) : list Q := eclose A (step_set A S a).
Definition is_final_set (A : enfa Q) (S : list Q) : bool := existsb (fun q => mem q (e_finals A)) S.

(* EpsilonNFA.accepts *)
Definition accepts (A : enfa Q) (w : list N) : bool :=
  is_final_set A (fold_left (dstep A) w (eclose A (e_starts A))).
End M.
