(* Model of IndexedGrammar.remove_useless_rules (C17): a rule is kept when every nonterminal it mentions is generating
   (get_generating_non_terminals: generating when the index stacks are ignored) and reachable from the start nonterminal
   (get_reachable_non_terminals). *)
From Coq Require Import List Bool NArith.
From PFL Require Import Base.ListSet Base.Closure Base.Saturate Spec.Ig Model.Ig.
Import ListNotations.

Definition rule_nts (r : irule) : list N :=
  match r with REnd A _ => [A] | RProd A B _ => [A; B] | RCons _ A B => [A; B] | RDup A B C => [A; B; C] end.

Section U.
  Variable R : list irule.
  Variable S : N.

  Definition ig_gen_ok (G : list N) (A : N) : bool :=
    existsb (fun r => match r with
                      | REnd A' _ => N.eqb A' A
                      | RProd A' B _ => N.eqb A' A && mem B G
                      | RCons _ A' B => N.eqb A' A && mem B G
                      | RDup A' B C => N.eqb A' A && mem B G && mem C G
                      end) R.
  Definition ig_generating : list N := saturate (nts_of R S) ig_gen_ok.

  Definition ig_succs (A : N) : list N :=
    flat_map (fun r => match r with
                       | REnd _ _ => []
                       | RProd A' B _ => if N.eqb A' A then [B] else []
                       | RCons _ A' B => if N.eqb A' A then [B] else []
                       | RDup A' B C => if N.eqb A' A then [B; C] else []
                       end) R.
  Definition ig_reachable : list N := closure ig_succs (nts_of R S) [S].

  Definition ig_remove_useless : list irule :=
    filter (fun r => forallb (fun X => mem X ig_generating && mem X ig_reachable) (rule_nts r)) R.
End U.
