(* Executable models of the automaton transformers and queries (C01, C03, C04). No proofs here. *)
From Coq Require Import List Bool NArith.
From PFL Require Import Base.Loop Base.ListSet Base.Closure Spec.Enfa Model.Enfa.
Import ListNotations.

Section Ops.
  Context {Q : Type} `{EqDec Q}.

  (* NondeterministicFiniteAutomaton.accepts: no closure *)
  Definition accepts_nfa (A : enfa Q) (w : list N) : bool :=
    is_final_set A (fold_left (step_set A) w (e_starts A)).

  (* DeterministicFiniteAutomaton.accepts: follow the single successor, None = stuck *)
  Definition dfa_next (A : enfa Q) (q : Q) (a : N) : option Q := hd_error (succs A (Some a) q).
  Definition accepts_dfa (A : enfa Q) (w : list N) : bool :=
    match fold_left (fun cur a => match cur with Some q => dfa_next A q a | None => None end) w
                    (hd_error (e_starts A)) with
    | Some q => mem q (e_finals A)
    | None => false
    end.

  (* EpsilonNFA.remove_epsilon_transitions *)
  Definition remove_eps (A : enfa Q) : enfa Q :=
    mkE (e_states A) (e_syms A)
        (flat_map (fun q =>
           flat_map (fun e =>
             flat_map (fun t => match t with
                                | (p, Some a, r) => if eqb p e && mem a (e_syms A) then [(q, Some a, r)] else []
                                | _ => []
                                end) (e_delta A))
             (eclose A [q]))
           (e_states A))
        (e_starts A ++ eclose A (e_starts A))
        (e_finals A ++ filter (fun q => is_final_set A (eclose A [q])) (e_states A)).

  (* EpsilonNFA.reverse *)
  Definition reverse (A : enfa Q) : enfa Q :=
    mkE (e_states A) (e_syms A)
        (map (fun t => match t with (p, l, q) => (q, l, p) end) (e_delta A))
        (e_finals A) (e_starts A).

  (* EpsilonNFA.is_empty: is a final state reachable from a start state by any edges *)
  Definition all_succs (A : enfa Q) (q : Q) : list Q :=
    flat_map (fun t => match t with (p, _, r) => if eqb p q then [r] else [] end) (e_delta A).
  Definition is_empty (A : enfa Q) : bool :=
    negb (existsb (fun q => mem q (e_finals A))
                  (closure (all_succs A) (e_starts A ++ targets A) (e_starts A))).

  (* is_deterministic (EpsilonNFA version; the NFA version is the same without the eclose test,
     which is vacuous without epsilon edges) *)
  Definition is_deterministic (A : enfa Q) : bool :=
    Nat.leb (length (dedup (e_starts A))) 1 &&
    forallb (fun t => match t with (p, l, q) =>
               forallb (fun t' => match t' with (p', l', q') =>
                          negb (eqb p p' && eqb l l') || eqb q q' end) (e_delta A) end) (e_delta A) &&
    forallb (fun q => subset (eclose A [q]) [q]) (e_states A).

  (* get_complement on a deterministic automaton: flip finals, add a trash state (None) *)
  Definition complement (A : enfa Q) : enfa (option Q) :=
    let lift t := match t with (p, l, q) => (Some p, l, Some q) end in
    let missing := flat_map (fun q => flat_map (fun a =>
                      match step_set A (eclose A [q]) a with [] => [(Some q, Some a, None)] | _ => [] end)
                      (e_syms A)) (e_states A) in
    mkE (None :: map Some (e_states A)) (e_syms A)
        (map lift (e_delta A) ++ missing ++ map (fun a => (None, Some a, None)) (e_syms A))
        (map Some (e_starts A))
        (None :: map Some (diff (e_states A) (e_finals A))).
End Ops.

(* product construction (get_intersection) over the reachable pairs *)
Section Product.
  Context {Q1 Q2 : Type} `{EqDec Q1} `{EqDec Q2}.
  Variable A : enfa Q1.
  Variable B : enfa Q2.

  Definition isyms : list N := inter (e_syms A) (e_syms B).
  Definition pstarts : list (Q1 * Q2) := list_prod (eclose A (e_starts A)) (eclose B (e_starts B)).
  Definition psuccs (pq : Q1 * Q2) : list (Q1 * Q2) :=
    flat_map (fun a => list_prod (dstep A [fst pq] a) (dstep B [snd pq] a)) isyms.
  Definition intersection (n : nat) : option (enfa (Q1 * Q2)) :=
    match close_from psuccs n pstarts with
    | None => None
    | Some pairs =>
      Some (mkE (pairs ++ list_prod (e_finals A) (e_finals B)) isyms
                (flat_map (fun pq => flat_map (fun a =>
                     map (fun r => (pq, Some a, r)) (list_prod (dstep A [fst pq] a) (dstep B [snd pq] a))) isyms) pairs)
                pstarts
                (list_prod (e_finals A) (e_finals B)))
    end.
End Product.

(* subset construction (_to_deterministic_internal) *)
Section Det.
  Context {Q : Type} `{EqDec Q} `{Canon Q}.
  Variable use_eclose : bool.
  Variable A : enfa Q.

  Definition dclose (S : list Q) : list Q := norm (if use_eclose then eclose A S else S).
  Definition dstart : list Q := dclose (e_starts A).
  Definition dnext (S : list Q) (a : N) : list (list Q) :=
    match step_set A S a with [] => [] | T => [dclose T] end.
  Definition dsuccs (S : list Q) : list (list Q) := flat_map (dnext S) (e_syms A).
  Definition determinize (n : nat) : option (enfa (list Q)) :=
    match close_from dsuccs n [dstart] with
    | None => None
    | Some sts =>
      Some (mkE sts (e_syms A)
                (flat_map (fun S => flat_map (fun a => map (fun T => (S, Some a, T)) (dnext S a)) (e_syms A)) sts)
                [dstart]
                (filter (is_final_set A) sts))
    end.
End Det.

(* get_difference: the other operand over the joint alphabet, determinised and complemented, then the product *)
Definition with_syms {Q} (A : enfa Q) (s : list N) : enfa Q :=
  mkE (e_states A) s (e_delta A) (e_starts A) (e_finals A).
Definition difference_fa {Q1 Q2} `{EqDec Q1} `{EqDec Q2} `{Canon Q2} (A : enfa Q1) (B : enfa Q2) (n m : nat) :=
  match determinize true (with_syms B (union (e_syms B) (e_syms A))) n with
  | Some D => intersection A (complement D) m
  | None => None
  end.
