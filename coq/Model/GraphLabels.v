(* Edge labels of the networkx export of PDAs and transducers (C20): PDA.to_networkx writes
   json(input) ++ " -> " ++ json(stack_from) ++ " / " ++ json(stack_to), FST.to_networkx writes
   json(input) ++ " -> " ++ json(outputs); from_networkx reads them back with str.split and tuple unpacking
   (exactly two parts, otherwise ValueError). Strings are lists of code points; json.dumps / json.loads are not modelled:
   the fields are the already encoded texts. *)
From Coq Require Import List Bool NArith Arith.
Import ListNotations.

Definition str := list N.

Fixpoint prefixb (p s : str) : bool :=
  match p, s with
  | [], _ => true
  | a :: p', b :: s' => if N.eqb a b then prefixb p' s' else false
  | _ :: _, [] => false
  end.

(* Python's s.split(sep) for a non-empty sep: leftmost non-overlapping occurrences. [skip] counts the characters of a
   matched separator still to be passed over, [cur] is the current part, reversed. *)
Fixpoint split_aux (sep : str) (skip : nat) (cur : str) (s : str) : list str :=
  match s with
  | [] => [rev cur]
  | c :: s' =>
      match skip with
      | S k => split_aux sep k cur s'
      | O => if prefixb sep s then rev cur :: split_aux sep (length sep - 1) [] s'
             else split_aux sep 0 (c :: cur) s'
      end
  end.
Definition split (sep s : str) : list str := split_aux sep 0 [] s.

(* number of positions at which sep occurs (overlapping occurrences counted) *)
Fixpoint occ (sep s : str) : nat :=
  match s with
  | [] => 0
  | _ :: s' => (if prefixb sep s then 1 else 0) + occ sep s'
  end.

Definition sep_arrow : str := [32; 45; 62; 32]%N.   (* " -> " *)
Definition sep_slash : str := [32; 47; 32]%N.       (* " / "  *)

Definition pda_label (a b c : str) : str := a ++ sep_arrow ++ b ++ sep_slash ++ c.
Definition fst_label (a b : str) : str := a ++ sep_arrow ++ b.

(* a, b = s.split(sep): None stands for the ValueError of the unpacking *)
Definition split2 (sep s : str) : option (str * str) :=
  match split sep s with
  | [x; y] => Some (x, y)
  | _ => None
  end.

Definition read_fst_label (s : str) : option (str * str) := split2 sep_arrow s.
Definition read_pda_label (s : str) : option (str * str * str) :=
  match split2 sep_arrow s with
  | Some (a, rest) => match split2 sep_slash rest with
                      | Some (b, c) => Some (a, b, c)
                      | None => None
                      end
  | None => None
  end.
