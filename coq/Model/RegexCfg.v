(* Model of Regex.to_cfg (C05): one variable per node of the expression tree, named by a running counter
   ("A0", "A1", ... = Some 0, Some 1, ...; the start symbol "S" = None); each operator contributes the productions of
   its get_cfg_rules. *)
From Coq Require Import List NArith.
From PFL Require Import Base.ListSet Spec.Regex Spec.Cfg Model.Cfg.
Import ListNotations.

Definition rvar : Type := option nat.
Definition rprod : Type := (rvar * list (symb rvar))%type.

Fixpoint re_prods (r : re) (cur : rvar) (count : nat) : list rprod * nat :=
  match r with
  | REmpty => ([], count)
  | REps => ([(cur, [])], count)
  | RSym a => ([(cur, [T a])], count)
  | RCat r1 r2 =>
      let s1 := Some count in
      let (p1, c1) := re_prods r1 s1 (S count) in
      let s2 := Some c1 in
      let (p2, c2) := re_prods r2 s2 (S c1) in
      (p1 ++ p2 ++ [(cur, [V s1; V s2])], c2)
  | RAlt r1 r2 =>
      let s1 := Some count in
      let (p1, c1) := re_prods r1 s1 (S count) in
      let s2 := Some c1 in
      let (p2, c2) := re_prods r2 s2 (S c1) in
      (p1 ++ p2 ++ [(cur, [V s1]); (cur, [V s2])], c2)
  | RStar r1 =>
      let s1 := Some count in
      let (p1, c1) := re_prods r1 s1 (S count) in
      (p1 ++ [(cur, []); (cur, [V cur; V cur]); (cur, [V s1])], c1)
  end.

Definition re_cfg (r : re) : cfg rvar := mkcfg [] [] (Some None) (fst (re_prods r None 0)).
