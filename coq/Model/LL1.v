(* LL(1): FIRST / FOLLOW, predict sets, verdict, table-driven parser (C14). No proofs here. *)
From Coq Require Import List Bool Arith NArith.
From PFL Require Import Base.ListSet Base.Saturate Spec.Cfg Model.Cfg.
Import ListNotations.

Section L.
  Context {Vr : Type} `{EqDec Vr}.
  Variable G : cfg Vr.
  Notation fpair := (Vr * option N)%type.          (* FIRST: None = epsilon;  FOLLOW: None = end marker $ *)

  Definition lookaheads : list (option N) := None :: map Some (g_terms G).
  Definition pair_cands : list fpair := list_prod (g_vars G) lookaheads.

  (* FIRST of a body under the current approximation S of FIRST on variables *)
  Fixpoint first_body (S : list fpair) (body : list (symb Vr)) : list (option N) :=
    match body with
    | [] => [None]
    | T a :: _ => [Some a]
    | V B :: r =>
      let fb := flat_map (fun p => if eqb B (fst p) then match snd p with Some a => [Some a] | None => [] end else []) S in
      if mem (B, None) S then fb ++ first_body S r else fb
    end.
  Definition first_ok (S : list fpair) (c : fpair) : bool :=
    existsb (fun p => eqb (fst c) (fst p) &&& mem (snd c) (first_body S (snd p))) (g_prods G).
  (* get_first_set (trigger queue in the code; least solution of the same rules) *)
  Definition first_set : list fpair := saturate pair_cands first_ok.

  Definition nullable_body (body : list (symb Vr)) : bool := mem None (first_body first_set body).

  (* suffixes of a body that follow an occurrence of variable X *)
  Fixpoint suffixes_after (X : Vr) (body : list (symb Vr)) : list (list (symb Vr)) :=
    match body with
    | [] => []
    | Y :: r => (match Y with V B => if eqb B X then [r] else [] | T _ => [] end) ++ suffixes_after X r
    end.
  Definition follow_ok (S : list fpair) (c : fpair) : bool :=
    (match g_start G, snd c with Some s, None => eqb s (fst c) | _, _ => false end) ||
    existsb (fun p => existsb (fun post =>
                (match snd c with Some a => mem (Some a) (first_body first_set post) | None => false end) ||
                (nullable_body post &&& mem (fst p, snd c) S)) (suffixes_after (fst c) (snd p))) (g_prods G).
  Definition follow_set : list fpair := saturate pair_cands follow_ok.

  (* predict set of a production: FIRST(body) without epsilon, plus FOLLOW(head) when the body is nullable *)
  Definition predict (p : Vr * list (symb Vr)) : list (option N) :=
    let fb := first_body first_set (snd p) in
    dedup (filter (fun x => match x with Some _ => true | None => false end) fb ++
           (if mem None fb then map snd (filter (fun q => eqb (fst p) (fst q)) follow_set) else [])).
  (* in predict, None stands for the end marker (it only comes from FOLLOW) *)

  Definition is_ll1 : bool :=
    let ps := dedup (g_prods G) in
    forallb (fun p => forallb (fun q => eqb p q || negb (eqb (fst p) (fst q)) ||
                                        forallb (fun x => negb (mem x (predict q))) (predict p)) ps) ps.

  (* table-driven parser, as a recursive descent over the same table *)
  Definition choose (A : Vr) (la : option N) : list (list (symb Vr)) :=
    map snd (filter (fun p => eqb A (fst p) &&& mem la (predict p)) (dedup (g_prods G))).
  Fixpoint parse_sym (fuel : nat) (X : symb Vr) (w : list N) : option (tree Vr * list N) :=
    match fuel with
    | O => None
    | S f =>
      match X with
      | T a => match w with b :: r => if N.eqb a b then Some (Node (T a) [], r) else None | [] => None end
      | V A =>
        match choose A (match w with b :: _ => Some b | [] => None end) with
        | [body] =>
          match (fix parse_body (body : list (symb Vr)) (w : list N) : option (list (tree Vr) * list N) :=
             match body with
             | [] => Some ([], w)
             | Y :: r => match parse_sym f Y w with
                         | Some (t, w') => match parse_body r w' with
                                           | Some (ts, w'') => Some (t :: ts, w'')
                                           | None => None
                                           end
                         | None => None
                         end
             end) body w with
          | Some (ts, w') => Some (Node (V A) ts, w')
          | None => None
          end
        | _ => None
        end
      end
    end.
  Definition ll1_parse (fuel : nat) (w : list N) : option (tree Vr) :=
    match g_start G with
    | Some s => match parse_sym fuel (V s) w with Some (t, []) => Some t | _ => None end
    | None => None
    end.
End L.
