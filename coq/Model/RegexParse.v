(* Reference parser for the documented regex syntax (C05), on token lists:
     union  ::= concat (("|" | "+") concat)*          lowest precedence
     concat ::= star (("." | juxtaposition) star)*
     star   ::= atom "*"*                               highest precedence
     atom   ::= symbol | epsilon | "(" union ")"
   pyformlang's own parser (outer-parenthesis stripping + precedence by inserting parentheses) is compared with it
   on the tree it builds (head / sons) and on languages. *)
From Coq Require Import List Bool NArith.
From PFL Require Import Spec.Regex.
Import ListNotations.

Inductive tok := TSym (a : N) | TEps | TLp | TRp | TStar | TUnion | TConcat.

Fixpoint stars (r : re) (ts : list tok) : re * list tok :=
  match ts with
  | TStar :: rest => stars (RStar r) rest
  | _ => (r, ts)
  end.

Definition starts_atom (ts : list tok) : bool :=
  match ts with TSym _ :: _ | TEps :: _ | TLp :: _ => true | _ => false end.

Fixpoint parse_union (fuel : nat) (ts : list tok) : option (re * list tok) :=
  match fuel with
  | O => None
  | S f =>
    let parse_atom ts :=
      match ts with
      | TSym a :: rest => Some (RSym a, rest)
      | TEps :: rest => Some (REps, rest)
      | TLp :: rest => match parse_union f rest with
                       | Some (r, TRp :: rest') => Some (r, rest')
                       | _ => None
                       end
      | _ => None
      end in
    let parse_star ts := match parse_atom ts with Some (r, rest) => Some (stars r rest) | None => None end in
    let parse_concat :=
      fix pc (g : nat) (ts : list tok) : option (re * list tok) :=
        match g with
        | O => None
        | S g' =>
          match parse_star ts with
          | None => None
          | Some (r, rest) =>
            match rest with
            | TConcat :: rest' => match pc g' rest' with Some (r2, rest2) => Some (RCat r r2, rest2) | None => None end
            | _ => if starts_atom rest
                   then match pc g' rest with Some (r2, rest2) => Some (RCat r r2, rest2) | None => None end
                   else Some (r, rest)
            end
          end
        end in
    let fix pu (g : nat) (ts : list tok) : option (re * list tok) :=
        match g with
        | O => None
        | S g' =>
          match parse_concat f ts with
          | None => None
          | Some (r, TUnion :: rest') => match pu g' rest' with Some (r2, rest2) => Some (RAlt r r2, rest2) | None => None end
          | Some (r, rest) => Some (r, rest)
          end
        end in
    pu f ts
  end.

Definition parse_regex (ts : list tok) : option re :=
  match ts with
  | [] => Some REmpty
  | _ => match parse_union (S (length ts)) ts with Some (r, []) => Some r | _ => None end
  end.
