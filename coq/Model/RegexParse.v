(* Reference parser for the documented regex syntax (C05), on token lists:
     union  ::= concat (("|" | "+") concat)*          lowest precedence
     concat ::= star (("." | juxtaposition) star)*
     star   ::= atom "*"*                               highest precedence
     atom   ::= symbol | epsilon | "(" union ")"
   pyformlang's own parser (outer-parenthesis stripping + precedence by inserting parentheses) is compared with it
   on the tree it builds (head / sons) and on languages. Proofs/RegexParse.v: the parser reads back every expression
   from its minimally parenthesised text. *)
From Coq Require Import List Bool NArith.
From PFL Require Import Spec.Regex.
Import ListNotations.

Inductive tok := TSym (a : N) | TEps | TLp | TRp | TStar | TUnion | TConcat.

Fixpoint stars (r : re) (ts : list tok) : re * list tok :=
  match ts with
  | TStar :: rest => stars (RStar r) rest
  | _ => (r, ts)
  end.

Definition starts_atom (ts : list tok) : bool :=
  match ts with TSym _ :: _ | TEps :: _ | TLp :: _ => true | _ => false end.


(* rec parses what stands between parentheses *)
Definition parse_atom (rec : list tok -> option (re * list tok)) (ts : list tok) : option (re * list tok) :=
  match ts with
  | TSym a :: rest => Some (RSym a, rest)
  | TEps :: rest => Some (REps, rest)
  | TLp :: rest => match rec rest with
                   | Some (r, TRp :: rest') => Some (r, rest')
                   | _ => None
                   end
  | _ => None
  end.

Definition parse_star (rec : list tok -> option (re * list tok)) (ts : list tok) : option (re * list tok) :=
  match parse_atom rec ts with Some (r, rest) => Some (stars r rest) | None => None end.

Fixpoint parse_concat (rec : list tok -> option (re * list tok)) (g : nat) (ts : list tok) : option (re * list tok) :=
  match g with
  | O => None
  | S g' =>
    match parse_star rec ts with
    | None => None
    | Some (r, rest) =>
      match rest with
      | TConcat :: rest' => match parse_concat rec g' rest' with Some (r2, rest2) => Some (RCat r r2, rest2) | None => None end
      | _ => if starts_atom rest
             then match parse_concat rec g' rest with Some (r2, rest2) => Some (RCat r r2, rest2) | None => None end
             else Some (r, rest)
      end
    end
  end.

Fixpoint parse_alt (rec : list tok -> option (re * list tok)) (f g : nat) (ts : list tok) : option (re * list tok) :=
  match g with
  | O => None
  | S g' =>
    match parse_concat rec f ts with
    | None => None
    | Some (r, TUnion :: rest') => match parse_alt rec f g' rest' with Some (r2, rest2) => Some (RAlt r r2, rest2) | None => None end
    | Some (r, rest) => Some (r, rest)
    end
  end.

Fixpoint parse_union (fuel : nat) (ts : list tok) : option (re * list tok) :=
  match fuel with
  | O => None
  | S f => parse_alt (parse_union f) f f ts
  end.

Definition parse_regex (ts : list tok) : option re :=
  match ts with
  | [] => Some REmpty
  | _ => match parse_union (S (length ts)) ts with Some (r, []) => Some r | _ => None end
  end.

(* printer with the fewest parentheses the documented precedences allow (star > concatenation > union, both binary
   operators grouping to the right): lvl 0 = a union may appear bare, 1 = a concatenation may, 2 = neither;
   dot = concatenation written "." (otherwise by juxtaposition) *)
Fixpoint pr (dot : bool) (lvl : nat) (r : re) : list tok :=
  match r with
  | REmpty => []
  | REps => [TEps]
  | RSym a => [TSym a]
  | RStar a => pr dot 2 a ++ [TStar]
  | RCat a b => let s := pr dot 2 a ++ (if dot then [TConcat] else []) ++ pr dot 1 b in if Nat.leb lvl 1 then s else TLp :: s ++ [TRp]
  | RAlt a b => let s := pr dot 1 a ++ TUnion :: pr dot 0 b in if Nat.eqb lvl 0 then s else TLp :: s ++ [TRp]
  end.

(* Regex.__repr__ / get_str_repr: every operator application is printed between parentheses, "(a.b)", "(a|b)", "(a)*";
   the empty language is the empty text *)
Fixpoint pr_py (r : re) : list tok :=
  match r with
  | REmpty => []
  | REps => [TEps]
  | RSym a => [TSym a]
  | RCat a b => TLp :: pr_py a ++ TConcat :: pr_py b ++ [TRp]
  | RAlt a b => TLp :: pr_py a ++ TUnion :: pr_py b ++ [TRp]
  | RStar a => TLp :: pr_py a ++ [TRp; TStar]
  end.
