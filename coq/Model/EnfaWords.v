(* is_acyclic and get_accepted_words (C04). No proofs here. *)
From Coq Require Import List Bool Arith NArith.
From PFL Require Import Base.Loop Base.ListSet Base.Closure Spec.Enfa Model.Enfa Model.EnfaOps.
Import ListNotations.

Section W.
  Context {Q : Type} `{EqDec Q}.

  Definition universe (A : enfa Q) : list Q := e_starts A ++ e_finals A ++ targets A ++ map (fun t => fst (fst t)) (e_delta A).

  (* FiniteAutomaton.is_acyclic: modelled by its specification (the path-set search of the code decides the
     same question): no state reachable from a start state lies on a cycle *)
  Definition on_cycle (A : enfa Q) (q : Q) : bool :=
    mem q (closure (all_succs A) (universe A) (all_succs A q)).
  Definition is_acyclic (A : enfa Q) : bool :=
    forallb (fun q => negb (on_cycle A q)) (closure (all_succs A) (universe A) (e_starts A)).

  (* _get_states_leading_to_final: backward closure of the final states *)
  Definition all_preds (A : enfa Q) (q : Q) : list Q :=
    flat_map (fun t => match t with (p, _, r) => if eqb r q then [p] else [] end) (e_delta A).
  Definition leading_to_final (A : enfa Q) : list Q :=
    closure (all_preds A) (universe A) (e_finals A).

  (* get_accepted_words: exploration of (state, word) pairs, pruned to states leading to a final state;
     max_length = None explores without bound *)
  Definition wsucc (A : enfa Q) (n : option nat) (lead : list Q) (qw : Q * list N) : list (Q * list N) :=
    flat_map (fun t => match t with (p, l, r) =>
        if eqb p (fst qw) && mem r lead then
          match l with
          | None => [(r, snd qw)]
          | Some a => if match n with Some k => Nat.ltb (length (snd qw)) k | None => true end
                      then [(r, snd qw ++ [a])] else []
          end
        else [] end) (e_delta A).

  Definition accepted_words (fuel : nat) (A : enfa Q) (n : option nat) : option (list (list N)) :=
    match close_from (wsucc A n (leading_to_final A)) fuel (map (fun s => (s, [])) (e_starts A)) with
    | Some R => Some (dedup (map snd (filter (fun qw => mem (fst qw) (e_finals A)) R)))
    | None => None
    end.
End W.
