(* Rational combinators on automata (union, concatenation, star, atoms) with structured state types,
   and the automaton of a regular expression built from them. Reference constructions: proved in
   Proofs/RegexFA.v; pyformlang's own constructions are compared with them by language equivalence. *)
From Coq Require Import List Bool NArith.
From PFL Require Import Base.ListSet Spec.Enfa Spec.Regex.
Import ListNotations.

Definition lift_edges {Q R} (f : Q -> R) (d : list (Q * option N * Q)) : list (R * option N * R) :=
  map (fun t => match t with (p, l, q) => (f p, l, f q) end) d.

Definition fa_empty : enfa unit := mkE [tt] [] [] [tt] [].
Definition fa_eps : enfa unit := mkE [tt] [] [] [tt] [tt].
Definition fa_sym (a : N) : enfa bool := mkE [false; true] [a] [(false, Some a, true)] [false] [true].

Definition fa_union {Q1 Q2} (A : enfa Q1) (B : enfa Q2) : enfa (Q1 + Q2) :=
  mkE (map inl (e_states A) ++ map inr (e_states B)) (e_syms A ++ e_syms B)
      (lift_edges inl (e_delta A) ++ lift_edges inr (e_delta B))
      (map inl (e_starts A) ++ map inr (e_starts B))
      (map inl (e_finals A) ++ map inr (e_finals B)).

Definition fa_concat {Q1 Q2} (A : enfa Q1) (B : enfa Q2) : enfa (Q1 + Q2) :=
  mkE (map inl (e_states A) ++ map inr (e_states B)) (e_syms A ++ e_syms B)
      (lift_edges inl (e_delta A) ++ lift_edges inr (e_delta B) ++
       flat_map (fun f => map (fun s => (inl f, None, inr s)) (e_starts B)) (e_finals A))
      (map inl (e_starts A))
      (map inr (e_finals B)).

Definition fa_star {Q} (A : enfa Q) : enfa (option Q) :=
  mkE (None :: map Some (e_states A)) (e_syms A)
      (lift_edges Some (e_delta A) ++
       map (fun s => (None, None, Some s)) (e_starts A) ++
       map (fun f => (Some f, None, None)) (e_finals A))
      [None] [None].

Fixpoint re_st (r : re) : Type :=
  match r with
  | REmpty | REps => unit
  | RSym _ => bool
  | RCat a b | RAlt a b => (re_st a + re_st b)%type
  | RStar a => option (re_st a)
  end.

Fixpoint re_fa (r : re) : enfa (re_st r) :=
  match r with
  | REmpty => fa_empty
  | REps => fa_eps
  | RSym a => fa_sym a
  | RCat a b => fa_concat (re_fa a) (re_fa b)
  | RAlt a b => fa_union (re_fa a) (re_fa b)
  | RStar a => fa_star (re_fa a)
  end.

Fixpoint re_eqdec (r : re) : EqDec (re_st r) :=
  match r with
  | REmpty | REps => EqDec_unit
  | RSym _ => EqDec_bool
  | RCat a b | RAlt a b => @EqDec_sum _ _ (re_eqdec a) (re_eqdec b)
  | RStar a => @EqDec_option _ (re_eqdec a)
  end.
#[export] Existing Instance re_eqdec.
Definition re_canon (r : re) : Canon (re_st r) := @Canon_dedup _ (re_eqdec r).
#[export] Existing Instance re_canon.
