(* Token-level model of Variable.to_text / Terminal.to_text and the classification in CFG._read_line (C20).
   A symbol value is abstracted as (starts with an upper-case letter?, is an epsilon spelling?, identity). *)
From Coq Require Import List Bool NArith.
Import ListNotations.

Record sval := mkV { upper : bool; eps_spelling : bool; ident : N }.
Inductive marker := MNone | MVar | MTer.
Inductive gsym := GVar (v : sval) | GTer (v : sval).

(* Variable.to_text: "VAR:" unless the text starts with an upper-case letter; Terminal.to_text: "TER:" iff it does *)
Definition to_text (s : gsym) : marker * sval :=
  match s with
  | GVar v => (if upper v then MNone else MVar, v)
  | GTer v => (if upper v then MTer else MNone, v)
  end.

(* _read_line: a body component is a variable if marked VAR or (not marked TER and upper-case); otherwise a terminal
   unless it is an unmarked epsilon spelling (then it is dropped) *)
Definition from_text (t : marker * sval) : option gsym :=
  let (m, v) := t in
  match m with
  | MVar => Some (GVar v)
  | MTer => Some (GTer v)
  | MNone => if upper v then Some (GVar v) else if eps_spelling v then None else Some (GTer v)
  end.

Definition value_of (s : gsym) : sval := match s with GVar v | GTer v => v end.

Theorem symbol_text_roundtrip s : eps_spelling (value_of s) = false -> from_text (to_text s) = Some s.
Proof. destruct s as [v|v]; cbn; destruct (upper v) eqn:U; cbn; rewrite ?U; intros E; rewrite ?E; reflexivity. Qed.

(* the same classification with the pre-fix test order (upper-case first) loses capitalised terminals *)
Definition from_text_old (t : marker * sval) : option gsym :=
  let (m, v) := t in
  if upper v || match m with MVar => true | _ => false end then Some (GVar v)
  else if negb (eps_spelling v) || match m with MTer => true | _ => false end then Some (GTer v) else None.
Example old_order_refuted : exists s, eps_spelling (value_of s) = false /\ from_text_old (to_text s) <> Some s.
Proof. exists (GTer (mkV true false 0%N)). split; [reflexivity|]. cbn. discriminate. Qed.
