(* Model of Regex.to_epsilon_nfa (C05): pyformlang's Thompson-style construction. States are the values of the running
   counter; every operator is compiled between a source state p and a target state q that it is given, with two fresh
   states (concatenation, Kleene star) or two fresh states per branch (union). *)
From Coq Require Import List NArith.
From PFL Require Import Base.ListSet Spec.Enfa Spec.Regex.
Import ListNotations.

Definition tedge : Type := (nat * option N * nat)%type.

Fixpoint th (r : re) (p q : nat) (c : nat) : list tedge * nat :=
  match r with
  | REmpty => ([], c)
  | REps => ([(p, None, q)], c)
  | RSym a => ([(p, Some a, q)], c)
  | RCat r1 r2 =>
      let (e1, c1) := th r1 p c (S (S c)) in
      let (e2, c2) := th r2 (S c) q c1 in
      ((c, None, S c) :: e1 ++ e2, c2)
  | RAlt r1 r2 =>
      let (e1, c1) := th r1 c (S c) (S (S c)) in
      let (e2, c2) := th r2 c1 (S c1) (S (S c1)) in
      ((p, None, c) :: (S c, None, q) :: e1 ++ (p, None, c1) :: (S c1, None, q) :: e2, c2)
  | RStar r1 =>
      let (e1, c1) := th r1 c (S c) (S (S c)) in
      ((S c, None, c) :: (p, None, q) :: (p, None, c) :: (S c, None, q) :: e1, c1)
  end.

(* c = value of the counter when to_epsilon_nfa is called (0 on a fresh Regex; the counter is not reset by earlier compilations) *)
Definition re_enfa_at (c : nat) (r : re) : enfa nat :=
  let E := fst (th r c (S c) (S (S c))) in
  mkE (dedup (c :: S c :: flat_map (fun e => [fst (fst e); snd e]) E))
      (dedup (flat_map (fun e => match snd (fst e) with Some a => [a] | None => [] end) E))
      E [c] [S c].
Definition re_enfa (r : re) : enfa nat := re_enfa_at 0 r.
