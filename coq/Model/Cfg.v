(* Executable models of pyformlang's CFG algorithms (cfg.py, utils_cfg.py, cyk_table.py). No proofs here. *)
From Coq Require Import List Bool Arith NArith.
From PFL Require Import Base.Loop Base.ListSet Base.Closure Base.Saturate Spec.Cfg.
Import ListNotations.

Section SymbEq.
  Context {Vr : Type} `{EqDec Vr}.
  Definition symb_eqb (x y : symb Vr) : bool :=
    match x, y with V a, V b => eqb a b | T a, T b => N.eqb a b | _, _ => false end.
  Lemma symb_eqb_spec x y : reflect (x = y) (symb_eqb x y).
  Proof.
    destruct x as [a|a], y as [b|b]; cbn; try (constructor; congruence).
    - destruct (eqb_spec a b); constructor; congruence.
    - destruct (N.eqb_spec a b); constructor; congruence.
  Qed.
  #[export] Instance EqDec_symb : EqDec (symb Vr) := {| eqb := symb_eqb; eqb_spec := symb_eqb_spec |}.
End SymbEq.

Section C.
  Context {Vr : Type} `{EqDec Vr}.
  Notation prod := (Vr * list (symb Vr))%type.

  Definition body_vars (body : list (symb Vr)) : list Vr := flat_map (fun X => match X with V B => [B] | T _ => [] end) body.
  Definition body_terms (body : list (symb Vr)) : list N := flat_map (fun X => match X with V _ => [] | T a => [a] end) body.
  Definition olist {X} (o : option X) : list X := match o with Some x => [x] | None => [] end.

  (* CFG.__init__: the start symbol, every head and every body symbol are added to the variable / terminal sets *)
  Definition mkcfg (vars : list Vr) (terms : list N) (start : option Vr) (prods : list prod) : cfg Vr :=
    mkG (dedup (vars ++ olist start ++ map fst prods ++ flat_map (fun p => body_vars (snd p)) prods))
        (dedup (terms ++ flat_map (fun p => body_terms (snd p)) prods))
        start prods.

  Definition heads (G : cfg Vr) : list Vr := dedup (map fst (g_prods G)).

  (* every symbol of the body is a terminal (when allowed) or already in S *)
  Definition body_in (ter_ok : bool) (S : list Vr) (body : list (symb Vr)) : bool :=
    forallb (fun X => match X with V B => mem B S | T _ => ter_ok end) body.
  Definition head_ok (G : cfg Vr) (ter_ok : bool) (S : list Vr) (A : Vr) : bool :=
    existsb (fun p => eqb A (fst p) &&& body_in ter_ok S (snd p)) (g_prods G).

  (* get_generating_symbols / get_nullable_symbols: the counter worklist of the code computes the least set closed
     under "some production has all its body symbols in the set"; modelled by saturation (unique result) *)
  Definition generating_vars (G : cfg Vr) : list Vr := saturate (heads G) (head_ok G true).
  Definition nullable_vars (G : cfg Vr) : list Vr := saturate (heads G) (head_ok G false).
  Definition generating_symbols (G : cfg Vr) : list (symb Vr) := map V (generating_vars G) ++ map T (g_terms G).

  Definition is_empty_cfg (G : cfg Vr) : bool :=
    match g_start G with Some s => negb (mem s (generating_vars G)) | None => true end.
  Definition generate_epsilon (G : cfg Vr) : bool :=
    match g_start G with Some s => mem s (nullable_vars G) | None => false end.

  (* get_reachable_symbols *)
  Definition sym_succs (G : cfg Vr) (X : symb Vr) : list (symb Vr) :=
    match X with
    | V A => flat_map (fun p => if eqb A (fst p) then snd p else []) (g_prods G)
    | T _ => []
    end.
  Definition all_symbols (G : cfg Vr) : list (symb Vr) :=
    map V (olist (g_start G)) ++ flat_map (fun p => V (fst p) :: snd p) (g_prods G).
  Definition reachable_symbols (G : cfg Vr) : list (symb Vr) :=
    closure (sym_succs G) (all_symbols G) (map V (olist (g_start G))).

  (* remove_useless_symbols *)
  Definition symb_in_gen (gen : list Vr) (X : symb Vr) : bool := match X with V B => mem B gen | T _ => true end.
  Definition remove_useless (G : cfg Vr) : cfg Vr :=
    let gen := generating_vars G in
    let prods1 := filter (fun p => mem (fst p) gen && forallb (symb_in_gen gen) (snd p)) (g_prods G) in
    let vars1 := filter (fun A => mem A gen) (g_vars G) in
    let G1 := mkcfg vars1 (g_terms G) (g_start G) prods1 in
    let reach := reachable_symbols G1 in
    let prods2 := filter (fun p => mem (V (fst p)) reach) prods1 in
    mkcfg (filter (fun A => mem (V A) reach) vars1) (filter (fun a => mem (T a) reach) (g_terms G)) (g_start G) prods2.

  (* utils_cfg.remove_nullable_production_sub / remove_nullable_production *)
  Fixpoint nullable_sub (nul : list Vr) (body : list (symb Vr)) : list (list (symb Vr)) :=
    match body with
    | [] => [[]]
    | X :: rest =>
      flat_map (fun b => (match X with V B => if mem B nul then [b] else [] | T _ => [] end) ++ [X :: b])
               (nullable_sub nul rest)
    end.
  Definition remove_epsilon (G : cfg Vr) : cfg Vr :=
    let nul := nullable_vars G in
    mkcfg (g_vars G) (g_terms G) (g_start G)
          (flat_map (fun p => map (fun b => (fst p, b)) (filter (fun b => negb (match b with [] => true | _ => false end)) (nullable_sub nul (snd p))))
                    (g_prods G)).

  (* get_unit_pairs / eliminate_unit_productions *)
  Definition is_unit (p : prod) : bool := match snd p with [V _] => true | _ => false end.
  Definition unit_succs (G : cfg Vr) (ab : Vr * Vr) : list (Vr * Vr) :=
    flat_map (fun p => match snd p with [V C] => if eqb (snd ab) (fst p) then [(fst ab, C)] else [] | _ => [] end) (g_prods G).
  Definition unit_universe (G : cfg Vr) : list (Vr * Vr) :=
    let vs := g_vars G ++ flat_map (fun p => body_vars (snd p)) (g_prods G) in list_prod vs vs.
  Definition unit_pairs (G : cfg Vr) : list (Vr * Vr) :=
    closure (unit_succs G) (unit_universe G) (map (fun A => (A, A)) (g_vars G)).
  Definition eliminate_unit (G : cfg Vr) : cfg Vr :=
    let nonunit := filter (fun p => negb (is_unit p)) (g_prods G) in
    mkcfg (g_vars G) (g_terms G) (g_start G)
          (nonunit ++ flat_map (fun ab => flat_map (fun p => if eqb (snd ab) (fst p) then [(fst ab, snd p)] else []) nonunit)
                               (unit_pairs G)).

  Definition prod_is_nf (p : prod) : bool :=
    match snd p with [V _; V _] => true | [T _] => true | _ => false end.
  Definition is_normal_form (G : cfg Vr) : bool := forallb prod_is_nf (g_prods G).
End C.

(* variables of the Chomsky normal form: the original ones, one per lifted terminal ("t#CNF#"), fresh ones ("C#CNF#k") *)
Inductive cvar (Vr : Type) := CV (x : Vr) | CT (t : N) | CC (k : N).
Arguments CV {Vr}. Arguments CT {Vr}. Arguments CC {Vr}.
Definition cvar_eqb {Vr} `{EqDec Vr} (x y : cvar Vr) : bool :=
  match x, y with CV a, CV b => eqb a b | CT a, CT b => N.eqb a b | CC a, CC b => N.eqb a b | _, _ => false end.
Lemma cvar_eqb_spec {Vr} `{EqDec Vr} (x y : cvar Vr) : reflect (x = y) (cvar_eqb x y).
Proof.
  destruct x as [a|a|a], y as [b|b|b]; cbn; try (constructor; congruence).
  - destruct (eqb_spec a b); constructor; congruence.
  - destruct (N.eqb_spec a b); constructor; congruence.
  - destruct (N.eqb_spec a b); constructor; congruence.
Qed.
#[export] Instance EqDec_cvar {Vr} `{EqDec Vr} : EqDec (cvar Vr) := {| eqb := cvar_eqb; eqb_spec := cvar_eqb_spec |}.

Section NF.
  Context {Vr : Type} `{EqDec Vr}.
  Notation cprod := (cvar Vr * list (symb (cvar Vr)))%type.

  Definition lift_symb (X : symb Vr) : symb (cvar Vr) := match X with V A => V (CV A) | T a => T a end.
  (* _get_productions_with_only_single_terminals *)
  Definition lift_body (body : list (symb Vr)) : list (symb (cvar Vr)) :=
    match body with
    | [_] => map lift_symb body
    | _ => map (fun X => match X with V A => V (CV A) | T a => V (CT a) end) body
    end.
  Definition single_terminals (G : cfg Vr) : list cprod :=
    let used := dedup (flat_map (fun p => match snd p with [_] => [] | b => body_terms b end) (g_prods G)) in
    map (fun p => (CV (fst p), lift_body (snd p))) (g_prods G) ++ map (fun a => (CT a, [T a])) used.

  (* _decompose_productions: state = (counter, suffix cache, output) *)
  Definition dstate := (N * list (list (symb (cvar Vr)) * cvar Vr) * list cprod)%type.
  Fixpoint assoc_suffix (k : list (symb (cvar Vr))) (done : list (list (symb (cvar Vr)) * cvar Vr)) : option (cvar Vr) :=
    match done with
    | [] => None
    | (k', v) :: r => if eqb k k' then Some v else assoc_suffix k r
    end.
  (* the inner loop over i = 0 .. len(body)-3; [vars] are the pre-allocated fresh variables *)
  Fixpoint decompose_body (head : cvar Vr) (body : list (symb (cvar Vr))) (vars : list (cvar Vr))
           (done : list (list (symb (cvar Vr)) * cvar Vr)) (out : list cprod)
    : list (list (symb (cvar Vr)) * cvar Vr) * list cprod :=
    match body, vars with
    | X :: rest, v :: vs =>
      match assoc_suffix rest done with
      | Some d => (done, out ++ [(head, [X; V d])])
      | None => decompose_body v rest vs ((rest, v) :: done) (out ++ [(head, [X; V v])])
      end
    | _, _ => (done, out ++ [(head, body)])     (* the last two symbols *)
    end.
  Definition decompose_one (st : dstate) (p : cprod) : dstate :=
    match st with (idx, done, out) =>
      let n := length (snd p) in
      if Nat.leb n 2 then (idx, done, out ++ [p])
      else
        let k := (n - 2)%nat in
        let vars := map (fun i => CC (idx + N.of_nat i + 1)%N) (seq 0 k) in
        let '(done', out') := decompose_body (fst p) (snd p) vars done out in
        ((idx + N.of_nat k)%N, done', out')
    end.
  Definition decompose (prods : list cprod) : list cprod :=
    match fold_left decompose_one prods (0%N, [], []) with (_, _, out) => out end.

  (* to_normal_form: fast-path test, five-stage clean-up, recursion *)
  Definition fast_path_ok (G : cfg Vr) : bool :=
    (match nullable_vars G with [] => true | _ => false end) &&
    negb (existsb is_unit (g_prods G)) &&
    Nat.eqb (length (generating_symbols G)) (length (g_vars G) + length (g_terms G)) &&
    Nat.eqb (length (reachable_symbols G)) (length (g_vars G) + length (g_terms G)).
  Definition cleanup (G : cfg Vr) : cfg Vr :=
    remove_useless (eliminate_unit (remove_useless (remove_epsilon (remove_useless G)))).
  Definition lift_cfg (G : cfg Vr) : cfg (cvar Vr) :=
    mkG (map CV (g_vars G)) (g_terms G) (option_map CV (g_start G))
        (map (fun p => (CV (fst p), map lift_symb (snd p))) (g_prods G)).
  Fixpoint to_normal_form (fuel : nat) (G : cfg Vr) : option (cfg (cvar Vr)) :=
    if fast_path_ok G then
      Some (mkcfg [] [] (option_map CV (g_start G)) (decompose (single_terminals G)))
    else match g_prods G with
         | [] => Some (lift_cfg G)
         | _ => match fuel with
                | O => None
                | S f => to_normal_form f (cleanup G)
                end
         end.
End NF.

(* CYK on a grammar in Chomsky normal form, and contains *)
Section CYK.
  Context {X : Type} `{EqDec X}.
  Definition splits (w : list N) : list (list N * list N) :=
    map (fun i => (firstn i w, skipn i w)) (seq 1 (length w - 1)).
  Fixpoint cyk_set (fuel : nat) (G : cfg X) (w : list N) : list X :=
    match fuel with
    | O => []
    | S f =>
      match w with
      | [] => []
      | [a] => dedup (flat_map (fun p => match snd p with [T b] => if N.eqb a b then [fst p] else [] | _ => [] end) (g_prods G))
      | _ => dedup (flat_map (fun uv =>
               let L := cyk_set f G (fst uv) in
               let R := cyk_set f G (snd uv) in
               flat_map (fun p => match snd p with
                                  | [V B; V C] => if mem B L &&& mem C R then [fst p] else []
                                  | _ => [] end) (g_prods G)) (splits w))
      end
    end.
  Definition cyk (G : cfg X) (w : list N) : bool :=
    match g_start G with Some s => mem s (cyk_set (length w) G w) | None => false end.
End CYK.

Definition contains {Vr} `{EqDec Vr} (fuel : nat) (G : cfg Vr) (w : list N) : option bool :=
  match w with
  | [] => Some (generate_epsilon G)
  | _ => option_map (fun C => cyk C w) (to_normal_form fuel G)
  end.
