(* Feature structures without sharing (trees) and their unification (C18). [FS v kids]: atomic value v (None = unspecified)
   and sub-structures by feature name. Mirrors FeatureStructure.unify on structures without re-entrancy. *)
From Coq Require Import List Bool Arith NArith.
From PFL Require Import Base.ListSet.
Import ListNotations.

Inductive fs := FS (v : option N) (kids : list (N * fs)).

Fixpoint lookup (f : N) (kids : list (N * fs)) : option fs :=
  match kids with
  | [] => None
  | (g, x) :: r => if N.eqb f g then Some x else lookup f r
  end.

(* every feature of kb is unified (by u) into the receiver's features acc, added when missing *)
Fixpoint unify_step (u : fs -> fs -> option fs) (kb : list (N * fs)) (acc : list (N * fs)) : option (list (N * fs)) :=
  match kb with
  | [] => Some acc
  | (f, y) :: rest =>
    match lookup f acc with
    | Some x => match u x y with
                | Some z => unify_step u rest (map (fun p => if N.eqb (fst p) f then (f, z) else p) acc)
                | None => None
                end
    | None => match u (FS None []) y with
              | Some z => unify_step u rest (acc ++ [(f, z)])
              | None => None
              end
    end
  end.

(* unify a b: the receiver a gets the information of b *)
Fixpoint unify (fuel : nat) (a b : fs) : option fs :=
  match fuel with
  | O => None
  | S n =>
    match a, b with
    | FS va [], FS vb [] =>
      match va, vb with
      | Some x, Some y => if N.eqb x y then Some (FS va []) else None
      | None, _ => Some (FS vb [])
      | _, None => Some (FS va [])
      end
    | FS va ka, FS vb kb =>
      (* a keeps its own value *)
      match unify_step (unify n) kb ka with Some k => Some (FS va k) | None => None end
    end
  end.

(* all (path, atomic value) pairs, used to compare with the implementation *)
Fixpoint paths (fuel : nat) (a : fs) : list (list N * option N) :=
  match fuel with
  | O => []
  | S n => match a with
           | FS v [] => [([], v)]
           | FS v kids => flat_map (fun p => map (fun q => (fst p :: fst q, snd q)) (paths n (snd p))) kids
           end
  end.

(* ---- flat structures with sharing (re-entrancy): features point to nodes, nodes carry atomic values ---- *)
From PFL Require Import Base.Closure.
Record flatfs := mkFlat { ff_feats : list (N * nat); ff_vals : list (nat * option N) }.

Definition ff_node (a : flatfs) (f : N) : option nat :=
  match filter (fun p => N.eqb (fst p) f) (ff_feats a) with (_, n) :: _ => Some n | [] => None end.
Definition ff_val (a : flatfs) (n : nat) : option N :=
  match filter (fun p => Nat.eqb (fst p) n) (ff_vals a) with (_, v) :: _ => v | [] => None end.

(* nodes of the receiver are numbered 2n, those of the argument 2n+1 *)
Definition unify_flat (a b : flatfs) : option (list (N * list N * option N)) :=
  let na n := (2 * n)%nat in
  let nb n := (2 * n + 1)%nat in
  let links := flat_map (fun p => match ff_node b (fst p) with Some m => [(na (snd p), nb m)] | None => [] end) (ff_feats a) in
  let nodes := dedup (map (fun p => na (snd p)) (ff_feats a) ++ map (fun p => nb (snd p)) (ff_feats b)) in
  let nbrs x := flat_map (fun l => if Nat.eqb (fst l) x then [snd l] else if Nat.eqb (snd l) x then [fst l] else []) links in
  let cls x := closure nbrs nodes [x] in
  let valof x := if Nat.even x then ff_val a (Nat.div2 x) else ff_val b (Nat.div2 x) in
  let cval x := dedup (flat_map (fun y => match valof y with Some v => [v] | None => [] end) (cls x)) in
  let feats := ff_feats a ++ filter (fun p => match ff_node a (fst p) with Some _ => false | None => true end) (ff_feats b) in
  let node_of f := match ff_node a f with Some n => na n | None => match ff_node b f with Some m => nb m | None => 0%nat end end in
  if forallb (fun x => Nat.leb (length (cval x)) 1) nodes then
    Some (map (fun p => let x := node_of (fst p) in
                        (fst p,
                         canon (flat_map (fun q => if mem (node_of (fst q)) (cls x) then [fst q] else []) feats),
                         match cval x with [v] => Some v | _ => None end)) feats)
  else None.
