From Coq Require Import List Bool Arith NArith Lia.
From PFL Require Import Base.ListSet Base.Saturate Spec.Pda Oracle.PdaAccept Oracle.CfgMemberSound.
Import ListNotations.

Section A.
  Context {Q G : Type} `{EqDec Q} `{EqDec G}.
  Variable P : pda Q G.
  Variable w : list N.

  Definition good_p (it : pitem) : Prop :=
    match it with (q, A, i, p, j) =>
      exists pre u post, w = pre ++ u ++ post /\ length pre = i /\ length pre + length u = j /\ Pop P q A u p end.

  Lemma advance_spec l i i' pre rest : advance w l i = Some i' -> w = pre ++ rest -> length pre = i ->
    exists rest', rest = olab l ++ rest' /\ i' = i + length (olab l).
  Proof.
    unfold advance. destruct l as [a|]; cbn [olab].
    - destruct (nth_error w i) as [b|] eqn:E; [|discriminate]. destruct (N.eqb_spec a b) as [<-|]; [|discriminate].
      intros X Ew Lp. injection X as <-. rewrite Ew, nth_error_app2, Lp, Nat.sub_diag in E by lia.
      destruct rest as [|c r]; [discriminate|]. cbn in E. injection E as ->. exists r. cbn. split; [reflexivity|lia].
    - intros X _ _. injection X as <-. exists rest. cbn. split; [reflexivity|lia].
  Qed.
  Lemma advance_complete l pre rest : w = pre ++ olab l ++ rest -> advance w l (length pre) = Some (length pre + length (olab l)).
  Proof.
    intros Ew. unfold advance. destruct l as [a|]; cbn [olab length] in *.
    - rewrite Ew, nth_error_app2, Nat.sub_diag by lia. cbn. rewrite N.eqb_refl. f_equal. lia.
    - f_equal. lia.
  Qed.

  Lemma popspans_sound Tb : (forall it, In it Tb -> good_p it) -> forall push r i p j pre rest_w,
    In (p, j) (popspans Tb r push i) -> w = pre ++ rest_w -> length pre = i ->
    exists u post, rest_w = u ++ post /\ j = i + length u /\ PopL P r push u p.
  Proof.
    intros HT. induction push as [|B rest IH]; intros r i p j pre rest_w Hj Ew Lp; cbn [popspans] in Hj.
    - destruct Hj as [E|[]]. inversion E; subst. exists [], rest_w. cbn. split; [reflexivity|split; [lia|apply popl_nil]].
    - apply in_flat_map in Hj. destruct Hj as [[[[[r' B'] i'] r1] k] [Hit Hj]].
      destruct (eqb_spec r r') as [<-|]; [|destruct Hj]. destruct (eqb_spec B B') as [<-|]; [|destruct Hj].
      destruct (Nat.eqb_spec i i') as [<-|]; [|destruct Hj].
      destruct (HT _ Hit) as [pre' [u1 [post1 [Ew' [Lp' [Lk D]]]]]].
      rewrite Ew in Ew'. destruct (app_eq_length _ _ _ _ Ew') as [<- ->]; [lia|].
      destruct (IH r1 k p j (pre ++ u1) post1 Hj) as [u2 [post2 [-> [-> D2]]]].
      + rewrite Ew, <- app_assoc. reflexivity.
      + rewrite app_length. lia.
      + exists (u1 ++ u2), post2. split; [now rewrite app_assoc|]. split; [rewrite app_length; lia|].
        now apply popl_cons with r1.
  Qed.

  Lemma pitem_ok_true Tb q A i p j : pitem_ok P w Tb (q, A, i, p, j) = true <->
    exists l r push i', In (q, l, A, r, push) (p_delta P) /\ advance w l i = Some i' /\ In (p, j) (popspans Tb r push i').
  Proof.
    unfold pitem_ok. rewrite existsb_exists. split.
    - intros [[[[[q' l] A'] r] push] [Hd E]]. apply land_true_iff in E. destruct E as [E1 E].
      apply land_true_iff in E. destruct E as [E2 E]. apply (proj1 (eqb_eq _ _)) in E1. apply (proj1 (eqb_eq _ _)) in E2. subst.
      destruct (advance w l i) as [i'|] eqn:Ad; [|discriminate]. apply mem_In in E. exists l, r, push, i'. auto.
    - intros [l [r [push [i' [Hd [Ad Hm]]]]]]. exists (q, l, A, r, push). split; [exact Hd|]. rewrite !eqb_refl, Ad. now apply mem_In.
  Qed.

  Lemma pop_chart_sound it : In it (pop_chart P w) -> good_p it.
  Proof.
    intros Hit. apply saturate_sound in Hit. revert it Hit.
    apply (Gen_least (pitem_cands P w) (pitem_ok P w) good_p). intros Sx [[[[q A] i] p] j] HS Hc Ho.
    apply pitem_ok_true in Ho. destruct Ho as [l [r [push [i' [Hd [Ad Hm]]]]]].
    assert (Li : i <= length w).
    { unfold pitem_cands in Hc. apply in_flat_map in Hc. destruct Hc as [qa [_ Hc]]. apply in_flat_map in Hc.
      destruct Hc as [i0 [Hi0 Hc]]. apply in_flat_map in Hc. destruct Hc as [p0 [_ Hc]]. apply in_map_iff in Hc.
      destruct Hc as [j0 [E _]]. inversion E; subst. unfold positions in Hi0. apply in_seq in Hi0. lia. }
    destruct (advance_spec l i i' (firstn i w) (skipn i w) Ad) as [rest' [Er Ei']].
    - now rewrite firstn_skipn. - rewrite firstn_length. lia.
    - destruct (popspans_sound Sx HS push r i' p j (firstn i w ++ olab l) rest' Hm) as [u [post [Eu [Ej D]]]].
      + rewrite <- app_assoc, <- Er. now rewrite firstn_skipn.
      + rewrite app_length, firstn_length. lia.
      + exists (firstn i w), (olab l ++ u), post. split; [|split; [rewrite firstn_length; lia|split]].
        * rewrite <- app_assoc, <- Eu, <- Er. now rewrite firstn_skipn.
        * rewrite firstn_length, app_length. lia.
        * now apply pop_intro with r push.
  Qed.

  Lemma pop_end_state :
    (forall q A u p, Pop P q A u p -> In p (all_states P)) /\
    (forall r push u p, PopL P r push u p -> In r (all_states P) -> In p (all_states P)).
  Proof.
    apply Pop_mutind.
    - intros q l A r push u p Hd _ IH. apply IH. unfold all_states. apply dedup_In. apply in_or_app. left.
      apply in_flat_map. exists (q, l, A, r, push). split; [exact Hd|]. right. now left.
    - auto.
    - intros r B push u1 r1 u2 p _ IH1 _ IH2 _. apply IH2. exact IH1.
  Qed.

  Lemma pop_chart_complete :
    (forall q A u p, Pop P q A u p -> forall pre post, w = pre ++ u ++ post ->
        In (q, A, length pre, p, length pre + length u) (pop_chart P w)) /\
    (forall r push u p, PopL P r push u p -> forall pre post, w = pre ++ u ++ post ->
        In (p, length pre + length u) (popspans (pop_chart P w) r push (length pre))).
  Proof.
    apply Pop_mutind.
    - intros q l A r push u p Hd D IH pre post Ew. apply saturate_closed.
      + unfold pitem_cands. apply in_flat_map. exists (q, A). split.
        * apply dedup_In. apply in_map_iff. exists (q, l, A, r, push). auto.
        * cbn [fst snd]. apply in_flat_map. exists (length pre). split; [unfold positions; apply in_seq; rewrite Ew, !app_length; lia|].
          apply in_flat_map. exists p. split; [apply (proj1 pop_end_state _ _ _ _ (pop_intro P q l A r push u p Hd D))|].
          apply in_map_iff. exists (length pre + length (olab l ++ u)). split; [reflexivity|].
          apply in_seq. rewrite Ew, !app_length. lia.
      + apply pitem_ok_true. exists l, r, push, (length pre + length (olab l)). split; [exact Hd|]. split.
        * apply advance_complete with (u ++ post). now rewrite Ew, <- app_assoc.
        * specialize (IH (pre ++ olab l) post). rewrite !app_length in *. rewrite Nat.add_assoc. apply IH.
          now rewrite Ew, <- !app_assoc.
    - intros r pre post Ew. cbn [popspans length]. left. f_equal. lia.
    - intros r B push u1 r1 u2 p D1 IH1 D2 IH2 pre post Ew. cbn [popspans]. apply in_flat_map.
      exists (r, B, length pre, r1, length pre + length u1). split.
      + apply (IH1 pre (u2 ++ post)). now rewrite Ew, <- app_assoc.
      + rewrite !eqb_refl, Nat.eqb_refl. specialize (IH2 (pre ++ u1) post). rewrite !app_length in *.
        rewrite Nat.add_assoc. apply IH2. now rewrite Ew, <- !app_assoc.
  Qed.

  Theorem pda_accepts_empty_spec : pda_accepts_empty P w = true <->
    exists s z p, p_start P = Some s /\ p_z0 P = Some z /\ Pop P s z w p.
  Proof.
    unfold pda_accepts_empty. destruct (p_start P) as [s|]; [|split; [discriminate|intros [s [z [p [X _]]]]; discriminate]].
    destruct (p_z0 P) as [z|]; [|split; [discriminate|intros [s' [z [p [_ [X _]]]]]; discriminate]].
    rewrite existsb_exists. split.
    - intros [[[[[q A] i] p] j] [Hit E]]. apply land_true_iff in E. destruct E as [E1 E]. apply land_true_iff in E. destruct E as [E2 E].
      apply land_true_iff in E. destruct E as [E3 E4]. apply (proj1 (eqb_eq _ _)) in E1. apply (proj1 (eqb_eq _ _)) in E2.
      apply Nat.eqb_eq in E3, E4. subst. apply pop_chart_sound in Hit. destruct Hit as [pre [u [post [Ew [Lp [Lu D]]]]]].
      destruct pre; [|discriminate]. cbn in Ew, Lu. assert (post = []). { subst w. rewrite app_length in Lu. destruct post; [reflexivity|cbn in Lu; lia]. }
      subst post. rewrite app_nil_r in Ew. subst u. exists s, z, p. auto.
    - intros [s' [z' [p [E1 [E2 D]]]]]. inversion E1; inversion E2; subst. exists (s', z', 0, p, length w). split.
      + destruct pop_chart_complete as [C _]. specialize (C _ _ _ _ D [] []). cbn in C. apply C. now rewrite app_nil_r.
      + rewrite !eqb_refl, !Nat.eqb_refl. reflexivity.
  Qed.
End A.
