(* Certified acceptance for pushdown automata (both modes), by saturation of "pop" items
   (q, A, i, p, j) = Pop q A w[i..j) p and then of "fin" items (q, A, i) = Fin q A w[i..). *)
From Coq Require Import List Bool Arith NArith Lia.
From PFL Require Import Base.ListSet Base.Saturate Spec.Pda.
Import ListNotations.

Section A.
  Context {Q G : Type} `{EqDec Q} `{EqDec G}.
  Variable P : pda Q G.
  Variable w : list N.

  Definition pitem := (Q * G * nat * Q * nat)%type.
  Definition fitem := (Q * G * nat)%type.

  (* position after reading label l at position i, if possible *)
  Definition advance (l : option N) (i : nat) : option nat :=
    match l with
    | None => Some i
    | Some a => match nth_error w i with Some b => if N.eqb a b then Some (S i) else None | None => None end
    end.

  Fixpoint popspans (Tb : list pitem) (r : Q) (push : list G) (i : nat) : list (Q * nat) :=
    match push with
    | [] => [(r, i)]
    | B :: rest => flat_map (fun it => match it with (r', B', i', r1, j) =>
                     if eqb r r' &&& (eqb B B' &&& Nat.eqb i i') then popspans Tb r1 rest j else [] end) Tb
    end.

  Definition pitem_ok (Tb : list pitem) (it : pitem) : bool :=
    match it with (q, A, i, p, j) =>
      existsb (fun t => match t with (q', l, A', r, push) =>
        eqb q q' &&& (eqb A A' &&& match advance l i with Some i' => mem (p, j) (popspans Tb r push i') | None => false end) end)
        (p_delta P) end.

  Definition positions : list nat := seq 0 (S (length w)).
  Definition all_states : list Q :=
    dedup (flat_map (fun t => match t with (q, _, _, r, _) => [q; r] end) (p_delta P) ++ p_finals P).
  Definition all_stack : list G :=
    dedup (flat_map (fun t => match t with (_, _, A, _, push) => A :: push end) (p_delta P) ++ match p_z0 P with Some z => [z] | None => [] end).
  Definition pitem_cands : list pitem :=
    flat_map (fun qa => flat_map (fun i => flat_map (fun p => map (fun j => (fst qa, snd qa, i, p, j)) (seq i (S (length w) - i))) all_states) positions)
             (dedup (map (fun t => match t with (q, _, A, _, _) => (q, A) end) (p_delta P))).
  Definition pop_chart : list pitem := saturate pitem_cands pitem_ok.

  Fixpoint finl_b (PT : list pitem) (FT : list fitem) (r : Q) (push : list G) (i : nat) : bool :=
    (mem r (p_finals P) &&& Nat.eqb i (length w)) ||
    match push with
    | [] => false
    | B :: rest => mem (r, B, i) FT ||
                   existsb (fun it => match it with (r', B', i', r1, j) =>
                              eqb r r' &&& (eqb B B' &&& (Nat.eqb i i' &&& finl_b PT FT r1 rest j)) end) PT
    end.
  Definition fitem_ok (FT : list fitem) (it : fitem) : bool :=
    match it with (q, A, i) =>
      (mem q (p_finals P) &&& Nat.eqb i (length w)) ||
      existsb (fun t => match t with (q', l, A', r, push) =>
        eqb q q' &&& (eqb A A' &&& match advance l i with Some i' => finl_b pop_chart FT r push i' | None => false end) end)
        (p_delta P) end.
  Definition fitem_cands : list fitem :=
    flat_map (fun q => flat_map (fun A => map (fun i => (q, A, i)) positions) all_stack)
             (dedup (all_states ++ match p_start P with Some s => [s] | None => [] end)).
  Definition fin_chart : list fitem := saturate fitem_cands fitem_ok.

  Definition pda_accepts_empty : bool :=
    match p_start P, p_z0 P with
    | Some s, Some z => existsb (fun it => match it with (q, A, i, p, j) => eqb q s &&& (eqb A z &&& (Nat.eqb i 0 &&& Nat.eqb j (length w))) end) pop_chart
    | _, _ => false
    end.
  Definition pda_accepts_final : bool :=
    match p_start P, p_z0 P with
    | Some s, Some z => mem (s, z, 0) fin_chart
    | _, _ => false
    end.
End A.
