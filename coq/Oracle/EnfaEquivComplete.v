From Coq Require Import List Bool NArith Lia.
From PFL Require Import Base.Loop Base.ListSet Base.Closure Spec.Enfa Model.Enfa
  Proofs.EnfaAccepts Proofs.EnfaSets Oracle.EnfaEquiv.
Import ListNotations.

Section Complete.
  Context {Q1 Q2 : Type} `{EqDec Q1} `{EqDec Q2} `{Canon Q1} `{Canon Q2}.
  Variable A : enfa Q1.
  Variable B : enfa Q2.
  Variable n : nat.

  Lemma reach_word p : reach (psucc A B) [pstart A B] p ->
    exists w, seteq (fst p) (fold_left (dstep A) w (eclose A (e_starts A))) /\
              seteq (snd p) (fold_left (dstep B) w (eclose B (e_starts B))).
  Proof.
    induction 1 as [x Hx|x y Hx IH Hy].
    - destruct Hx as [<-|[]]. exists []. cbn [fold_left pstart fst snd]. split; apply norm_seteq.
    - destruct IH as [w [E1 E2]]. unfold psucc in Hy. apply in_map_iff in Hy. destruct Hy as [a [<- _]].
      exists (w ++ [a]). rewrite !fold_left_app. cbn [fold_left fst snd]. split.
      + eapply seteq_trans; [apply norm_seteq|now apply dstep_seteq].
      + eapply seteq_trans; [apply norm_seteq|now apply dstep_seteq].
  Qed.

  Theorem enfa_equiv_complete : enfa_equiv A B n = Some false -> ~ lang_eq A B.
  Proof.
    unfold enfa_equiv. destruct (close_from (psucc A B) n [pstart A B]) as [ps|] eqn:C; [|discriminate].
    intros E L. assert (F : forallb (pair_ok A B) ps = false) by congruence.
    assert (X : exists p, In p ps /\ pair_ok A B p = false).
    { clear - F. induction ps as [|p ps IH]; cbn [forallb] in F; [discriminate|].
      apply andb_false_iff in F. destruct F as [F|F]; [exists p; split; [now left|exact F]|].
      destruct (IH F) as [q [Hq Hf]]. exists q. split; [now right|exact Hf]. }
    destruct X as [p [Hp Hf]]. apply (close_sound _ _ _ _ C) in Hp. destruct (reach_word p Hp) as [w [E1 E2]].
    unfold pair_ok in Hf. apply eqb_false_iff in Hf. apply Hf.
    rewrite (is_final_set_seteq A _ _ E1), (is_final_set_seteq B _ _ E2).
    specialize (L w). rewrite <- !accepts_spec in L. unfold accepts in L. now apply eq_true_iff_eq.
  Qed.
End Complete.
