(* Certified checkers for parse trees and derivation listings handed out by the implementation (C15, C14). *)
From Coq Require Import List Bool Arith NArith Lia.
From PFL Require Import Base.ListSet Spec.Cfg Model.Cfg.
Import ListNotations.

Section T.
  Context {Vr : Type} `{EqDec Vr}.
  Variable G : cfg Vr.

  Fixpoint tree_ok (t : tree Vr) : bool :=
    match t with
    | Node (T a) sons => match sons with [] => true | _ => false end
    | Node (V A) sons =>
      mem (A, map root sons) (g_prods G) &&
      (fix all (l : list (tree Vr)) : bool := match l with [] => true | x :: r => tree_ok x && all r end) sons
    end.

  Lemma tree_ind2 (P : tree Vr -> Prop) :
    (forall s sons, Forall P sons -> P (Node s sons)) -> forall t, P t.
  Proof.
    intros HN. fix IH 1. intros [s sons]. apply HN.
    induction sons as [|x r IHr]; constructor; [apply IH|exact IHr].
  Qed.

  Theorem tree_ok_sound t : tree_ok t = true -> valid_tree G t.
  Proof.
    induction t as [s sons IH] using tree_ind2. destruct s as [A|a]; cbn [tree_ok].
    - rewrite andb_true_iff. intros [M F]. apply mem_In in M. apply vt_node; [exact M|].
      clear M. revert IH F. induction sons as [|x r IHr]; intros IH F; [constructor|]. apply andb_true_iff in F. destruct F as [F1 F2].
      inversion IH as [|? ? Px Pr]; subst. constructor; [now apply Px|now apply IHr].
    - destruct sons; [intros _; apply vt_leaf|discriminate].
  Qed.

  Theorem valid_tree_derives t : valid_tree G t -> derives G (root t) (yield t).
  Proof.
    induction t as [s sons IH] using tree_ind2. intros Vt. inversion Vt as [a|A sons' Hp Hs]; subst.
    - cbn. apply dv_ter.
    - cbn [root yield]. apply dv_var with (map root sons); [exact Hp|].
      clear Hp Vt. revert IH Hs. induction sons as [|x r IHr]; intros IH Hs; cbn [map flat_map]; [apply dl_nil|].
      inversion IH as [|? ? Px Pr]; subst. inversion Hs as [|? ? Vx Vr']; subst.
      apply dl_cons; [now apply Px|now apply IHr].
  Qed.

  (* ---- derivation listings ---- *)
  Definition is_ter (X : symb Vr) : bool := match X with T _ => true | V _ => false end.
  Fixpoint split_first_var (f : list (symb Vr)) : option (list N * Vr * list (symb Vr)) :=
    match f with
    | [] => None
    | V A :: post => Some ([], A, post)
    | T a :: r => match split_first_var r with Some (pre, A, post) => Some (a :: pre, A, post) | None => None end
    end.
  Definition lstep_b (f g : list (symb Vr)) : bool :=
    match split_first_var f with
    | Some (pre, A, post) => existsb (fun p => eqb A (fst p) &&& eqb g (map T pre ++ snd p ++ post)) (g_prods G)
    | None => false
    end.
  Lemma split_first_var_spec f pre A post : split_first_var f = Some (pre, A, post) -> f = map T pre ++ V A :: post.
  Proof.
    revert pre. induction f as [|[B|a] r IH]; intros pre E; cbn in E; [discriminate| |].
    - inversion E; subst. reflexivity.
    - destruct (split_first_var r) as [[[pre' A'] post']|]; [|discriminate]. inversion E; subst. cbn. now rewrite (IH pre' eq_refl).
  Qed.
  Theorem lstep_b_sound f g : lstep_b f g = true -> lstep G f g.
  Proof.
    unfold lstep_b. destruct (split_first_var f) as [[[pre A] post]|] eqn:E; [|discriminate].
    apply split_first_var_spec in E. subst f. rewrite existsb_exists. intros [[A' body] [Hp X]]. cbn [fst snd] in X.
    apply land_true_iff in X. destruct X as [X1 X2]. apply (proj1 (eqb_eq _ _)) in X1. apply (proj1 (eqb_eq _ _)) in X2. subst.
    now apply lstep_intro.
  Qed.

  Definition rstep_b (f g : list (symb Vr)) : bool :=
    match split_first_var (rev f) with
    | Some (post, A, pre) => existsb (fun p => eqb A (fst p) &&& eqb g (rev pre ++ snd p ++ map T (rev post))) (g_prods G)
    | None => false
    end.
  Theorem rstep_b_sound f g : rstep_b f g = true -> rstep G f g.
  Proof.
    unfold rstep_b. destruct (split_first_var (rev f)) as [[[post A] pre]|] eqn:E; [|discriminate].
    apply split_first_var_spec in E. apply (f_equal (@rev _)) in E. rewrite rev_involutive, rev_app_distr in E. cbn [rev] in E.
    rewrite <- app_assoc in E. cbn [app] in E. rewrite <- map_rev in E. subst f.
    rewrite existsb_exists. intros [[A' body] [Hp X]]. cbn [fst snd] in X.
    apply land_true_iff in X. destruct X as [X1 X2]. apply (proj1 (eqb_eq _ _)) in X1. apply (proj1 (eqb_eq _ _)) in X2. subst.
    now apply rstep_intro.
  Qed.

  (* a listing: starts at [root], every consecutive pair is a step, ends in the terminal word *)
  Fixpoint chain_ok (stepb : list (symb Vr) -> list (symb Vr) -> bool) (forms : list (list (symb Vr))) : bool :=
    match forms with
    | f :: ((g :: _) as rest) => stepb f g && chain_ok stepb rest
    | _ => true
    end.
  Definition derivation_ok (stepb : list (symb Vr) -> list (symb Vr) -> bool) (start : symb Vr) (w : list N)
             (forms : list (list (symb Vr))) : bool :=
    match forms with
    | [] => false
    | f :: _ => eqb f [start] && chain_ok stepb forms && eqb (last forms []) (map T w)
    end.
End T.
