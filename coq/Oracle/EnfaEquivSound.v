From Coq Require Import List Bool NArith Lia.
From PFL Require Import Base.Loop Base.ListSet Base.Closure Spec.Enfa Model.Enfa
  Proofs.EnfaAccepts Proofs.EnfaSets Oracle.EnfaEquiv.
Import ListNotations.

Lemma labels_In {Q} (A : enfa Q) q a r : In (q, Some a, r) (e_delta A) -> In a (labels A).
Proof. intros H. unfold labels. apply in_flat_map. exists (q, Some a, r). split; [exact H|cbn; auto]. Qed.

Lemma dstep_nolabel {Q} `{EqDec Q} (A : enfa Q) S a : ~ In a (labels A) -> isempty (dstep A S a).
Proof.
  intros Hn. unfold dstep. apply eclose_empty. intros x Hx. apply step_set_In in Hx.
  destruct Hx as [q [_ Hd]]. apply Hn. eapply labels_In; eauto.
Qed.

Section Sound.
  Context {Q1 Q2 : Type} `{EqDec Q1} `{EqDec Q2} `{Canon Q1} `{Canon Q2}.
  Variable A : enfa Q1.
  Variable B : enfa Q2.
  Variable n : nat.
  Hypothesis Heq : enfa_equiv A B n = Some true.

  Definition P (ps : list (list Q1 * list Q2)) (SA : list Q1) (SB : list Q2) : Prop :=
    (exists p, In p ps /\ seteq (fst p) SA /\ seteq (snd p) SB) \/ (isempty SA /\ isempty SB).

  Lemma equiv_fold : exists ps,
    (forall p, In p ps -> pair_ok A B p = true) /\
    forall w, P ps (fold_left (dstep A) w (eclose A (e_starts A)))
                   (fold_left (dstep B) w (eclose B (e_starts B))).
  Proof.
    unfold enfa_equiv in Heq. destruct (close_from (psucc A B) n [pstart A B]) as [ps|] eqn:C; [|discriminate].
    assert (F : forallb (pair_ok A B) ps = true) by congruence. exists ps. split; [intros p Hp; exact (proj1 (forallb_forall _ _) F p Hp)|].
    pose proof (close_sound _ _ _ _ C) as R.
    assert (G : forall w SA SB, P ps SA SB -> P ps (fold_left (dstep A) w SA) (fold_left (dstep B) w SB)).
    { induction w as [|a w IH]; intros SA SB HP; cbn [fold_left]; [exact HP|]. apply IH.
      destruct HP as [[p [Hp [E1 E2]]]|[E1 E2]].
      - destruct (mem a (sigma A B)) eqn:M.
        + left. exists (norm (dstep A (fst p) a), norm (dstep B (snd p) a)). cbn [fst snd]. split; [|split].
          * apply R. apply reach_step with p; [now apply R|]. unfold psucc. apply in_map_iff.
            exists a. split; [reflexivity|now apply mem_In].
          * eapply seteq_trans; [apply norm_seteq|now apply dstep_seteq].
          * eapply seteq_trans; [apply norm_seteq|now apply dstep_seteq].
        + right. apply mem_nIn in M. unfold sigma in M. rewrite dedup_In, in_app_iff in M.
          split; apply dstep_nolabel; tauto.
      - right. split; now apply dstep_empty. }
    intros w. apply G. left. exists (pstart A B). split; [|split].
    - apply R. apply reach_init. now left.
    - apply norm_seteq.
    - apply norm_seteq.
  Qed.

  Theorem enfa_equiv_sound : lang_eq A B.
  Proof.
    destruct equiv_fold as [ps [Hok HP]]. intros w. rewrite <- !accepts_spec. unfold accepts.
    destruct (HP w) as [[p [Hp [E1 E2]]]|[E1 E2]].
    - specialize (Hok p Hp). unfold pair_ok in Hok. apply eqb_prop in Hok.
      rewrite <- (is_final_set_seteq A _ _ E1), <- (is_final_set_seteq B _ _ E2), Hok. tauto.
    - rewrite (is_final_set_empty A _ E1), (is_final_set_empty B _ E2). tauto.
  Qed.
End Sound.
