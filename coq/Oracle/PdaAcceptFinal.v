From Coq Require Import List Bool Arith NArith Lia.
From PFL Require Import Base.ListSet Base.Saturate Spec.Pda Oracle.PdaAccept Oracle.CfgMemberSound Oracle.PdaAcceptSound.
Import ListNotations.

Section A.
  Context {Q G : Type} `{EqDec Q} `{EqDec G}.
  Variable P : pda Q G.
  Variable w : list N.

  Definition good_f (it : fitem) : Prop :=
    match it with (q, A, i) => exists pre u, w = pre ++ u /\ length pre = i /\ Fin P q A u end.

  Lemma at_end pre rest : w = pre ++ rest -> length pre = length w -> rest = [].
  Proof. intros Ew L. rewrite Ew, app_length in L. destruct rest; [reflexivity|cbn in L; lia]. Qed.

  Lemma finl_b_sound PT FT : (forall it, In it PT -> good_p P w it) -> (forall it, In it FT -> good_f it) ->
    forall push r i pre rest, finl_b P w PT FT r push i = true -> w = pre ++ rest -> length pre = i -> FinL P r push rest.
  Proof.
    intros HP HF. induction push as [|B push IH]; intros r i pre rest E Ew Lp; cbn [finl_b] in E;
      apply orb_true_iff in E; destruct E as [E|E].
    - apply land_true_iff in E. destruct E as [E1 E2]. apply mem_In in E1. apply Nat.eqb_eq in E2.
      rewrite (at_end pre rest Ew) by lia. now apply finl_done.
    - discriminate.
    - apply land_true_iff in E. destruct E as [E1 E2]. apply mem_In in E1. apply Nat.eqb_eq in E2.
      rewrite (at_end pre rest Ew) by lia. now apply finl_done.
    - apply orb_true_iff in E. destruct E as [E|E].
      + apply mem_In in E. destruct (HF _ E) as [pre' [u [Ew' [Lp' D]]]]. rewrite Ew in Ew'.
        destruct (app_eq_length _ _ _ _ Ew') as [_ ->]; [lia|]. now apply finl_here.
      + apply existsb_exists in E. destruct E as [[[[[r' B'] i'] r1] j] [Hit E]].
        apply land_true_iff in E. destruct E as [E1 E]. apply land_true_iff in E. destruct E as [E2 E].
        apply land_true_iff in E. destruct E as [E3 E4]. apply (proj1 (eqb_eq _ _)) in E1. apply (proj1 (eqb_eq _ _)) in E2.
        apply Nat.eqb_eq in E3. subst r' B' i'.
        destruct (HP _ Hit) as [pre' [u1 [post1 [Ew' [Lp' [Lj D]]]]]]. rewrite Ew in Ew'.
        destruct (app_eq_length _ _ _ _ Ew') as [<- ->]; [lia|].
        apply finl_skip with r1; [exact D|]. apply (IH r1 j (pre ++ u1) post1 E4).
        * rewrite Ew, <- app_assoc. reflexivity.
        * rewrite app_length. lia.
  Qed.

  Lemma fitem_ok_true FT q A i : fitem_ok P w FT (q, A, i) = true <->
    (In q (p_finals P) /\ i = length w) \/
    exists l r push i', In (q, l, A, r, push) (p_delta P) /\ advance w l i = Some i' /\ finl_b P w (pop_chart P w) FT r push i' = true.
  Proof.
    unfold fitem_ok. rewrite orb_true_iff, land_true_iff, mem_In, Nat.eqb_eq, existsb_exists. split; (intros [X|X]; [now left|right]).
    - destruct X as [[[[[q' l] A'] r] push] [Hd E]]. apply land_true_iff in E. destruct E as [E1 E].
      apply land_true_iff in E. destruct E as [E2 E]. apply (proj1 (eqb_eq _ _)) in E1. apply (proj1 (eqb_eq _ _)) in E2. subst.
      destruct (advance w l i) as [i'|] eqn:Ad; [|discriminate]. exists l, r, push, i'. auto.
    - destruct X as [l [r [push [i' [Hd [Ad Hm]]]]]]. exists (q, l, A, r, push). split; [exact Hd|]. now rewrite !eqb_refl, Ad.
  Qed.

  Lemma fin_chart_sound it : In it (fin_chart P w) -> good_f it.
  Proof.
    intros Hit. apply saturate_sound in Hit. revert it Hit.
    apply (Gen_least (fitem_cands P w) (fitem_ok P w) good_f). intros Sx [[q A] i] HS Hc Ho.
    assert (Li : i <= length w).
    { unfold fitem_cands in Hc. apply in_flat_map in Hc. destruct Hc as [q0 [_ Hc]]. apply in_flat_map in Hc.
      destruct Hc as [A0 [_ Hc]]. apply in_map_iff in Hc. destruct Hc as [i0 [E Hi0]]. inversion E; subst.
      unfold positions in Hi0. apply in_seq in Hi0. lia. }
    apply fitem_ok_true in Ho. destruct Ho as [[Hf ->]|[l [r [push [i' [Hd [Ad Hm]]]]]]].
    - exists w, []. split; [now rewrite app_nil_r|]. split; [reflexivity|now apply fin_here].
    - destruct (advance_spec w l i i' (firstn i w) (skipn i w) Ad) as [rest' [Er Ei']].
      + now rewrite firstn_skipn. + rewrite firstn_length. lia.
      + exists (firstn i w), (olab l ++ rest'). split; [rewrite <- Er; now rewrite firstn_skipn|]. split; [rewrite firstn_length; lia|].
        apply fin_step with r push; [exact Hd|].
        apply (finl_b_sound (pop_chart P w) Sx (pop_chart_sound P w) HS push r i' (firstn i w ++ olab l) rest' Hm).
        * rewrite <- app_assoc, <- Er. now rewrite firstn_skipn.
        * rewrite app_length, firstn_length. lia.
  Qed.

  Definition fstates : list Q := dedup (all_states P ++ match p_start P with Some s => [s] | None => [] end).

  Lemma delta_target_state q l A r push : In (q, l, A, r, push) (p_delta P) -> In r (all_states P).
  Proof.
    intros Hd. unfold all_states. apply dedup_In. apply in_or_app. left. apply in_flat_map.
    exists (q, l, A, r, push). split; [exact Hd|]. right. now left.
  Qed.
  Lemma delta_push_stack q l A r push : In (q, l, A, r, push) (p_delta P) -> incl push (all_stack P).
  Proof.
    intros Hd B HB. unfold all_stack. apply dedup_In. apply in_or_app. left. apply in_flat_map.
    exists (q, l, A, r, push). split; [exact Hd|]. now right.
  Qed.

  Lemma fin_chart_complete :
    (forall q A u, Fin P q A u -> forall pre, w = pre ++ u -> In q fstates -> In A (all_stack P) ->
        In (q, A, length pre) (fin_chart P w)) /\
    (forall r push u, FinL P r push u -> forall pre, w = pre ++ u -> In r (all_states P) -> incl push (all_stack P) ->
        finl_b P w (pop_chart P w) (fin_chart P w) r push (length pre) = true).
  Proof.
    assert (Cand : forall q A pre u, w = pre ++ u -> In q fstates -> In A (all_stack P) -> In (q, A, length pre) (fitem_cands P w)).
    { intros q A pre u Ew Hq HA. unfold fitem_cands. apply in_flat_map. exists q. split; [exact Hq|].
      apply in_flat_map. exists A. split; [exact HA|]. apply in_map_iff. exists (length pre). split; [reflexivity|].
      unfold positions. apply in_seq. rewrite Ew, app_length. lia. }
    apply Fin_mutind.
    - intros q A Hf pre Ew Hq HA. apply saturate_closed; [now apply Cand with []|].
      apply fitem_ok_true. left. split; [exact Hf|]. rewrite Ew, app_length. cbn. lia.
    - intros q l A r push u Hd DL IH pre Ew Hq HA. apply saturate_closed; [now apply Cand with (olab l ++ u)|].
      apply fitem_ok_true. right. exists l, r, push, (length pre + length (olab l)). split; [exact Hd|]. split.
      + apply advance_complete with u. exact Ew.
      + specialize (IH (pre ++ olab l)). rewrite app_length in IH. apply IH.
        * now rewrite Ew, <- app_assoc.
        * eapply delta_target_state; eauto.
        * eapply delta_push_stack; eauto.
    - intros r push Hf pre Ew Hr Hp. destruct push as [|B push]; cbn [finl_b]; apply orb_true_iff; left;
        (apply land_true_iff; split; [now apply mem_In|apply Nat.eqb_eq; rewrite Ew, app_length; cbn; lia]).
    - intros r B push u D IH pre Ew Hr Hp. cbn [finl_b]. apply orb_true_iff. right. apply orb_true_iff. left.
      apply mem_In. apply IH; [exact Ew| |apply Hp; now left].
      unfold fstates. apply dedup_In. apply in_or_app. now left.
    - intros r B push u1 r1 u2 D1 D2 IH pre Ew Hr Hp. cbn [finl_b]. apply orb_true_iff. right. apply orb_true_iff. right.
      apply existsb_exists. exists (r, B, length pre, r1, length pre + length u1). split.
      + destruct (pop_chart_complete P w) as [C _]. apply (C _ _ _ _ D1 pre u2). now rewrite Ew.
      + rewrite !eqb_refl, Nat.eqb_refl. specialize (IH (pre ++ u1)). rewrite app_length in IH. apply IH.
        * now rewrite Ew, <- app_assoc.
        * apply (proj1 (pop_end_state P) _ _ _ _ D1).
        * intros X HX. apply Hp. now right.
  Qed.

  Theorem pda_accepts_final_spec : pda_accepts_final P w = true <->
    exists s z, p_start P = Some s /\ p_z0 P = Some z /\ Fin P s z w.
  Proof.
    unfold pda_accepts_final. destruct (p_start P) as [s|] eqn:Es; [|split; [discriminate|intros [s [z [X _]]]; discriminate]].
    destruct (p_z0 P) as [z|] eqn:Ez; [|split; [discriminate|intros [s' [z [_ [X _]]]]; discriminate]].
    rewrite mem_In. split.
    - intros Hit. apply fin_chart_sound in Hit. destruct Hit as [pre [u [Ew [Lp D]]]]. destruct pre; [|discriminate].
      cbn in Ew. subst u. eauto.
    - intros [s' [z' [E1 [E2 D]]]]. inversion E1; inversion E2; subst s' z'.
      destruct fin_chart_complete as [C _]. apply (C _ _ _ D []); [reflexivity| |].
      + unfold fstates. rewrite Es. apply dedup_In. apply in_or_app. right. now left.
      + unfold all_stack. rewrite Ez. apply dedup_In. apply in_or_app. right. now left.
  Qed.
End A.
