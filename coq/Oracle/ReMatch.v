(* Certified regular-expression matcher (Brzozowski derivatives). *)
From Coq Require Import List Bool NArith Lia.
From PFL Require Import Spec.Regex.
Import ListNotations.

Fixpoint nullable (r : re) : bool :=
  match r with
  | REmpty => false | REps => true | RSym _ => false
  | RCat a b => nullable a && nullable b
  | RAlt a b => nullable a || nullable b
  | RStar _ => true
  end.

Fixpoint deriv (x : N) (r : re) : re :=
  match r with
  | REmpty | REps => REmpty
  | RSym a => if N.eqb a x then REps else REmpty
  | RCat a b => if nullable a then RAlt (RCat (deriv x a) b) (deriv x b) else RCat (deriv x a) b
  | RAlt a b => RAlt (deriv x a) (deriv x b)
  | RStar a => RCat (deriv x a) (RStar a)
  end.

Definition re_matches (r : re) (w : list N) : bool := nullable (fold_left (fun r x => deriv x r) w r).

Lemma nullable_spec r : nullable r = true <-> den r [].
Proof.
  induction r as [| |a|r1 IH1 r2 IH2|r1 IH1 r2 IH2|r IH]; cbn [nullable].
  - split; [discriminate|intros D; inversion D].
  - split; [intros _; apply d_eps|reflexivity].
  - split; [discriminate|intros D; inversion D].
  - rewrite andb_true_iff, IH1, IH2. split.
    + intros [D1 D2]. change (@nil N) with (@nil N ++ []). now apply d_cat.
    + intros D. inversion D as [| |r s u v D1 D2 E1 E2| | | |]; subst. apply app_eq_nil in E2. destruct E2; subst. auto.
  - rewrite orb_true_iff, IH1, IH2. split.
    + intros [D|D]; [now apply d_altl|now apply d_altr].
    + intros D. inversion D; subst; auto.
  - split; [intros _; apply d_star0|reflexivity].
Qed.

Lemma star_cons r x w : den (RStar r) (x :: w) -> exists u v, w = u ++ v /\ den r (x :: u) /\ den (RStar r) v.
Proof.
  intros D. remember (RStar r) as s eqn:Es. remember (x :: w) as xw eqn:Ew. revert x w Ew.
  induction D as [| | | | | |r0 u v D1 _ D2 IH2]; intros x w Ew; try discriminate Es; try discriminate Ew.
  inversion Es; subst. destruct u as [|y u]; cbn [app] in Ew.
  - apply (IH2 eq_refl x w Ew).
  - inversion Ew; subst. exists u, v. auto.
Qed.

Lemma deriv_spec r : forall x w, den (deriv x r) w <-> den r (x :: w).
Proof.
  induction r as [| |a|r1 IH1 r2 IH2|r1 IH1 r2 IH2|r IH]; intros x w; cbn [deriv].
  - split; intros D; inversion D.
  - split; intros D; inversion D.
  - destruct (N.eqb_spec a x) as [->|Ne]; split; intros D.
    + inversion D; subst. apply d_sym.
    + inversion D; subst. apply d_eps.
    + inversion D.
    + inversion D; subst. congruence.
  - assert (L : den (RCat (deriv x r1) r2) w -> den (RCat r1 r2) (x :: w)).
    { intros D. inversion D as [| |? ? u v D1 D2| | | |]; subst. change (x :: u ++ v) with ((x :: u) ++ v).
      apply d_cat; [now apply IH1|exact D2]. }
    assert (R : den (RCat r1 r2) (x :: w) -> den (RCat (deriv x r1) r2) w \/ (den r1 [] /\ den r2 (x :: w))).
    { intros D. inversion D as [| |? ? u v D1 D2 E1 E2| | | |]; subst. destruct u as [|y u]; cbn [app] in E2.
      - right. subst. auto.
      - inversion E2; subst. left. apply d_cat; [now apply IH1|exact D2]. }
    destruct (nullable r1) eqn:Nl.
    + split.
      * intros D. inversion D; subst; [now apply L|].
        change (x :: w) with ([] ++ x :: w). apply d_cat; [now apply nullable_spec|now apply IH2].
      * intros D. destruct (R D) as [D'|[_ D']]; [now apply d_altl|apply d_altr; now apply IH2].
    + split; [exact L|]. intros D. destruct (R D) as [D'|[D' _]]; [exact D'|].
      apply nullable_spec in D'. congruence.
  - split.
    + intros D. inversion D; subst; [apply d_altl; now apply IH1|apply d_altr; now apply IH2].
    + intros D. inversion D; subst; [apply d_altl; now apply IH1|apply d_altr; now apply IH2].
  - split.
    + intros D. inversion D as [| |? ? u v D1 D2| | | |]; subst. change (x :: u ++ v) with ((x :: u) ++ v).
      apply d_star1; [now apply IH|exact D2].
    + intros D. destruct (star_cons _ _ _ D) as [u [v [-> [D1 D2]]]]. apply d_cat; [now apply IH|exact D2].
Qed.

Theorem re_matches_spec r w : re_matches r w = true <-> den r w.
Proof.
  unfold re_matches. revert r. induction w as [|x w IH]; intros r; cbn [fold_left].
  - apply nullable_spec.
  - rewrite IH. apply deriv_spec.
Qed.
