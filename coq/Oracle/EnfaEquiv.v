(* Certified language-equivalence check for two epsilon-NFAs: on-the-fly exploration of the
   pairs of subsets reachable in lock step; [Some true] is proved to imply language equality.
   [find_diff] is an (unverified) search for a distinguishing word whose answer is validated
   by evaluation with the certified [accepts]. *)
From Coq Require Import List Bool NArith Lia.
From PFL Require Import Base.Loop Base.ListSet Base.Closure Spec.Enfa Model.Enfa Proofs.EnfaAccepts.
Import ListNotations.

Definition labels {Q} (A : enfa Q) : list N :=
  flat_map (fun t => match snd (fst t) with Some a => [a] | None => [] end) (e_delta A).

Section Equiv.
  Context {Q1 Q2 : Type} `{EqDec Q1} `{EqDec Q2} `{Canon Q1} `{Canon Q2}.
  Variable A : enfa Q1.
  Variable B : enfa Q2.
  Definition pairT := (list Q1 * list Q2)%type.

  Definition sigma : list N := dedup (labels A ++ labels B).
  Definition pstart : pairT := (norm (eclose A (e_starts A)), norm (eclose B (e_starts B))).
  Definition psucc (p : pairT) : list pairT :=
    map (fun a => (norm (dstep A (fst p) a), norm (dstep B (snd p) a))) sigma.
  Definition pair_ok (p : pairT) : bool := Bool.eqb (is_final_set A (fst p)) (is_final_set B (snd p)).

  Definition enfa_equiv (n : nat) : option bool :=
    match close_from psucc n [pstart] with
    | None => None
    | Some ps => Some (forallb pair_ok ps)
    end.

  (* breadth-first search for a distinguishing word (answer validated by evaluation) *)
  Fixpoint find_diff (fuel : nat) (todo : list (pairT * list N)) (seen : list pairT) : option (list N) :=
    match fuel with
    | 0 => None
    | S f =>
      match todo with
      | [] => None
      | (p, w) :: rest =>
        if pair_ok p then
          let nexts := map (fun a => ((norm (dstep A (fst p) a), norm (dstep B (snd p) a)), a :: w)) sigma in
          let fresh := filter (fun pw => negb (mem (fst pw) seen)) nexts in
          find_diff f (rest ++ fresh) (map fst fresh ++ seen)
        else Some (rev w)
      end
    end.
  Definition diff_word (fuel : nat) : option (list N) := find_diff fuel [(pstart, [])] [pstart].
End Equiv.
