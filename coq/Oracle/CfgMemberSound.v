From Coq Require Import List Bool Arith NArith Lia.
From PFL Require Import Base.ListSet Base.Saturate Spec.Cfg Oracle.CfgMember.
Import ListNotations.

Lemma app_eq_length {X} (a b c d : list X) : a ++ b = c ++ d -> length a = length c -> a = c /\ b = d.
Proof.
  revert c. induction a as [|x a IH]; intros [|y c] E L; cbn in *; try discriminate; [auto|].
  inversion E; subst. destruct (IH c H1) as [-> ->]; [lia|auto].
Qed.

Section M.
  Context {Vr : Type} `{EqDec Vr}.
  Variable G : cfg Vr.
  Variable w : list N.

  Definition good (it : item) : Prop :=
    match it with (A, i, j) =>
      exists pre u post, w = pre ++ u ++ post /\ length pre = i /\ length pre + length u = j /\ derives G (V A) u end.

  Lemma spans_mono Tb Tb' body : incl Tb Tb' -> forall i j, In j (spans w Tb body i) -> In j (spans w Tb' body i).
  Proof.
    intros I. induction body as [|[B|a] rest IH]; intros i j; cbn [spans]; [auto| |].
    - rewrite !in_flat_map. intros [it [Hit Hj]]. exists it. split; [now apply I|].
      destruct it as [[B' i'] k]. destruct (eqb B B' && Nat.eqb i i'); [now apply IH|exact Hj].
    - destruct (nth_error w i) as [b|]; [|auto]. destruct (N.eqb a b); [apply IH|auto].
  Qed.

  Lemma item_ok_mono S S' c : incl S S' -> item_ok G w S c = true -> item_ok G w S' c = true.
  Proof.
    intros I. destruct c as [[A i] j]. unfold item_ok. rewrite !existsb_exists. intros [p [Hp E]]. exists p. split; [exact Hp|].
    apply land_true_iff in E. destruct E as [E1 E2]. rewrite E1. apply mem_In. apply mem_In in E2.
    eapply spans_mono; eauto.
  Qed.

  Lemma spans_sound Tb : (forall it, In it Tb -> good it) -> forall body i j pre rest_w,
    In j (spans w Tb body i) -> w = pre ++ rest_w -> length pre = i ->
    exists u post, rest_w = u ++ post /\ j = i + length u /\ derives_list G body u.
  Proof.
    intros HT. induction body as [|[B|a] rest IH]; intros i j pre rest_w Hj Ew Lp; cbn [spans] in Hj.
    - destruct Hj as [<-|[]]. exists [], rest_w. cbn. split; [reflexivity|split; [lia|apply dl_nil]].
    - apply in_flat_map in Hj. destruct Hj as [[[B' i'] k] [Hit Hj]].
      destruct (eqb_spec B B') as [<-|]; cbn [andb] in Hj; [|destruct Hj].
      destruct (Nat.eqb_spec i i') as [<-|]; [|destruct Hj].
      destruct (HT _ Hit) as [pre' [u1 [post1 [Ew' [Lp' [Lk D]]]]]].
      rewrite Ew in Ew'. destruct (app_eq_length _ _ _ _ Ew') as [<- ->]; [lia|].
      destruct (IH k j (pre ++ u1) post1 Hj) as [u2 [post2 [-> [-> D2]]]].
      + rewrite Ew, <- app_assoc. reflexivity.
      + rewrite app_length. lia.
      + exists (u1 ++ u2), post2. split; [now rewrite app_assoc|]. split; [rewrite app_length; lia|].
        now apply dl_cons.
    - destruct (nth_error w i) as [b|] eqn:E; [|destruct Hj]. destruct (N.eqb_spec a b) as [<-|]; [|destruct Hj].
      assert (X : exists rest', rest_w = a :: rest').
      { rewrite Ew, nth_error_app2, Lp, Nat.sub_diag in E by lia. destruct rest_w as [|c r]; [discriminate|].
        cbn in E. inversion E; subst. eauto. }
      destruct X as [rest' ->].
      destruct (IH (S i) j (pre ++ [a]) rest' Hj) as [u2 [post2 [-> [-> D2]]]].
      + rewrite Ew, <- app_assoc. reflexivity.
      + rewrite app_length. cbn. lia.
      + exists (a :: u2), post2. split; [reflexivity|]. split; [cbn; lia|].
        change (a :: u2) with ([a] ++ u2). apply dl_cons; [apply dv_ter|exact D2].
  Qed.

  Lemma chart_sound it : In it (chart G w) -> good it.
  Proof.
    intros Hit. apply saturate_sound in Hit. revert it Hit.
    apply (Gen_least (item_cands G w) (item_ok G w) good). intros S [[A i] j] HS Hc Ho.
    unfold item_ok in Ho. apply existsb_exists in Ho. destruct Ho as [[A' body] [Hp E]]. cbn [fst snd] in E.
    apply land_true_iff in E. destruct E as [E1 E2]. apply (proj1 (eqb_eq _ _)) in E1. subst A'. apply mem_In in E2.
    assert (Li : i <= length w).
    { unfold item_cands in Hc. apply in_flat_map in Hc. destruct Hc as [A0 [_ Hc]]. apply in_flat_map in Hc.
      destruct Hc as [i0 [Hi0 Hc]]. apply in_map_iff in Hc. destruct Hc as [j0 [E _]]. inversion E; subst.
      unfold positions in Hi0. apply in_seq in Hi0. lia. }
    destruct (spans_sound S HS body i j (firstn i w) (skipn i w) E2) as [u [post [Er [-> D]]]].
    - now rewrite firstn_skipn.
    - rewrite firstn_length. lia.
    - exists (firstn i w), u, post. split; [rewrite <- Er; now rewrite firstn_skipn|].
      split; [rewrite firstn_length; lia|]. split; [rewrite firstn_length; lia|]. now apply dv_var with body.
  Qed.

  Lemma in_cands A body i j : In (A, body) (g_prods G) -> i <= length w -> j <= length w -> In (A, i, j) (item_cands G w).
  Proof.
    intros Hp Li Lj. unfold item_cands. apply in_flat_map. exists A. split.
    - apply dedup_In. apply in_map_iff. exists (A, body). auto.
    - apply in_flat_map. exists i. split; [unfold positions; apply in_seq; lia|].
      apply in_map_iff. exists j. split; [reflexivity|unfold positions; apply in_seq; lia].
  Qed.

  Lemma chart_complete :
    (forall X u, derives G X u -> forall pre post, w = pre ++ u ++ post ->
        match X with T a => u = [a] | V A => In (A, length pre, length pre + length u) (chart G w) end) /\
    (forall body u, derives_list G body u -> forall pre post, w = pre ++ u ++ post ->
        In (length pre + length u) (spans w (chart G w) body (length pre))).
  Proof.
    apply derives_mutind.
    - intros a pre post Ew. reflexivity.
    - intros A body u Hp D IH pre post Ew. apply saturate_closed.
      + apply in_cands with body; [exact Hp| |]; rewrite Ew, !app_length; lia.
      + unfold item_ok. apply existsb_exists. exists (A, body). split; [exact Hp|]. cbn [fst snd].
        rewrite eqb_refl. apply mem_In. now apply IH with post.
    - intros pre post Ew. cbn [spans length]. left. lia.
    - intros X rest u v DX IHX DL IHL pre post Ew. destruct X as [B|a]; cbn [spans].
      + apply in_flat_map. exists (B, length pre, length pre + length u). split.
        * apply (IHX pre (v ++ post)). now rewrite Ew, <- app_assoc.
        * rewrite eqb_refl, Nat.eqb_refl. cbn [andb].
          specialize (IHL (pre ++ u) post). rewrite !app_length in *. rewrite Nat.add_assoc. apply IHL.
          now rewrite Ew, <- !app_assoc.
      + assert (Eu : u = [a]) by (apply (IHX pre (v ++ post)); now rewrite Ew, <- app_assoc).
        subst u. assert (E : nth_error w (length pre) = Some a).
        { rewrite Ew, nth_error_app2, Nat.sub_diag by lia. reflexivity. }
        rewrite E, N.eqb_refl. specialize (IHL (pre ++ [a]) post). rewrite !app_length in *. cbn [length] in *.
        replace (S (length pre)) with (length pre + 1) by lia. rewrite Nat.add_assoc. apply IHL.
        now rewrite Ew, <- !app_assoc.
  Qed.

  Theorem cfg_member_spec : cfg_member G w = true <-> LangG G w.
  Proof.
    unfold cfg_member, LangG. destruct (g_start G) as [S|]; [|split; [discriminate|tauto]].
    rewrite mem_In. split.
    - intros Hit. apply chart_sound in Hit. destruct Hit as [pre [u [post [Ew [Lp [Lu D]]]]]].
      destruct pre; [|discriminate]. cbn in Ew, Lu. subst w. rewrite app_length in Lu.
      destruct post; [|cbn in Lu; lia]. now rewrite app_nil_r.
    - intros D. destruct chart_complete as [C _]. specialize (C _ _ D [] []). cbn in C. apply C. now rewrite app_nil_r.
  Qed.
End M.
