(* Instance-level certificate that a DFA is reduced: every state reachable from the start state and
   every two distinct states distinguished by some word (decided by the proved-exact equivalence check). *)
From Coq Require Import List Bool NArith Lia.
From PFL Require Import Base.Loop Base.ListSet Base.Closure Spec.Enfa Model.Enfa Model.EnfaOps
  Proofs.EnfaAccepts Proofs.EnfaEmpty Oracle.EnfaEquiv Oracle.EnfaEquivSound Oracle.EnfaEquivComplete.
Import ListNotations.

Section Min.
  Context {Q : Type} `{EqDec Q} `{Canon Q}.
  Definition reroot (B : enfa Q) (q : Q) : enfa Q :=
    mkE (e_states B) (e_syms B) (e_delta B) [q] (e_finals B).

  Definition reachable_states (B : enfa Q) : list Q :=
    closure (all_succs B) (e_starts B ++ targets B) (e_starts B).

  Fixpoint all_pairs_differ (B : enfa Q) (n : nat) (l : list Q) : bool :=
    match l with
    | [] => true
    | p :: r => forallb (fun q => match enfa_equiv (reroot B p) (reroot B q) n with
                                  | Some false => true | _ => false end) r
                && all_pairs_differ B n r
    end.

  Definition is_reduced_b (B : enfa Q) (n : nat) : bool :=
    subset (e_states B) (reachable_states B) && all_pairs_differ B n (dedup (e_states B)).

  Definition reduced (B : enfa Q) : Prop :=
    (forall q, In q (e_states B) -> exists s w, In s (e_starts B) /\ run B s w q) /\
    (forall p q, In p (e_states B) -> In q (e_states B) -> p <> q -> ~ lang_eq (reroot B p) (reroot B q)).

  Lemma all_pairs_differ_spec B n l : NoDup l -> all_pairs_differ B n l = true ->
    forall p q, In p l -> In q l -> p <> q -> ~ lang_eq (reroot B p) (reroot B q).
  Proof.
    induction l as [|x r IH]; intros ND F p q Hp Hq Ne; [destruct Hp|].
    cbn [all_pairs_differ] in F. apply andb_true_iff in F. destruct F as [F1 F2].
    rewrite forallb_forall in F1. inversion ND as [|? ? Hn ND']; subst.
    destruct Hp as [<-|Hp], Hq as [<-|Hq].
    - congruence.
    - specialize (F1 _ Hq). destruct (enfa_equiv (reroot B x) (reroot B q) n) as [[|]|] eqn:E; try discriminate.
      now apply (enfa_equiv_complete _ _ n).
    - specialize (F1 _ Hp). destruct (enfa_equiv (reroot B x) (reroot B p) n) as [[|]|] eqn:E; try discriminate.
      intros L. apply (enfa_equiv_complete _ _ n E). intros w. symmetry. apply L.
    - now apply IH.
  Qed.

  Theorem is_reduced_b_sound B n : is_reduced_b B n = true -> reduced B.
  Proof.
    unfold is_reduced_b. rewrite andb_true_iff, subset_spec. intros [S P]. split.
    - intros q Hq. specialize (S _ Hq). unfold reachable_states in S.
      apply closure_spec in S.
      + now apply reach_run in S.
      + intros x Hx y Hy. apply all_succs_In in Hy. destruct Hy as [l Hd]. apply in_or_app. right.
        unfold targets. apply in_map_iff. exists (x, l, y). auto.
      + intros x Hx. apply in_or_app. now left.
    - intros p q Hp Hq. apply (all_pairs_differ_spec B n (dedup (e_states B))); [apply dedup_NoDup|exact P| |];
        now apply dedup_In.
  Qed.
End Min.
