(* Certified membership for ARBITRARY context-free grammars (epsilon, unit cycles, useless symbols allowed):
   the least chart of items (A, i, j) = "A derives w[i..j)", computed by saturation.
   cfg_member G w = true <-> the start symbol derives w.  Independent of pyformlang's normal-form pipeline. *)
From Coq Require Import List Bool Arith NArith Lia.
From PFL Require Import Base.ListSet Base.Saturate Spec.Cfg.
Import ListNotations.

Section M.
  Context {Vr : Type} `{EqDec Vr}.
  Variable G : cfg Vr.
  Variable w : list N.

  Definition item := (Vr * nat * nat)%type.

  Fixpoint spans (Tb : list item) (body : list (symb Vr)) (i : nat) : list nat :=
    match body with
    | [] => [i]
    | T a :: rest => match nth_error w i with
                     | Some b => if N.eqb a b then spans Tb rest (S i) else []
                     | None => []
                     end
    | V B :: rest => flat_map (fun it => match it with (B', i', j) =>
                                 if eqb B B' && Nat.eqb i i' then spans Tb rest j else [] end) Tb
    end.

  Definition item_ok (Tb : list item) (it : item) : bool :=
    match it with (A, i, j) =>
      existsb (fun p => eqb A (fst p) &&& mem j (spans Tb (snd p) i)) (g_prods G) end.

  Definition positions : list nat := seq 0 (S (length w)).
  Definition item_cands : list item :=
    flat_map (fun A => flat_map (fun i => map (fun j => (A, i, j)) positions) positions)
             (dedup (map fst (g_prods G))).

  Definition chart : list item := saturate item_cands item_ok.

  Definition cfg_member : bool :=
    match g_start G with
    | Some s => mem (s, 0, length w) chart
    | None => false
    end.
End M.
