(* union / concatenate / kleene_star of automata (finite_automaton/regexable.py) follow the code path
   to_regex -> Regex combinator -> to_epsilon_nfa: composition of the proved models of the two conversions. *)
From Coq Require Import List NArith.
From PFL Require Import Base.ListSet Spec.Enfa Spec.Regex Model.Enfa Proofs.EnfaAccepts Model.RegexFA Proofs.RegexFA Model.Kleene Proofs.Kleene Model.Thompson Proofs.Thompson.
Import ListNotations.

Section R.
  Context {Q1 Q2 : Type} `{EqDec Q1} `{EqDec Q2}.
  Definition union_model (A : enfa Q1) (B : enfa Q2) : enfa nat := re_enfa (RAlt (to_regex A) (to_regex B)).
  Definition concat_model (A : enfa Q1) (B : enfa Q2) : enfa nat := re_enfa (RCat (to_regex A) (to_regex B)).
  Definition star_model (A : enfa Q1) : enfa nat := re_enfa (RStar (to_regex A)).

  Theorem union_model_lang A B w : wf A -> wf B -> (Lang (union_model A B) w <-> Lang A w \/ Lang B w).
  Proof.
    intros WA WB. unfold union_model. rewrite re_enfa_lang. split.
    - intros Hd. inversion Hd; subst; [left|right]; now apply to_regex_correct.
    - intros [L|L]; [apply d_altl|apply d_altr]; now apply to_regex_correct.
  Qed.

  Theorem concat_model_lang A B w : wf A -> wf B ->
    (Lang (concat_model A B) w <-> exists u v, w = u ++ v /\ Lang A u /\ Lang B v).
  Proof.
    intros WA WB. unfold concat_model. rewrite re_enfa_lang. split.
    - intros Hd. inversion Hd as [| |? ? u v D1 D2| | | |]; subst. exists u, v. split; [reflexivity|]. split; now apply to_regex_correct.
    - intros (u & v & -> & L1 & L2). apply d_cat; now apply to_regex_correct.
  Qed.

  Theorem star_model_lang A w : wf A -> (Lang (star_model A) w <-> lstar (Lang A) w).
  Proof.
    intros WA. unfold star_model. rewrite re_enfa_lang, den_star_lstar. apply lstar_ext. intros u. symmetry. now apply to_regex_correct.
  Qed.
End R.

(* Regex.accepts: compile with to_epsilon_nfa, then run the acceptance loop of the epsilon-NFA *)
Theorem re_enfa_accepts (c : nat) (r : re) (w : list N) : accepts (re_enfa_at c r) w = true <-> den r w.
Proof. rewrite (accepts_spec (re_enfa_at c r) w). apply re_enfa_at_lang. Qed.

(* the automaton of to_epsilon_nfa is well formed *)
Lemma re_enfa_at_wf (c : nat) (r : re) : wf (re_enfa_at c r).
Proof.
  unfold re_enfa_at. set (E := fst (th r c (S c) (S (S c)))). split; [|split; [|split]]; cbn [e_delta e_states e_syms e_starts e_finals].
  - intros p l q Hin. split; apply dedup_In; right; right; apply in_flat_map; exists (p, l, q); (split; [exact Hin|simpl; auto]).
  - intros p a q Hin. apply dedup_In. apply in_flat_map. exists (p, Some a, q). split; [exact Hin|simpl; auto].
  - intros x [<-|[]]. apply dedup_In. now left.
  - intros x [<-|[]]. apply dedup_In. right. now left.
Qed.

(* CFG.intersection / PDA.intersection with a Regex operand: to_epsilon_nfa, determinisation, then the product *)
From PFL Require Import Model.EnfaOps Spec.Cfg Spec.Pda Model.Cfg Model.CfgInter Model.Pda Proofs.CfgInter Proofs.PdaInter Proofs.InterDet.
#[export] Instance Canon_nat : Canon nat := Canon_dedup.

Theorem cfg_inter_regex {Vr : Type} `{EqDec Vr} (c : nat) (r : re) (n fuel : nat) (G : cfg Vr)
    (D : enfa (list nat)) (R : cfg (bvar (list nat) (cvar Vr))) :
  determinize true (re_enfa_at c r) n = Some D -> cfg_inter fuel G D = Some R ->
  forall w, LangG R w <-> LangG G w /\ den r w.
Proof.
  intros HD HR w. rewrite (cfg_inter_det true (re_enfa_at c r) n fuel G D R (fun E => ltac:(discriminate)) (re_enfa_at_wf c r) HD HR w).
  now rewrite re_enfa_at_lang.
Qed.
Theorem pda_inter_regex {Q0 G0 : Type} `{EqDec Q0} `{EqDec G0} (c : nat) (r : re) (n m : nat) (P : pda Q0 G0)
    (D : enfa (list nat)) (R : pda (Q0 * list nat) G0) :
  determinize true (re_enfa_at c r) n = Some D -> pda_inter P D m = Some R ->
  forall w, acc_final R w <-> acc_final P w /\ den r w.
Proof.
  intros HD HR w. rewrite (pda_inter_det true (re_enfa_at c r) n m P D R (fun E => ltac:(discriminate)) (re_enfa_at_wf c r) HD HR w).
  now rewrite re_enfa_at_lang.
Qed.

(* PythonRegex(p).accepts: the translated expression compiled by to_epsilon_nfa and run by the acceptance loop *)
From PFL Require Import Model.PyRegex Proofs.PyRegexSem.
Theorem pyre_accepts (universe : list N) (c : nat) (p : pyre) (w : list N) :
  accepts (re_enfa_at c (py_translate universe p)) w = true <-> pyden universe p w.
Proof. rewrite re_enfa_accepts. apply py_translate_sem. Qed.

(* to_regex().to_epsilon_nfa() with pyformlang's own construction closes the round trip *)
Theorem to_regex_round_trip {Q : Type} `{EqDec Q} (c : nat) (A : enfa Q) (w : list N) :
  wf A -> (Lang (re_enfa_at c (to_regex A)) w <-> Lang A w).
Proof. intros W. rewrite re_enfa_at_lang. symmetry. now apply to_regex_correct. Qed.
