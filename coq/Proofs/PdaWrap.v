(* PDA.to_final_state / PDA.to_empty_stack exchange the two acceptance modes (C13). Small-step arguments. *)
From Coq Require Import List Bool Arith NArith Lia.
From PFL Require Import Base.ListSet Spec.Pda Model.Pda Proofs.PdaBigStep.
Import ListNotations.

Section W.
  Context {Q G : Type}.
  Variable P : pda Q G.
  (* what the PDA constructor / add_transition / set_start_state establish *)
  Hypothesis Hwf_t : forall q l A r push, In (q, l, A, r, push) (p_delta P) -> In r (p_states P).
  Hypothesis Hwf_s : forall s, p_start P = Some s -> In s (p_states P).
  Hypothesis Hwf_z : forall z, p_z0 P = Some z -> In z (p_stack P).
  Hypothesis Hwf_p : forall q l A r push B, In (q, l, A, r, push) (p_delta P) -> In B push -> In B (p_stack P).

  Notation wtr := (wst Q * option N * wsym G * wst Q * list (wsym G))%type.

  Lemma lift_tr_In (t : wtr) : In t (map lift_tr (p_delta P)) <->
    exists q l A r push, t = (WOld q, l, SOld A, WOld r, map SOld push) /\ In (q, l, A, r, push) (p_delta P).
  Proof.
    rewrite in_map_iff. split.
    - intros [[[[[q l] A] r] push] [<- Hd]]. exists q, l, A, r, push. auto.
    - intros [q [l [A [r [push [-> Hd]]]]]]. exists (q, l, A, r, push). auto.
  Qed.
  Lemma init_tr_In (t : wtr) : In t (init_tr P) <->
    exists s z, p_start P = Some s /\ p_z0 P = Some z /\ t = (WStart, None, SBottom, WOld s, [SOld z; SBottom]).
  Proof.
    unfold init_tr. destruct (p_start P) as [s|]; [destruct (p_z0 P) as [z|]|].
    - split; [intros [<-|[]]; eauto|intros [s' [z' [E1 [E2 ->]]]]; inversion E1; inversion E2; now left].
    - split; [intros []|intros [s' [z' [_ [E _]]]]; discriminate].
    - split; [intros []|intros [s' [z' [E _]]]; discriminate].
  Qed.

  Lemma map_SOld_inj (a b : list G) : map SOld a = map SOld b -> a = b.
  Proof. revert b. induction a as [|x a IH]; intros [|y b] E; try discriminate; [reflexivity|]. cbn in E. inversion E. f_equal. auto. Qed.

  (* states stay registered, stack symbols stay registered *)
  Lemma run_states c d : pstar P c d -> In (fst (fst c)) (p_states P) -> In (fst (fst d)) (p_states P).
  Proof.
    induction 1 as [c|c d e S1 _ IH]; intros Hc; [exact Hc|]. apply IH. apply step_inv in S1.
    destruct S1 as [q [l [A [r [push [x [rest [-> [-> Hd]]]]]]]]]. cbn [fst]. eapply Hwf_t; eauto.
  Qed.
  Lemma run_stack c d : pstar P c d -> Forall (fun B => In B (p_stack P)) (snd c) -> Forall (fun B => In B (p_stack P)) (snd d).
  Proof.
    induction 1 as [c|c d e S1 _ IH]; intros Hc; [exact Hc|]. apply IH. apply step_inv in S1.
    destruct S1 as [q [l [A [r [push [x [rest [-> [-> Hd]]]]]]]]]. cbn [snd] in *. inversion Hc; subst. apply Forall_app. split; [|assumption].
    apply Forall_forall. intros B HB. eapply Hwf_p; eauto.
  Qed.

  (* ---------- to_final_state ---------- *)
  Section Fs.
    Notation P1 := (to_final_state P).
    Lemma P1_old r l X y push' : In (WOld r, l, X, y, push') (p_delta P1) <->
      (exists A r' push, X = SOld A /\ y = WOld r' /\ push' = map SOld push /\ In (r, l, A, r', push) (p_delta P)) \/
      (l = None /\ X = SBottom /\ y = WEnd /\ push' = [] /\ In r (p_states P)).
    Proof.
      cbn [to_final_state p_delta]. rewrite !in_app_iff, lift_tr_In, init_tr_In, in_map_iff. split.
      - intros [[q [l0 [A [r' [push [E Hd]]]]]]|[[s [z [_ [_ E]]]]|[q [E Hq]]]].
        + inversion E; subst. left. eauto 7.
        + discriminate.
        + inversion E; subst. right. auto.
      - intros [[A [r' [push [-> [-> [-> Hd]]]]]]|[-> [-> [-> [-> Hr]]]]]; [left; eauto 8|right; right; eauto].
    Qed.
    Lemma P1_start l X y push' : In (WStart, l, X, y, push') (p_delta P1) <->
      exists s z, p_start P = Some s /\ p_z0 P = Some z /\ l = None /\ X = SBottom /\ y = WOld s /\ push' = [SOld z; SBottom].
    Proof.
      cbn [to_final_state p_delta]. rewrite !in_app_iff, lift_tr_In, init_tr_In, in_map_iff. split.
      - intros [[q [l0 [A [r' [push [E Hd]]]]]]|[[s [z [Es [Ez E]]]]|[q [E Hq]]]]; [discriminate|inversion E; subst; eauto 9|discriminate].
      - intros [s [z [Es [Ez [-> [-> [-> ->]]]]]]]. right. left. eauto.
    Qed.

    Lemma P1_lift c d bot : pstar P c d ->
      pstar P1 (WOld (fst (fst c)), snd (fst c), map SOld (snd c) ++ bot) (WOld (fst (fst d)), snd (fst d), map SOld (snd d) ++ bot).
    Proof.
      induction 1 as [c|c d e S1 _ IH]; [apply pstar_refl|]. eapply pstar_step; [|exact IH]. apply step_inv in S1.
      destruct S1 as [q [l [A [r [push [x [rest [-> [-> Hd]]]]]]]]]. cbn [fst snd map app]. rewrite map_app, <- app_assoc.
      apply pstep_label. apply P1_old. left. eauto 7.
    Qed.

    Lemma P1_inv c d : pstar P1 c d -> forall r u st st', c = (WOld r, u, map SOld st ++ [SBottom]) -> d = (WEnd, [], st') ->
      exists q, pstar P (r, u, st) (q, [], []).
    Proof.
      induction 1 as [c|c d e S1 R IH]; intros r u st st' Ec Ed; subst; [discriminate|].
      apply step_inv in S1. destruct S1 as [q [l [X [y [push' [x [rest [Ec [-> Hd]]]]]]]]]. inversion Ec; subst. clear Ec.
      apply P1_old in Hd. destruct Hd as [[A [r' [push [-> [-> [-> Hd]]]]]]|[-> [-> [-> [-> Hr]]]]].
      - destruct st as [|A0 st0]; [discriminate|]. cbn [map app] in H2. inversion H2; subst.
        destruct (IH r' x (push ++ st0) st') as [q' Rq]; [now rewrite map_app, <- app_assoc|reflexivity|].
        exists q'. eapply pstar_step; [|exact Rq]. now apply pstep_label.
      - destruct st as [|A0 st0]; [|discriminate]. cbn [map app] in H2. inversion H2; subst. cbn [olab app] in *.
        inversion R as [|? d' ? S2 _]; subst; [exists r; apply pstar_refl|].
        apply step_inv in S2. destruct S2 as [? [? [? [? [? [? [? [E _]]]]]]]]. discriminate.
    Qed.

    Theorem to_final_state_spec w : acc_final P1 w <-> acc_empty P w.
    Proof.
      unfold acc_final, acc_empty. cbn [to_final_state p_start p_z0 p_finals]. split.
      - intros [s0 [z0 [f [st [E1 [E2 [[<-|[]] R]]]]]]]. inversion E1; inversion E2; subst.
        inversion R as [|? d ? S1 R']; subst. apply step_inv in S1. destruct S1 as [q [l [X [y [push' [x [rest [Ec [-> Hd]]]]]]]]].
        inversion Ec; subst. apply P1_start in Hd. destruct Hd as [s [z [Es [Ez [-> [_ [-> ->]]]]]]]. cbn [olab app] in *.
        destruct (P1_inv _ _ R' s x [z] st eq_refl eq_refl) as [q' Rq]. eauto 6.
      - intros [s [z [q [Es [Ez R]]]]]. exists WStart, SBottom, WEnd, []. split; [reflexivity|split; [reflexivity|split; [now left|]]].
        eapply pstar_step; [apply (pstep_label P1 WStart None SBottom (WOld s) [SOld z; SBottom] w []); apply P1_start; eauto 9|].
        eapply pstar_trans; [apply (P1_lift _ _ [SBottom] R)|]. cbn [fst snd map app].
        eapply pstar_step; [|apply pstar_refl].
        apply (pstep_label P1 (WOld q) None SBottom WEnd [] [] []). apply P1_old. right. repeat split.
        apply (run_states _ _ R). cbn [fst]. now apply Hwf_s.
    Qed.
  End Fs.

  (* ---------- to_empty_stack ---------- *)
  Section Es.
    Notation P2 := (to_empty_stack P).
    Notation syms := (SBottom :: map SOld (p_stack P)).
    Lemma hop_In (t : wtr) : In t (flat_map (fun f => map (fun X => (WOld f, None, X, WEnd, [])) syms) (p_finals P)) <->
      exists f X, t = (WOld f, None, X, WEnd, []) /\ In f (p_finals P) /\ In X syms.
    Proof.
      rewrite in_flat_map. split.
      - intros [f [Hf Hm]]. apply in_map_iff in Hm. destruct Hm as [X [<- HX]]. eauto.
      - intros [f [X [-> [Hf HX]]]]. exists f. split; [exact Hf|]. apply in_map_iff. eauto.
    Qed.
    Lemma P2_old r l X y push' : In (WOld r, l, X, y, push') (p_delta P2) <->
      (exists A r' push, X = SOld A /\ y = WOld r' /\ push' = map SOld push /\ In (r, l, A, r', push) (p_delta P)) \/
      (l = None /\ y = WEnd /\ push' = [] /\ In r (p_finals P) /\ In X syms).
    Proof.
      cbn [to_empty_stack p_delta]. rewrite !in_app_iff, lift_tr_In, init_tr_In, hop_In, in_map_iff. split.
      - intros [[q [l0 [A [r' [push [E Hd]]]]]]|[[s [z [_ [_ E]]]]|[[f [X0 [E [Hf HX]]]]|[X0 [E _]]]]].
        + inversion E; subst. left. eauto 7.
        + discriminate.
        + inversion E; subst. right. auto.
        + discriminate.
      - intros [[A [r' [push [-> [-> [-> Hd]]]]]]|[-> [-> [-> [Hf HX]]]]]; [left; eauto 8|right; right; left; eauto].
    Qed.
    Lemma P2_start l X y push' : In (WStart, l, X, y, push') (p_delta P2) <->
      exists s z, p_start P = Some s /\ p_z0 P = Some z /\ l = None /\ X = SBottom /\ y = WOld s /\ push' = [SOld z; SBottom].
    Proof.
      cbn [to_empty_stack p_delta]. rewrite !in_app_iff, lift_tr_In, init_tr_In, hop_In, in_map_iff. split.
      - intros [[q [l0 [A [r' [push [E Hd]]]]]]|[[s [z [Es [Ez E]]]]|[[f [X0 [E _]]]|[X0 [E _]]]]]; [discriminate|inversion E; subst; eauto 9|discriminate|discriminate].
      - intros [s [z [Es [Ez [-> [-> [-> ->]]]]]]]. right. left. eauto.
    Qed.
    Lemma P2_end l X y push' : In (WEnd, l, X, y, push') (p_delta P2) <-> l = None /\ y = WEnd /\ push' = [] /\ In X syms.
    Proof.
      cbn [to_empty_stack p_delta]. rewrite !in_app_iff, lift_tr_In, init_tr_In, hop_In, in_map_iff. split.
      - intros [[q [l0 [A [r' [push [E Hd]]]]]]|[[s [z [Es [Ez E]]]]|[[f [X0 [E _]]]|[X0 [E HX]]]]]; [discriminate|discriminate|discriminate|inversion E; subst; auto].
      - intros [-> [-> [-> HX]]]. right. right. right. eauto.
    Qed.

    Lemma P2_lift c d bot : pstar P c d ->
      pstar P2 (WOld (fst (fst c)), snd (fst c), map SOld (snd c) ++ bot) (WOld (fst (fst d)), snd (fst d), map SOld (snd d) ++ bot).
    Proof.
      induction 1 as [c|c d e S1 _ IH]; [apply pstar_refl|]. eapply pstar_step; [|exact IH]. apply step_inv in S1.
      destruct S1 as [q [l [A [r [push [x [rest [-> [-> Hd]]]]]]]]]. cbn [fst snd map app]. rewrite map_app, <- app_assoc.
      apply pstep_label. apply P2_old. left. eauto 7.
    Qed.
    Lemma P2_drain stk : Forall (fun X => In X syms) stk -> pstar P2 (WEnd, [], stk) (WEnd, [], []).
    Proof.
      induction 1 as [|X stk HX _ IH]; [apply pstar_refl|]. eapply pstar_step; [|exact IH].
      apply (pstep_label P2 WEnd None X WEnd [] [] stk). apply P2_end. auto.
    Qed.
    Lemma P2_end_input c d : pstar P2 c d -> fst (fst c) = WEnd -> snd (fst d) = snd (fst c).
    Proof.
      induction 1 as [c|c d e S1 _ IH]; intros Ec; [reflexivity|]. apply step_inv in S1.
      destruct S1 as [q [l [X [y [push' [x [rest [-> [-> Hd]]]]]]]]]. cbn [fst snd] in *. subst q. apply P2_end in Hd. destruct Hd as [-> [-> _]].
      rewrite IH; reflexivity.
    Qed.

    Lemma P2_inv c d : pstar P2 c d -> forall r u st q', c = (WOld r, u, map SOld st ++ [SBottom]) -> d = (q', [], []) ->
      exists f st', In f (p_finals P) /\ pstar P (r, u, st) (f, [], st').
    Proof.
      induction 1 as [c|c d e S1 R IH]; intros r u st q' Ec Ed; subst.
      - inversion Ed. destruct st; discriminate.
      - apply step_inv in S1. destruct S1 as [q [l [X [y [push' [x [rest [Ec [-> Hd]]]]]]]]]. inversion Ec; subst. clear Ec.
        apply P2_old in Hd. destruct Hd as [[A [r' [push [-> [-> [-> Hd]]]]]]|[-> [-> [-> [Hf HX]]]]].
        + destruct st as [|A0 st0]; [discriminate|]. cbn [map app] in H2. inversion H2; subst.
          destruct (IH r' x (push ++ st0) q') as [f [st' [Hf Rq]]]; [now rewrite map_app, <- app_assoc|reflexivity|].
          exists f, st'. split; [exact Hf|]. eapply pstar_step; [|exact Rq]. now apply pstep_label.
        + pose proof (P2_end_input _ _ R eq_refl) as Ei. cbn [fst snd olab app] in *. subst x.
          exists r, st. split; [exact Hf|apply pstar_refl].
    Qed.

    Theorem to_empty_stack_spec w : acc_empty P2 w <-> acc_final P w.
    Proof.
      unfold acc_final, acc_empty. cbn [to_empty_stack p_start p_z0 p_finals]. split.
      - intros [s0 [z0 [q [E1 [E2 R]]]]]. inversion E1; inversion E2; subst.
        inversion R as [|? d ? S1 R']; subst. apply step_inv in S1. destruct S1 as [q0 [l [X [y [push' [x [rest [Ec [-> Hd]]]]]]]]].
        inversion Ec; subst. apply P2_start in Hd. destruct Hd as [s [z [Es [Ez [-> [_ [-> ->]]]]]]]. cbn [olab app] in *.
        destruct (P2_inv _ _ R' s x [z] q eq_refl eq_refl) as [f [st' [Hf Rq]]]. exists s, z, f, st'. auto.
      - intros [s [z [f [st [Es [Ez [Hf R]]]]]]]. exists WStart, SBottom, WEnd. split; [reflexivity|split; [reflexivity|]].
        eapply pstar_step; [apply (pstep_label P2 WStart None SBottom (WOld s) [SOld z; SBottom] w []); apply P2_start; eauto 9|].
        eapply pstar_trans; [apply (P2_lift _ _ [SBottom] R)|]. cbn [fst snd map app].
        assert (Fs : Forall (fun X => In X syms) (map SOld st ++ [SBottom])).
        { apply Forall_app. split; [|constructor; [now left|constructor]]. apply Forall_forall. intros X HX. apply in_map_iff in HX. destruct HX as [B [<- HB]].
          right. apply in_map.
          assert (Fst : Forall (fun B => In B (p_stack P)) st).
          { apply (run_stack _ _ R). cbn [snd]. constructor; [now apply Hwf_z|constructor]. }
          rewrite Forall_forall in Fst. now apply Fst. }
        destruct (map SOld st ++ [SBottom]) as [|X stk] eqn:Estk; [destruct st; discriminate|]. inversion Fs; subst.
        apply pstar_step with (WEnd, [], stk); [|now apply P2_drain]. apply (pstep_label P2 (WOld f) None X WEnd [] [] stk). apply P2_old. right. auto.
    Qed.
  End Es.
End W.

(* what the PDA constructor, add_transition and set_start_state / set_start_stack_symbol establish *)
Definition pda_wf {Q G} (P : pda Q G) : Prop :=
  (forall q l A r push, In (q, l, A, r, push) (p_delta P) -> In r (p_states P)) /\
  (forall s, p_start P = Some s -> In s (p_states P)) /\
  (forall z, p_z0 P = Some z -> In z (p_stack P)) /\
  (forall q l A r push B, In (q, l, A, r, push) (p_delta P) -> In B push -> In B (p_stack P)).
Theorem to_final_state_wf {Q G} (P : pda Q G) : pda_wf P -> forall w, acc_final (to_final_state P) w <-> acc_empty P w.
Proof. intros [W1 [W2 [W3 W4]]]. now apply to_final_state_spec. Qed.
Theorem to_empty_stack_wf {Q G} (P : pda Q G) : pda_wf P -> forall w, acc_empty (to_empty_stack P) w <-> acc_final P w.
Proof. intros [W1 [W2 [W3 W4]]]. now apply to_empty_stack_spec. Qed.
