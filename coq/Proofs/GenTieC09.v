(* Lemmas about the definitions regenerated from /repo's source by tools/pygen.py (coq/Gen/*.v): re-checked at every build.
   One file per property so that a change of one constant only breaks the obligations that depend on it. *)
From Coq Require Import List Bool NArith.
From PFL Require Import Base.ListSet Spec.Cfg Model.Cfg Gen.PyConst Gen.PyFun.
Import ListNotations.

(* the nullable expansion used by the model of remove_epsilon is the function the source defines *)
Lemma py_nullable_sub_eq {Vr} `{EqDec Vr} (nul : list Vr) (body : list (symb Vr)) :
  py_remove_nullable_production_sub nul body = nullable_sub nul body.
Proof.
  induction body as [|X rest IH]; cbn [py_remove_nullable_production_sub nullable_sub]; [reflexivity|].
  rewrite IH. apply flat_map_ext. intros v. unfold in_nullables, not_epsilon. destruct X as [B|a]; [destruct (mem B nul)|]; reflexivity.
Qed.


(* remove_epsilon of the model = the source's remove_nullable_production mapped over the productions *)
Lemma py_remove_epsilon_prods {Vr} `{EqDec Vr} (G : cfg Vr) :
  g_prods (remove_epsilon G) = flat_map (py_remove_nullable_production (nullable_vars G)) (g_prods G).
Proof.
  unfold remove_epsilon. cbn [mkcfg g_prods]. apply flat_map_ext. intros p. unfold py_remove_nullable_production.
  rewrite py_nullable_sub_eq. f_equal. apply filter_ext. intros b. now destruct b.
Qed.

(* the normal-form test on productions is the source's Production.is_normal_form *)
Lemma py_prod_is_nf_eq {Vr} `{EqDec Vr} (p : Vr * list (symb Vr)) : py_production_is_normal_form (snd p) = prod_is_nf p.
Proof.
  unfold py_production_is_normal_form, prod_is_nf. destruct (snd p) as [|[B|a] [|[C|c] [|? ?]]]; reflexivity.
Qed.
