(* Lemmas about the definitions regenerated from /repo's source by tools/pygen.py (coq/Gen/*.v): re-checked at every build.
   One file per property so that a change of one constant only breaks the obligations that depend on it. *)
From Coq Require Import List Bool NArith.
From PFL Require Import Base.ListSet Spec.Cfg Model.Cfg Gen.PyConst Gen.PyFun.
Import ListNotations.

(* the nullable expansion used by the model of remove_epsilon is the function the source defines *)
Lemma py_nullable_sub_eq {Vr} `{EqDec Vr} (nul : list Vr) (body : list (symb Vr)) :
  py_remove_nullable_production_sub nul body = nullable_sub nul body.
Proof.
  induction body as [|X rest IH]; cbn [py_remove_nullable_production_sub nullable_sub]; [reflexivity|].
  rewrite IH. apply flat_map_ext. intros v. unfold in_nullables, not_epsilon. destruct X as [B|a]; [destruct (mem B nul)|]; reflexivity.
Qed.

