From Coq Require Import List Bool NArith Lia.
From PFL Require Import Base.Loop Base.ListSet Base.Closure Spec.Enfa Model.Enfa Model.EnfaOps
  Proofs.EnfaAccepts Proofs.EnfaSets Proofs.EnfaRuns.
Import ListNotations.

Section Fold.
  Context {Q : Type} `{EqDec Q}.
  Variable A : enfa Q.
  Lemma fold_seteq w : forall S S', seteq S S' ->
    seteq (fold_left (dstep A) w S) (fold_left (dstep A) w S').
  Proof. induction w as [|a w IH]; intros S S' E; cbn [fold_left]; [exact E|]. apply IH. now apply dstep_seteq. Qed.
  Lemma fold_empty w : forall S, isempty S -> isempty (fold_left (dstep A) w S).
  Proof. induction w as [|a w IH]; intros S E; cbn [fold_left]; [exact E|]. apply IH. now apply dstep_empty. Qed.
  Lemma eclose_eps_free S : eps_free A -> seteq (eclose A S) S.
  Proof.
    intros E x. rewrite eclose_spec. unfold epath. split.
    - induction 1 as [y Hy|y z Hy IH Hz]; [exact Hy|]. apply succs_In in Hz. destruct (E _ _ Hz).
    - now apply reach_init.
  Qed.
  Lemma eclose_idem S : seteq (eclose A (eclose A S)) (eclose A S).
  Proof.
    intros x. split; [|apply eclose_incl]. rewrite !eclose_spec. unfold epath.
    induction 1 as [y Hy|y z Hy IH Hz]; [now apply eclose_spec in Hy|]. eapply reach_step; eauto.
  Qed.
End Fold.

Section Det.
  Context {Q : Type} `{EqDec Q} `{Canon Q}.
  Variable b : bool.
  Variable A : enfa Q.
  Hypothesis Hb : b = false -> eps_free A.
  Hypothesis Hsyms : forall p a q, In (p, Some a, q) (e_delta A) -> In a (e_syms A).
  Variable n : nat.
  Variable D : enfa (list Q).
  Hypothesis HD : determinize b A n = Some D.

  Lemma dclose_seteq T : seteq (dclose b A T) (eclose A T).
  Proof.
    unfold dclose. destruct b.
    - apply norm_seteq.
    - eapply seteq_trans; [apply norm_seteq|]. apply seteq_sym, eclose_eps_free. now apply Hb.
  Qed.

  Lemma D_shape : exists sts,
    (forall S, In S sts <-> reach (dsuccs b A) [dstart b A] S) /\
    D = mkE sts (e_syms A)
          (flat_map (fun S => flat_map (fun a => map (fun T => (S, Some a, T)) (dnext b A S a)) (e_syms A)) sts)
          [dstart b A] (filter (is_final_set A) sts).
  Proof.
    unfold determinize in HD. destruct (close_from (dsuccs b A) n [dstart b A]) as [sts|] eqn:C; [|discriminate].
    exists sts. split; [intro S; apply (close_sound _ _ _ _ C)|]. now inversion HD.
  Qed.

  Lemma D_edge S l T : In (S, l, T) (e_delta D) <->
    exists a, l = Some a /\ In S (e_states D) /\ In a (e_syms A) /\ In T (dnext b A S a).
  Proof.
    destruct D_shape as [sts [R ->]]. cbn [e_delta e_states]. rewrite in_flat_map. split.
    - intros [S' [HS' Hin]]. apply in_flat_map in Hin. destruct Hin as [a [Ha Hin]].
      apply in_map_iff in Hin. destruct Hin as [T' [E HT]]. inversion E; subst. exists a. auto.
    - intros [a [-> [HS [Ha HT]]]]. exists S. split; [exact HS|]. apply in_flat_map. exists a. split; [exact Ha|].
      apply in_map_iff. exists T. auto.
  Qed.

  Lemma dnext_In S a T : In T (dnext b A S a) <-> (T = dclose b A (step_set A S a) /\ step_set A S a <> []).
  Proof.
    unfold dnext. destruct (step_set A S a) as [|x r] eqn:E; cbn [In].
    - split; [tauto|intros [_ F]; congruence].
    - split; [intros [<-|[]]; split; [reflexivity|discriminate]|intros [-> _]; now left].
  Qed.

  Lemma D_closed S a T : In S (e_states D) -> In a (e_syms A) -> In T (dnext b A S a) -> In T (e_states D).
  Proof.
    destruct D_shape as [sts [R ->]]. cbn [e_states]. intros HS Ha HT. apply R.
    apply reach_step with S; [now apply R|]. unfold dsuccs. apply in_flat_map. eauto.
  Qed.

  Lemma D_eps_free : eps_free D.
  Proof. intros p q Hd. apply D_edge in Hd. destruct Hd as [a [E _]]. discriminate. Qed.

  Lemma D_functional : functional D.
  Proof.
    intros p a q q' H1 H2. apply D_edge in H1, H2.
    destruct H1 as [a1 [E1 [_ [_ T1]]]], H2 as [a2 [E2 [_ [_ T2]]]]. inversion E1; inversion E2; subst.
    apply dnext_In in T1, T2. destruct T1 as [-> _], T2 as [-> _]. reflexivity.
  Qed.

  Lemma D_starts : e_starts D = [dstart b A].
  Proof. destruct D_shape as [sts [R ->]]. reflexivity. Qed.
  Lemma D_start_state : In (dstart b A) (e_states D).
  Proof. destruct D_shape as [sts [R ->]]. cbn [e_states]. apply R, reach_init. now left. Qed.
  Lemma D_finals T : In T (e_finals D) <-> In T (e_states D) /\ is_final_set A T = true.
  Proof. destruct D_shape as [sts [R ->]]. cbn [e_finals e_states]. apply filter_In. Qed.

  Theorem determinize_wf : wf D.
  Proof.
    split; [|split; [|split]].
    - intros S l T Hd. apply D_edge in Hd. destruct Hd as [a [-> [HS [Ha HT]]]]. split; [exact HS|eapply D_closed; eauto].
    - intros S a T Hd. apply D_edge in Hd. destruct Hd as [a' [E [_ [Ha _]]]]. inversion E; subst.
      destruct D_shape as [sts [_ ->]]. exact Ha.
    - intros S HS. rewrite D_starts in HS. destruct HS as [<-|[]]. exact D_start_state.
    - intros T HT. now apply D_finals in HT.
  Qed.

  Theorem determinize_is_dfa : is_dfa D.
  Proof.
    split; [exact D_eps_free|split; [exact D_functional|]].
    intros s s'. rewrite D_starts. cbn [In]. intuition congruence.
  Qed.

  Lemma run_D_fold S w T : In S (e_states D) -> run D S w T ->
    seteq T (fold_left (dstep A) w S) /\ In T (e_states D).
  Proof.
    intros HS R. induction R as [q|q q' w r Hd R IH|q a q' w r Hd R IH].
    - split; [apply seteq_refl|exact HS].
    - destruct (D_eps_free _ _ Hd).
    - apply D_edge in Hd. destruct Hd as [a' [E [_ [Ha HT]]]]. inversion E; subst a'.
      destruct (IH (D_closed _ _ _ HS Ha HT)) as [E1 E2]. split; [|exact E2]. cbn [fold_left].
      eapply seteq_trans; [exact E1|]. apply fold_seteq. apply dnext_In in HT. destruct HT as [-> _].
      unfold dstep. apply dclose_seteq.
  Qed.

  Lemma fold_run_D w : forall S, In S (e_states D) -> is_final_set A (fold_left (dstep A) w S) = true ->
    exists T, In T (e_finals D) /\ run D S w T.
  Proof.
    induction w as [|a w IH]; intros S HS HF; cbn [fold_left] in HF.
    - exists S. split; [now apply D_finals|apply run_nil].
    - destruct (step_set A S a) as [|x r] eqn:E.
      + exfalso. assert (X : isempty (fold_left (dstep A) w (dstep A S a))).
        { apply fold_empty. unfold dstep. apply eclose_empty. rewrite E. intros y []. }
        rewrite (is_final_set_empty _ _ X) in HF. discriminate.
      + assert (Ha : In a (e_syms A)).
        { assert (Hx : In x (step_set A S a)) by (rewrite E; now left).
          apply step_set_In in Hx. destruct Hx as [q [_ Hd]]. eapply Hsyms; eauto. }
        assert (HT : In (dclose b A (step_set A S a)) (dnext b A S a)).
        { apply dnext_In. split; [reflexivity|congruence]. }
        destruct (IH (dclose b A (step_set A S a))) as [T [HT1 HT2]].
        * eapply D_closed; eauto.
        * rewrite <- HF. apply is_final_set_seteq, fold_seteq. unfold dstep. apply dclose_seteq.
        * exists T. split; [exact HT1|]. apply run_sym with (dclose b A (step_set A S a)); [|exact HT2].
          apply D_edge. exists a. auto.
  Qed.

  Lemma dstart_seteq : seteq (dstart b A) (eclose A (e_starts A)).
  Proof. apply dclose_seteq. Qed.

  Theorem determinize_lang : lang_eq D A.
  Proof.
    intros w. rewrite <- (accepts_spec A). unfold accepts, Lang. rewrite D_starts. split.
    - intros [s [f [[<-|[]] [Hf R]]]]. apply D_finals in Hf. destruct Hf as [_ Hf].
      destruct (run_D_fold _ _ _ D_start_state R) as [E _].
      rewrite <- Hf. apply is_final_set_seteq.
      eapply seteq_trans; [apply fold_seteq, seteq_sym, dstart_seteq|now apply seteq_sym].
    - intros HF. destruct (fold_run_D w (dstart b A) D_start_state) as [T [HT R]].
      + rewrite <- HF. apply is_final_set_seteq, fold_seteq, dstart_seteq.
      + exists (dstart b A), T. split; [now left|auto].
  Qed.
End Det.
