(* CFG.intersection: the Bar-Hillel grammar over the normal form generates exactly L(G) /\ L(D) (C11). *)
From Coq Require Import List Bool Arith NArith Lia.
From PFL Require Import Base.ListSet Spec.Enfa Spec.Cfg Model.Enfa Model.EnfaOps Model.Cfg Model.CfgInter
  Proofs.EnfaAccepts Proofs.EnfaRuns Proofs.EnfaEmpty Proofs.CfgSymbols Proofs.CfgCyk Proofs.CfgUseless Proofs.CfgNormalForm.
Import ListNotations.

Section BH.
  Context {QD X : Type} `{EqDec QD} `{EqDec X}.
  Variables (C : cfg X) (D : enfa QD) (ge : bool).
  Hypothesis Hnf : is_normal_form C = true.
  Hypothesis Ddfa : is_dfa D.
  Hypothesis Dwf : wf D.
  Notation B := (bar_hillel C D ge).
  Notation st := (e_states D).

  Lemma B_triple p A r body : In (BTriple p A r, body) (g_prods B) <->
    (exists B1 C1 q, In (A, [V B1; V C1]) (g_prods C) /\ In p st /\ In r st /\ In q st /\ body = [V (BTriple p B1 q); V (BTriple q C1 r)]) \/
    (exists a tl, In (A, [T a]) (g_prods C) /\ In p st /\ body = [T a] /\ succs D (Some a) p = r :: tl).
  Proof.
    unfold bar_hillel. rewrite mkcfg_prods, !in_app_iff. split.
    - intros [H2|[H1|[Hs|He]]].
      + left. apply in_flat_map in H2. destruct H2 as [[A0 b0] [Hp Hm]]. cbn [fst snd] in Hm.
        destruct b0 as [|[B1|?] [|[C1|?] [|? ?]]]; try destruct Hm.
        apply in_flat_map in Hm. destruct Hm as [p0 [Hp0 Hm]]. apply in_flat_map in Hm. destruct Hm as [r0 [Hr0 Hm]].
        apply in_map_iff in Hm. destruct Hm as [q [E Hq]]. inversion E; subst. exists B1, C1, q. auto 6.
      + right. apply in_flat_map in H1. destruct H1 as [[A0 b0] [Hp Hm]]. cbn [fst snd] in Hm.
        destruct b0 as [|[?|a] [|? ?]]; try destruct Hm.
        apply in_flat_map in Hm. destruct Hm as [p0 [Hp0 Hm]]. destruct (succs D (Some a) p0) as [|q tl] eqn:Esu; [destruct Hm|].
        destruct Hm as [E|[]]. inversion E; subst. exists a, tl. auto.
      + destruct (e_starts D); [destruct Hs|]. destruct (g_start C); [|destruct Hs]. apply in_map_iff in Hs. destruct Hs as [f [E _]]. discriminate.
      + destruct ge; [destruct He as [E|[]]; discriminate|destruct He].
    - intros [[B1 [C1 [q [Hp [Hp0 [Hr [Hq ->]]]]]]]|[a [tl [Hp [Hp0 [-> Esu]]]]]].
      + left. apply in_flat_map. exists (A, [V B1; V C1]). split; [exact Hp|]. cbn [fst snd].
        apply in_flat_map. exists p. split; [exact Hp0|]. apply in_flat_map. exists r. split; [exact Hr|]. apply in_map_iff. eauto.
      + right. left. apply in_flat_map. exists (A, [T a]). split; [exact Hp|]. cbn [fst snd].
        apply in_flat_map. exists p. split; [exact Hp0|]. rewrite Esu. now left.
  Qed.
  Lemma B_start body : In (BStart, body) (g_prods B) <->
    (exists d0 tl s f, e_starts D = d0 :: tl /\ g_start C = Some s /\ In f (e_finals D) /\ body = [V (BTriple d0 s f)]) \/ (ge = true /\ body = []).
  Proof.
    unfold bar_hillel. rewrite mkcfg_prods, !in_app_iff. split.
    - intros [H2|[H1|[Hs|He]]].
      + apply in_flat_map in H2. destruct H2 as [[A0 b0] [Hp Hm]]. cbn [fst snd] in Hm.
        destruct b0 as [|[B1|?] [|[C1|?] [|? ?]]]; try destruct Hm.
        apply in_flat_map in Hm. destruct Hm as [p0 [Hp0 Hm]]. apply in_flat_map in Hm. destruct Hm as [r0 [Hr0 Hm]].
        apply in_map_iff in Hm. destruct Hm as [q [E Hq]]. discriminate.
      + apply in_flat_map in H1. destruct H1 as [[A0 b0] [Hp Hm]]. cbn [fst snd] in Hm.
        destruct b0 as [|[?|a] [|? ?]]; try destruct Hm.
        apply in_flat_map in Hm. destruct Hm as [p0 [Hp0 Hm]]. destruct (succs D (Some a) p0) as [|q tl]; [destruct Hm|]. destruct Hm as [E|[]]. discriminate.
      + left. destruct (e_starts D) as [|d0 tl]; [destruct Hs|]. destruct (g_start C) as [s|]; [|destruct Hs].
        apply in_map_iff in Hs. destruct Hs as [f [E Hf]]. inversion E; subst. exists d0, tl, s, f. auto.
      + right. destruct ge; [destruct He as [E|[]]; inversion E; auto|destruct He].
    - intros [[d0 [tl [s [f [Ed [Es [Hf ->]]]]]]]|[-> ->]].
      + right. right. left. rewrite Ed, Es. apply in_map_iff. eauto.
      + right. right. right. now left.
  Qed.

  Lemma run_split (A : enfa QD) u : forall p v r, run A p (u ++ v) r -> exists q, run A p u q /\ run A q v r.
  Proof.
    intros p v r R. remember (u ++ v) as w eqn:Ew. revert u v Ew. induction R as [q|q q' w r' Hd R IH|q a q' w r' Hd R IH]; intros u v Ew.
    - symmetry in Ew. apply app_eq_nil in Ew. destruct Ew as [-> ->]. exists q. split; apply run_nil.
    - destruct (IH u v Ew) as [m [R1 R2]]. exists m. split; [now apply run_eps with q'|exact R2].
    - destruct u as [|b u].
      + cbn [app] in Ew. subst v. exists q. split; [apply run_nil|now apply run_sym with q'].
      + cbn [app] in Ew. inversion Ew; subst. destruct (IH u v eq_refl) as [m [R1 R2]]. exists m. split; [now apply run_sym with q'|exact R2].
  Qed.
  Lemma run_in_states p w q : run D p w q -> In p st -> In q st.
  Proof. induction 1 as [q|q q' w r Hd _ IH|q a q' w r Hd _ IH]; intros Hq; [exact Hq|apply IH; apply (proj1 Dwf _ _ _ Hd)|apply IH; apply (proj1 Dwf _ _ _ Hd)]. Qed.
  Lemma run_one p a q : run D p [a] q <-> In (p, Some a, q) (e_delta D).
  Proof.
    destruct Ddfa as [Ef _]. split.
    - intros R. inversion R as [|? ? ? ? Hd _|? ? q' ? ? Hd R']; subst; [exfalso; now apply (Ef _ _ Hd)|].
      inversion R' as [|? ? ? ? Hd' _|]; subst; [exact Hd|exfalso; now apply (Ef _ _ Hd')].
    - intros Hd. apply run_sym with q; [exact Hd|apply run_nil].
  Qed.

  Definition PV (A : X) (u : list N) : Prop := forall p q, run D p u q -> In p st -> derives B (V (BTriple p A q)) u.

  Lemma to_B : (forall S w, derives C S w -> forall A, S = V A -> PV A w) /\
               (forall body w, derives_list C body w ->
                  (forall B1 C1, body = [V B1; V C1] -> exists u v, w = u ++ v /\ PV B1 u /\ PV C1 v) /\
                  (forall B1, body = [V B1] -> PV B1 w) /\ (forall a, body = [T a] -> w = [a])).
  Proof.
    apply derives_mutind.
    - intros a A E. discriminate.
    - intros A0 body w Hp DL [IH2 [_ IH1]] A E p r R Hp0. inversion E; subst A0.
      destruct (nf_prod C Hnf _ _ Hp) as [[B1 [C1 ->]]|[a ->]].
      + destruct (IH2 B1 C1 eq_refl) as [u [v [-> [PB PC]]]]. apply run_split in R. destruct R as [q [R1 R2]].
        pose proof (run_in_states _ _ _ R1 Hp0) as Hq.
        apply dv_var with [V (BTriple p B1 q); V (BTriple q C1 r)].
        * apply B_triple. left. exists B1, C1, q. split; [exact Hp|split; [exact Hp0|split; [apply (run_in_states _ _ _ R2 Hq)|auto]]].
        * apply dl_cons; [now apply PB|]. rewrite <- (app_nil_r v). apply dl_cons; [now apply PC|apply dl_nil].
      + rewrite (IH1 a eq_refl) in *. apply run_one in R. apply dv_var with [T a].
        * apply B_triple. right. pose proof (proj2 (succs_In D (Some a) p r) R) as Hs. destruct (succs D (Some a) p) as [|q tl] eqn:Esu; [destruct Hs|].
          assert (q = r). { destruct Ddfa as [_ [Fn _]]. apply (Fn p a); [apply (succs_In D); rewrite Esu; now left|exact R]. } subst q.
          exists a, tl. auto.
        * apply (dl_cons _ (T a) [] [a] []); [apply dv_ter|apply dl_nil].
    - split; [|split]; intros; discriminate.
    - intros S rest u v DS IHS DL [_ [IHL1 _]]. split; [|split].
      + intros B1 C1 E. inversion E; subst. exists u, v. split; [reflexivity|split; [now apply IHS|now apply IHL1]].
      + intros B1 E. inversion E; subst. inversion DL; subst. rewrite app_nil_r. now apply IHS.
      + intros a E. inversion E; subst. inversion DL; subst. inversion DS; subst. reflexivity.
  Qed.

  Definition QV (p : QD) (A : X) (q : QD) (w : list N) : Prop := derives C (V A) w /\ run D p w q.
  Lemma from_B : (forall S w, derives B S w -> forall p A q, S = V (BTriple p A q) -> QV p A q w) /\
                 (forall body w, derives_list B body w ->
                    (forall p B1 q C1 r, body = [V (BTriple p B1 q); V (BTriple q C1 r)] -> exists u v, w = u ++ v /\ QV p B1 q u /\ QV q C1 r v) /\
                    (forall p B1 q, body = [V (BTriple p B1 q)] -> QV p B1 q w) /\ (forall a, body = [T a] -> w = [a])).
  Proof.
    apply derives_mutind.
    - intros a p A q E. discriminate.
    - intros A0 body w Hp DL [IH2 [_ IH1]] p A r E. inversion E; subst A0. apply B_triple in Hp.
      destruct Hp as [[B1 [C1 [q [Hp [Hp0 [Hr [Hq ->]]]]]]]|[a [tl [Hp [Hp0 [-> Esu]]]]]].
      + destruct (IH2 p B1 q C1 r eq_refl) as [u [v [-> [[D1 R1] [D2 R2]]]]]. split.
        * apply dv_var with [V B1; V C1]; [exact Hp|]. apply dl_cons; [exact D1|]. rewrite <- (app_nil_r v). apply dl_cons; [exact D2|apply dl_nil].
        * now apply run_app with q.
      + rewrite (IH1 a eq_refl). split.
        * apply dv_var with [T a]; [exact Hp|]. apply (dl_cons _ (T a) [] [a] []); [apply dv_ter|apply dl_nil].
        * apply run_one. apply (succs_In D). rewrite Esu. now left.
    - split; [|split]; intros; discriminate.
    - intros S rest u v DS IHS DL [_ [IHL1 _]]. split; [|split].
      + intros p B1 q C1 r E. inversion E; subst. exists u, v. split; [reflexivity|split; [now apply IHS|now apply IHL1]].
      + intros p B1 q E. inversion E; subst. inversion DL; subst. rewrite app_nil_r. now apply IHS.
      + intros a E. inversion E; subst. inversion DL; subst. inversion DS; subst. reflexivity.
  Qed.

  Theorem bar_hillel_lang w : LangG B w <-> (ge = true /\ w = []) \/ (LangG C w /\ Lang D w).
  Proof.
    unfold LangG at 1. unfold bar_hillel at 1. rewrite mkcfg_start. split.
    - intros Dv. inversion Dv as [|? body ? Hp DL]; subst. apply B_start in Hp.
      destruct Hp as [[d0 [tl [s [f [Ed [Es [Hf ->]]]]]]]|[Ege ->]].
      + right. destruct (proj1 (proj2 (proj2 from_B _ _ DL)) d0 s f eq_refl) as [DC R]. split.
        * unfold LangG. now rewrite Es.
        * exists d0, f. split; [rewrite Ed; now left|auto].
      + left. inversion DL; subst. auto.
    - intros [[Ege ->]|[LC [d [f [Hd [Hf R]]]]]].
      + apply dv_var with []; [apply B_start; now right|apply dl_nil].
      + unfold LangG in LC. destruct (g_start C) as [s|] eqn:Es; [|destruct LC].
        destruct (e_starts D) as [|d0 tl] eqn:Ed; [destruct Hd|].
        assert (d = d0). { destruct Ddfa as [_ [_ O1]]. apply O1; rewrite Ed; [exact Hd|now left]. } subst d.
        apply dv_var with [V (BTriple d0 s f)]; [apply B_start; left; exists d0, tl, s, f; rewrite Ed; auto|].
        rewrite <- (app_nil_r w). apply dl_cons; [|apply dl_nil].
        apply (proj1 to_B _ _ LC s eq_refl d0 f R). apply (proj1 (proj2 (proj2 Dwf))). rewrite Ed. now left.
  Qed.
End BH.

(* CFG.intersection end to end *)
Theorem cfg_inter_lang {Vr QD} `{EqDec Vr} `{EqDec QD} (fuel : nat) (G : cfg Vr) (D : enfa QD) R :
  is_dfa D -> wf D -> cfg_inter fuel G D = Some R -> forall w, LangG R w <-> LangG G w /\ Lang D w.
Proof.
  intros Ddfa Dwf E w. unfold cfg_inter in E. destruct (is_empty D) eqn:Em.
  - inversion E; subst. pose proof (proj1 (is_empty_spec D) Em) as Em'. clear Em. rename Em' into Em. split; [intros []|intros [_ L]; exact (Em w L)].
  - destruct (to_normal_form fuel G) as [C|] eqn:En; [|discriminate]. inversion E; subst.
    rewrite (bar_hillel_lang C D _ (to_normal_form_nf fuel G C En) Ddfa Dwf w). split.
    + intros [[Ege ->]|[LC LD]].
      * apply andb_true_iff in Ege. destruct Ege as [E1 E2]. split; [now apply generate_epsilon_spec|now apply accepts_spec].
      * split; [|exact LD]. apply (to_normal_form_lang fuel G C w En); [|exact LC].
        intros ->. unfold LangG in LC. destruct (g_start C) as [s|]; [|exact LC].
        now apply (proj1 (nf_nonempty C (to_normal_form_nf fuel G C En)) _ _ LC).
    + intros [LG LD]. destruct w as [|a w'].
      * left. split; [|reflexivity]. apply andb_true_iff. split; [now apply generate_epsilon_spec|now apply accepts_spec].
      * right. split; [|exact LD]. apply (to_normal_form_lang fuel G C (a :: w') En); [discriminate|exact LG].
Qed.
