(* CYK on a grammar in Chomsky normal form decides derivability of non-empty words (C08) *)
From Coq Require Import List Bool Arith NArith Lia.
From PFL Require Import Base.ListSet Spec.Cfg Model.Cfg.
Import ListNotations.

Section K.
  Context {X : Type} `{EqDec X}.
  Variable G : cfg X.
  Hypothesis Hnf : is_normal_form G = true.

  Lemma nf_prod A body : In (A, body) (g_prods G) ->
    (exists B C, body = [V B; V C]) \/ (exists a, body = [T a]).
  Proof.
    intros Hp. unfold is_normal_form in Hnf. rewrite forallb_forall in Hnf. specialize (Hnf _ Hp).
    unfold prod_is_nf in Hnf. cbn [snd] in Hnf.
    destruct body as [|[B|a] [|[C|c] [|? ?]]]; try discriminate; eauto.
  Qed.

  Lemma nf_nonempty : (forall S w, derives G S w -> w <> []) /\ (forall body w, derives_list G body w -> body <> [] -> w <> []).
  Proof.
    apply derives_mutind.
    - intros a. discriminate.
    - intros A body w Hp DL IH. apply IH. destruct (nf_prod _ _ Hp) as [[B [C ->]]|[a ->]]; discriminate.
    - intros N. congruence.
    - intros S rest u v DS IHS DL IHL _ E. apply app_eq_nil in E. destruct E as [E _]. now apply IHS.
  Qed.

  Lemma derives_list1 S w : derives_list G [S] w -> derives G S w.
  Proof.
    intros D. inversion D as [|S' rest u v DS DL]; subst. inversion DL; subst. now rewrite app_nil_r.
  Qed.
  Lemma derives_list2 S1 S2 w : derives_list G [S1; S2] w -> exists u v, w = u ++ v /\ derives G S1 u /\ derives G S2 v.
  Proof.
    intros D. inversion D as [|S' rest u v DS DL]; subst. apply derives_list1 in DL. eauto.
  Qed.

  Lemma splits_In (w u v : list N) : In (u, v) (splits w) <-> w = u ++ v /\ u <> [] /\ v <> [].
  Proof.
    unfold splits. rewrite in_map_iff. split.
    - intros [i [E Hi]]. apply in_seq in Hi. inversion E; subst. split; [now rewrite firstn_skipn|]. split.
      + intros F. apply (f_equal (@length N)) in F. rewrite firstn_length in F. cbn in F. lia.
      + intros F. apply (f_equal (@length N)) in F. rewrite skipn_length in F. cbn in F. lia.
    - intros [-> [Nu Nv]]. exists (length u). split.
      + rewrite firstn_app, Nat.sub_diag, firstn_all, skipn_app, Nat.sub_diag, skipn_all. cbn. now rewrite app_nil_r.
      + apply in_seq. rewrite app_length. destruct u; [congruence|]. destruct v; [congruence|]. cbn. lia.
  Qed.

  Theorem cyk_set_spec fuel : forall w A, length w <= fuel -> w <> [] ->
    (In A (cyk_set fuel G w) <-> derives G (V A) w).
  Proof.
    induction fuel as [|f IH]; intros w A L Nw; [destruct w; [congruence|cbn in L; lia]|].
    destruct w as [|a [|b w']]; [congruence| |]; cbn [cyk_set]; rewrite dedup_In, in_flat_map.
    - split.
      + intros [[A' body] [Hp HA]]. cbn [fst snd] in HA. destruct body as [|[B|c] [|? ?]]; try destruct HA.
        destruct (N.eqb_spec a c) as [->|]; [|destruct HA]. destruct HA as [<-|[]].
        apply dv_var with [T c]; [exact Hp|]. change [c] with ([c] ++ []). apply dl_cons; [apply dv_ter|apply dl_nil].
      + intros D. inversion D as [|A' body w0 Hp DL]; subst. exists (A, body). split; [exact Hp|]. cbn [fst snd].
        destruct (nf_prod _ _ Hp) as [[B [C ->]]|[c ->]].
        * exfalso. apply derives_list2 in DL. destruct DL as [u [v [E [D1 D2]]]].
          apply (proj1 nf_nonempty) in D1, D2. destruct u; [congruence|]. destruct v; [congruence|]. cbn in E. inversion E.
          destruct u; discriminate.
        * apply derives_list1 in DL. inversion DL; subst. rewrite N.eqb_refl. now left.
    - set (w := a :: b :: w') in *. split.
      + intros [[u v] [Hs HA]]. apply splits_In in Hs. destruct Hs as [Ew [Nu Nv]]. cbn [fst snd] in HA.
        apply in_flat_map in HA. destruct HA as [[A' body] [Hp HA]]. cbn [fst snd] in HA.
        destruct body as [|[B|c] [|[C|c'] [|? ?]]]; try destruct HA.
        destruct (mem B (cyk_set f G u)) eqn:MB; [|destruct HA]. destruct (mem C (cyk_set f G v)) eqn:MC; [|destruct HA].
        destruct HA as [<-|[]]. apply mem_In in MB, MC.
        assert (Lu : length u <= f /\ length v <= f).
        { rewrite Ew, app_length in L. destruct u; [congruence|]. destruct v; [congruence|]. cbn in *. lia. }
        apply IH in MB; [|tauto|exact Nu]. apply IH in MC; [|tauto|exact Nv].
        apply dv_var with [V B; V C]; [exact Hp|]. rewrite Ew. rewrite <- (app_nil_r v). apply dl_cons; [exact MB|].
        apply dl_cons; [exact MC|apply dl_nil].
      + intros D. inversion D as [|A' body w0 Hp DL]; subst.
        destruct (nf_prod _ _ Hp) as [[B [C ->]]|[c ->]].
        * apply derives_list2 in DL. destruct DL as [u [v [E [D1 D2]]]].
          pose proof (proj1 nf_nonempty _ _ D1) as Nu. pose proof (proj1 nf_nonempty _ _ D2) as Nv.
          exists (u, v). split; [apply splits_In; auto|]. cbn [fst snd]. apply in_flat_map. exists (A, [V B; V C]). split; [exact Hp|].
          cbn [fst snd].
          assert (Lu : length u <= f /\ length v <= f).
          { rewrite E, app_length in L. destruct u; [congruence|]. destruct v; [congruence|]. cbn in *. lia. }
          apply IH in D1; [|tauto|exact Nu]. apply IH in D2; [|tauto|exact Nv].
          apply mem_In in D1, D2. rewrite D1, D2. now left.
        * exfalso. apply derives_list1 in DL. inversion DL. 
  Qed.

  Theorem cyk_spec w : w <> [] -> (cyk G w = true <-> LangG G w).
  Proof.
    intros Nw. unfold cyk, LangG. destruct (g_start G) as [s|]; [|split; [discriminate|tauto]].
    rewrite mem_In. apply cyk_set_spec; [lia|exact Nw].
  Qed.
End K.
