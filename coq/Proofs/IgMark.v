(* IndexedGrammar.is_empty: Aho's marking is sound and complete for tree-shaped derivations, which coincide with the
   rewriting semantics of Spec/Ig.v on terminal words (C17). *)
From Coq Require Import List Bool Arith NArith Lia.
From PFL Require Import Base.ListSet Base.Saturate Spec.Ig Model.Ig.
Import ListNotations.

(* ---- canonical lists ---- *)
Inductive ssorted : list N -> Prop :=
| ss_nil : ssorted []
| ss_cons x l : (forall y, In y l -> (x < y)%N) -> ssorted l -> ssorted (x :: l).
Lemma insertN_ssorted x l : ssorted l -> ssorted (insertN x l).
Proof.
  induction 1 as [|z l Hz Hs IH]; cbn [insertN]; [constructor; [intros y []|constructor]|].
  destruct (N.compare_spec x z) as [->|L|L].
  - now constructor.
  - constructor; [|now constructor]. intros y [<-|Hy]; [exact L|]. specialize (Hz y Hy). lia.
  - constructor; [|exact IH]. intros y Hy. apply insertN_In in Hy. destruct Hy as [->|Hy]; [exact L|now apply Hz].
Qed.
Lemma canon_ssorted l : ssorted (canon l).
Proof. induction l as [|x l IH]; cbn; [constructor|now apply insertN_ssorted]. Qed.
Lemma ssorted_ext l1 : forall l2, ssorted l1 -> ssorted l2 -> (forall x, In x l1 <-> In x l2) -> l1 = l2.
Proof.
  induction l1 as [|x l1 IH]; intros l2 S1 S2 E.
  - destruct l2 as [|y l2]; [reflexivity|]. exfalso. apply (proj2 (E y)). now left.
  - destruct l2 as [|y l2]; [exfalso; apply (proj1 (E x)); now left|].
    inversion S1 as [|? ? H1 S1']; subst. inversion S2 as [|? ? H2 S2']; subst.
    assert (x = y).
    { destruct (proj1 (E x) (or_introl eq_refl)) as [->|Hx]; [reflexivity|]. destruct (proj2 (E y) (or_introl eq_refl)) as [->|Hy]; [reflexivity|].
      specialize (H1 y Hy). specialize (H2 x Hx). lia. }
    subst y. f_equal. apply IH; auto. intros z. split; intros Hz.
    + destruct (proj1 (E z) (or_intror Hz)) as [->|Hz']; [specialize (H1 z Hz); lia|exact Hz'].
    + destruct (proj2 (E z) (or_intror Hz)) as [->|Hz']; [specialize (H2 z Hz); lia|exact Hz'].
Qed.
Lemma canon_ext l1 l2 : (forall x, In x l1 <-> In x l2) -> canon l1 = canon l2.
Proof. intros E. apply ssorted_ext; try apply canon_ssorted. intros x. now rewrite !canon_In. Qed.
Lemma canon_idem l : canon (canon l) = canon l.
Proof. apply canon_ext. intros x. apply canon_In. Qed.

Lemma subsets_filter (f : N -> bool) l : In (filter f l) (subsets l).
Proof.
  induction l as [|x r IH]; cbn [subsets filter]; [now left|]. apply in_or_app. destruct (f x); [right; now apply in_map|now left].
Qed.
Lemma subsets_incl l t : In t (subsets l) -> incl t l.
Proof.
  revert t. induction l as [|x r IH]; cbn [subsets]; intros t Ht.
  - destruct Ht as [<-|[]]. intros y [].
  - apply in_app_or in Ht. destruct Ht as [Ht|Ht].
    + intros y Hy. right. now apply (IH t Ht).
    + apply in_map_iff in Ht. destruct Ht as [t' [<- Ht']]. intros y [<-|Hy]; [now left|right; now apply (IH t' Ht')].
Qed.
Lemma canon_in_subsets l t : incl t l -> In (canon t) (map canon (subsets l)).
Proof.
  intros I. apply in_map_iff. exists (filter (fun x => mem x t) l). split; [|apply subsets_filter].
  apply canon_ext. intros x. rewrite filter_In, mem_In. split; [tauto|intros Hx; split; [now apply I|exact Hx]].
Qed.

(* ---- tree-shaped derivations ---- *)
Definition olistN (a : option N) : list N := match a with Some x => [x] | None => [] end.
Inductive ider (R : list irule) : N -> list N -> list N -> Prop :=
| id_end A a s : In (REnd A a) R -> ider R A s (olistN a)
| id_prod A B f s w : In (RProd A B f) R -> ider R B (f :: s) w -> ider R A s w
| id_cons f A B s w : In (RCons f A B) R -> ider R B s w -> ider R A (f :: s) w
| id_dup A B C s u v : In (RDup A B C) R -> ider R B s u -> ider R C s v -> ider R A s (u ++ v).

Section M.
  Variable R : list irule.
  Variable S : N.
  Notation Mk := (marks R S).
  Notation nts := (nts_of R S).

  Lemma marked_of_In M Y t : In t (marked_of M Y) <-> In (Y, t) M.
  Proof.
    unfold marked_of. rewrite in_flat_map. split.
    - intros [[Y0 t0] [Hi Ht]]. cbn [fst snd] in Ht. destruct (N.eqb_spec Y0 Y) as [->|]; [|destruct Ht]. destruct Ht as [<-|[]]. exact Hi.
    - intros Hi. exists (Y, t). split; [exact Hi|]. cbn [fst snd]. rewrite N.eqb_refl. now left.
  Qed.

  Lemma combos_sound M f TB T : In T (combos R M f TB) ->
    forall X, In X TB -> exists Y TY, In (RCons f X Y) R /\ In (Y, TY) M /\ incl TY T.
  Proof.
    revert T. induction TB as [|X0 rest IH]; intros T HT X HX; [destruct HX|]. cbn [combos] in HT.
    apply in_flat_map in HT. destruct HT as [ru [Hru HT]]. apply in_map_iff in HT. destruct HT as [a [<- Ha]].
    apply in_flat_map in Ha. destruct Ha as [r [Hr Ha]]. destruct r as [| |f' X' Y|]; try destruct Ha.
    destruct (N.eqb_spec f f') as [<-|]; [|destruct Ha]. destruct (N.eqb_spec X0 X') as [<-|]; [|destruct Ha]. cbn in Ha.
    apply marked_of_In in Ha. destruct HX as [<-|HX].
    - exists Y, a. split; [exact Hr|split; [exact Ha|]]. intros z Hz. apply canon_In. apply in_or_app. now left.
    - destruct (IH ru Hru X HX) as [Y' [TY [H1 [H2 H3]]]]. exists Y', TY. split; [exact H1|split; [exact H2|]].
      intros z Hz. apply canon_In. apply in_or_app. right. now apply H3.
  Qed.

  (* ---- soundness: a marked pair (A, T) means: on every stack, A derives a word as soon as every member of T does ---- *)
  Definition Sem (it : mitem) : Prop := forall s, (forall X, In X (snd it) -> exists w, ider R X s w) -> exists w, ider R (fst it) s w.

  Lemma marks_sound it : In it Mk -> Sem it.
  Proof.
    intros Hi. apply saturate_sound in Hi. revert it Hi. apply Gen_least. intros M [A T] HM _ Ho s HT. cbn [fst snd] in *.
    unfold mark_ok in Ho. apply orb_true_iff in Ho. destruct Ho as [Ho|Ho].
    - apply (proj1 (eqb_eq T [A])) in Ho. subst T. apply HT. now left.
    - apply existsb_exists in Ho. destruct Ho as [r [Hr Ho]]. destruct r as [A' a|A' B f|f A' B|A' B C]; [| | discriminate|].
      + apply land_true_iff in Ho. destruct Ho as [E _]. apply N.eqb_eq in E. subst A'. exists (olistN a). now apply id_end.
      + apply land_true_iff in Ho. destruct Ho as [E Ho]. apply N.eqb_eq in E. subst A'. apply existsb_exists in Ho. destruct Ho as [TB [HTB Ho]].
        apply marked_of_In in HTB. apply mem_In in Ho.
        destruct (HM _ HTB (f :: s)) as [w Dw]; [|exists w; now apply id_prod with B f].
        cbn [snd]. intros X HX. destruct (combos_sound M f TB T Ho X HX) as [Y [TY [H1 [H2 H3]]]].
        destruct (HM _ H2 s) as [w Dw]; [cbn [snd]; intros Z HZ; apply HT; now apply H3|]. exists w. now apply id_cons with Y.
      + apply land_true_iff in Ho. destruct Ho as [E Ho]. apply N.eqb_eq in E. subst A'. apply existsb_exists in Ho. destruct Ho as [T1 [H1 Ho]].
        apply existsb_exists in Ho. destruct Ho as [T2 [H2 Ho]]. apply (proj1 (eqb_eq T (canon (T1 ++ T2)))) in Ho. subst T.
        apply marked_of_In in H1. apply marked_of_In in H2.
        destruct (HM _ H1 s) as [u Du]; [cbn [snd]; intros X HX; apply HT; apply canon_In; apply in_or_app; now left|].
        destruct (HM _ H2 s) as [v Dv]; [cbn [snd]; intros X HX; apply HT; apply canon_In; apply in_or_app; now right|].
        exists (u ++ v). now apply id_dup with B C.
  Qed.

  (* ---- completeness ---- *)
  Inductive iderN : nat -> N -> list N -> list N -> Prop :=
  | idn_end A a s : In (REnd A a) R -> iderN 0 A s (olistN a)
  | idn_prod n A B f s w : In (RProd A B f) R -> iderN n B (f :: s) w -> iderN (Datatypes.S n) A s w
  | idn_cons n f A B s w : In (RCons f A B) R -> iderN n B s w -> iderN (Datatypes.S n) A (f :: s) w
  | idn_dup n m A B C s u v : In (RDup A B C) R -> iderN n B s u -> iderN m C s v -> iderN (Datatypes.S (n + m)) A s (u ++ v).
  Lemma ider_iderN A s w : ider R A s w <-> exists n, iderN n A s w.
  Proof.
    split.
    - induction 1 as [A a s Hr|A B f s w Hr _ [n IH]|f A B s w Hr _ [n IH]|A B C s u v Hr _ [n IH1] _ [m IH2]].
      + exists 0. now constructor.
      + exists (Datatypes.S n). now apply idn_prod with B f.
      + exists (Datatypes.S n). now apply idn_cons with B.
      + exists (Datatypes.S (n + m)). now apply idn_dup with B C.
    - intros [n D]. induction D; [now constructor|eapply id_prod; eauto|eapply id_cons; eauto|eapply id_dup; eauto].
  Qed.

  Lemma nts_rule r X : In r R -> In X (match r with REnd A _ => [A] | RProd A B _ => [A; B] | RCons _ A B => [A; B] | RDup A B C => [A; B; C] end) -> In X nts.
  Proof.
    intros Hr HX. unfold nts_of. apply canon_In. right. apply in_flat_map. exists r. auto.
  Qed.
  Lemma marks_cands A T : In (A, T) Mk -> In A nts /\ canon T = T /\ incl T nts.
  Proof.
    intros Hi. apply saturate_sound in Hi. inversion Hi as [S0 c _ Hc _]; subst c. unfold mark_cands in Hc. apply in_prod_iff in Hc. destruct Hc as [HA HT].
    apply in_map_iff in HT. destruct HT as [t [<- Ht]]. split; [exact HA|split; [apply canon_idem|]].
    intros x Hx. apply (proj1 (canon_In x t)) in Hx. now apply (subsets_incl _ _ Ht).
  Qed.
  Lemma cand_ok A T : In A nts -> canon T = T -> incl T nts -> In (A, T) (mark_cands R S).
  Proof.
    intros HA HT HI. unfold mark_cands. apply in_prod_iff. split; [exact HA|]. rewrite <- HT. now apply canon_in_subsets.
  Qed.

  Lemma combos_canon M f TB T : In T (combos R M f TB) -> canon T = T.
  Proof.
    destruct TB as [|X0 rest]; cbn [combos]; [intros [<-|[]]; reflexivity|]. intros HT.
    apply in_flat_map in HT. destruct HT as [ru [_ HT]]. apply in_map_iff in HT. destruct HT as [a [<- _]]. apply canon_idem.
  Qed.

  Lemma combos_complete (P : N -> Prop) f : forall TB,
    (forall X, In X TB -> exists Y TY, In (RCons f X Y) R /\ In (Y, TY) Mk /\ (forall Z, In Z TY -> P Z)) ->
    exists T, In T (combos R Mk f TB) /\ (forall Z, In Z T -> P Z).
  Proof.
    induction TB as [|X0 rest IH]; intros Hc.
    - exists []. split; [now left|intros Z []].
    - destruct IH as [ru [Hru Pru]]; [intros X HX; apply Hc; now right|].
      destruct (Hc X0 (or_introl eq_refl)) as [Y [TY [Hr [Hm PY]]]].
      exists (canon (TY ++ ru)). split.
      + cbn [combos]. apply in_flat_map. exists ru. split; [exact Hru|]. apply in_map_iff. exists TY. split; [reflexivity|].
        apply in_flat_map. exists (RCons f X0 Y). split; [exact Hr|]. rewrite !N.eqb_refl. cbn. now apply marked_of_In.
      + intros Z HZ. rewrite canon_In in HZ. apply in_app_or in HZ. destruct HZ as [HZ|HZ]; [now apply PY|now apply Pru].
  Qed.

  (* the frontier of a derivation: the nonterminals met when the original stack is first consumed *)
  Lemma marks_complete : forall n A s w, iderN n A s w ->
    exists T, In (A, T) Mk /\ forall X, In X T -> exists f s' B w' m, s = f :: s' /\ In (RCons f X B) R /\ iderN m B s' w' /\ m < n.
  Proof.
    induction n as [n IH] using lt_wf_ind. intros A s w D. inversion D as [A0 a s0 Hr|m A0 B f s0 w0 Hr DB|m f A0 B s0 w0 Hr DB|m1 m2 A0 B C s0 u v Hr DB DC]; subst.
    - exists []. split; [|intros X []]. apply saturate_closed.
      + apply cand_ok; [apply (nts_rule _ A Hr); now left|reflexivity|intros x []].
      + unfold mark_ok. apply orb_true_iff. right. apply existsb_exists. exists (REnd A a). split; [exact Hr|]. rewrite N.eqb_refl. reflexivity.
    - destruct (IH m ltac:(lia) _ _ _ DB) as [TB [HTB PTB]].
      destruct (combos_complete (fun Z => exists f' s' B' w' m', s = f' :: s' /\ In (RCons f' Z B') R /\ iderN m' B' s' w' /\ m' < Datatypes.S m) f TB) as [T [HT PT]].
      { intros X HX. destruct (PTB X HX) as [f' [s' [Y [w' [m' [Es [Hr' [DY Lt]]]]]]]]. inversion Es; subst f' s'.
        destruct (IH m' ltac:(lia) _ _ _ DY) as [TY [HTY PTY]]. exists Y, TY. split; [exact Hr'|split; [exact HTY|]].
        intros Z HZ. destruct (PTY Z HZ) as [f2 [s2 [B2 [w2 [m2 [E2 [Hr2 [D2 L2]]]]]]]]. exists f2, s2, B2, w2, m2. repeat split; auto. lia. }
      exists T. split; [|exact PT]. apply saturate_closed.
      + apply cand_ok; [apply (nts_rule _ A Hr); now left|now apply combos_canon with Mk f TB|].
        intros Z HZ. destruct (PT Z HZ) as [f' [s' [B' [w' [m' [_ [Hr' _]]]]]]]. apply (nts_rule _ Z Hr'). now left.
      + unfold mark_ok. apply orb_true_iff. right. apply existsb_exists. exists (RProd A B f). split; [exact Hr|]. rewrite N.eqb_refl.
        apply existsb_exists. exists TB. split; [now apply marked_of_In|now apply mem_In].
    - exists [A]. split.
      + apply saturate_closed.
        * apply cand_ok; [apply (nts_rule _ A Hr); now left|reflexivity|intros x [Ex|[]]; subst x; apply (nts_rule _ A Hr); now left].
        * unfold mark_ok. apply orb_true_iff. left. apply eqb_refl.
      + intros X [<-|[]]. exists f, s0, B, w, m. repeat split; auto.
    - destruct (IH m1 ltac:(lia) _ _ _ DB) as [T1 [HT1 PT1]]. destruct (IH m2 ltac:(lia) _ _ _ DC) as [T2 [HT2 PT2]].
      exists (canon (T1 ++ T2)). split.
      + apply saturate_closed.
        * apply cand_ok; [apply (nts_rule _ A Hr); now left|apply canon_idem|].
          intros Z HZ. rewrite canon_In in HZ. apply in_app_or in HZ. destruct HZ as [HZ|HZ]; [now apply (marks_cands _ _ HT1)|now apply (marks_cands _ _ HT2)].
        * unfold mark_ok. apply orb_true_iff. right. apply existsb_exists. exists (RDup A B C). split; [exact Hr|]. rewrite N.eqb_refl.
          apply existsb_exists. exists T1. split; [now apply marked_of_In|]. apply existsb_exists. exists T2. split; [now apply marked_of_In|apply eqb_refl].
      + intros Z HZ. rewrite canon_In in HZ. apply in_app_or in HZ. destruct HZ as [HZ|HZ].
        * destruct (PT1 Z HZ) as [f' [s' [B' [w' [m' [E' [Hr' [D' L']]]]]]]]. exists f', s', B', w', m'. repeat split; auto. lia.
        * destruct (PT2 Z HZ) as [f' [s' [B' [w' [m' [E' [Hr' [D' L']]]]]]]]. exists f', s', B', w', m'. repeat split; auto. lia.
  Qed.

  Theorem ig_is_empty_tree : ig_is_empty R S = true <-> ~ exists w, ider R S [] w.
  Proof.
    unfold ig_is_empty. rewrite negb_true_iff. split.
    - intros Hn [w D]. apply mem_nIn in Hn. apply Hn. apply ider_iderN in D. destruct D as [n D].
      destruct (marks_complete n S [] w D) as [T [HT PT]]. destruct T as [|X T]; [exact HT|].
      destruct (PT X (or_introl eq_refl)) as [f [s' [B [w' [m [E _]]]]]]. discriminate.
    - intros Hn. apply mem_nIn. intros Hm. apply Hn. apply (marks_sound _ Hm []). cbn [snd]. intros X [].
  Qed.
End M.

(* ---- tree-shaped derivations = rewriting to terminal words ---- *)
Section Small.
  Variable R : list irule.
  Inductive fder : list isym -> list N -> Prop :=
  | fd_nil : fder [] []
  | fd_t a r w : fder r w -> fder (IT a :: r) (a :: w)
  | fd_nt A s r u w : ider R A s u -> fder r w -> fder (INT A s :: r) (u ++ w).
  Lemma fder_app f1 : forall f2 w, fder (f1 ++ f2) w <-> exists w1 w2, w = w1 ++ w2 /\ fder f1 w1 /\ fder f2 w2.
  Proof.
    induction f1 as [|x f1 IH]; intros f2 w; cbn [app].
    - split; [intros D; exists [], w; split; [reflexivity|split; [constructor|exact D]]|].
      intros [w1 [w2 [-> [D1 D2]]]]. inversion D1; subst. exact D2.
    - split.
      + intros D. inversion D as [|a r w0 D0|A s r u w0 Du D0]; subst.
        * apply IH in D0. destruct D0 as [w1 [w2 [-> [D1 D2]]]]. exists (a :: w1), w2. split; [reflexivity|split; [now constructor|exact D2]].
        * apply IH in D0. destruct D0 as [w1 [w2 [-> [D1 D2]]]]. exists (u ++ w1), w2. split; [now rewrite app_assoc|split; [now constructor|exact D2]].
      + intros [w1 [w2 [-> [D1 D2]]]]. inversion D1 as [|a r w0 D0|A s r u w0 Du D0]; subst.
        * cbn [app]. constructor. apply IH. eauto.
        * rewrite <- app_assoc. constructor; [exact Du|]. apply IH. eauto.
  Qed.
  Lemma fder_terms w : forall w', fder (map IT w) w' -> w' = w.
  Proof. induction w as [|a w IH]; intros w' D; inversion D; subst; [reflexivity|]. f_equal. now apply IH. Qed.
  Lemma fder_terms_refl w : fder (map IT w) w.
  Proof. induction w; cbn; now constructor. Qed.
  Lemma fder_olist a : fder (match a with Some x => [IT x] | None => [] end) (olistN a).
  Proof. destruct a; cbn; repeat constructor. Qed.
  Lemma fder_one A s w : fder [INT A s] w <-> ider R A s w.
  Proof.
    split.
    - intros D. inversion D as [| |A0 s0 r u w0 Du D0]; subst. inversion D0; subst. now rewrite app_nil_r.
    - intros D. rewrite <- (app_nil_r w). constructor; [exact D|constructor].
  Qed.

  Lemma istep_fder f g : istep R f g -> forall w, fder g w -> fder f w.
  Proof.
    intros St w D. destruct St as [pre A a s post Hr|pre A B f0 s post Hr|pre f0 A B s post Hr|pre A B C s post Hr].
    - apply fder_app in D. destruct D as [w1 [w2 [-> [D1 D2]]]]. apply fder_app in D2. destruct D2 as [w3 [w4 [-> [D3 D4]]]].
      apply fder_app. exists w1, (w3 ++ w4). split; [reflexivity|split; [exact D1|]]. constructor; [|exact D4].
      assert (w3 = olistN a). { destruct a as [x|]; cbn in *; inversion D3 as [|? ? ? D5|]; subst; [inversion D5; reflexivity|reflexivity]. }
      subst w3. now apply id_end.
    - apply fder_app in D. destruct D as [w1 [w2 [-> [D1 D2]]]]. inversion D2 as [| |? ? ? u w0 Du D0]; subst.
      apply fder_app. exists w1, (u ++ w0). split; [reflexivity|split; [exact D1|]]. constructor; [now apply id_prod with B f0|exact D0].
    - apply fder_app in D. destruct D as [w1 [w2 [-> [D1 D2]]]]. inversion D2 as [| |? ? ? u w0 Du D0]; subst.
      apply fder_app. exists w1, (u ++ w0). split; [reflexivity|split; [exact D1|]]. constructor; [now apply id_cons with B|exact D0].
    - apply fder_app in D. destruct D as [w1 [w2 [-> [D1 D2]]]]. inversion D2 as [| |? ? ? u w0 Du D0]; subst.
      inversion D0 as [| |? ? ? v w3 Dv D3]; subst.
      apply fder_app. exists w1, ((u ++ v) ++ w3). split; [now rewrite <- app_assoc|split; [exact D1|]]. constructor; [now apply id_dup with B C|exact D3].
  Qed.

  Lemma isteps_ctx pre post f g : isteps R f g -> isteps R (pre ++ f ++ post) (pre ++ g ++ post).
  Proof.
    induction 1 as [f|f g h St _ IH]; [apply iss_refl|]. apply iss_step with (pre ++ g ++ post); [|exact IH].
    destruct St as [p A a s q Hr|p A B f0 s q Hr|p f0 A B s q Hr|p A B C s q Hr].
    - replace (pre ++ (p ++ INT A s :: q) ++ post) with ((pre ++ p) ++ INT A s :: (q ++ post)) by (now rewrite <- !app_assoc).
      replace (pre ++ (p ++ match a with Some x => [IT x] | None => [] end ++ q) ++ post)
        with ((pre ++ p) ++ match a with Some x => [IT x] | None => [] end ++ (q ++ post)) by (now rewrite <- !app_assoc).
      now apply is_end.
    - replace (pre ++ (p ++ INT A s :: q) ++ post) with ((pre ++ p) ++ INT A s :: (q ++ post)) by (now rewrite <- !app_assoc).
      replace (pre ++ (p ++ INT B (f0 :: s) :: q) ++ post) with ((pre ++ p) ++ INT B (f0 :: s) :: (q ++ post)) by (now rewrite <- !app_assoc).
      now apply is_prod.
    - replace (pre ++ (p ++ INT A (f0 :: s) :: q) ++ post) with ((pre ++ p) ++ INT A (f0 :: s) :: (q ++ post)) by (now rewrite <- !app_assoc).
      replace (pre ++ (p ++ INT B s :: q) ++ post) with ((pre ++ p) ++ INT B s :: (q ++ post)) by (now rewrite <- !app_assoc).
      now apply is_cons.
    - replace (pre ++ (p ++ INT A s :: q) ++ post) with ((pre ++ p) ++ INT A s :: (q ++ post)) by (now rewrite <- !app_assoc).
      replace (pre ++ (p ++ INT B s :: INT C s :: q) ++ post) with ((pre ++ p) ++ INT B s :: INT C s :: (q ++ post)) by (now rewrite <- !app_assoc).
      now apply is_dup.
  Qed.
  Lemma isteps_trans f g h : isteps R f g -> isteps R g h -> isteps R f h.
  Proof. induction 1; intros X; [exact X|eapply iss_step; eauto]. Qed.

  Lemma ider_isteps A s w : ider R A s w -> isteps R [INT A s] (map IT w).
  Proof.
    induction 1 as [A a s Hr|A B f s w Hr _ IH|f A B s w Hr _ IH|A B C s u v Hr _ IH1 _ IH2].
    - apply iss_step with (match a with Some x => [IT x] | None => [] end); [|destruct a; apply iss_refl].
      pose proof (is_end R [] A a s [] Hr) as St. cbn [app] in St. now rewrite app_nil_r in St.
    - apply iss_step with [INT B (f :: s)]; [apply (is_prod R [] A B f s [] Hr)|exact IH].
    - apply iss_step with [INT B s]; [apply (is_cons R [] f A B s [] Hr)|exact IH].
    - apply iss_step with [INT B s; INT C s]; [apply (is_dup R [] A B C s [] Hr)|]. rewrite map_app.
      apply isteps_trans with (map IT u ++ [INT C s]).
      + pose proof (isteps_ctx [] [INT C s] _ _ IH1) as X. exact X.
      + pose proof (isteps_ctx (map IT u) [] _ _ IH2) as X. now rewrite !app_nil_r in X.
  Qed.

  Theorem ider_small_step A s w : ider R A s w <-> isteps R [INT A s] (map IT w).
  Proof.
    split; [apply ider_isteps|]. intros St. apply fder_one.
    remember [INT A s] as f eqn:Ef. remember (map IT w) as g eqn:Eg. clear Ef. induction St as [f|f g h S1 _ IH].
    - subst f. apply fder_terms_refl.
    - apply (istep_fder _ _ S1). now apply IH.
  Qed.
End Small.

Theorem ig_is_empty_spec R S : ig_is_empty R S = true <-> ~ ig_nonempty R S.
Proof.
  rewrite ig_is_empty_tree. unfold ig_nonempty. split; intros Hn [w D]; apply Hn; exists w; now apply ider_small_step.
Qed.
