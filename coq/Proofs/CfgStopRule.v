(* CFG.get_words without a length bound (C12): the enumeration by increasing length stops when no variable of the normal form got a
   new word for `total` consecutive lengths with total > (L + 1) / 2, L being the last length processed. In a grammar in Chomsky
   normal form a word of length n >= 2 is the concatenation of two shorter words one of which has length >= n / 2, so such a window
   of empty lengths can never be followed by a non-empty one: nothing is missed. *)
From Coq Require Import List Bool Arith NArith Lia.
From PFL Require Import Base.ListSet Spec.Cfg Model.Cfg Proofs.CfgCyk.
Import ListNotations.

Section S.
  Context {X : Type} `{EqDec X}.
  Variable G : cfg X.
  Hypothesis Hnf : is_normal_form G = true.

  Definition no_word_of_length (m : nat) : Prop := forall A w, derives G (V A) w -> length w <> m.

  Lemma nf_split A w : derives G (V A) w -> 2 <= length w ->
    exists B C u v, w = u ++ v /\ derives G (V B) u /\ derives G (V C) v /\ 1 <= length u /\ 1 <= length v.
  Proof.
    intros D Hl. inversion D as [|A' body w' Hp DL]; subst.
    destruct (nf_prod G Hnf _ _ Hp) as [(B & C & ->)|(a & ->)].
    - apply derives_list2 in DL. destruct DL as (u & v & -> & Du & Dv). exists B, C, u, v.
      destruct (nf_nonempty G Hnf) as (NE & _). pose proof (NE _ _ Du) as Nu. pose proof (NE _ _ Dv) as Nv.
      repeat split; auto; [destruct u|destruct v]; simpl; try congruence; lia.
    - apply derives_list1 in DL. inversion DL; subst. simpl in Hl. lia.
  Qed.

  (* L = last length processed, k = number of consecutive lengths L-k+1 .. L without any word *)
  Theorem stop_rule_sound L k : L + 1 < 2 * k -> k <= L ->
    (forall m, L - k < m <= L -> no_word_of_length m) ->
    forall n, L - k < n -> no_word_of_length n.
  Proof.
    intros Hk HkL Hwin n. induction n as [n IH] using lt_wf_ind. intros Hn A w D E.
    destruct (Nat.le_gt_cases n L) as [Hle|Hgt].
    - apply (Hwin n (conj Hn Hle) A w D E).
    - assert (H2 : 2 <= length w) by lia.
      destruct (nf_split A w D H2) as (B & C & u & v & -> & Du & Dv & Lu & Lv). rewrite app_length in E.
      (* the longer half has length >= n / 2 > (L - k) and < n *)
      destruct (Nat.le_gt_cases (length v) (length u)) as [Huv|Huv].
      + assert (X1 : length u < n) by lia. assert (X2 : L - k < length u) by lia.
        exact (IH (length u) X1 X2 B u Du eq_refl).
      + assert (X1 : length v < n) by lia. assert (X2 : L - k < length v) by lia.
        exact (IH (length v) X1 X2 C v Dv eq_refl).
  Qed.

  (* the form in which the code uses it: once the rule fires after length L, every word of every variable is no longer than L - k *)
  Corollary stop_rule_all_words L k : L + 1 < 2 * k -> k <= L ->
    (forall m, L - k < m <= L -> no_word_of_length m) ->
    forall A w, derives G (V A) w -> length w <= L - k.
  Proof.
    intros Hk HkL Hwin A w D. destruct (Nat.le_gt_cases (length w) (L - k)) as [Hle|Hgt]; [exact Hle|].
    exfalso. apply (stop_rule_sound L k Hk HkL Hwin (length w) Hgt A w D eq_refl).
  Qed.
End S.

