From Coq Require Import List Bool Arith NArith Lia.
From PFL Require Import Base.ListSet Spec.Cfg Model.Cfg Model.CfgOps.
Import ListNotations.

Section Rev.
  Context {Vr : Type}.
  Variable G : cfg Vr.

  Lemma reverse_derives :
    (forall X w, derives G X w -> derives (reverse_cfg G) X (rev w)) /\
    (forall body w, derives_list G body w -> derives_list (reverse_cfg G) (rev body) (rev w)).
  Proof.
    apply derives_mutind.
    - intros a. apply dv_ter.
    - intros A body w Hp DL IH. apply dv_var with (rev body); [|exact IH].
      unfold reverse_cfg. cbn [g_prods]. apply in_map_iff. exists (A, body). auto.
    - apply dl_nil.
    - intros X rest u v DX IHX DL IHL. cbn [rev]. rewrite rev_app_distr.
      assert (A1 : forall l1 w1, derives_list (reverse_cfg G) l1 w1 -> forall Y w2, derives (reverse_cfg G) Y w2 ->
                   derives_list (reverse_cfg G) (l1 ++ [Y]) (w1 ++ w2)).
      { clear. induction 1 as [|Z r a b DZ DR IH]; intros Y w2 DY.
        - cbn. rewrite <- (app_nil_r w2). apply dl_cons; [exact DY|apply dl_nil].
        - cbn [app]. rewrite <- app_assoc. apply dl_cons; [exact DZ|now apply IH]. }
      now apply A1.
  Qed.
End Rev.

Lemma reverse_cfg_involutive_prods {Vr} (G : cfg Vr) : g_prods (reverse_cfg (reverse_cfg G)) = g_prods G.
Proof.
  unfold reverse_cfg. cbn [g_prods]. rewrite map_map. rewrite <- (map_id (g_prods G)) at 2. apply map_ext.
  intros [A body]. cbn. now rewrite rev_involutive.
Qed.

Lemma derives_same_prods {Vr} (G G' : cfg Vr) : g_prods G = g_prods G' ->
  (forall X w, derives G X w -> derives G' X w) /\ (forall body w, derives_list G body w -> derives_list G' body w).
Proof.
  intros E. apply derives_mutind.
  - intros a. apply dv_ter.
  - intros A body w Hp DL IH. apply dv_var with body; [now rewrite <- E|exact IH].
  - apply dl_nil.
  - intros X rest u v DX IHX DL IHL. now apply dl_cons.
Qed.

Theorem reverse_cfg_spec {Vr} (G : cfg Vr) w : LangG (reverse_cfg G) w <-> LangG G (rev w).
Proof.
  unfold LangG. cbn [reverse_cfg g_start]. destruct (g_start G) as [s|]; [|tauto]. split.
  - intros D. apply (proj1 (reverse_derives (reverse_cfg G))) in D.
    apply (proj1 (derives_same_prods _ G (reverse_cfg_involutive_prods G))) in D. exact D.
  - intros D. apply (proj1 (reverse_derives G)) in D. now rewrite rev_involutive in D.
Qed.
