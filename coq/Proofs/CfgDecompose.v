(* _decompose_productions (binarisation with shared suffixes) keeps the language of every non-fresh variable (C09). *)
From Coq Require Import List Bool Arith NArith Lia.
From PFL Require Import Base.ListSet Spec.Cfg Model.Cfg Proofs.CfgUseless.
Import ListNotations.

Section D.
  Context {Vr : Type} `{EqDec Vr}.
  Notation cprod := (cvar Vr * list (symb (cvar Vr)))%type.

  Definition nocc_var (v : cvar Vr) : Prop := match v with CC _ => False | _ => True end.
  Definition nocc_sym (X : symb (cvar Vr)) : Prop := match X with V v => nocc_var v | T _ => True end.
  Definition nocc_prod (p : cprod) : Prop := nocc_var (fst p) /\ Forall nocc_sym (snd p).

  Section Chain.
    Variable out : list cprod.
    (* [chain h body]: the productions of [out] spell [body] from head [h] through fresh link variables *)
    Inductive chain : cvar Vr -> list (symb (cvar Vr)) -> Prop :=
    | ch_last h Y Z : In (h, [Y; Z]) out -> nocc_sym Y -> nocc_sym Z -> chain h [Y; Z]
    | ch_link h Y k suf : In (h, [Y; V (CC k)]) out -> nocc_sym Y -> chain (CC k) suf -> chain h (Y :: suf).
    Lemma chain_len h body : chain h body -> 2 <= length body.
    Proof. induction 1; cbn [length] in *; lia. Qed.
    Lemma chain_nocc h body : chain h body -> Forall nocc_sym body.
    Proof. induction 1; repeat constructor; auto. Qed.
  End Chain.

  Lemma chain_mono out out' h body : incl out out' -> chain out h body -> chain out' h body.
  Proof. intros I C. induction C; [apply ch_last; auto|eapply ch_link; eauto]. Qed.

  Lemma assoc_suffix_In k done v : assoc_suffix k done = Some v -> In (k, v) done.
  Proof.
    induction done as [|[k' v'] r IH]; cbn [assoc_suffix]; [discriminate|].
    destruct (eqb_spec k k') as [->|]; [intros E; inversion E; now left|intros E; right; auto].
  Qed.

  (* ---- the inner loop ---- *)
  Definition entry_ok (idx : N) (out : list cprod) (e : list (symb (cvar Vr)) * cvar Vr) : Prop :=
    exists k, snd e = CC k /\ (k <= idx)%N /\ chain out (snd e) (fst e).

  (* the production of [head] in a chain for [body] *)
  Definition first_of_chain (out : list cprod) (body b : list (symb (cvar Vr))) : Prop :=
    (exists Y Z, body = [Y; Z] /\ b = body) \/
    (exists X k suf, body = X :: suf /\ b = [X; V (CC k)] /\ chain out (CC k) suf).

  Lemma first_of_chain_mono out out' body b : incl out out' -> first_of_chain out body b -> first_of_chain out' body b.
  Proof.
    intros I [F|[X [k [suf [E1 [E2 C]]]]]]; [now left|right]. exists X, k, suf. repeat split; auto. eapply chain_mono; eauto.
  Qed.

  Lemma decompose_body_spec : forall body vars head done out done' out' idx,
    length vars + 2 = length body -> Forall nocc_sym body ->
    decompose_body head body vars done out = (done', out') ->
    (forall e, In e done -> length (fst e) < length body -> entry_ok idx out e) ->
    (forall v, In v vars -> exists k, v = CC k /\ (idx < k)%N) -> NoDup vars -> ~ In head vars ->
    exists new, out' = out ++ new /\
      chain out' head body /\
      (forall e, In e done' -> In e done \/ (In (snd e) vars /\ chain out' (snd e) (fst e))) /\
      (forall h b, In (h, b) new -> (h = head \/ In h vars)) /\
      (forall h b1 b2, In (h, b1) new -> In (h, b2) new -> b1 = b2) /\
      (forall b, In (head, b) new -> first_of_chain out' body b) /\
      incl done done' /\
      (forall h b, In (h, b) new -> exists X Y, b = [X; Y] /\ In X body /\ (In Y body \/ exists k, Y = V (CC k))).
  Proof.
    induction body as [|X rest IH]; intros vars head done out done' out' idx L Nb E Dok Vf Vnd Hh; [cbn in L; lia|].
    inversion Nb as [|? ? NX Nr]; subst.
    specialize (fun vars head done out done' out' idx L => IH vars head done out done' out' idx L Nr).
    destruct vars as [|v vs].
    - (* the last two symbols *)
      cbn in L. destruct rest as [|Y [|Z r]]; cbn in L; try lia. cbn [decompose_body] in E. inversion E; subst. clear E.
      inversion Nr as [|? ? NY _]; subst.
      exists [(head, [X; Y])]. split; [reflexivity|].
      split; [apply ch_last; [apply in_or_app; right; now left|exact NX|exact NY]|].
      split; [intros e He; now left|]. split; [intros h b [E|[]]; inversion E; now left|].
      split; [intros h b1 b2 [E1|[]] [E2|[]]; congruence|]. split; [|split; [apply incl_refl|]].
      2:{ intros h b [E0|[]]. inversion E0; subst. exists X, Y. split; [reflexivity|split; [now left|left; right; now left]]. }
      intros b [E|[]]. inversion E; subst. left. eauto.
    - cbn [decompose_body] in E. cbn [length] in L.
      destruct (Vf v (or_introl eq_refl)) as [kv [-> Hkv]].
      destruct (assoc_suffix rest done) as [d|] eqn:A.
      + (* cache hit *)
        inversion E; subst. clear E. apply assoc_suffix_In in A.
        destruct (Dok _ A) as [k [Ed [Hk C]]]; [cbn [fst length]; lia|]. cbn [fst snd] in *. subst d.
        exists [(head, [X; V (CC k)])]. split; [reflexivity|].
        assert (I : incl out (out ++ [(head, [X; V (CC k)])])) by (intros p Hp; apply in_or_app; now left).
        split; [apply ch_link with k; [apply in_or_app; right; now left|exact NX|now apply chain_mono with out]|].
        split; [intros e He; now left|]. split; [intros h b [E|[]]; inversion E; now left|].
        split; [intros h b1 b2 [E1|[]] [E2|[]]; congruence|]. split; [|split; [apply incl_refl|]].
        2:{ intros h b [E0|[]]. inversion E0; subst. exists X, (V (CC k)). split; [reflexivity|split; [now left|right; eauto]]. }
        intros b [E|[]]. inversion E; subst. right. exists X, k, rest. repeat split. now apply chain_mono with out.
      + set (out1 := out ++ [(head, [X; V (CC kv)])]) in *.
        assert (I1 : incl out out1) by (intros p Hp; apply in_or_app; now left).
        inversion Vnd as [|? ? Nv Nvs]; subst.
        assert (P1 : length vs + 2 = length rest) by lia.
        assert (P2 : forall e, In e ((rest, CC kv) :: done) -> length (fst e) < length rest -> entry_ok idx out1 e).
        { intros e [<-|He] Le; [cbn [fst] in Le; lia|]. destruct (Dok e He) as [k [E1 [E2 C]]]; [cbn [length]; lia|].
          exists k. split; [exact E1|split; [exact E2|now apply chain_mono with out]]. }
        assert (P3 : forall u, In u vs -> exists k, u = CC k /\ (idx < k)%N) by (intros u Hu; apply Vf; now right).
        destruct (IH vs (CC kv) ((rest, CC kv) :: done) out1 done' out' idx P1 E P2 P3 Nvs Nv) as [new1 [Eo [Cv [Hd [Hh1 [Hu [Hf [Hi Hs]]]]]]]].
        exists ((head, [X; V (CC kv)]) :: new1). unfold out1 in Eo. rewrite <- app_assoc in Eo. cbn [app] in Eo.
          split; [exact Eo|].
          assert (Ih : In (head, [X; V (CC kv)]) out') by (rewrite Eo; apply in_or_app; right; now left).
          split; [apply ch_link with kv; auto|].
          split; [|split; [|split; [|split; [|split]]]].
          -- intros e He. destruct (Hd e He) as [[<-|Ho]|[Hv C]]; [right; cbn [fst snd]; split; [now left|exact Cv]|now left|right; split; [now right|exact C]].
          -- intros h b [E0|Hn]; [inversion E0; now left|]. destruct (Hh1 h b Hn) as [->|Hv]; right; [now left|now right].
          -- intros h b1 b2 [E1|H1] [E2|H2].
             ++ congruence.
             ++ inversion E1; subst. destruct (Hh1 _ _ H2) as [->|Hv]; exfalso; apply Hh; [now left|now right].
             ++ inversion E2; subst. destruct (Hh1 _ _ H1) as [->|Hv]; exfalso; apply Hh; [now left|now right].
             ++ eapply Hu; eauto.
          -- intros b [E0|Hn].
             ++ inversion E0; subst. right. exists X, kv, rest. auto.
             ++ exfalso. destruct (Hh1 _ _ Hn) as [->|Hv]; apply Hh; [now left|now right].
          -- intros e He. apply Hi. now right.
          -- intros h b [E0|Hn].
             ++ inversion E0; subst. exists X, (V (CC kv)). split; [reflexivity|split; [now left|right; eauto]].
             ++ destruct (Hs h b Hn) as [X' [Y' [-> [HX' HY']]]]. exists X', Y'. split; [reflexivity|split; [now right|]].
                destruct HY' as [HY'|HY']; [left; now right|now right].
  Qed.

  (* ---- the outer loop: invariant of the fold over the input productions ---- *)
  Definition okS (pre : list cprod) (X : symb (cvar Vr)) : Prop :=
    (exists k, X = V (CC k)) \/ (exists h body, In (h, body) pre /\ 2 < length body /\ In X body).
  Lemma okS_mono pre p X : okS pre X -> okS (pre ++ [p]) X.
  Proof. intros [E|[h [body [A [B C]]]]]; [now left|right]. exists h, body. split; [apply in_or_app; now left|auto]. Qed.
  Definition INV (pre : list cprod) (st : dstate) : Prop :=
    match st with (idx, done, out) =>
      (forall e, In e done -> entry_ok idx out e) /\
      (forall k b1 b2, In (CC k, b1) out -> In (CC k, b2) out -> b1 = b2) /\
      (forall k b, In (CC k, b) out -> (k <= idx)%N) /\
      (forall h b, nocc_var h -> In (h, b) out ->
         In (h, b) pre /\ length b <= 2 \/ exists body, In (h, body) pre /\ 2 < length body /\ first_of_chain out body b) /\
      (forall h body, In (h, body) pre -> (length body <= 2 -> In (h, body) out) /\ (2 < length body -> chain out h body)) /\
      (forall h b, In (h, b) out -> In (h, b) pre /\ length b <= 2 \/ exists X Y, b = [X; Y] /\ okS pre X /\ okS pre Y)
    end.

  Lemma INV_init : INV [] (0%N, [], []).
  Proof. cbn. repeat split; intros; contradiction. Qed.

  Lemma fresh_vars_spec idx k v : In v (map (fun i => CC (Vr:=Vr) (idx + N.of_nat i + 1)%N) (seq 0 k)) ->
    exists j, v = CC j /\ (idx < j)%N /\ (j <= idx + N.of_nat k)%N.
  Proof.
    intros Hv. apply in_map_iff in Hv. destruct Hv as [i [<- Hi]]. apply in_seq in Hi.
    exists (idx + N.of_nat i + 1)%N. split; [reflexivity|lia].
  Qed.
  Lemma fresh_vars_nodup idx k : NoDup (map (fun i => CC (Vr:=Vr) (idx + N.of_nat i + 1)%N) (seq 0 k)).
  Proof.
    generalize 0. induction k as [|k IH]; intros s0; cbn [seq map]; constructor; [|apply IH].
    intros Hv. apply in_map_iff in Hv. destruct Hv as [i [E Hi]]. apply in_seq in Hi. inversion E. lia.
  Qed.

  Lemma decompose_one_inv pre st p : nocc_prod p -> INV pre st -> INV (pre ++ [p]) (decompose_one st p).
  Proof.
    destruct st as [[idx done] out]. destruct p as [head body]. intros [Nh Nb] [J1 [J2 [J3 [J4 [J5 J6]]]]]. cbn [fst snd] in Nh, Nb.
    unfold decompose_one. cbn [fst snd]. destruct (Nat.leb_spec (length body) 2) as [Le|Gt].
    - (* a short production is copied *)
      assert (I : incl out (out ++ [(head, body)])) by (intros q Hq; apply in_or_app; now left).
      cbn [INV]. split; [|split; [|split; [|split; [|split]]]].
      + intros e He. destruct (J1 e He) as [k [E1 [E2 C]]]. exists k. repeat split; auto. now apply chain_mono with out.
      + intros k b1 b2 H1 H2. apply in_app_or in H1. apply in_app_or in H2.
        destruct H1 as [H1|[H1|[]]]; [|inversion H1; subst; contradiction].
        destruct H2 as [H2|[H2|[]]]; [|inversion H2; subst; contradiction]. eapply J2; eauto.
      + intros k b Hb. apply in_app_or in Hb. destruct Hb as [Hb|[Hb|[]]]; [eapply J3; eauto|inversion Hb; subst; contradiction].
      + intros h b Hn Hb. apply in_app_or in Hb. destruct Hb as [Hb|[Hb|[]]].
        * destruct (J4 h b Hn Hb) as [[Hp Hl]|[body0 [Hp [Hl F]]]].
          -- left. split; [apply in_or_app; now left|exact Hl].
          -- right. exists body0. split; [apply in_or_app; now left|split; [exact Hl|now apply first_of_chain_mono with out]].
        * inversion Hb; subst. left. split; [apply in_or_app; right; now left|exact Le].
      + intros h b Hp. apply in_app_or in Hp. destruct Hp as [Hp|[Hp|[]]].
        * destruct (J5 h b Hp) as [A B]. split; [intros L; apply I; auto|intros L; apply chain_mono with out; auto].
        * inversion Hp; subst. split; [intros _; apply in_or_app; right; now left|intros L; lia].
      + intros h b Hb. apply in_app_or in Hb. destruct Hb as [Hb|[Hb|[]]].
        * destruct (J6 h b Hb) as [[A B]|[X [Y [E [OX OY]]]]]; [left; split; [apply in_or_app; now left|exact B]|].
          right. exists X, Y. split; [exact E|split; now apply okS_mono].
        * inversion Hb; subst. left. split; [apply in_or_app; right; now left|exact Le].
    - (* a long production is binarised *)
      set (k := length body - 2). set (vars := map (fun i => CC (idx + N.of_nat i + 1)%N) (seq 0 k)).
      destruct (decompose_body head body vars done out) as [done' out'] eqn:E.
      destruct (decompose_body_spec body vars head done out done' out' idx) as [new [Eo [Ch [Hd [Hh [Hu [Hf [Hi Hs]]]]]]]]; auto.
      + unfold vars. rewrite map_length, seq_length. unfold k. lia.
      + intros v Hv. destruct (fresh_vars_spec _ _ _ Hv) as [j [Ej [L1 _]]]. eauto.
      + apply fresh_vars_nodup.
      + intros Hv. destruct (fresh_vars_spec _ _ _ Hv) as [j [Ej _]]. subst head. contradiction.
      + assert (I : incl out out') by (rewrite Eo; intros q Hq; apply in_or_app; now left).
        assert (NewCC : forall j b, In (CC j, b) new -> (idx < j <= idx + N.of_nat k)%N).
        { intros j b Hb. destruct (Hh _ _ Hb) as [Eh|Hv]; [subst head; contradiction|].
          destruct (fresh_vars_spec _ _ _ Hv) as [j' [Ej [L1 L2]]]. inversion Ej; subst. lia. }
        cbn [INV]. split; [|split; [|split; [|split; [|split]]]].
        * intros e He. destruct (Hd e He) as [Ho|[Hv C]].
          -- destruct (J1 e Ho) as [j [E1 [E2 C]]]. exists j. split; [exact E1|split; [lia|now apply chain_mono with out]].
          -- destruct (fresh_vars_spec _ _ _ Hv) as [j [Ej [L1 L2]]]. exists j. repeat split; auto.
        * intros j b1 b2 H1 H2. rewrite Eo in H1, H2. apply in_app_or in H1. apply in_app_or in H2.
          destruct H1 as [H1|H1], H2 as [H2|H2].
          -- eapply J2; eauto.
          -- apply J3 in H1. apply NewCC in H2. lia.
          -- apply J3 in H2. apply NewCC in H1. lia.
          -- eapply Hu; eauto.
        * intros j b Hb. rewrite Eo in Hb. apply in_app_or in Hb. destruct Hb as [Hb|Hb]; [apply J3 in Hb; lia|apply NewCC in Hb; lia].
        * intros h b Hn Hb. rewrite Eo in Hb. apply in_app_or in Hb. destruct Hb as [Hb|Hb].
          -- destruct (J4 h b Hn Hb) as [[Hp Hl]|[body0 [Hp [Hl F]]]].
             ++ left. split; [apply in_or_app; now left|exact Hl].
             ++ right. exists body0. split; [apply in_or_app; now left|split; [exact Hl|now apply first_of_chain_mono with out]].
          -- destruct (Hh _ _ Hb) as [->|Hv].
             ++ right. exists body. split; [apply in_or_app; right; now left|split; [exact Gt|now apply Hf]].
             ++ destruct (fresh_vars_spec _ _ _ Hv) as [j [Ej _]]. subst h. contradiction.
        * intros h b Hp. apply in_app_or in Hp. destruct Hp as [Hp|[Hp|[]]].
          -- destruct (J5 h b Hp) as [A B]. split; [intros L; apply I; auto|intros L; apply chain_mono with out; auto].
          -- inversion Hp; subst. split; [intros L; lia|intros _; exact Ch].
        * intros h b Hb. rewrite Eo in Hb. apply in_app_or in Hb. destruct Hb as [Hb|Hb].
          -- destruct (J6 h b Hb) as [[A B]|[X [Y [E0 [OX OY]]]]]; [left; split; [apply in_or_app; now left|exact B]|].
             right. exists X, Y. split; [exact E0|split; now apply okS_mono].
          -- right. destruct (Hs h b Hb) as [X [Y [-> [HX HY]]]]. exists X, Y. split; [reflexivity|].
             assert (O : forall Z, In Z body -> okS (pre ++ [(head, body)]) Z).
             { intros Z HZ. right. exists head, body. split; [apply in_or_app; right; now left|auto]. }
             split; [now apply O|]. destruct HY as [HY|HY]; [now apply O|now left].
  Qed.

  Lemma fold_inv l : forall pre st, Forall nocc_prod l -> INV pre st -> INV (pre ++ l) (fold_left decompose_one l st).
  Proof.
    induction l as [|p l IH]; intros pre st F J; [now rewrite app_nil_r|].
    inversion F as [|? ? Fp Fl]; subst. cbn [fold_left].
    replace (pre ++ p :: l) with ((pre ++ [p]) ++ l) by (rewrite <- app_assoc; reflexivity).
    apply IH; [exact Fl|now apply decompose_one_inv].
  Qed.

  (* ---- language preservation ---- *)
  Section Lang.
    Variables (vs : list (cvar Vr)) (ts : list N) (st : option (cvar Vr)) (ps : list cprod).
    Hypothesis Hps : Forall nocc_prod ps.
    Definition Gin : cfg (cvar Vr) := mkG vs ts st ps.
    Definition Gd : cfg (cvar Vr) := mkG vs ts st (decompose ps).

    Lemma decompose_INV : exists idx done, INV ps (idx, done, decompose ps).
    Proof.
      unfold decompose. pose proof (fold_inv ps [] (0%N, [], []) Hps INV_init) as J. cbn [app] in J.
      destruct (fold_left decompose_one ps (0%N, [], [])) as [[idx done] out]. eauto.
    Qed.

    Lemma chain_derive out G h body : g_prods G = out -> chain out h body ->
      forall w, derives_list G body w -> derives G (V h) w.
    Proof.
      intros Eg C. subst out. induction C as [h Y Z Hp NY NZ|h Y k suf Hp NY C IH]; intros w D.
      - apply dv_var with [Y; Z]; [exact Hp|exact D].
      - inversion D as [|? ? u v DY DS]; subst. apply dv_var with [Y; V (CC k)]; [exact Hp|].
        apply dl_cons; [exact DY|]. rewrite <- (app_nil_r v). apply dl_cons; [now apply IH|apply dl_nil].
    Qed.

    Lemma to_Gd : (forall X w, derives Gin X w -> derives Gd X w) /\ (forall body w, derives_list Gin body w -> derives_list Gd body w).
    Proof.
      destruct decompose_INV as [idx [done [J1 [J2 [J3 [J4 [J5 J6]]]]]]].
      apply derives_mutind.
      - intros a. apply dv_ter.
      - intros A body w Hp DL IH. destruct (J5 A body Hp) as [Sh Lo].
        destruct (Nat.leb_spec (length body) 2) as [Le|Gt].
        + apply dv_var with body; [exact (Sh Le)|exact IH].
        + apply (chain_derive (decompose ps) Gd A body eq_refl (Lo Gt)). exact IH.
      - apply dl_nil.
      - intros X rest u v _ IHX _ IHL. now apply dl_cons.
    Qed.

    Definition PX (out : list cprod) (X : symb (cvar Vr)) (w : list N) : Prop :=
      (nocc_sym X -> derives Gin X w) /\
      (forall k suf, X = V (CC k) -> chain out (CC k) suf -> derives_list Gin suf w).

    Lemma Forall2_nocc out body parts : Forall2 (PX out) body parts -> Forall nocc_sym body -> derives_list Gin body (concat parts).
    Proof.
      induction 1 as [|X u body parts HX F IH]; intros N; [apply dl_nil|]. inversion N; subst. cbn [concat].
      apply dl_cons; [now apply HX|now apply IH].
    Qed.

    Lemma ps_nocc h body : In (h, body) ps -> Forall nocc_sym body.
    Proof. intros Hp. rewrite Forall_forall in Hps. apply (Hps _ Hp). Qed.

    Lemma from_Gd : (forall X w, derives Gd X w -> PX (decompose ps) X w) /\
                    (forall body w, derives_list Gd body w -> exists parts, w = concat parts /\ Forall2 (PX (decompose ps)) body parts).
    Proof.
      destruct decompose_INV as [idx [done [J1 [J2 [J3 [J4 [J5 J6]]]]]]].
      apply derives_mutind.
      - intros a. split; [intros _; apply dv_ter|intros k suf E; discriminate].
      - intros A body w Hp DL [parts [-> F]]. change (g_prods Gd) with (decompose ps) in Hp. split.
        + intros NA. cbn [nocc_sym] in NA. destruct (J4 A body NA Hp) as [[Hp0 _]|[body0 [Hp0 [Gt [[Y [Z [E1 E2]]]|[X [k [suf [E1 [E2 C]]]]]]]]]].
          * apply dv_var with body; [exact Hp0|]. apply Forall2_nocc with (decompose ps); [exact F|now apply ps_nocc with A].
          * subst. cbn [length] in Gt. lia.
          * subst. inversion F as [|? u ? parts1 HX F1]; subst. inversion F1 as [|? v ? parts2 HC F2]; subst. inversion F2; subst.
            apply dv_var with (X :: suf); [exact Hp0|]. cbn [concat]. rewrite app_nil_r.
            pose proof (ps_nocc _ _ Hp0) as N0. inversion N0; subst.
            apply dl_cons; [now apply HX|]. apply (proj2 HC k suf eq_refl C).
        + intros k suf E C. inversion E; subst A. inversion C as [h Y Z Hq NY NZ|h Y k' suf' Hq NY C']; subst.
          * rewrite (J2 _ _ _ Hp Hq) in F. apply Forall2_nocc with (decompose ps); [exact F|repeat constructor; auto].
          * rewrite (J2 _ _ _ Hp Hq) in F.
            inversion F as [|? u ? parts1 HX F1]; subst. inversion F1 as [|? v ? parts2 HC F2]; subst. inversion F2; subst.
            cbn [concat]. rewrite app_nil_r. apply dl_cons; [now apply HX|]. apply (proj2 HC k' suf' eq_refl C').
      - exists []. split; [reflexivity|constructor].
      - intros X rest u v _ IHX _ [parts [-> F]]. exists (u :: parts). split; [reflexivity|now constructor].
    Qed.

    Theorem decompose_lang X w : nocc_sym X -> (derives Gd X w <-> derives Gin X w).
    Proof.
      intros NX. split; [intros D; now apply (proj1 from_Gd X w D)|apply (proj1 to_Gd)].
    Qed.

    (* shape: a production of the result is a short input production or a pair of symbols that are link variables
       or occur in a long input body *)
    Theorem decompose_shape h b : In (h, b) (decompose ps) ->
      In (h, b) ps /\ length b <= 2 \/ exists X Y, b = [X; Y] /\ okS ps X /\ okS ps Y.
    Proof. destruct decompose_INV as [idx [done [J1 [J2 [J3 [J4 [J5 J6]]]]]]]. apply J6. Qed.
  End Lang.
End D.
