From Coq Require Import List Bool NArith Lia.
From PFL Require Import Base.ListSet Spec.Enfa Spec.Regex.
From PFL Require Import Model.Kleene.
Import ListNotations.

Lemma den_alts rs u : den (alts rs) u <-> exists r, In r rs /\ den r u.
Proof.
  induction rs as [|r rs IH].
  - split; [intros H; inversion H|intros (r & [] & _)].
  - change (alts (r :: rs)) with (RAlt r (alts rs)). split.
    + intros H. inversion H as [| | |? ? ? Hl|? ? ? Hr| |]; subst.
      * exists r. split; [now left|assumption].
      * apply IH in Hr. destruct Hr as (r' & Hin & Hd').
        exists r'. split; [now right|assumption].
    + intros (r' & [E|Hin] & Hd).
      * subst. now apply d_altl.
      * apply d_altr. apply IH. eauto.
Qed.

Lemma star_snoc r u v : den (RStar r) u -> den r v -> den (RStar r) (u ++ v).
Proof.
  intros Hu Hv. remember (RStar r) as R eqn:E. induction Hu; inversion E; subst.
  - simpl. rewrite <- (app_nil_r v). apply d_star1; [assumption|apply d_star0].
  - rewrite <- app_assoc. apply d_star1; [assumption|]. apply IHHu2; reflexivity.
Qed.

Lemma star_app r u v : den (RStar r) u -> den (RStar r) v -> den (RStar r) (u ++ v).
Proof.
  intros Hu Hv. remember (RStar r) as R eqn:E. induction Hu; inversion E; subst.
  - exact Hv.
  - rewrite <- app_assoc. apply d_star1; [assumption|]. apply IHHu2; auto.
Qed.

Section Paths.
  Context {Q : Type} `{EqDec Q}.
  Notation gedge := (@gedge Q).

  Inductive gpath (G : list gedge) : Q -> list N -> Q -> Prop :=
  | gp_nil p : gpath G p [] p
  | gp_step p r p' u v q : In (p, r, p') G -> den r u -> gpath G p' v q -> gpath G p (u ++ v) q.

  Lemma gpath_trans G p u q v r : gpath G p u q -> gpath G q v r -> gpath G p (u ++ v) r.
  Proof.
    induction 1 as [p|p r0 p' u0 v0 q Hin Hd Hp IH]; intros Hq; [exact Hq|].
    rewrite <- app_assoc. eapply gp_step; eauto.
  Qed.
  Lemma gpath_edge G p r q u : In (p, r, q) G -> den r u -> gpath G p u q.
  Proof. intros Hin Hd. rewrite <- (app_nil_r u). eapply gp_step; eauto. apply gp_nil. Qed.
  Lemma gpath_snoc G p u q r q' v : gpath G p u q -> In (q, r, q') G -> den r v -> gpath G p (u ++ v) q'.
  Proof. intros Hp Hin Hd. eapply gpath_trans; [exact Hp|]. eapply gpath_edge; eauto. Qed.

  (* paths built from the end *)
  Inductive gpathR (G : list gedge) (p : Q) : list N -> Q -> Prop :=
  | gr_nil : gpathR G p [] p
  | gr_snoc u q r q' v : gpathR G p u q -> In (q, r, q') G -> den r v -> gpathR G p (u ++ v) q'.

  Lemma gpathR_cons G p r p' u v q : In (p, r, p') G -> den r u -> gpathR G p' v q -> gpathR G p (u ++ v) q.
  Proof.
    intros Hin Hd Hp. induction Hp as [|u0 q0 r0 q' v0 Hp IH Hin0 Hd0].
    - rewrite app_nil_r. change u with ([] ++ u). eapply gr_snoc; eauto. apply gr_nil.
    - rewrite app_assoc. eapply gr_snoc; eauto.
  Qed.
  Lemma gpath_R G p w q : gpath G p w q <-> gpathR G p w q.
  Proof.
    split.
    - induction 1 as [p|p r p' u v q Hin Hd Hp IH]; [apply gr_nil|]. eapply gpathR_cons; eauto.
    - induction 1 as [|u q0 r q' v Hp IH Hin Hd]; [apply gp_nil|]. eapply gpath_snoc; eauto.
  Qed.

  Lemma den_between G p q u : den (between G p q) u <-> exists r, In (p, r, q) G /\ den r u.
  Proof.
    unfold between. rewrite den_alts. split.
    - intros (r & Hin & Hd). apply in_map_iff in Hin. destruct Hin as ([[p' r'] q'] & E & Hin).
      apply filter_In in Hin. destruct Hin as (Hin & Hb). unfold src, dst, lbl in *. simpl in *. subst r'.
      apply andb_true_iff in Hb. destruct Hb as (B1 & B2). apply (proj1 (eqb_eq _ _)) in B1. apply (proj1 (eqb_eq _ _)) in B2. subst p' q'.
      exists r. split; assumption.
    - intros (r & Hin & Hd). exists r. split; [|exact Hd]. apply in_map_iff. exists (p, r, q). split; [reflexivity|].
      apply filter_In. split; [exact Hin|]. unfold src, dst. simpl. now rewrite !eqb_refl.
  Qed.

  Lemma star_loop_path G k l : den (RStar (between G k k)) l -> gpath G k l k.
  Proof.
    intros Hl. remember (RStar (between G k k)) as R eqn:E. induction Hl; inversion E; subst.
    - apply gp_nil.
    - match goal with Hb : den (between _ _ _) _ |- _ => apply den_between in Hb; destruct Hb as (r0 & Hin & Hd) end.
      eapply gp_step; eauto.
  Qed.

  (* ---- one elimination step ---- *)
  Lemma In_elim_old k G p r q : In (p, r, q) G -> p <> k -> q <> k -> In (p, r, q) (elim k G).
  Proof.
    intros Hin Hp Hq. unfold elim. apply in_or_app. left. apply filter_In. split; [exact Hin|].
    unfold src, dst. simpl. apply (proj2 (eqb_neq _ _)) in Hp. apply (proj2 (eqb_neq _ _)) in Hq. now rewrite Hp, Hq.
  Qed.
  Lemma In_elim_new k G p r1 r2 q : In (p, r1, k) G -> p <> k -> In (k, r2, q) G -> q <> k ->
    In (p, RCat r1 (RCat (RStar (between G k k)) r2), q) (elim k G).
  Proof.
    intros Hi Hp Ho Hq. unfold elim. apply in_or_app. right. apply in_flat_map. exists (p, r1, k). split.
    - apply filter_In. split; [exact Hi|]. unfold src, dst. simpl. apply (proj2 (eqb_neq _ _)) in Hp. now rewrite Hp, eqb_refl.
    - apply in_map_iff. exists (k, r2, q). split; [reflexivity|]. apply filter_In. split; [exact Ho|].
      unfold src, dst. simpl. apply (proj2 (eqb_neq _ _)) in Hq. now rewrite Hq, eqb_refl.
  Qed.
  Lemma In_elim_inv k G p r q : In (p, r, q) (elim k G) ->
    p <> k /\ q <> k /\
    (In (p, r, q) G \/ exists r1 r2, r = RCat r1 (RCat (RStar (between G k k)) r2) /\ In (p, r1, k) G /\ In (k, r2, q) G).
  Proof.
    unfold elim. intros Hin. apply in_app_or in Hin. destruct Hin as [Hin|Hin].
    - apply filter_In in Hin. destruct Hin as (Hin & Hb). unfold src, dst in Hb. simpl in Hb.
      apply andb_true_iff in Hb. destruct Hb as (B1 & B2). apply negb_true_iff in B1. apply negb_true_iff in B2. apply (proj1 (eqb_neq _ _)) in B1. apply (proj1 (eqb_neq _ _)) in B2. auto.
    - apply in_flat_map in Hin. destruct Hin as ([[pi ri] qi] & Hi & Hin). apply in_map_iff in Hin.
      destruct Hin as ([[po ro] qo] & E & Ho). apply filter_In in Hi, Ho. destruct Hi as (Hi & Bi), Ho as (Ho & Bo).
      unfold src, dst, lbl in *. simpl in *. inversion E; subst.
      apply andb_true_iff in Bi, Bo. destruct Bi as (B1 & B2), Bo as (B3 & B4).
      apply negb_true_iff in B1. apply negb_true_iff in B4. apply (proj1 (eqb_neq _ _)) in B1. apply (proj1 (eqb_neq _ _)) in B4. apply (proj1 (eqb_eq _ _)) in B2. apply (proj1 (eqb_eq _ _)) in B3. subst.
      split; [exact B1|]. split; [exact B4|]. right. eauto.
  Qed.

  Lemma elim_complete k G q : q <> k -> forall p w, gpath G p w q ->
    (p <> k -> gpath (elim k G) p w q) /\
    (p = k -> forall p0 r1 w0 lw, In (p0, r1, k) G -> p0 <> k -> den r1 w0 -> den (RStar (between G k k)) lw ->
               gpath (elim k G) p0 (w0 ++ lw ++ w) q).
  Proof.
    intros Hq p w Hp. induction Hp as [p|p r p' u v q Hin Hd Hp IH].
    - split; [intros _; apply gp_nil|intros E; congruence].
    - specialize (IH Hq). destruct IH as (IH1 & IH2). split.
      + intros Hpk. destruct (eqb_spec p' k) as [E|Hn].
        * subst p'. specialize (IH2 eq_refl p r u [] Hin Hpk Hd (d_star0 _)). simpl in IH2. exact IH2.
        * eapply gp_step; [apply In_elim_old; eauto|exact Hd|apply IH1; exact Hn].
      + intros E p0 r1 w0 lw Hi Hp0 Hd0 Hl. subst p. destruct (eqb_spec p' k) as [E|Hn].
        * subst p'. assert (Hl' : den (RStar (between G k k)) (lw ++ u)).
          { apply star_snoc; [exact Hl|]. apply den_between. eauto. }
          specialize (IH2 eq_refl p0 r1 w0 (lw ++ u) Hi Hp0 Hd0 Hl').
          replace (w0 ++ lw ++ u ++ v) with (w0 ++ (lw ++ u) ++ v) by now rewrite <- !app_assoc. exact IH2.
        * replace (w0 ++ lw ++ u ++ v) with ((w0 ++ lw ++ u) ++ v) by now rewrite <- !app_assoc.
          eapply gp_step; [eapply In_elim_new; eauto| |apply IH1; exact Hn].
          apply d_cat; [exact Hd0|]. apply d_cat; assumption.
  Qed.

  Lemma elim_sound k G p w q : gpath (elim k G) p w q -> gpath G p w q.
  Proof.
    induction 1 as [p|p r p' u v q Hin Hd Hp IH]; [apply gp_nil|].
    apply In_elim_inv in Hin. destruct Hin as (_ & _ & [Hin|(r1 & r2 & E & Hi & Ho)]).
    - eapply gp_step; eauto.
    - subst r. inversion Hd as [| |? ? u1 u23 D1 D23| | | |]; subst.
      inversion D23 as [| |? ? u2 u3 D2 D3| | | |]; subst.
      eapply gpath_trans; [|exact IH].
      eapply gpath_trans; [eapply gpath_edge; eauto|]. eapply gpath_trans; [apply star_loop_path; exact D2|].
      eapply gpath_edge; eauto.
  Qed.

  Lemma elim_path k G p w q : p <> k -> q <> k -> (gpath (elim k G) p w q <-> gpath G p w q).
  Proof.
    intros Hp Hq. split; [apply elim_sound|]. intros Hg. apply (elim_complete k G q Hq p w Hg). exact Hp.
  Qed.

  Definition nodes_in (G : list gedge) (P : Q -> Prop) : Prop := forall p r q, In (p, r, q) G -> P p /\ P q.

  Lemma elim_nodes k G P : nodes_in G P -> nodes_in (elim k G) (fun x => P x /\ x <> k).
  Proof.
    intros HG p r q Hin. apply In_elim_inv in Hin. destruct Hin as (Hp & Hq & [Hin|(r1 & r2 & _ & Hi & Ho)]).
    - destruct (HG _ _ _ Hin). tauto.
    - destruct (HG _ _ _ Hi), (HG _ _ _ Ho). tauto.
  Qed.

  Lemma elim_all_spec s f : forall states G P, nodes_in G P ->
    (forall w, gpath (elim_all s f states G) s w f <-> gpath G s w f) /\
    nodes_in (elim_all s f states G) (fun x => P x /\ (In x states -> x = s \/ x = f)).
  Proof.
    induction states as [|k states IH]; intros G P HG; simpl.
    - split; [tauto|]. intros p r q Hin. destruct (HG _ _ _ Hin). tauto.
    - destruct (eqb_spec k s) as [Eks|Hks]; simpl.
      + destruct (IH G P HG) as (I1 & I2). split; [exact I1|]. intros p r q Hin. destruct (I2 _ _ _ Hin) as ((A1 & A2) & (B1 & B2)).
        split; (split; [assumption|]); intros [E|E]; subst; auto.
      + destruct (eqb_spec k f) as [Ekf|Hkf].
        * destruct (IH G P HG) as (I1 & I2). split; [exact I1|]. intros p r q Hin. destruct (I2 _ _ _ Hin) as ((A1 & A2) & (B1 & B2)).
          split; (split; [assumption|]); intros [E|E]; subst; auto.
        * destruct (IH (elim k G) _ (elim_nodes k G P HG)) as (I1 & I2). split.
          -- intros w. rewrite I1. apply elim_path; congruence.
          -- intros p r q Hin. destruct (I2 _ _ _ Hin) as (((A1 & A1') & A2) & ((B1 & B1') & B2)).
             split; (split; [assumption|]); intros [E|E]; subst; auto; contradiction.
  Qed.

  Lemma nodes_in_impl G (P P' : Q -> Prop) : (forall x, P x -> P' x) -> nodes_in G P -> nodes_in G P'.
  Proof. intros HP HG p r q Hin. destruct (HG _ _ _ Hin). split; auto. Qed.

  (* ---- the expression read off the remaining start and final state ---- *)
  Lemma one_state G s w : nodes_in G (fun x => x = s) -> (gpath G s w s <-> den (RStar (between G s s)) w).
  Proof.
    intros HG. split; [|apply star_loop_path].
    assert (Hgen : forall p w q, gpath G p w q -> p = s -> den (RStar (between G s s)) w).
    { induction 1 as [p|p r p' u v q Hin Hd Hp IH]; intros E; [apply d_star0|]. subst p.
      destruct (HG _ _ _ Hin) as (_ & E'). subst p'. apply d_star1; [apply den_between; eauto|auto]. }
    intros Hp. eapply Hgen; eauto.
  Qed.

  Section Two.
    Variables (G : list gedge) (s f : Q).
    Hypothesis Hsf : s <> f.
    Hypothesis HG : nodes_in G (fun x => x = s \/ x = f).
    Let ss := between G s s. Let se := between G s f. Let es := between G f s. Let ee := between G f f.
    Let X := RAlt ss (RCat se (RCat (RStar ee) es)).
    Let Y := RCat se (RStar ee).

    Lemma two_complete : forall w q, gpathR G s w q ->
      (q = s -> den (RStar X) w) /\ (q = f -> den (RCat (RStar X) Y) w).
    Proof.
      induction 1 as [|u q r q' v Hp IH Hin Hd].
      - split; [intros _; apply d_star0|intros E; congruence].
      - destruct IH as (IHs & IHf). destruct (HG _ _ _ Hin) as (Hq & Hq'). split; intros E; subst q'.
        + destruct Hq as [Eq|Eq]; subst q.
          * apply star_snoc; [auto|]. apply d_altl. apply den_between. eauto.
          * specialize (IHf eq_refl). inversion IHf as [| |? ? x y Dx Dy| | | |]; subst.
            inversion Dy as [| |? ? y1 y2 D1 D2| | | |]; subst.
            rewrite <- app_assoc. apply star_snoc; [exact Dx|]. apply d_altr.
            rewrite <- app_assoc. apply d_cat; [exact D1|]. apply d_cat; [exact D2|]. apply den_between. eauto.
        + destruct Hq as [Eq|Eq]; subst q.
          * apply d_cat; [auto|]. rewrite <- (app_nil_r v). apply d_cat; [apply den_between; eauto|apply d_star0].
          * specialize (IHf eq_refl). inversion IHf as [| |? ? x y Dx Dy| | | |]; subst.
            inversion Dy as [| |? ? y1 y2 D1 D2| | | |]; subst.
            rewrite <- !app_assoc. apply d_cat; [exact Dx|]. apply d_cat; [exact D1|].
            apply star_snoc; [exact D2|]. apply den_between. eauto.
    Qed.

    Lemma X_path u : den X u -> gpath G s u s.
    Proof.
      intros HX. inversion HX as [| | |? ? ? Hl|? ? ? Hr| |]; subst.
      - apply den_between in Hl. destruct Hl as (r & Hin & Hd). eapply gpath_edge; eauto.
      - inversion Hr as [| |? ? u1 u23 D1 D23| | | |]; subst. inversion D23 as [| |? ? u2 u3 D2 D3| | | |]; subst.
        apply den_between in D1, D3. destruct D1 as (r1 & I1 & E1), D3 as (r3 & I3 & E3).
        eapply gpath_trans; [eapply gpath_edge; eauto|]. eapply gpath_trans; [apply star_loop_path; exact D2|].
        eapply gpath_edge; eauto.
    Qed.
    Lemma Xstar_path u : den (RStar X) u -> gpath G s u s.
    Proof.
      intros HX. remember (RStar X) as R eqn:E. induction HX; inversion E; subst.
      - apply gp_nil.
      - eapply gpath_trans; [apply X_path; assumption|auto].
    Qed.

    Lemma two_states w : gpath G s w f <-> den (RCat (RStar X) Y) w.
    Proof.
      split.
      - intros Hp. apply gpath_R in Hp. apply (two_complete w f Hp). reflexivity.
      - intros Hd. inversion Hd as [| |? ? x y Dx Dy| | | |]; subst.
        inversion Dy as [| |? ? y1 y2 D1 D2| | | |]; subst. apply den_between in D1. destruct D1 as (r1 & I1 & E1).
        eapply gpath_trans; [apply Xstar_path; exact Dx|]. eapply gpath_trans; [eapply gpath_edge; eauto|].
        apply star_loop_path. exact D2.
    Qed.
  End Two.

  Lemma two_state_regex_spec G s f w : nodes_in G (fun x => x = s \/ x = f) ->
    (gpath G s w f <-> den (two_state_regex G s f) w).
  Proof.
    intros HG. unfold two_state_regex. destruct (eqb_spec s f) as [E|Hn].
    - subst f. apply one_state. eapply nodes_in_impl; [|exact HG]. intros x [E|E]; exact E.
    - apply two_states; assumption.
  Qed.

  Lemma eliminate_spec (s f : Q) states G w :
    nodes_in G (fun x => x = s \/ In x states) ->
    (den (two_state_regex (elim_all s f states G) s f) w <-> gpath G s w f).
  Proof.
    intros HG. destruct (elim_all_spec s f states G _ HG) as (I1 & I2).
    rewrite <- two_state_regex_spec; [apply I1|].
    eapply nodes_in_impl; [|exact I2]. cbv beta. intros x ([E|Hin] & Himp); auto.
  Qed.
End Paths.

Section ToRegex.
  Context {Q : Type} `{EqDec Q}.
  Variable A : enfa Q.

  Lemma den_lab l u : den (lab_of l) u <-> match l with None => u = [] | Some a => u = [a] end.
  Proof. destruct l as [a|]; simpl; split; intros Hd; try (inversion Hd; reflexivity); subst; constructor. Qed.

  Lemma g_init_from_some p r x : In (Some p, r, x) (g_init A) ->
    exists l q, x = Some q /\ r = lab_of l /\ In (p, l, q) (e_delta A).
  Proof.
    unfold g_init. intros Hin. apply in_app_or in Hin. destruct Hin as [Hin|Hin].
    - apply in_map_iff in Hin. destruct Hin as ([[p' l] q] & E & Hin). simpl in E. inversion E; subst. eauto.
    - destruct (e_starts A) as [|s0 [|s1 rest]]; try contradiction.
      apply in_map_iff in Hin. destruct Hin as (s' & E & _). discriminate.
  Qed.
  Lemma g_init_edge p l q : In (p, l, q) (e_delta A) -> In (Some p, lab_of l, Some q) (g_init A).
  Proof. intros Hin. unfold g_init. apply in_or_app. left. apply in_map_iff. exists (p, l, q). split; [reflexivity|exact Hin]. Qed.

  Lemma g_init_from_none r y : In (None, r, y) (g_init A) -> r = REps /\ exists s, y = Some s /\ In s (e_starts A).
  Proof.
    unfold g_init. intros Hin. apply in_app_or in Hin. destruct Hin as [Hin|Hin].
    - apply in_map_iff in Hin. destruct Hin as (t & E & _). discriminate.
    - assert (Hin' : In (None, r, y) (map (fun s : Q => (@None Q, REps, Some s)) (e_starts A))).
      { destruct (e_starts A) as [|s0 [|s1 rest]]; try contradiction. exact Hin. }
      apply in_map_iff in Hin'. destruct Hin' as (s & E & Hs). inversion E; subst. eauto.
  Qed.
  Lemma g_init_fresh s s0 s1 rest : e_starts A = s0 :: s1 :: rest -> In s (e_starts A) -> In (None, REps, Some s) (g_init A).
  Proof.
    intros Est Hs. unfold g_init. apply in_or_app. right.
    assert (E : match e_starts A with _ :: _ :: _ => map (fun s : Q => (@None Q, REps, Some s)) (e_starts A) | _ => [] end
                = map (fun s : Q => (@None Q, REps, Some s)) (e_starts A)) by now rewrite Est.
    rewrite E. apply in_map_iff. eauto.
  Qed.

  Lemma run_gpath p w q : run A p w q <-> gpath (g_init A) (Some p) w (Some q).
  Proof.
    split.
    - induction 1 as [q|q q' w r Hin Hr IH|q a q' w r Hin Hr IH].
      + apply gp_nil.
      + change w with ([] ++ w). eapply gp_step; [apply g_init_edge; exact Hin|apply den_lab; reflexivity|exact IH].
      + change (a :: w) with ([a] ++ w). eapply gp_step; [apply g_init_edge; exact Hin|apply den_lab; reflexivity|exact IH].
    - intros Hg. remember (Some p) as x eqn:Ex. remember (Some q) as y eqn:Ey. revert p Ex.
      induction Hg as [x|x r x' u v y Hin Hd Hp IH]; intros p Ex; subst.
      + inversion Ex; subst. apply run_nil.
      + apply g_init_from_some in Hin. destruct Hin as (l & q' & E1 & E2 & Hin). subst.
        apply den_lab in Hd. specialize (IH eq_refl q' eq_refl). destruct l as [a|]; subst u; simpl.
        * eapply run_sym; eauto.
        * eapply run_eps; eauto.
  Qed.

  Lemma g_init_nodes (s : option Q) : wf A ->
    (forall r y, In (None, r, y) (g_init A) -> s = None) ->
    nodes_in (g_init A) (fun x => x = s \/ In x (map Some (e_states A))).
  Proof.
    intros (W1 & _ & W3 & _) Hs x r y Hin. pose proof Hin as Hin0. unfold g_init in Hin. apply in_app_or in Hin. destruct Hin as [Hin|Hin].
    - apply in_map_iff in Hin. destruct Hin as ([[p l] q] & E & Hin). simpl in E. inversion E; subst.
      destruct (W1 _ _ _ Hin). split; right; apply in_map; assumption.
    - assert (Hx : x = None /\ exists s', y = Some s' /\ In s' (e_starts A)).
      { destruct (e_starts A) as [|s0 [|s1 rest]]; try contradiction.
        apply in_map_iff in Hin. destruct Hin as (s' & E & Hin). inversion E; subst. eauto. }
      destruct Hx as (-> & s' & -> & Hs'). split.
      + left. symmetry. eapply Hs; exact Hin0.
      + right. apply in_map. apply W3. exact Hs'.
  Qed.

  Theorem to_regex_correct : wf A -> forall w, Lang A w <-> den (to_regex A) w.
  Proof.
    intros W w. unfold to_regex, g_start.
    destruct (e_starts A) as [|s0 [|s1 rest]] eqn:Est.
    - split; [|intros Hd; inversion Hd]. intros (s & f & Hs & _). unfold Lang in *. rewrite Est in Hs. contradiction.
    - assert (HN : nodes_in (g_init A) (fun x => x = Some s0 \/ In x (map Some (e_states A)))).
      { destruct W as (W1 & _ & W3 & _). intros x r y Hin. unfold g_init in Hin. rewrite Est, app_nil_r in Hin.
        apply in_map_iff in Hin. destruct Hin as ([[p l] q] & E & Hin). simpl in E. inversion E; subst.
        destruct (W1 _ _ _ Hin). split; right; apply in_map; assumption. }
      rewrite den_alts. split.
      + intros (s & f & Hs & Hf & Hr). rewrite Est in Hs. destruct Hs as [E|[]]. subst s.
        eexists. split; [apply in_map_iff; exists f; split; [reflexivity|exact Hf]|].
        apply eliminate_spec; [exact HN|]. apply run_gpath. exact Hr.
      + intros (r & Hin & Hd). apply in_map_iff in Hin. destruct Hin as (f & E & Hf). subst r.
        apply eliminate_spec in Hd; [|exact HN]. exists s0, f. rewrite Est. split; [now left|]. split; [exact Hf|].
        apply run_gpath. exact Hd.
    - assert (HN : nodes_in (g_init A) (fun x => x = None \/ In x (map Some (e_states A)))).
      { apply g_init_nodes; [exact W|intros; reflexivity]. }
      assert (Hfresh : forall f w, gpath (g_init A) None w (Some f) <-> exists s, In s (e_starts A) /\ run A s w f).
      { intros f w'. split.
        - intros Hg. inversion Hg as [|p r p' u v q Hin Hd Hp]; subst.
          apply g_init_from_none in Hin. destruct Hin as (-> & s & -> & Hs).
          inversion Hd; subst. exists s. split; [exact Hs|]. apply run_gpath. exact Hp.
        - intros (s & Hs & Hr). change w' with ([] ++ w'). eapply gp_step; [|apply d_eps|apply run_gpath; exact Hr].
          eapply g_init_fresh; eauto. }
      rewrite den_alts. split.
      + intros (s & f & Hs & Hf & Hr).
        eexists. split; [apply in_map_iff; exists f; split; [reflexivity|exact Hf]|].
        apply eliminate_spec; [exact HN|]. apply Hfresh. exists s. split; assumption.
      + intros (r & Hin & Hd). apply in_map_iff in Hin. destruct Hin as (f & E & Hf). subst r.
        apply eliminate_spec in Hd; [|exact HN]. apply Hfresh in Hd. destruct Hd as (s & Hs & Hr).
        exists s, f. auto.
  Qed.
End ToRegex.
