(* Lemmas about the definitions regenerated from /repo's source by tools/pygen.py (coq/Gen/*.v): re-checked at every build.
   One file per property so that a change of one constant only breaks the obligations that depend on it. *)
From Coq Require Import List Bool NArith.
From PFL Require Import Base.ListSet Spec.Cfg Model.Cfg Gen.PyConst Gen.PyFun.
Import ListNotations.

(* the operator spellings assumed by the reference regex parser (harness token mapping) are the ones of the source *)
Lemma regex_operator_spellings :
  re_UNION_SYMBOLS = [[124%N]; [43%N]] /\ re_CONCATENATION_SYMBOLS = [[46%N]] /\ re_KLEENE_STAR_SYMBOLS = [[42%N]] /\
  re_PARENTHESIS = [[40%N]; [41%N]] /\
  re_EPSILON_SYMBOLS = [[101%N; 112%N; 115%N; 105%N; 108%N; 111%N; 110%N]; [36%N]].
Proof. repeat split; reflexivity. Qed.

