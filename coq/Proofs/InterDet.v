(* intersection with an arbitrary automaton = determinise, then the product / Bar-Hillel construction (C11) *)
From Coq Require Import List Bool Arith NArith.
From PFL Require Import Base.ListSet Spec.Enfa Spec.Cfg Spec.Pda Model.Enfa Model.EnfaOps Model.Cfg Model.CfgInter Model.Pda
  Proofs.EnfaDet Proofs.CfgInter Proofs.PdaInter.
Import ListNotations.

Theorem cfg_inter_det {Vr Q} `{EqDec Vr} `{EqDec Q} `{Canon Q} (b : bool) (A : enfa Q) (n fuel : nat) (G : cfg Vr) D R :
  (b = false -> eps_free A) -> wf A -> determinize b A n = Some D -> cfg_inter fuel G D = Some R ->
  forall w, LangG R w <-> LangG G w /\ Lang A w.
Proof.
  intros Hb W HD HR w. pose proof (proj1 (proj2 W)) as Hsyms.
  rewrite (cfg_inter_lang fuel G D R (determinize_is_dfa b A n D HD) (determinize_wf b A n D HD) HR w).
  now rewrite (determinize_lang b A Hb Hsyms n D HD w).
Qed.

Theorem pda_inter_det {Q0 G0 Q} `{EqDec Q0} `{EqDec G0} `{EqDec Q} `{Canon Q} (b : bool) (A : enfa Q) (n m : nat) (P : pda Q0 G0) D R :
  (b = false -> eps_free A) -> wf A -> determinize b A n = Some D -> pda_inter P D m = Some R ->
  forall w, acc_final R w <-> acc_final P w /\ Lang A w.
Proof.
  intros Hb W HD HR w. pose proof (proj1 (proj2 W)) as Hsyms. destruct (determinize_is_dfa b A n D HD) as [Ef [_ O1]].
  rewrite (pda_inter_spec P D (fun p q Hd => match Ef p q Hd with end) m R HR w O1). now rewrite (determinize_lang b A Hb Hsyms n D HD w).
Qed.

(* PDA.intersection keeps an operand for which is_deterministic() holds as it is *)
From PFL Require Import Base.Closure Proofs.EnfaAccepts Proofs.EnfaClasses.
Theorem pda_inter_deterministic {Q0 G0 Q} `{EqDec Q0} `{EqDec G0} `{EqDec Q} (A : enfa Q) (m : nat) (P : pda Q0 G0) R :
  is_deterministic A = true -> wf A -> pda_inter P A m = Some R ->
  forall w, acc_final R w <-> acc_final P w /\ Lang A w.
Proof.
  intros Hd W HR w. apply is_deterministic_spec in Hd. destruct Hd as [O1 [_ Lp]].
  apply (pda_inter_spec P A) with (n := m); [|exact HR|exact O1].
  intros p q Hpq. symmetry. apply Lp; [apply (proj1 W _ _ _ Hpq)|].
  apply reach_step with p; [apply reach_init; now left|now apply succs_In].
Qed.
