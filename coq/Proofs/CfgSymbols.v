(* generating / nullable / reachable symbols are exact (C12, C08 generate_epsilon) *)
From Coq Require Import List Bool Arith NArith Lia.
From PFL Require Import Base.ListSet Base.Closure Base.Saturate Spec.Cfg Model.Cfg.
Import ListNotations.

Section S.
  Context {Vr : Type} `{EqDec Vr}.
  Variable G : cfg Vr.

  Lemma head_in_heads A body : In (A, body) (g_prods G) -> In A (heads G).
  Proof. intros Hp. unfold heads. apply dedup_In. apply in_map_iff. exists (A, body). auto. Qed.

  Lemma head_ok_true ter_ok S A : head_ok G ter_ok S A = true <->
    exists body, In (A, body) (g_prods G) /\ body_in ter_ok S body = true.
  Proof.
    unfold head_ok. rewrite existsb_exists. split.
    - intros [[A' body] [Hp E]]. cbn [fst snd] in E. apply land_true_iff in E. destruct E as [E1 E2].
      apply (proj1 (eqb_eq _ _)) in E1. subst A'. eauto.
    - intros [body [Hp E]]. exists (A, body). split; [exact Hp|]. cbn [fst snd]. now rewrite eqb_refl.
  Qed.

  Lemma body_in_true ter_ok S body : body_in ter_ok S body = true <->
    forall X, In X body -> match X with V B => In B S | T _ => ter_ok = true end.
  Proof.
    unfold body_in. rewrite forallb_forall. split; intros F X HX; specialize (F X HX); destruct X; auto.
    - now apply mem_In. - now apply mem_In.
  Qed.

  (* ---------- generating ---------- *)
  Lemma derives_list_exists body : (forall X, In X body -> exists w, derives G X w) -> exists w, derives_list G body w.
  Proof.
    induction body as [|X rest IH]; intros F; [exists []; apply dl_nil|].
    destruct (F X (or_introl eq_refl)) as [u DX]. destruct IH as [v DL]; [intros Y HY; apply F; now right|].
    exists (u ++ v). now apply dl_cons.
  Qed.

  Theorem generating_vars_spec A : In A (generating_vars G) <-> exists w, derives G (V A) w.
  Proof.
    unfold generating_vars. split.
    - intros HA. apply saturate_sound in HA. revert A HA.
      apply (Gen_least (heads G) (head_ok G true) (fun A => exists w, derives G (V A) w)).
      intros S A HS Hc Ho. apply head_ok_true in Ho. destruct Ho as [body [Hp Hb]].
      destruct (derives_list_exists body) as [w DL].
      + intros X HX. pose proof (proj1 (body_in_true _ _ _) Hb X HX) as Y. destruct X as [B|a].
        * now apply HS. * exists [a]. apply dv_ter.
      + exists w. now apply dv_var with body.
    - intros [w D].
      assert (M : (forall X w, derives G X w -> match X with V A => In A (saturate (heads G) (head_ok G true)) | T _ => True end) /\
                  (forall body w, derives_list G body w -> body_in true (saturate (heads G) (head_ok G true)) body = true)).
      { apply derives_mutind.
        - intros a. exact I.
        - intros A0 body w0 Hp DL IH. apply saturate_closed; [now apply head_in_heads with body|].
          apply head_ok_true. eauto.
        - reflexivity.
        - intros X rest u v DX IHX DL IHL. cbn [body_in forallb]. fold (body_in true (saturate (heads G) (head_ok G true)) rest).
          rewrite IHL, andb_true_r. destruct X; [now apply mem_In|reflexivity]. }
      apply (proj1 M _ _ D).
  Qed.

  Theorem is_empty_cfg_spec : is_empty_cfg G = true <-> forall w, ~ LangG G w.
  Proof.
    unfold is_empty_cfg, LangG. destruct (g_start G) as [s|]; [|split; [tauto|reflexivity]].
    rewrite negb_true_iff, mem_nIn, generating_vars_spec. split.
    - intros N w D. apply N. eauto.
    - intros N [w D]. apply (N w D).
  Qed.

  (* ---------- nullable ---------- *)
  Theorem nullable_vars_spec A : In A (nullable_vars G) <-> derives G (V A) [].
  Proof.
    unfold nullable_vars. split.
    - intros HA. apply saturate_sound in HA. revert A HA.
      apply (Gen_least (heads G) (head_ok G false) (fun A => derives G (V A) [])).
      intros S A HS Hc Ho. apply head_ok_true in Ho. destruct Ho as [body [Hp Hb]].
      apply dv_var with body; [exact Hp|]. clear Hp. induction body as [|X rest IH]; [apply dl_nil|].
      change (@nil N) with (@nil N ++ []). apply dl_cons.
      + pose proof (proj1 (body_in_true _ _ _) Hb X (or_introl eq_refl)) as Y. destruct X as [B|a]; [now apply HS|discriminate].
      + apply IH. apply body_in_true. intros Y HY. apply (proj1 (body_in_true _ _ _) Hb). now right.
    - intros D.
      assert (M : (forall X w, derives G X w -> w = [] -> match X with V A => In A (saturate (heads G) (head_ok G false)) | T _ => False end) /\
                  (forall body w, derives_list G body w -> w = [] -> body_in false (saturate (heads G) (head_ok G false)) body = true)).
      { apply derives_mutind.
        - intros a E. discriminate.
        - intros A0 body w0 Hp DL IH E. apply saturate_closed; [now apply head_in_heads with body|].
          apply head_ok_true. eauto.
        - reflexivity.
        - intros X rest u v DX IHX DL IHL E. apply app_eq_nil in E. destruct E as [-> ->].
          cbn [body_in forallb]. fold (body_in false (saturate (heads G) (head_ok G false)) rest).
          rewrite (IHL eq_refl), andb_true_r. specialize (IHX eq_refl). destruct X; [now apply mem_In|destruct IHX]. }
      apply (proj1 M _ _ D eq_refl).
  Qed.

  Theorem generate_epsilon_spec : generate_epsilon G = true <-> LangG G [].
  Proof.
    unfold generate_epsilon, LangG. destruct (g_start G) as [s|]; [|split; [discriminate|tauto]].
    rewrite mem_In. apply nullable_vars_spec.
  Qed.

  (* ---------- reachable ---------- *)
  Lemma sym_succs_In X Y : In Y (sym_succs G X) <-> exists A body, X = V A /\ In (A, body) (g_prods G) /\ In Y body.
  Proof.
    unfold sym_succs. destruct X as [A|a].
    - rewrite in_flat_map. split.
      + intros [[A' body] [Hp HY]]. cbn [fst snd] in HY. destruct (eqb_spec A A') as [<-|]; [|destruct HY]. eauto.
      + intros [A' [body [E [Hp HY]]]]. inversion E; subst. exists (A', body). split; [exact Hp|]. cbn [fst snd]. now rewrite eqb_refl.
    - split; [intros []|intros [A [body [E _]]]; discriminate].
  Qed.

  Lemma steps_snoc f g h : steps G f g -> step G g h -> steps G f h.
  Proof. induction 1; intros S2; [eapply steps_trans; [exact S2|apply steps_refl]|eapply steps_trans; eauto]. Qed.

  Theorem reachable_symbols_spec s X : g_start G = Some s ->
    (In X (reachable_symbols G) <-> exists pre post, steps G [V s] (pre ++ X :: post)).
  Proof.
    intros Es. unfold reachable_symbols. rewrite Es. cbn [olist map].
    rewrite closure_spec.
    - split.
      + induction 1 as [Y HY|Y Z HY IH HZ].
        * destruct HY as [<-|[]]. exists [], []. apply steps_refl.
        * destruct IH as [pre [post St]]. apply sym_succs_In in HZ. destruct HZ as [A [body [-> [Hp HZ]]]].
          apply in_split in HZ. destruct HZ as [b1 [b2 ->]].
          exists (pre ++ b1), (b2 ++ post). eapply steps_snoc; [exact St|].
          replace ((pre ++ b1) ++ Z :: b2 ++ post) with (pre ++ (b1 ++ Z :: b2) ++ post) by (now rewrite <- !app_assoc).
          now apply step_intro.
      + intros [pre [post St]].
        assert (Gn : forall f g, steps G f g -> (forall Y, In Y f -> reach (sym_succs G) [V s] Y) ->
                     forall Y, In Y g -> reach (sym_succs G) [V s] Y).
        { clear. induction 1 as [f|f g h S1 S2 IH]; intros F Y HY; [now apply F|]. apply IH; [|exact HY].
          destruct S1 as [pre A body post Hp]. intros Z HZ. apply in_app_iff in HZ. destruct HZ as [HZ|HZ].
          - apply F. apply in_or_app. now left.
          - apply in_app_iff in HZ. destruct HZ as [HZ|HZ].
            + apply reach_step with (V A); [apply F; apply in_or_app; right; now left|]. apply sym_succs_In. eauto.
            + apply F. apply in_or_app. right. now right. }
        apply (Gn _ _ St); [intros Y [<-|[]]; apply reach_init; now left|]. apply in_or_app. right. now left.
    - intros Y _ Z HZ. apply sym_succs_In in HZ. destruct HZ as [A [body [-> [Hp HZ]]]].
      unfold all_symbols. apply in_or_app. right. apply in_flat_map. exists (A, body). split; [exact Hp|]. now right.
    - intros Y [<-|[]]. unfold all_symbols. rewrite Es. now left.
  Qed.
End S.
