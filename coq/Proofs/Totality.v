(* The fuelled explorations finish: with fuel above the size of their finite universe the product constructions return a
   result (so the out-of-fuel branch of the models is unreachable for the fuel the correspondence uses). *)
From Coq Require Import List Bool Arith NArith Lia.
From PFL Require Import Base.Loop Base.ListSet Base.Closure Spec.Enfa Spec.Pda Model.Enfa Model.EnfaOps Model.Pda Proofs.EnfaAccepts.
Import ListNotations.

Lemma loop_inr_mono {St R} (step : St -> St + R) n s r : loop step n s = inr r -> forall m, n <= m -> loop step m s = inr r.
Proof.
  intros E m Le. induction Le as [|m Le IH]; [exact E|]. cbn [loop]. now rewrite IH.
Qed.
Lemma close_from_mono {A} `{EqDec A} (succ : A -> list A) n init r : close_from succ n init = Some r -> forall m, n <= m -> close_from succ m init = Some r.
Proof.
  unfold close_from. intros E m Le. destruct (loop (close_step succ) n (dedup init, dedup init)) as [s|r0] eqn:L; [discriminate|].
  rewrite (loop_inr_mono _ _ _ _ L m Le). exact E.
Qed.
Lemma close_from_total {A} `{EqDec A} (succ : A -> list A) (U : list A) init :
  (forall x, In x U -> incl (succ x) U) -> incl init U -> forall n, 3 * length U < 2 ^ n -> exists r, close_from succ n init = Some r.
Proof.
  intros Uc Hi n Le. unfold close_from.
  assert (HD : incl (dedup init) U) by (intros z Hz; apply Hi; apply (proj1 (dedup_In z init)); exact Hz).
  destruct (loop_terminates _ _ (close_step succ) (mu U) (fun s => incl (fst s) U) (close_step_progress succ U Uc)
              n (dedup init, dedup init) HD) as [r Hr].
  - unfold mu. cbn [fst snd].
    assert (length (dedup init) <= length U) by (apply NoDup_incl_length; [apply dedup_NoDup|exact HD]).
    pose proof (unseen_le U (dedup init)). lia.
  - exists r. now rewrite Hr.
Qed.

Section FA.
  Context {Q : Type} `{EqDec Q}.
  Variable A : enfa Q.
  Hypothesis W : wf A.
  Lemma eclose_states S : incl S (e_states A) -> incl (eclose A S) (e_states A).
  Proof.
    intros I x Hx. apply eclose_spec in Hx. unfold epath in Hx. induction Hx as [y Hy|y z _ IH Hz]; [now apply I|].
    apply succs_In in Hz. now apply (proj1 W _ _ _ Hz).
  Qed.
  Lemma dstep_states S a : incl (dstep A S a) (e_states A).
  Proof.
    unfold dstep. apply eclose_states. intros x Hx. unfold step_set in Hx. apply in_flat_map in Hx. destruct Hx as [p [_ Hx]].
    apply succs_In in Hx. now apply (proj1 W _ _ _ Hx).
  Qed.
End FA.

(* get_intersection *)
Theorem intersection_total {Q1 Q2} `{EqDec Q1} `{EqDec Q2} (A : enfa Q1) (B : enfa Q2) : wf A -> wf B ->
  forall n, 3 * (length (e_states A) * length (e_states B)) < 2 ^ n -> exists P, intersection A B n = Some P.
Proof.
  intros WA WB n Le. unfold intersection.
  destruct (close_from_total (psuccs A B) (list_prod (e_states A) (e_states B)) (pstarts A B)) with (n := n) as [r Hr].
  - intros pq _ xy Hxy. unfold psuccs in Hxy. apply in_flat_map in Hxy. destruct Hxy as [a [_ Hxy]]. destruct xy as [x y].
    apply in_prod_iff in Hxy. apply in_prod_iff. split; [apply (dstep_states A WA [fst pq] a); tauto|apply (dstep_states B WB [snd pq] a); tauto].
  - intros [x y] Hxy. unfold pstarts in Hxy. apply in_prod_iff in Hxy. apply in_prod_iff.
    split; [apply (eclose_states A WA (e_starts A)); [apply (proj1 (proj2 (proj2 WA)))|tauto]|apply (eclose_states B WB (e_starts B)); [apply (proj1 (proj2 (proj2 WB)))|tauto]].
  - now rewrite prod_length.
  - rewrite Hr. eauto.
Qed.

(* PDA.intersection: the product over reachable pairs *)
Theorem pda_inter_total {Q G QD} `{EqDec Q} `{EqDec G} `{EqDec QD} (P : pda Q G) (D : enfa QD) : wf D ->
  (forall q l A r push, In (q, l, A, r, push) (p_delta P) -> In r (p_states P)) -> (forall s, p_start P = Some s -> In s (p_states P)) ->
  forall n, 3 * (length (p_states P) * length (e_states D)) < 2 ^ n -> exists R, pda_inter P D n = Some R.
Proof.
  intros WD Ht Hs n Le. unfold pda_inter. destruct (p_start P) as [s|] eqn:Es; [|eauto]. destruct (e_starts D) as [|d0 rest] eqn:Ed; [eauto|].
  destruct (close_from_total (pi_succ P D) (list_prod (p_states P) (e_states D)) [(s, d0)]) with (n := n) as [r Hr].
  - intros [q d] Hqd [q' d'] Hx. apply in_prod_iff in Hqd. destruct Hqd as [Hq Hd]. unfold pi_succ in Hx. apply in_flat_map in Hx.
    destruct Hx as [[[[[q0 l] A0] r0] push] [Hdl Hx]]. cbn [fst snd] in Hx. destruct (eqb_spec q0 q) as [->|]; [|destruct Hx].
    apply in_map_iff in Hx. destruct Hx as [d1 [E Hd1]]. inversion E; subst. apply in_prod_iff. split; [eapply Ht; eauto|].
    destruct l as [a|]; cbn [d_next] in Hd1; [apply succs_In in Hd1; now apply (proj1 WD _ _ _ Hd1)|destruct Hd1 as [<-|[]]; exact Hd].
  - intros x [<-|[]]. apply in_prod_iff. split; [now apply Hs|]. apply (proj1 (proj2 (proj2 WD))). rewrite Ed. now left.
  - now rewrite prod_length.
  - rewrite Hr. eauto.
Qed.

(* subset construction on automata whose states are numbers (canonical sets = strictly sorted lists) *)
From PFL Require Import Model.Ig Proofs.IgMark.
Lemma subsets_length (l : list N) : length (subsets l) = 2 ^ length l.
Proof. induction l as [|x r IH]; cbn [subsets length Nat.pow]; [reflexivity|]. rewrite app_length, map_length, IH. lia. Qed.

Theorem determinize_total (b : bool) (A : enfa N) : wf A ->
  forall n, 3 * 2 ^ length (e_states A) < 2 ^ n -> exists D, determinize b A n = Some D.
Proof.
  intros W n Le. unfold determinize.
  assert (Dc : forall T, incl T (e_states A) -> In (dclose b A T) (map canon (subsets (e_states A)))).
  { intros T HT. unfold dclose. cbn [norm Canon_N]. apply canon_in_subsets. destruct b; [now apply eclose_states|exact HT]. }
  destruct (close_from_total (dsuccs b A) (map canon (subsets (e_states A))) [dstart b A]) with (n := n) as [r Hr].
  - intros S _ T HT. unfold dsuccs in HT. apply in_flat_map in HT. destruct HT as [a [_ HT]]. unfold dnext in HT.
    destruct (step_set A S a) as [|x xs] eqn:E; [destruct HT|]. destruct HT as [<-|[]]. apply Dc. rewrite <- E.
    intros y Hy. unfold step_set in Hy. apply in_flat_map in Hy. destruct Hy as [p [_ Hy]]. apply succs_In in Hy. now apply (proj1 W _ _ _ Hy).
  - intros S [<-|[]]. apply Dc. apply (proj1 (proj2 (proj2 W))).
  - now rewrite map_length, subsets_length.
  - rewrite Hr. eauto.
Qed.

(* the equivalence check explores pairs of canonical subsets: it finishes *)
From PFL Require Import Oracle.EnfaEquiv.
Theorem enfa_equiv_total (A B : enfa N) : wf A -> wf B ->
  forall n, 3 * (2 ^ length (e_states A) * 2 ^ length (e_states B)) < 2 ^ n -> exists b, enfa_equiv A B n = Some b.
Proof.
  intros WA WB n Le. unfold enfa_equiv.
  set (U := list_prod (map canon (subsets (e_states A))) (map canon (subsets (e_states B)))).
  assert (InU : forall S T, incl S (e_states A) -> incl T (e_states B) -> In (canon S, canon T) U).
  { intros S T HS HT. apply in_prod_iff. split; now apply canon_in_subsets. }
  destruct (close_from_total (psucc A B) U [pstart A B]) with (n := n) as [r Hr].
  - intros p _ q Hq. unfold psucc in Hq. apply in_map_iff in Hq. destruct Hq as [a [<- _]]. cbn [norm Canon_N].
    apply InU; [apply (dstep_states A WA)|apply (dstep_states B WB)].
  - intros p [<-|[]]. unfold pstart. cbn [norm Canon_N].
    apply InU; [apply (eclose_states A WA); apply (proj1 (proj2 (proj2 WA)))|apply (eclose_states B WB); apply (proj1 (proj2 (proj2 WB)))].
  - subst U. unfold pairT. rewrite (prod_length (map canon (subsets (e_states A))) (map canon (subsets (e_states B)))), !map_length, !subsets_length. exact Le.
  - rewrite Hr. eauto.
Qed.
