(* Second invariant of _decompose_productions: every fresh variable has a production, is cached with its suffix, and is reached from
   the head of the production that introduced it (used for: the normal form has no useless variable, C12). *)
From Coq Require Import List Bool Arith NArith Lia.
From PFL Require Import Base.ListSet Spec.Cfg Model.Cfg Proofs.CfgDecompose.
Import ListNotations.

Section D2.
  Context {Vr : Type} `{EqDec Vr}.
  Notation cprod := (cvar Vr * list (symb (cvar Vr)))%type.

  Definition vedge (out : list cprod) (x y : cvar Vr) : Prop := exists Y Z, In (x, [Y; Z]) out /\ (Y = V y \/ Z = V y).
  Inductive vplus (out : list cprod) : cvar Vr -> cvar Vr -> Prop :=
  | vp_one x y : vedge out x y -> vplus out x y
  | vp_step x y z : vplus out x y -> vedge out y z -> vplus out x z.
  Lemma vedge_mono out out' x y : incl out out' -> vedge out x y -> vedge out' x y.
  Proof. intros I [Y [Z [Hp E]]]. exists Y, Z. auto. Qed.
  Lemma vplus_mono out out' x y : incl out out' -> vplus out x y -> vplus out' x y.
  Proof. intros I P. induction P; [apply vp_one|eapply vp_step; eauto]; eapply vedge_mono; eauto. Qed.
  Lemma vplus_cons out x y z : vedge out x y -> vplus out y z -> vplus out x z.
  Proof. intros E P. revert E. induction P as [y z E'|y z z' _ IH E']; intros E; [eapply vp_step; [apply vp_one; exact E|exact E']|eapply vp_step; [now apply IH|exact E']]. Qed.
  Lemma vplus_trans out x y z : vplus out x y -> vplus out y z -> vplus out x z.
  Proof. intros P1 P2. induction P2 as [y z E|y z z' _ IH E]; [now apply vp_step with y|apply vp_step with z; [now apply IH|exact E]]. Qed.

  Definition shape (out : list cprod) (b : list (symb (cvar Vr))) : Prop :=
    Forall nocc_sym b \/ exists Y k bb, b = [Y; V (CC k)] /\ nocc_sym Y /\ In (CC k, bb) out.
  Lemma shape_mono out out' b : incl out out' -> shape out b -> shape out' b.
  Proof. intros I [F|[Y [k [bb [E [NY Hp]]]]]]; [now left|right]. exists Y, k, bb. auto. Qed.

  Lemma decompose_body_incl : forall body vars head done out done' out',
    decompose_body head body vars done out = (done', out') -> incl done done'.
  Proof.
    induction body as [|X rest IH]; intros vars head done out done' out' E; cbn [decompose_body] in E.
    - inversion E; subst. apply incl_refl.
    - destruct vars as [|v vs]; [inversion E; subst; apply incl_refl|]. destruct (assoc_suffix rest done); [inversion E; subst; apply incl_refl|].
      apply IH in E. intros e He. apply E. now right.
  Qed.

  Lemma decompose_body_spec2 : forall body vars head done out done' out',
    length vars + 2 = length body -> Forall nocc_sym body ->
    decompose_body head body vars done out = (done', out') ->
    (forall e, In e done -> length (fst e) < length body -> exists k bb, snd e = CC k /\ In (CC k, bb) out) ->
    (forall v, In v vars -> exists k, v = CC k) ->
    exists new, out' = out ++ new /\
      (forall h b, In (h, b) new -> shape out' b) /\
      (exists b, In (head, b) new) /\
      (forall v b, In (v, b) new -> v = head \/ (vplus out' head v /\ exists suf, In (suf, v) done')).
  Proof.
    induction body as [|X rest IH]; intros vars head done out done' out' L Nb E Dok Vf; [cbn in L; lia|].
    inversion Nb as [|? ? NX Nr]; subst.
    destruct vars as [|v vs].
    - cbn in L. destruct rest as [|Y [|Z r]]; cbn in L; try lia. cbn [decompose_body] in E. inversion E; subst. clear E.
      exists [(head, [X; Y])]. split; [reflexivity|]. split; [|split].
      + intros h b [E0|[]]. inversion E0; subst. left. exact Nb.
      + exists [X; Y]. now left.
      + intros v b [E0|[]]. inversion E0; subst. now left.
    - cbn [decompose_body] in E. cbn [length] in L. destruct (Vf v (or_introl eq_refl)) as [kv ->].
      destruct (assoc_suffix rest done) as [d|] eqn:A.
      + inversion E; subst. clear E. apply assoc_suffix_In in A. destruct (Dok _ A) as [k [bb [Ed Hb]]]; [cbn [fst length]; lia|]. cbn [snd] in Ed. subst d.
        exists [(head, [X; V (CC k)])]. split; [reflexivity|]. split; [|split].
        * intros h b [E0|[]]. inversion E0; subst. right. exists X, k, bb. split; [reflexivity|split; [exact NX|apply in_or_app; now left]].
        * exists [X; V (CC k)]. now left.
        * intros v b [E0|[]]. inversion E0; subst. now left.
      + set (out1 := out ++ [(head, [X; V (CC kv)])]) in *.
        assert (P1 : length vs + 2 = length rest) by lia.
        assert (P2 : forall e, In e ((rest, CC kv) :: done) -> length (fst e) < length rest -> exists k bb, snd e = CC k /\ In (CC k, bb) out1).
        { intros e [<-|He] Le; [cbn [fst] in Le; lia|]. destruct (Dok e He) as [k [bb [E1 E2]]]; [cbn [length]; lia|].
          exists k, bb. split; [exact E1|apply in_or_app; now left]. }
        assert (P3 : forall u, In u vs -> exists k, u = CC k) by (intros u Hu; apply Vf; now right).
        destruct (IH vs (CC kv) ((rest, CC kv) :: done) out1 done' out' P1 Nr E P2 P3) as [new1 [Eo [Sh [[bv Hbv] Rc]]]].
        exists ((head, [X; V (CC kv)]) :: new1). unfold out1 in Eo. rewrite <- app_assoc in Eo. cbn [app] in Eo.
        assert (Ih : In (head, [X; V (CC kv)]) out') by (rewrite Eo; apply in_or_app; right; now left).
        assert (Iv : In (CC kv, bv) out') by (rewrite Eo; apply in_or_app; right; now right).
        assert (Ed : vedge out' head (CC kv)) by (exists X, (V (CC kv)); split; [exact Ih|now right]).
        assert (Dv : exists suf, In (suf, CC kv) done').
        { exists rest. apply (decompose_body_incl _ _ _ _ _ _ _ E). now left. }
        split; [exact Eo|]. split; [|split].
        * intros h b [E0|Hn]; [inversion E0; subst; right; exists X, kv, bv; auto|now apply (Sh h b)].
        * exists [X; V (CC kv)]. now left.
        * intros u b [E0|Hn]; [inversion E0; subst; now left|]. right. destruct (Rc u b Hn) as [->|[Pl Ds]].
          -- split; [now apply vp_one|exact Dv].
          -- split; [now apply vplus_cons with (CC kv)|exact Ds].
  Qed.

  Lemma chain_prod (out : list cprod) h body : chain out h body -> exists b, In (h, b) out.
  Proof. intros C. destruct C; eauto. Qed.

  Definition INV2 (pre : list cprod) (st : dstate) : Prop :=
    match st with (idx, done, out) =>
      (forall h b, In (h, b) out -> shape out b) /\
      (forall k b, In (CC k, b) out ->
         (exists h bb, nocc_var h /\ In (h, bb) pre /\ vplus out h (CC k)) /\ (exists suf, In (suf, CC k) done))
    end.
  Lemma INV2_init : INV2 [] (0%N, [], []).
  Proof. cbn. repeat split; intros; contradiction. Qed.

  Lemma decompose_one_inv2 pre st p : nocc_prod p -> INV pre st -> INV2 pre st -> INV2 (pre ++ [p]) (decompose_one st p).
  Proof.
    destruct st as [[idx done] out]. destruct p as [head body]. intros [Nh Nb] [J1 _] [I2 I3]. cbn [fst snd] in Nh, Nb.
    unfold decompose_one. cbn [fst snd]. destruct (Nat.leb_spec (length body) 2) as [Le|Gt].
    - assert (I : incl out (out ++ [(head, body)])) by (intros q Hq; apply in_or_app; now left).
      cbn [INV2]. split.
      + intros h b Hb. apply in_app_or in Hb. destruct Hb as [Hb|[Hb|[]]]; [apply shape_mono with out; [exact I|now apply (I2 h b)]|]. inversion Hb; subst. now left.
      + intros k b Hb. apply in_app_or in Hb. destruct Hb as [Hb|[Hb|[]]]; [|inversion Hb; subst; contradiction].
        destruct (I3 k b Hb) as [[h [bb [N1 [Hp Pl]]]] Dn]. split; [|exact Dn].
        exists h, bb. split; [exact N1|split; [apply in_or_app; now left|now apply vplus_mono with out]].
    - set (k := length body - 2). set (vars := map (fun i => CC (idx + N.of_nat i + 1)%N) (seq 0 k)).
      destruct (decompose_body head body vars done out) as [done' out'] eqn:E.
      pose proof (decompose_body_incl _ _ _ _ _ _ _ E) as Id.
      assert (P1 : length vars + 2 = length body) by (unfold vars; rewrite map_length, seq_length; unfold k; lia).
      assert (P2 : forall e, In e done -> length (fst e) < length body -> exists k0 bb, snd e = CC k0 /\ In (CC k0, bb) out).
      { intros e He _. destruct (J1 e He) as [k0 [E1 [_ C]]]. destruct (chain_prod _ _ _ C) as [bb Hbb]. exists k0, bb. split; [exact E1|now rewrite <- E1]. }
      assert (P3 : forall v, In v vars -> exists k0, v = CC k0) by (intros v Hv; destruct (fresh_vars_spec _ _ _ Hv) as [j [Ej _]]; eauto).
      destruct (decompose_body_spec2 body vars head done out done' out' P1 Nb E P2 P3) as [new [Eo [Sh [[bh Hbh] Rc]]]].
      assert (I : incl out out') by (rewrite Eo; intros q Hq; apply in_or_app; now left).
      cbn [INV2]. split.
      + intros h b Hb. rewrite Eo in Hb. apply in_app_or in Hb. destruct Hb as [Hb|Hb]; [apply shape_mono with out; [exact I|now apply (I2 h b)]|now apply (Sh h b)].
      + intros j b Hb. rewrite Eo in Hb. apply in_app_or in Hb. destruct Hb as [Hb|Hb].
        * destruct (I3 j b Hb) as [[h [bb [N1 [Hp Pl]]]] [suf Dn]]. split; [|exists suf; now apply Id].
          exists h, bb. split; [exact N1|split; [apply in_or_app; now left|now apply vplus_mono with out]].
        * destruct (Rc _ _ Hb) as [Eh|[Pl Ds]]; [subst head; contradiction|]. split; [|exact Ds].
          exists head, body. split; [exact Nh|split; [apply in_or_app; right; now left|exact Pl]].
  Qed.

  Lemma fold_inv2 l : forall pre st, Forall nocc_prod l -> INV pre st -> INV2 pre st ->
    INV (pre ++ l) (fold_left decompose_one l st) /\ INV2 (pre ++ l) (fold_left decompose_one l st).
  Proof.
    induction l as [|p l IH]; intros pre st F J J2; [rewrite app_nil_r; auto|].
    inversion F as [|? ? Fp Fl]; subst. cbn [fold_left].
    replace (pre ++ p :: l) with ((pre ++ [p]) ++ l) by (rewrite <- app_assoc; reflexivity).
    apply IH; [exact Fl|now apply decompose_one_inv|now apply decompose_one_inv2].
  Qed.

  Lemma decompose_INV2 ps : Forall nocc_prod ps -> exists idx done, INV ps (idx, done, decompose ps) /\ INV2 ps (idx, done, decompose ps).
  Proof.
    intros Hps. unfold decompose. pose proof (fold_inv2 ps [] (0%N, [], []) Hps INV_init INV2_init) as J. cbn [app] in J.
    destruct (fold_left decompose_one ps (0%N, [], [])) as [[idx done] out]. eauto.
  Qed.
End D2.
