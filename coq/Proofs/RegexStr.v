(* str(regex) parses back (C05): the text printed by Regex.__repr__ / get_str_repr puts every operator application between
   parentheses: "(a.b)", "(a|b)", "(a)*". The reference parser reads it back to the same tree. *)
From Coq Require Import List Bool Arith NArith Lia.
From PFL Require Import Spec.Regex Model.RegexParse Proofs.RegexParse.
Import ListNotations.

Fixpoint rdepth (r : re) : nat :=
  match r with
  | REmpty | REps | RSym _ => 1
  | RCat a b | RAlt a b => S (Nat.max (rdepth a) (rdepth b))
  | RStar a => S (rdepth a)
  end.

Section Rec.
  Variable rec : list tok -> option (re * list tok).
  (* rec reads what stands between a pair of parentheses *)
  Definition reads_cat a b := forall rest, rec (pr_py a ++ TConcat :: pr_py b ++ TRp :: rest) = Some (RCat a b, TRp :: rest).
  Definition reads_alt a b := forall rest, rec (pr_py a ++ TUnion :: pr_py b ++ TRp :: rest) = Some (RAlt a b, TRp :: rest).
  Definition reads_one a := forall rest, rec (pr_py a ++ TRp :: rest) = Some (a, TRp :: rest).

  Lemma star_cat a b rest : reads_cat a b -> parse_star rec (pr_py (RCat a b) ++ rest) = Some (stars (RCat a b) rest).
  Proof.
    intros H. unfold parse_star. simpl. rewrite <- !app_assoc. simpl. rewrite <- app_assoc. simpl. now rewrite H.
  Qed.
  Lemma star_alt a b rest : reads_alt a b -> parse_star rec (pr_py (RAlt a b) ++ rest) = Some (stars (RAlt a b) rest).
  Proof.
    intros H. unfold parse_star. simpl. rewrite <- !app_assoc. simpl. rewrite <- app_assoc. simpl. now rewrite H.
  Qed.
  Lemma star_star a rest : reads_one a -> parse_star rec (pr_py (RStar a) ++ rest) = Some (stars (RStar a) rest).
  Proof.
    intros H. unfold parse_star. simpl. rewrite <- !app_assoc. simpl. now rewrite H.
  Qed.
End Rec.

Definition stop (rest : list tok) : Prop := match rest with [] | TRp :: _ => True | _ => False end.
Lemma stop_stars r rest : stop rest -> stars r rest = (r, rest).
Proof. destruct rest as [|[] rest]; simpl; tauto. Qed.

Theorem parse_pr_py : forall f r, no_empty r -> rdepth r <= f ->
  forall rest, parse_star (parse_union (S f)) (pr_py r ++ rest) = Some (stars r rest).
Proof.
  induction f as [|f IH]; intros r Hn Hd; [destruct r; simpl in Hd; lia|].
  destruct r as [| |a|a b|a b|a]; simpl in Hn; cbn [rdepth] in Hd.
  - destruct Hn.
  - reflexivity.
  - reflexivity.
  - destruct Hn as (Ha & Hb). assert (Da : rdepth a <= f) by lia. assert (Db : rdepth b <= f) by lia.
    pose proof (IH a Ha Da) as Sa. pose proof (IH b Hb Db) as Sb.
    assert (Hf : 1 <= f) by (destruct a; simpl in *; lia).
    intros rest. apply star_cat. intros rest'.
    change (parse_union (S (S f)) (pr_py a ++ TConcat :: pr_py b ++ TRp :: rest')) with
           (parse_alt (parse_union (S f)) (S f) (S f) (pr_py a ++ TConcat :: pr_py b ++ TRp :: rest')).
    destruct f as [|f1]; [lia|]. cbn [parse_alt parse_concat]. rewrite Sa. simpl stars. cbn beta iota.
    rewrite Sb. rewrite stop_stars by exact I. reflexivity.
  - destruct Hn as (Ha & Hb). assert (Da : rdepth a <= f) by lia. assert (Db : rdepth b <= f) by lia.
    pose proof (IH a Ha Da) as Sa. pose proof (IH b Hb Db) as Sb.
    intros rest. apply star_alt. intros rest'.
    change (parse_union (S (S f)) (pr_py a ++ TUnion :: pr_py b ++ TRp :: rest')) with
           (parse_alt (parse_union (S f)) (S f) (S f) (pr_py a ++ TUnion :: pr_py b ++ TRp :: rest')).
    assert (Hf : 1 <= f) by (destruct a; simpl in *; lia).
    destruct f as [|f1]; [lia|]. cbn [parse_alt parse_concat]. rewrite Sa. cbn [stars starts_atom parse_alt parse_concat].
    rewrite Sb. rewrite stop_stars by exact I. reflexivity.
  - assert (Da : rdepth a <= f) by lia. pose proof (IH a Hn Da) as Sa.
    intros rest. apply star_star. intros rest'.
    change (parse_union (S (S f)) (pr_py a ++ TRp :: rest')) with (parse_alt (parse_union (S f)) (S f) (S f) (pr_py a ++ TRp :: rest')).
    cbn [parse_alt parse_concat]. rewrite Sa. rewrite stop_stars by exact I. reflexivity.
Qed.

Lemma pr_py_length r : no_empty r -> rdepth r <= length (pr_py r).
Proof.
  induction r as [| |a|a IHa b IHb|a IHa b IHb|a IHa]; intros Hn; simpl in *.
  - destruct Hn.
  - lia.
  - lia.
  - destruct Hn as (Ha & Hb). specialize (IHa Ha). specialize (IHb Hb). rewrite !app_length. simpl. rewrite app_length. simpl. lia.
  - destruct Hn as (Ha & Hb). specialize (IHa Ha). specialize (IHb Hb). rewrite !app_length. simpl. rewrite app_length. simpl. lia.
  - specialize (IHa Hn). rewrite app_length. simpl. lia.
Qed.

Lemma pr_py_length2 r : no_empty r -> (match r with RCat _ _ | RAlt _ _ | RStar _ => True | _ => False end) ->
  rdepth r + 1 <= length (pr_py r).
Proof.
  intros Hn Hc. destruct r as [| |a|a b|a b|a]; try destruct Hc; simpl in *.
  - destruct Hn as (Ha & Hb). pose proof (pr_py_length a Ha). pose proof (pr_py_length b Hb).
    rewrite !app_length. simpl. rewrite app_length. simpl. lia.
  - destruct Hn as (Ha & Hb). pose proof (pr_py_length a Ha). pose proof (pr_py_length b Hb).
    rewrite !app_length. simpl. rewrite app_length. simpl. lia.
  - pose proof (pr_py_length a Hn). rewrite app_length. simpl. lia.
Qed.

Lemma parse_regex_via_star m r ts : length ts = S m -> parse_star (parse_union (S m)) (ts ++ []) = Some (r, []) ->
  parse_regex ts = Some r.
Proof.
  intros El Hs. rewrite app_nil_r in Hs. unfold parse_regex. destruct ts as [|t ts']; [discriminate|]. rewrite El.
  change (parse_union (S (S m)) (t :: ts')) with (parse_alt (parse_union (S m)) (S m) (S m) (t :: ts')).
  cbn [parse_alt parse_concat]. rewrite Hs. reflexivity.
Qed.

(* str(regex) parses back to the same expression *)
Theorem str_round_trip r : no_empty r -> parse_regex (pr_py r) = Some r.
Proof.
  intros Hn. destruct r as [| |a|a b|a b|a] eqn:Er; [destruct Hn|reflexivity|reflexivity| | |]; rewrite <- Er in *.
  all: assert (Hc : match r with RCat _ _ | RAlt _ _ | RStar _ => True | _ => False end) by (rewrite Er; exact I).
  all: pose proof (pr_py_length2 r Hn Hc) as Hl.
  all: destruct (length (pr_py r)) as [|m] eqn:El; [lia|].
  all: apply (parse_regex_via_star m r (pr_py r) El).
  all: rewrite (parse_pr_py m r Hn ltac:(lia) []); reflexivity.
Qed.
