(* The hypotheses of the property theorems are satisfiable: concrete, non-trivial objects meeting them (evaluated by the kernel). *)
From Coq Require Import List Bool Arith NArith Lia.
From PFL Require Import Base.ListSet Spec.Enfa Spec.Cfg Spec.Pda Spec.Fst Model.Enfa Model.EnfaOps Model.Cfg Model.CfgWords Model.Pda Model.LL1
  Proofs.PdaWrap Proofs.CfgNfUseful Proofs.EnfaIso Oracle.EnfaMinimal.
Import ListNotations.
Open Scope N_scope.

(* a two-state DFA for a*b : well-formed, deterministic, reduced, trim *)
Definition ex_dfa : enfa N := mkE [0; 1] [7; 8] [(0, Some 7, 0); (0, Some 8, 1)] [0] [1].
Example ex_dfa_wf : wf ex_dfa.
Proof.
  unfold wf, ex_dfa; cbn. split; [|split; [|split]].
  - intros p l q [E|[E|[]]]; inversion E; subst; split; cbn; auto.
  - intros p a q [E|[E|[]]]; inversion E; subst; cbn; auto.
  - intros x [<-|[]]; cbn; auto.
  - intros x [<-|[]]; cbn; auto.
Qed.
Example ex_dfa_is_dfa : is_dfa ex_dfa.
Proof.
  unfold is_dfa, eps_free, functional, one_start, ex_dfa; cbn. split; [|split].
  - intros p q [E|[E|[]]]; inversion E.
  - intros p a q q' [E1|[E1|[]]] [E2|[E2|[]]]; inversion E1; inversion E2; subst; congruence.
  - intros s s' [<-|[]] [<-|[]]; reflexivity.
Qed.
Example ex_dfa_certificates : is_reduced_b ex_dfa 20 = true /\ trim_b ex_dfa = true.
Proof. split; vm_compute; reflexivity. Qed.

(* S -> a S b | a b : registered, passes the fast-path test, is LL(1)-rejected (common prefix) but its normal form is computed in one step *)
Definition ex_cfg : cfg N := mkcfg [0] [7; 8] (Some 0) [(0, [T 7; V 0; T 8]); (0, [T 7; T 8])].
Example ex_cfg_wf : cfg_wf ex_cfg.
Proof. apply mkcfg_wf. Qed.
Example ex_cfg_facts : fast_path_ok ex_cfg = true /\ is_finite 3 ex_cfg = Some false /\ g_start ex_cfg <> None.
Proof. split; [vm_compute; reflexivity|split; [vm_compute; reflexivity|discriminate]]. Qed.
(* an LL(1) grammar: S -> a S | b *)
Definition ex_ll1 : cfg N := mkcfg [0] [7; 8] (Some 0) [(0, [T 7; V 0]); (0, [T 8])].
Example ex_ll1_ok : is_ll1 ex_ll1 = true /\ (exists t, ll1_parse ex_ll1 10 [7; 7; 8] = Some t).
Proof. split; [vm_compute; reflexivity|vm_compute; eauto]. Qed.

(* a one-state PDA for a^n b^n by empty stack meets pda_wf *)
Definition ex_pda : pda N N := mkP [0] [5; 6] [(0, Some 7, 5, 0, [6; 5]); (0, None, 5, 0, []); (0, Some 8, 6, 0, [])] (Some 0) (Some 5) [].
Example ex_pda_wf : pda_wf ex_pda.
Proof.
  unfold pda_wf, ex_pda; cbn. split; [|split; [|split]].
  - intros q l A r push [E|[E|[E|[]]]]; inversion E; subst; cbn; auto.
  - intros s E; inversion E; cbn; auto.
  - intros z E; inversion E; cbn; auto.
  - intros q l A r push B [E|[E|[E|[]]]] HB; inversion E; subst; cbn in HB; intuition (subst; auto).
Qed.
