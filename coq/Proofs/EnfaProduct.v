From Coq Require Import List Bool NArith Lia.
From PFL Require Import Base.Loop Base.ListSet Base.Closure Spec.Enfa Model.Enfa Model.EnfaOps
  Proofs.EnfaAccepts Proofs.EnfaSets Proofs.EnfaRuns Proofs.EnfaDet.
Import ListNotations.

Section Single.
  Context {Q : Type} `{EqDec Q}.
  Variable A : enfa Q.
  Lemma reach_single (succ : Q -> list Q) S x : reach succ S x <-> exists s, In s S /\ reach succ [s] x.
  Proof.
    split.
    - induction 1 as [y Hy|y z Hy IH Hz].
      + exists y. split; [exact Hy|apply reach_init; now left].
      + destruct IH as [s [Hs R]]. exists s. split; [exact Hs|eapply reach_step; eauto].
    - intros [s [Hs R]]. eapply reach_mono; [|exact R]. intros y [<-|[]]. exact Hs.
  Qed.
  Lemma dstep_single S a x : In x (dstep A S a) <-> exists p, In p S /\ In x (dstep A [p] a).
  Proof.
    unfold dstep. rewrite eclose_spec. unfold epath. rewrite reach_single. split.
    - intros [t [Ht R]]. apply step_set_In in Ht. destruct Ht as [p [Hp Hd]]. exists p. split; [exact Hp|].
      apply eclose_spec. unfold epath. apply reach_single. exists t. split; [|exact R].
      apply step_set_In. exists p. split; [now left|exact Hd].
    - intros [p [Hp Hx]]. apply eclose_spec in Hx. unfold epath in Hx. apply reach_single in Hx.
      destruct Hx as [t [Ht R]]. exists t. split; [|exact R]. apply step_set_In in Ht.
      destruct Ht as [p' [[<-|[]] Hd]]. apply step_set_In. eauto.
  Qed.
  Lemma dstep_sym S a x : In x (dstep A S a) -> exists p q, In (p, Some a, q) (e_delta A).
  Proof.
    unfold dstep. rewrite eclose_spec. unfold epath. rewrite reach_single. intros [t [Ht _]].
    apply step_set_In in Ht. destruct Ht as [p [_ Hd]]. eauto.
  Qed.
End Single.

Section Prod.
  Context {Q1 Q2 : Type} `{EqDec Q1} `{EqDec Q2}.
  Variable A : enfa Q1.
  Variable B : enfa Q2.
  Hypothesis HsA : forall p a q, In (p, Some a, q) (e_delta A) -> In a (e_syms A).
  Hypothesis HsB : forall p a q, In (p, Some a, q) (e_delta B) -> In a (e_syms B).
  Variable n : nat.
  Variable P : enfa (Q1 * Q2).
  Hypothesis HP : intersection A B n = Some P.

  Lemma P_shape : exists pairs,
    (forall r, In r pairs <-> reach (psuccs A B) (pstarts A B) r) /\
    e_starts P = pstarts A B /\ e_finals P = list_prod (e_finals A) (e_finals B) /\
    (forall pq l r, In (pq, l, r) (e_delta P) <->
       exists a, l = Some a /\ In pq pairs /\ In a (isyms A B) /\
                 In (fst r) (dstep A [fst pq] a) /\ In (snd r) (dstep B [snd pq] a)).
  Proof.
    unfold intersection in HP. destruct (close_from (psuccs A B) n (pstarts A B)) as [pairs|] eqn:C; [|discriminate].
    exists pairs. split; [intro r; apply (close_sound _ _ _ _ C)|]. inversion HP; subst P. cbn [e_starts e_finals e_delta].
    split; [reflexivity|split; [reflexivity|]]. intros pq l r. rewrite in_flat_map. split.
    - intros [pq' [Hpq Hin]]. apply in_flat_map in Hin. destruct Hin as [a [Ha Hin]].
      apply in_map_iff in Hin. destruct Hin as [r' [E Hr]]. inversion E; subst. destruct r as [r1 r2].
      apply in_prod_iff in Hr. exists a. cbn [fst snd]. tauto.
    - intros [a [-> [Hpq [Ha [H1 H2]]]]]. exists pq. split; [exact Hpq|]. apply in_flat_map. exists a. split; [exact Ha|].
      apply in_map_iff. exists r. split; [reflexivity|]. destruct r as [r1 r2]. apply in_prod_iff. auto.
  Qed.

  Lemma P_eps_free : eps_free P.
  Proof.
    destruct P_shape as [pairs [_ [_ [_ E]]]]. intros p q Hd. apply E in Hd. destruct Hd as [a [X _]]. discriminate.
  Qed.

  Definition isprod (S : list (Q1 * Q2)) (SA : list Q1) (SB : list Q2) : Prop :=
    forall r, In r S <-> In (fst r) SA /\ In (snd r) SB.

  Lemma fold_prod w : forall S SA SB, isprod S SA SB ->
    (forall r, In r S -> reach (psuccs A B) (pstarts A B) r) ->
    isprod (fold_left (dstep P) w S) (fold_left (dstep A) w SA) (fold_left (dstep B) w SB).
  Proof.
    destruct P_shape as [pairs [R [_ [_ E]]]].
    induction w as [|a w IH]; intros S SA SB HS Hreach; cbn [fold_left]; [exact HS|].
    assert (X : isprod (dstep P S a) (dstep A SA a) (dstep B SB a)).
    { intros r. unfold dstep at 1. rewrite (eclose_eps_free P _ P_eps_free r), step_set_In.
      rewrite (dstep_single A SA), (dstep_single B SB). split.
      - intros [pq [Hpq Hd]]. apply E in Hd. destruct Hd as [a' [Ea [_ [_ [H1 H2]]]]]. inversion Ea; subst a'.
        apply HS in Hpq. destruct Hpq as [P1 P2]. split; eauto.
      - intros [[p [Hp H1]] [q [Hq H2]]]. exists (p, q). split; [apply HS; cbn; auto|].
        apply E. exists a. cbn [fst snd]. repeat split; auto.
        + apply R, Hreach, HS. cbn. auto.
        + unfold isyms. apply inter_In. split.
          * destruct (dstep_sym A _ _ _ H1) as [x [y Hd]]. eapply HsA; eauto.
          * destruct (dstep_sym B _ _ _ H2) as [x [y Hd]]. eapply HsB; eauto. }
    apply IH; [exact X|]. intros r Hr. unfold dstep in Hr. apply (proj1 (eclose_eps_free P _ P_eps_free r)) in Hr.
    apply step_set_In in Hr. destruct Hr as [pq [Hpq Hd]]. apply E in Hd.
    destruct Hd as [a' [Ea [Hp [Ha [H1 H2]]]]]. apply reach_step with pq; [now apply R|].
    unfold psuccs. apply in_flat_map. exists a'. split; [exact Ha|]. destruct r as [r1 r2]. apply in_prod_iff. auto.
  Qed.

  Theorem intersection_lang w : Lang P w <-> Lang A w /\ Lang B w.
  Proof.
    rewrite <- !accepts_spec. unfold accepts.
    destruct P_shape as [pairs [R [ES [EF E]]]].
    assert (X : isprod (fold_left (dstep P) w (eclose P (e_starts P)))
                       (fold_left (dstep A) w (eclose A (e_starts A))) (fold_left (dstep B) w (eclose B (e_starts B)))).
    { assert (I0 : isprod (e_starts P) (eclose A (e_starts A)) (eclose B (e_starts B))).
      { intros [r1 r2]. rewrite ES. unfold pstarts. apply in_prod_iff. }
      pose proof (fold_prod w _ _ _ I0) as F.
      intros r. rewrite (fold_seteq P w _ _ (eclose_eps_free P _ P_eps_free) r). apply F.
      intros r0 Hr0. apply reach_init. now rewrite <- ES. }
    unfold is_final_set. rewrite <- andb_true_iff, !andb_true_iff, !existsb_exists. split.
    - intros [[r1 r2] [Hr Hm]]. apply mem_In in Hm. rewrite EF in Hm. apply in_prod_iff in Hm.
      apply X in Hr. cbn [fst snd] in Hr. split; [exists r1|exists r2]; (split; [tauto|apply mem_In; tauto]).
    - intros [[r1 [H1 M1]] [r2 [H2 M2]]]. exists (r1, r2). split; [apply X; cbn; auto|].
      apply mem_In. rewrite EF. apply mem_In in M1, M2. apply in_prod_iff. auto.
  Qed.
End Prod.
