(* union / concatenate / get_closure / get_positive_closure: the template grammars substituted into build exactly
   L1 u L2, L1 L2, L*, L+ (C10). *)
From Coq Require Import List Bool Arith NArith Lia.
From PFL Require Import Base.ListSet Spec.Cfg Model.Cfg Model.CfgOps Model.CfgWords Proofs.CfgWords Proofs.CfgSubst.
Import ListNotations.

Section Inv.
  Context {Vr : Type}.
  Variable G : cfg Vr.
  Lemma dl_inv_nil u : derives_list G [] u -> u = [].
  Proof. intros D. now inversion D. Qed.
  Lemma dl_inv_cons X r u : derives_list G (X :: r) u -> exists u1 u2, u = u1 ++ u2 /\ derives G X u1 /\ derives_list G r u2.
  Proof. intros D. inversion D; subst. eauto. Qed.
  Lemma dv_inv_ter a u : derives G (T a) u -> u = [a].
  Proof. intros D. now inversion D. Qed.
End Inv.

Lemma prod_terms_In {Vr} `{EqDec Vr} (G : cfg Vr) a : In a (prod_terms G) -> exists A body, In (A, body) (g_prods G) /\ In (T a) body.
Proof.
  unfold prod_terms. rewrite dedup_In, in_flat_map. intros [[A body] [Hp Hb]]. exists A, body. split; [exact Hp|].
  cbn [snd] in Hb. unfold body_terms in Hb. apply in_flat_map in Hb. destruct Hb as [[B|b] [HX Hb]]; [destruct Hb|]. destruct Hb as [<-|[]]. exact HX.
Qed.

Section T.
  Context {V1 : Type}.

  Lemma subst_rel_single (sigma : list (N * cfg V1)) a H s w : sigma_of sigma a = Some H -> g_start H = Some s ->
    (subst_rel sigma [a] w <-> derives H (V s) w).
  Proof.
    intros E Es. split.
    - intros R. inversion R as [|? ? H' s' v w' E' Es' D R'|? ? w' E' R']; subst; [|congruence].
      inversion R'; subst. rewrite app_nil_r. congruence.
    - intros D. rewrite <- (app_nil_r w). apply sr_sub with H s; auto. apply sr_nil.
  Qed.

  (* words all of whose letters are the substituted terminal t *)
  Lemma subst_rel_repeat (sigma : list (N * cfg V1)) t H : sigma_of sigma t = Some H -> g_start H <> None ->
    forall n w, subst_rel sigma (repeat t n) w <-> exists ws, length ws = n /\ w = concat ws /\ Forall (LangG H) ws.
  Proof.
    intros E Es. unfold LangG. destruct (g_start H) as [s|] eqn:Ess; [clear Es|congruence].
    induction n as [|n IH]; intros w; cbn [repeat].
    - split.
      + intros R. inversion R; subst. exists []. auto.
      + intros [ws [L [-> _]]]. destruct ws; [apply sr_nil|discriminate].
    - split.
      + intros R. inversion R as [|? ? H' s' v w' E' Es' D R'|? ? w' E' R']; subst; [|congruence].
        apply IH in R'. destruct R' as [ws [L [-> F]]]. exists (v :: ws). cbn [length concat]. split; [now rewrite L|split; [reflexivity|]].
        constructor; [congruence|exact F].
      + intros [ws [L [-> F]]]. destruct ws as [|v ws]; [discriminate|]. inversion F; subst. cbn [concat].
        apply sr_sub with H s; auto. apply IH. exists ws. cbn [length] in L. auto.
  Qed.

  Lemma all_eq_repeat (t : N) u : (forall a, In a u -> a = t) -> u = repeat t (length u).
  Proof. induction u as [|a u IH]; intros F; [reflexivity|]. cbn [length repeat]. rewrite (F a (or_introl eq_refl)). f_equal. apply IH. intros b Hb. apply F. now right. Qed.

  Variables (t0 t1 : N) (G1 G2 : cfg V1).
  Hypothesis Hne : t0 <> t1.
  Hypothesis Hs1 : g_start G1 <> None.
  Hypothesis Hs2 : g_start G2 <> None.

  Let sigma2 := [(t0, G1); (t1, G2)].
  Lemma sigma2_start a H : In (a, H) sigma2 -> g_start H <> None.
  Proof. intros [E|[E|[]]]; inversion E; subst; assumption. Qed.
  Lemma sigma2_t0 : sigma_of sigma2 t0 = Some G1.
  Proof. cbn. now rewrite N.eqb_refl. Qed.
  Lemma sigma2_t1 : sigma_of sigma2 t1 = Some G2.
  Proof. cbn. destruct (N.eqb_spec t1 t0) as [E|_]; [congruence|]. now rewrite N.eqb_refl. Qed.

  Theorem union_lang w : LangG (union_cfg t0 t1 G1 G2) w <-> LangG G1 w \/ LangG G2 w.
  Proof.
    unfold union_cfg. etransitivity; [apply (substitute_lang _ sigma2 sigma2_start)|]. unfold LangG at 1. cbn [g_start].
    unfold LangG. destruct (g_start G1) as [s1|] eqn:E1; [|congruence]. destruct (g_start G2) as [s2|] eqn:E2; [|congruence]. split.
    - intros [u [D R]]. inversion D as [|? body ? Hp DL]; subst. cbn [g_prods] in Hp. destruct Hp as [Hp|[Hp|[]]]; inversion Hp; subst body;
        apply dl_inv_cons in DL; destruct DL as [u1 [u2 [-> [DX DL]]]]; apply dv_inv_ter in DX; apply dl_inv_nil in DL; subst; cbn [app] in R.
      + left. now apply (subst_rel_single sigma2 t0 G1 s1 w sigma2_t0 E1).
      + right. now apply (subst_rel_single sigma2 t1 G2 s2 w sigma2_t1 E2).
    - intros [D|D].
      + exists [t0]. split; [|now apply (subst_rel_single sigma2 t0 G1 s1 w sigma2_t0 E1)].
        apply dv_var with [T t0]; [now left|]. apply (dl_cons _ (T t0) [] [t0] []); [apply dv_ter|apply dl_nil].
      + exists [t1]. split; [|now apply (subst_rel_single sigma2 t1 G2 s2 w sigma2_t1 E2)].
        apply dv_var with [T t1]; [right; now left|]. apply (dl_cons _ (T t1) [] [t1] []); [apply dv_ter|apply dl_nil].
  Qed.

  Theorem concat_lang w : LangG (concat_cfg t0 t1 G1 G2) w <-> exists w1 w2, w = w1 ++ w2 /\ LangG G1 w1 /\ LangG G2 w2.
  Proof.
    unfold concat_cfg. etransitivity; [apply (substitute_lang _ sigma2 sigma2_start)|]. unfold LangG at 1. cbn [g_start].
    unfold LangG. destruct (g_start G1) as [s1|] eqn:E1; [|congruence]. destruct (g_start G2) as [s2|] eqn:E2; [|congruence]. split.
    - intros [u [D R]]. inversion D as [|? body ? Hp DL]; subst. cbn [g_prods] in Hp. destruct Hp as [Hp|[]]. inversion Hp; subst body.
      apply dl_inv_cons in DL. destruct DL as [u1 [u2 [-> [DX DL]]]]. apply dv_inv_ter in DX. subst u1.
      apply dl_inv_cons in DL. destruct DL as [u1 [u3 [-> [DX DL]]]]. apply dv_inv_ter in DX. apply dl_inv_nil in DL. subst.
      change ([t0] ++ [t1] ++ []) with ([t0] ++ [t1]) in R. apply subst_rel_app_inv in R. destruct R as [w1 [w2 [-> [R1 R2]]]].
      exists w1, w2. split; [reflexivity|split].
      + now apply (subst_rel_single sigma2 t0 G1 s1 w1 sigma2_t0 E1).
      + now apply (subst_rel_single sigma2 t1 G2 s2 w2 sigma2_t1 E2).
    - intros [w1 [w2 [-> [D1 D2]]]]. exists [t0; t1]. split.
      + apply dv_var with [T t0; T t1]; [now left|]. apply (dl_cons _ (T t0) [T t1] [t0] [t1]); [apply dv_ter|].
        apply (dl_cons _ (T t1) [] [t1] []); [apply dv_ter|apply dl_nil].
      + change [t0; t1] with ([t0] ++ [t1]). apply subst_rel_app.
        * now apply (subst_rel_single sigma2 t0 G1 s1 w1 sigma2_t0 E1).
        * now apply (subst_rel_single sigma2 t1 G2 s2 w2 sigma2_t1 E2).
  Qed.

End T.

(* ---- closures ---- *)
Section T1.
  Context {V1 : Type}.
  Variables (t1 : N) (G1 : cfg V1).
  Hypothesis Hs1 : g_start G1 <> None.
  Let sigma1 := [(t1, G1)].
  Lemma sigma1_start a H : In (a, H) sigma1 -> g_start H <> None.
  Proof. intros [E|[]]; inversion E; subst; assumption. Qed.
  Lemma sigma1_t1 : sigma_of sigma1 t1 = Some G1.
  Proof. cbn. now rewrite N.eqb_refl. Qed.

  Definition star_tpl : cfg bool := mkG [true] [t1] (Some true) [(true, [T t1]); (true, [V true; V true]); (true, [])].
  Lemma star_tpl_repeat n : derives star_tpl (V true) (repeat t1 n).
  Proof.
    induction n as [|n IH]; cbn [repeat].
    - apply dv_var with []; [right; right; now left|apply dl_nil].
    - apply dv_var with [V true; V true]; [right; now left|].
      apply (dl_cons _ (V true) [V true] [t1] (repeat t1 n)).
      + apply dv_var with [T t1]; [now left|]. apply (dl_cons _ (T t1) [] [t1] []); [apply dv_ter|apply dl_nil].
      + rewrite <- (app_nil_r (repeat t1 n)). apply dl_cons; [exact IH|apply dl_nil].
  Qed.

  Theorem closure_lang w : LangG (closure_cfg t1 G1) w <-> exists ws, w = concat ws /\ Forall (LangG G1) ws.
  Proof.
    unfold closure_cfg. fold star_tpl. etransitivity; [apply (substitute_lang _ sigma1 sigma1_start)|]. unfold LangG at 1. cbn [g_start star_tpl]. fold star_tpl. split.
    - intros [u [D R]]. pose proof (proj1 (derives_terms star_tpl) _ _ D) as F. cbn beta iota in F.
      assert (F1 : forall a, In a u -> a = t1).
      { intros a Ha. destruct (prod_terms_In _ a (F a Ha)) as [A [body [Hp Hb]]]. cbn in Hp.
        repeat (destruct Hp as [Hp|Hp]; [inversion Hp; subst body; cbn [In] in Hb; repeat (destruct Hb as [Hb|Hb]; [congruence|]); destruct Hb|]). destruct Hp. }
      rewrite (all_eq_repeat t1 u F1) in R. apply (subst_rel_repeat sigma1 t1 G1 sigma1_t1 Hs1) in R. destruct R as [ws [_ [-> Fw]]]. eauto.
    - intros [ws [-> F]]. exists (repeat t1 (length ws)). split; [apply star_tpl_repeat|].
      apply (subst_rel_repeat sigma1 t1 G1 sigma1_t1 Hs1). eauto.
  Qed.

  Definition plus_tpl : cfg bool := mkG [true; false] [t1] (Some true)
    [(true, [T t1; V false]); (false, [V false; V false]); (false, [T t1]); (false, [])].
  Lemma plus_tpl_repeat n : derives plus_tpl (V false) (repeat t1 n).
  Proof.
    induction n as [|n IH]; cbn [repeat].
    - apply dv_var with []; [right; right; right; now left|apply dl_nil].
    - apply dv_var with [V false; V false]; [right; now left|].
      apply (dl_cons _ (V false) [V false] [t1] (repeat t1 n)).
      + apply dv_var with [T t1]; [right; right; now left|]. apply (dl_cons _ (T t1) [] [t1] []); [apply dv_ter|apply dl_nil].
      + rewrite <- (app_nil_r (repeat t1 n)). apply dl_cons; [exact IH|apply dl_nil].
  Qed.

  Theorem pos_closure_lang w : LangG (pos_closure_cfg t1 G1) w <-> exists ws, ws <> [] /\ w = concat ws /\ Forall (LangG G1) ws.
  Proof.
    unfold pos_closure_cfg. fold plus_tpl. etransitivity; [apply (substitute_lang _ sigma1 sigma1_start)|]. unfold LangG at 1. cbn [g_start plus_tpl]. fold plus_tpl. split.
    - intros [u [D R]]. pose proof (proj1 (derives_terms plus_tpl) _ _ D) as F. cbn beta iota in F.
      assert (F1 : forall a, In a u -> a = t1).
      { intros a Ha. destruct (prod_terms_In _ a (F a Ha)) as [A [body [Hp Hb]]]. cbn in Hp.
        repeat (destruct Hp as [Hp|Hp]; [inversion Hp; subst body; cbn [In] in Hb; repeat (destruct Hb as [Hb|Hb]; [congruence|]); destruct Hb|]). destruct Hp. }
      assert (Nu : length u <> 0).
      { inversion D as [|? body ? Hp DL]; subst. cbn [g_prods plus_tpl] in Hp.
        destruct Hp as [Hp|[Hp|[Hp|[Hp|[]]]]]; inversion Hp; subst body.
        apply dl_inv_cons in DL. destruct DL as [u1 [u2 [-> [DX _]]]]. apply dv_inv_ter in DX. subst. cbn. lia. }
      rewrite (all_eq_repeat t1 u F1) in R. apply (subst_rel_repeat sigma1 t1 G1 sigma1_t1 Hs1) in R. destruct R as [ws [L [-> Fw]]].
      exists ws. split; [|auto]. intros ->. cbn in L. congruence.
    - intros [ws [Ne [-> F]]]. destruct ws as [|v ws]; [congruence|]. exists (repeat t1 (length (v :: ws))). split.
      + cbn [length repeat]. apply dv_var with [T t1; V false]; [now left|].
        apply (dl_cons _ (T t1) [V false] [t1] (repeat t1 (length ws))); [apply dv_ter|].
        rewrite <- (app_nil_r (repeat t1 (length ws))). apply dl_cons; [apply plus_tpl_repeat|apply dl_nil].
      + apply (subst_rel_repeat sigma1 t1 G1 sigma1_t1 Hs1). eauto.
  Qed.
End T1.
