(* LL(1): the table-driven parser is sound, and complete on grammars that pass the LL(1) test (C14). *)
From Coq Require Import List Bool Arith NArith Lia.
From PFL Require Import Base.ListSet Base.Saturate Spec.Cfg Model.Cfg Model.LL1 Oracle.CfgTree Proofs.CfgSymbols.
Import ListNotations.

Section P.
  Context {Vr : Type} `{EqDec Vr}.
  Variable G : cfg Vr.

  Definition la (w : list N) : option N := match w with b :: _ => Some b | [] => None end.

  (* the inner loop of parse_sym as a function of the symbol parser *)
  Definition parse_body_with (ps : symb Vr -> list N -> option (tree Vr * list N)) :=
    fix pb (body : list (symb Vr)) (w : list N) : option (list (tree Vr) * list N) :=
      match body with
      | [] => Some ([], w)
      | Y :: r => match ps Y w with
                  | Some (t, w') => match pb r w' with Some (ts, w'') => Some (t :: ts, w'') | None => None end
                  | None => None
                  end
      end.
  Lemma parse_sym_var f A w : parse_sym G (S f) (V A) w =
    match choose G A (la w) with
    | [body] => match parse_body_with (parse_sym G f) body w with Some (ts, w') => Some (Node (V A) ts, w') | None => None end
    | _ => None
    end.
  Proof. reflexivity. Qed.
  Lemma parse_sym_ter f a w : parse_sym G (S f) (T a) w =
    match w with b :: r => if N.eqb a b then Some (Node (T a) [], r) else None | [] => None end.
  Proof. reflexivity. Qed.

  Lemma choose_In A l body : In body (choose G A l) -> In (A, body) (g_prods G) /\ In l (predict G (A, body)).
  Proof.
    unfold choose. intros Hb. apply in_map_iff in Hb. destruct Hb as [[A0 b0] [E Hf]]. cbn [snd] in E. subst b0.
    apply filter_In in Hf. destruct Hf as [Hp Hc]. apply land_true_iff in Hc. destruct Hc as [E1 E2]. cbn [fst] in E1.
    apply (proj1 (eqb_eq A A0)) in E1. subst A0. rewrite dedup_In in Hp. split; [exact Hp|now apply mem_In].
  Qed.

  (* ---- soundness: whatever the tables contain, a returned tree is a parse tree of the consumed prefix ---- *)
  Lemma parse_sound f : forall X w t rest, parse_sym G f X w = Some (t, rest) ->
    root t = X /\ valid_tree G t /\ w = yield t ++ rest.
  Proof.
    induction f as [|f IH]; intros X w t rest E; [discriminate|]. destruct X as [A|a].
    - rewrite parse_sym_var in E. destruct (choose G A (la w)) as [|body [|? ?]] eqn:Ec; try discriminate.
      assert (Hb : In body (choose G A (la w))) by (rewrite Ec; now left). apply choose_In in Hb. destruct Hb as [Hp _].
      destruct (parse_body_with (parse_sym G f) body w) as [[ts w']|] eqn:Eb; [|discriminate]. inversion E; subst. clear E.
      assert (B : forall body w ts w', parse_body_with (parse_sym G f) body w = Some (ts, w') ->
                  map root ts = body /\ Forall (valid_tree G) ts /\ w = flat_map yield ts ++ w').
      { clear - IH. induction body as [|Y r IHb]; intros w ts w' E; cbn [parse_body_with] in E.
        - inversion E; subst. repeat split. constructor.
        - destruct (parse_sym G f Y w) as [[t w1]|] eqn:E1; [|discriminate].
          destruct (parse_body_with (parse_sym G f) r w1) as [[ts1 w2]|] eqn:E2; [|discriminate]. inversion E; subst.
          destruct (IH _ _ _ _ E1) as [R1 [V1 Y1]]. destruct (IHb _ _ _ E2) as [R2 [V2 Y2]]. cbn [map flat_map].
          split; [now rewrite R1, R2|split; [now constructor|]]. rewrite Y1, Y2. now rewrite app_assoc. }
      destruct (B _ _ _ _ Eb) as [R1 [V1 Y1]]. split; [reflexivity|split].
      + apply vt_node; [now rewrite R1|exact V1].
      + exact Y1.
    - rewrite parse_sym_ter in E. destruct w as [|b r]; [discriminate|]. destruct (N.eqb_spec a b) as [->|]; [|discriminate].
      inversion E; subst. split; [reflexivity|split; [apply vt_leaf|reflexivity]].
  Qed.

  (* ---- completeness on LL(1) grammars ---- *)
  (* what CFG.__init__ establishes *)
  Hypothesis Hheads : forall A body, In (A, body) (g_prods G) -> In A (g_vars G).
  Hypothesis Hbodies : forall A body B, In (A, body) (g_prods G) -> In (V B) body -> In B (g_vars G).
  Hypothesis Hterms : forall A body a, In (A, body) (g_prods G) -> In (T a) body -> In a (g_terms G).

  Notation FS := (first_set G).
  Notation FW := (follow_set G).

  Lemma FS_cands c : In c FS -> In c (pair_cands G).
  Proof. intros Hc. apply saturate_sound in Hc. now destruct Hc. Qed.
  Lemma FW_cands c : In c FW -> In c (pair_cands G).
  Proof. intros Hc. apply saturate_sound in Hc. now destruct Hc. Qed.
  Lemma pair_cands_In A l : In (A, l) (pair_cands G) <-> In A (g_vars G) /\ (l = None \/ exists a, l = Some a /\ In a (g_terms G)).
  Proof.
    unfold pair_cands, lookaheads. rewrite in_prod_iff. cbn [In]. rewrite in_map_iff. split.
    - intros [HA [E|[a [E Ha]]]]; (split; [exact HA|]); [left; now symmetry|right; eauto].
    - intros [HA [->|[a [-> Ha]]]]; (split; [exact HA|]); [now left|right; eauto].
  Qed.

  Lemma fb_In S B a : In (B, Some a) S ->
    In (Some a) (flat_map (fun p : Vr * option N => if eqb B (fst p) then match snd p with Some a => [Some a] | None => [] end else []) S).
  Proof. intros Hp. apply in_flat_map. exists (B, Some a). split; [exact Hp|]. cbn [fst snd]. rewrite eqb_refl. now left. Qed.

  Lemma first_body_terms body a : (forall b, In (T b) body -> In b (g_terms G)) -> In (Some a) (first_body FS body) -> In a (g_terms G).
  Proof.
    induction body as [|[B|b] r IH]; intros Ht Ha; cbn [first_body] in Ha.
    - destruct Ha as [E|[]]. discriminate.
    - assert (Hfb : forall S0, (forall c, In c S0 -> In c (pair_cands G)) ->
               In (Some a) (flat_map (fun p : Vr * option N => if eqb B (fst p) then match snd p with Some a => [Some a] | None => [] end else []) S0) -> In a (g_terms G)).
      { intros S0 HS Hx. apply in_flat_map in Hx. destruct Hx as [[B0 l0] [Hp Hx]]. cbn [fst snd] in Hx. destruct (eqb B B0); [|destruct Hx].
        destruct l0 as [a0|]; [|destruct Hx]. destruct Hx as [E|[]]. inversion E; subst. apply HS in Hp. apply pair_cands_In in Hp.
        destruct Hp as [_ [E0|[a1 [E1 Ha1]]]]; [discriminate|]. now inversion E1; subst. }
      destruct (mem (B, None) FS).
      + apply in_app_or in Ha. destruct Ha as [Ha|Ha]; [apply (Hfb FS FS_cands Ha)|]. apply IH; [|exact Ha]. intros b Hb. apply Ht. now right.
      + apply (Hfb FS FS_cands Ha).
    - destruct Ha as [E|[]]. inversion E; subst. apply Ht. now left.
  Qed.

  (* FIRST contains the first letters (and epsilon) of everything a body derives *)
  Lemma first_complete :
    (forall X u, derives G X u -> forall A, X = V A -> In (A, la u) FS) /\
    (forall body u, derives_list G body u -> In (la u) (first_body FS body)).
  Proof.
    apply derives_mutind.
    - intros a A E. discriminate.
    - intros A0 body u Hp DL IH A E. inversion E; subst A0. apply saturate_closed.
      + apply pair_cands_In. split; [now apply Hheads with body|]. destruct (la u) as [a|] eqn:El; [right|now left]. exists a. split; [reflexivity|].
        apply first_body_terms with body; [intros b Hb; now apply Hterms with A body|exact IH].
      + unfold first_ok. apply existsb_exists. exists (A, body). split; [exact Hp|]. cbn [fst snd]. rewrite eqb_refl. now apply mem_In.
    - cbn. now left.
    - intros X rest u v DX IHX DL IHL. destruct X as [B|b]; cbn [first_body].
      + specialize (IHX B eq_refl). destruct u as [|a u']; cbn [app la] in *.
        * apply mem_In in IHX. rewrite IHX. apply in_or_app. now right.
        * destruct (mem (B, None) FS); [apply in_or_app; left|]; now apply fb_In.
      + inversion DX; subst. cbn. now left.
  Qed.

  Lemma suffixes_after_In B pre post : In post (suffixes_after B (pre ++ V B :: post)).
  Proof.
    induction pre as [|Y pre IH]; cbn [app suffixes_after].
    - rewrite eqb_refl. now left.
    - apply in_or_app. now right.
  Qed.

  (* FOLLOW is closed under its rule *)
  Lemma follow_closed A full pre B post v rest : In (A, full) (g_prods G) -> full = pre ++ V B :: post ->
    derives_list G post v -> In (A, la rest) FW -> In (B, la (v ++ rest)) FW.
  Proof.
    intros Hp Ef DL HA. apply saturate_closed.
    - apply pair_cands_In. split; [apply Hbodies with A full; [exact Hp|subst full; apply in_or_app; right; now left]|].
      destruct v as [|b v']; cbn [app la].
      + apply FW_cands in HA. apply pair_cands_In in HA. tauto.
      + right. exists b. split; [reflexivity|]. apply first_body_terms with post.
        * intros c Hc. apply Hterms with A full; [exact Hp|]. subst full. apply in_or_app. right. now right.
        * apply (proj2 first_complete _ _ DL).
    - unfold follow_ok. apply orb_true_iff. right. apply existsb_exists. exists (A, full). split; [exact Hp|]. cbn [fst snd].
      apply existsb_exists. exists post. split; [subst full; apply suffixes_after_In|].
      pose proof (proj2 first_complete _ _ DL) as Hf. destruct v as [|b v']; cbn [app la] in *.
      + apply orb_true_iff. right. apply land_true_iff. split; [unfold nullable_body; now apply mem_In|now apply mem_In].
      + apply orb_true_iff. left. now apply mem_In.
  Qed.

  Lemma filter_singleton {A : Type} (f : A -> bool) (l : list A) p : NoDup l -> In p l -> f p = true ->
    (forall q, In q l -> f q = true -> q = p) -> filter f l = [p].
  Proof.
    induction l as [|x l IH]; intros ND Hp Fp U; [destruct Hp|]. inversion ND as [|? ? Nx ND']; subst. cbn [filter].
    destruct Hp as [->|Hp].
    - rewrite Fp. f_equal. destruct (filter f l) as [|q r] eqn:Ef; [reflexivity|exfalso].
      assert (Hq : In q (filter f l)) by (rewrite Ef; now left). apply filter_In in Hq. destruct Hq as [Hq Fq].
      apply Nx. rewrite <- (U q (or_intror Hq) Fq). exact Hq.
    - destruct (f x) eqn:Fx.
      + exfalso. apply Nx. rewrite (U x (or_introl eq_refl) Fx). exact Hp.
      + apply IH; auto. intros q Hq. apply U. now right.
  Qed.

  Lemma start_follow_raw s : g_start G = Some s -> In s (g_vars G) -> In (s, None) FW.
  Proof.
    intros Es Hs. apply saturate_closed; [apply pair_cands_In; auto|]. unfold follow_ok. rewrite Es. cbn [snd fst]. rewrite eqb_refl. reflexivity.
  Qed.

  (* ---- FIRST and FOLLOW are the textbook sets (grammars whose body symbols all derive some word) ---- *)
  Section Textbook.
    Hypothesis Hgen : forall A body X, In (A, body) (g_prods G) -> In X body -> exists w, derives G X w.

    Definition FirstP (c : Vr * option N) : Prop := exists u, derives G (V (fst c)) u /\ la u = snd c.

    Lemma first_body_sound S body l : (forall x, In x S -> FirstP x) -> (forall X, In X body -> exists w, derives G X w) ->
      In l (first_body S body) -> exists u, derives_list G body u /\ la u = l.
    Proof.
      intros HS. induction body as [|[B|b] r IH]; intros Hg Hl; cbn [first_body] in Hl.
      - destruct Hl as [<-|[]]. exists []. split; [apply dl_nil|reflexivity].
      - destruct (derives_list_exists G r) as [wr Dr]; [intros Y HY; apply Hg; now right|].
        assert (Hfb : In l (flat_map (fun p : Vr * option N => if eqb B (fst p) then match snd p with Some a => [Some a] | None => [] end else []) S) ->
                      exists u, derives_list G (V B :: r) u /\ la u = l).
        { intros Hx. apply in_flat_map in Hx. destruct Hx as [[B0 l0] [Hp Hx]]. cbn [fst snd] in Hx. destruct (eqb_spec B B0) as [<-|]; [|destruct Hx].
          destruct l0 as [a0|]; [|destruct Hx]. destruct Hx as [<-|[]]. destruct (HS _ Hp) as [u [Du Eu]]. cbn [fst snd] in *.
          destruct u as [|a u']; [discriminate|]. cbn [la] in Eu. exists ((a :: u') ++ wr). split; [now apply dl_cons|exact Eu]. }
        destruct (mem (B, None) S) eqn:M; [|now apply Hfb]. apply in_app_or in Hl. destruct Hl as [Hl|Hl]; [now apply Hfb|].
        apply mem_In in M. destruct (HS _ M) as [u [Du Eu]]. cbn [fst snd] in *. destruct u as [|? ?]; [|discriminate].
        destruct (IH (fun Y HY => Hg Y (or_intror HY)) Hl) as [v [Dv Ev]]. exists ([] ++ v). split; [now apply dl_cons|exact Ev].
      - destruct Hl as [<-|[]]. destruct (derives_list_exists G r) as [wr Dr]; [intros Y HY; apply Hg; now right|].
        exists ([b] ++ wr). split; [apply dl_cons; [apply dv_ter|exact Dr]|reflexivity].
    Qed.

    Lemma first_sound c : In c FS -> FirstP c.
    Proof.
      intros Hc. apply saturate_sound in Hc. revert c Hc. apply Gen_least. intros S [A l] HS _ Ho.
      unfold first_ok in Ho. apply existsb_exists in Ho. destruct Ho as [[A0 body] [Hp Ho]]. apply land_true_iff in Ho. cbn [fst snd] in Ho.
      destruct Ho as [E Hl]. apply (proj1 (eqb_eq A A0)) in E. subst A0. apply mem_In in Hl.
      destruct (first_body_sound S body l HS (fun X HX => Hgen A body X Hp HX) Hl) as [u [Du Eu]].
      exists u. split; [now apply dv_var with body|exact Eu].
    Qed.

    (* get_first_set: (A, a) is listed iff A derives a word starting with a; (A, epsilon) iff A derives the empty word *)
    Theorem first_set_spec A l : In (A, l) FS <-> exists u, derives G (V A) u /\ la u = l.
    Proof.
      split; [apply (first_sound (A, l))|]. intros [u [Du <-]]. apply (proj1 first_complete _ _ Du A eq_refl).
    Qed.
    Lemma first_body_spec body l : (forall X, In X body -> exists w, derives G X w) ->
      (In l (first_body FS body) <-> exists u, derives_list G body u /\ la u = l).
    Proof.
      intros Hg. split; [apply first_body_sound; [apply first_sound|exact Hg]|]. intros [u [Du <-]]. apply (proj2 first_complete _ _ Du).
    Qed.

    Lemma suffixes_after_inv B full post : In post (suffixes_after B full) -> exists pre, full = pre ++ V B :: post.
    Proof.
      induction full as [|Y r IH]; cbn [suffixes_after]; [intros []|]. intros Hp. apply in_app_or in Hp. destruct Hp as [Hp|Hp].
      - destruct Y as [B0|b]; [|destruct Hp]. destruct (eqb_spec B0 B) as [->|]; [|destruct Hp]. destruct Hp as [<-|[]]. exists []. reflexivity.
      - destruct (IH Hp) as [pre ->]. exists (Y :: pre). reflexivity.
    Qed.

    Lemma follow_sound c : In c FW -> Follows G (fst c) (snd c).
    Proof.
      intros Hc. apply saturate_sound in Hc. revert c Hc. apply Gen_least. intros S [B l] HS _ Ho. cbn [fst snd].
      unfold follow_ok in Ho. apply orb_true_iff in Ho. destruct Ho as [Ho|Ho].
      - cbn [fst snd] in Ho. destruct (g_start G) as [s|] eqn:Es; [|discriminate]. destruct l; [discriminate|]. apply (proj1 (eqb_eq s B)) in Ho. subst. now apply fo_start.
      - apply existsb_exists in Ho. destruct Ho as [[A full] [Hp Ho]]. apply existsb_exists in Ho. destruct Ho as [post [Hpost Ho]]. cbn [fst snd] in *.
        destruct (suffixes_after_inv _ _ _ Hpost) as [pre ->].
        assert (Hg : forall X, In X post -> exists w, derives G X w).
        { intros X HX. apply (Hgen A _ X Hp). apply in_or_app. right. now right. }
        apply orb_true_iff in Ho. destruct Ho as [Ho|Ho].
        + destruct l as [a|]; [|discriminate]. apply mem_In in Ho. apply (first_body_spec post (Some a) Hg) in Ho. destruct Ho as [u [Du Eu]].
          destruct u as [|a' v]; [discriminate|]. cbn [la] in Eu. inversion Eu; subst. now apply fo_first with A pre post v.
        + apply land_true_iff in Ho. destruct Ho as [Hn HA]. unfold nullable_body in Hn. apply mem_In in Hn. apply mem_In in HA.
          apply (first_body_spec post None Hg) in Hn. destruct Hn as [u [Du Eu]]. destruct u; [|discriminate].
          apply fo_nullable with A pre post; [exact Hp|exact Du|]. apply (HS _ HA).
    Qed.

    Lemma follow_complete B l : Follows G B l -> In B (g_vars G) -> In (B, l) FW.
    Proof.
      induction 1 as [s Es|A pre B post a v Hp Dp|A pre B post l Hp Dp FA IH]; intros HB.
      - now apply start_follow_raw.
      - apply saturate_closed.
        + apply pair_cands_In. split; [exact HB|]. right. exists a. split; [reflexivity|]. apply first_body_terms with post.
          * intros c Hc. apply Hterms with A (pre ++ V B :: post); [exact Hp|]. apply in_or_app. right. now right.
          * apply (proj2 first_complete _ _ Dp).
        + unfold follow_ok. apply orb_true_iff. right. apply existsb_exists. exists (A, pre ++ V B :: post). split; [exact Hp|]. cbn [fst snd].
          apply existsb_exists. exists post. split; [apply suffixes_after_In|]. apply orb_true_iff. left. apply mem_In. apply (proj2 first_complete _ _ Dp).
      - specialize (IH (Hheads _ _ Hp)).
        pose proof (follow_closed A (pre ++ V B :: post) pre B post [] (match l with Some a => [a] | None => [] end) Hp eq_refl Dp) as X.
        cbn [app] in X. destruct l as [a|]; cbn [la] in X; apply X; exact IH.
    Qed.

    (* get_follow_set: exactly the pairs given by the three textbook rules *)
    Theorem follow_set_spec B l : In B (g_vars G) -> (In (B, l) FW <-> Follows G B l).
    Proof. intros HB. split; [apply (follow_sound (B, l))|intros F; now apply follow_complete]. Qed.
  End Textbook.

  Hypothesis Hll1 : is_ll1 G = true.

  Lemma choose_unique A body l : In (A, body) (g_prods G) -> In l (predict G (A, body)) -> choose G A l = [body].
  Proof.
    intros Hp Hl. unfold choose.
    rewrite (filter_singleton _ (dedup (g_prods G)) (A, body)); [reflexivity|apply dedup_NoDup|apply (proj2 (dedup_In _ _)); exact Hp| |].
    - cbn [fst]. rewrite eqb_refl. now apply mem_In.
    - intros [A' body'] Hq Fq. apply land_true_iff in Fq. destruct Fq as [E1 E2]. cbn [fst] in E1. apply (proj1 (eqb_eq A A')) in E1. subst A'.
      apply mem_In in E2. unfold is_ll1 in Hll1. rewrite forallb_forall in Hll1. specialize (Hll1 (A, body) (proj2 (dedup_In _ _) Hp)).
      rewrite forallb_forall in Hll1. specialize (Hll1 (A, body') Hq). cbn [fst] in Hll1. rewrite eqb_refl in Hll1. cbn [negb orb] in Hll1.
      rewrite orb_false_r in Hll1. apply orb_true_iff in Hll1. destruct Hll1 as [E|D].
      + apply (proj1 (eqb_eq (A, body) (A, body'))) in E. now symmetry.
      + rewrite forallb_forall in D. specialize (D l Hl). apply negb_true_iff in D. apply mem_nIn in D. contradiction.
  Qed.

  Lemma predict_In A body u rest : derives_list G body u -> In (A, la rest) FW -> In (la (u ++ rest)) (predict G (A, body)).
  Proof.
    intros DL HA. pose proof (proj2 first_complete _ _ DL) as Hf. unfold predict. cbn [fst snd]. apply dedup_In. apply in_or_app.
    destruct u as [|a u']; cbn [app la] in *.
    - right. apply mem_In in Hf. rewrite Hf. apply in_map_iff. exists (A, la rest). split; [reflexivity|]. apply filter_In. split; [exact HA|]. cbn [fst]. apply eqb_refl.
    - left. apply filter_In. split; [exact Hf|reflexivity].
  Qed.

  Lemma parse_complete :
    (forall X u, derives G X u -> forall rest, (forall A, X = V A -> In (A, la rest) FW) ->
       exists f t, forall f', f <= f' -> parse_sym G f' X (u ++ rest) = Some (t, rest)) /\
    (forall body u, derives_list G body u -> forall A full pre rest, In (A, full) (g_prods G) -> full = pre ++ body -> In (A, la rest) FW ->
       exists f ts, forall f', f <= f' -> parse_body_with (parse_sym G f') body (u ++ rest) = Some (ts, rest)).
  Proof.
    apply derives_mutind.
    - intros a rest _. exists 1, (Node (T a) []). intros f' Hf. destruct f' as [|f']; [lia|]. rewrite parse_sym_ter. cbn [app]. now rewrite N.eqb_refl.
    - intros A body u Hp DL IH rest HA. specialize (HA A eq_refl).
      destruct (IH A body [] rest Hp eq_refl HA) as [f [ts Hts]]. exists (S f), (Node (V A) ts). intros f' Hf. destruct f' as [|f']; [lia|].
      rewrite parse_sym_var. rewrite (choose_unique A body _ Hp (predict_In A body u rest DL HA)). rewrite (Hts f' ltac:(lia)). reflexivity.
    - intros A full pre rest _ _ _. exists 0, []. intros f' _. reflexivity.
    - intros X post u v DX IHX DL IHL A full pre rest Hp Ef HA.
      destruct (IHX (v ++ rest)) as [f1 [t Ht]].
      { intros B ->. now apply (follow_closed A full pre B post v rest). }
      destruct (IHL A full (pre ++ [X]) rest Hp) as [f2 [ts Hts]]; [now rewrite <- app_assoc|exact HA|].
      exists (Nat.max f1 f2), (t :: ts). intros f' Hf. cbn [parse_body_with]. rewrite <- app_assoc.
      rewrite (Ht f' ltac:(lia)). fold (parse_body_with (parse_sym G f')). rewrite (Hts f' ltac:(lia)). reflexivity.
  Qed.

  (* get_llone_parse_tree on an LL(1) grammar: a tree exactly for the words of the language, and the tree is a parse tree of the word *)
  Theorem ll1_parse_complete w : (forall s, g_start G = Some s -> In s (g_vars G)) -> LangG G w -> exists f t, forall f', f <= f' -> ll1_parse G f' w = Some t.
  Proof.
    intros Hs L. unfold LangG in L. unfold ll1_parse. destruct (g_start G) as [s|] eqn:Es; [|destruct L].
    destruct (proj1 parse_complete _ _ L []) as [f [t Ht]].
    - intros A E. inversion E; subst. apply start_follow_raw; auto.
    - exists f, t. intros f' Hf. specialize (Ht f' Hf). rewrite app_nil_r in Ht. now rewrite Ht.
  Qed.
End P.

Theorem ll1_parse_sound {Vr} `{EqDec Vr} (G : cfg Vr) f w t : ll1_parse G f w = Some t ->
  valid_tree G t /\ yield t = w /\ (exists s, g_start G = Some s /\ root t = V s) /\ LangG G w.
Proof.
  unfold ll1_parse, LangG. destruct (g_start G) as [s|] eqn:Es; [|discriminate]. destruct (parse_sym G f (V s) w) as [[t0 [|? ?]]|] eqn:E; try discriminate.
  intros E'. inversion E'; subst t0. destruct (parse_sound G f _ _ _ _ E) as [R [Vt Y]]. rewrite app_nil_r in Y.
  split; [exact Vt|split; [now symmetry|split; [eauto|]]]. subst w. rewrite <- R. now apply valid_tree_derives.
Qed.
