From Coq Require Import List Bool Arith NArith ZArith Lia.
From PFL Require Import Spec.Regex Model.RegexParse Model.RegexReader Proofs.RegexParse Proofs.RegexStr.
Import ListNotations.
Local Open Scope Z_scope.

Fixpoint dsum (l : list tok) : Z := match l with [] => 0 | t :: r => pval t + dsum r end.

Lemma dsum_app l1 l2 : dsum (l1 ++ l2) = dsum l1 + dsum l2.
Proof. induction l1 as [|t l1 IH]; simpl; [reflexivity|]. rewrite IH. lia. Qed.

Lemma depths_from_app d l1 : forall l2, depths_from d (l1 ++ l2) = depths_from d l1 ++ depths_from (d + dsum l1) l2.
Proof.
  revert d. induction l1 as [|t l1 IH]; intros d l2; simpl.
  - now rewrite Z.add_0_r.
  - rewrite IH. f_equal. f_equal. f_equal. lia.
Qed.
Lemma depths_from_length d l : length (depths_from d l) = length l.
Proof. revert d. induction l as [|t l IH]; intros d; simpl; [reflexivity|]. now rewrite IH. Qed.
Lemma depths_from_shift2 l : forall d e, depths_from (d + e) l = map (Z.add d) (depths_from e l).
Proof.
  induction l as [|t l IH]; intros d e; simpl; [reflexivity|]. f_equal; [lia|].
  rewrite <- IH. f_equal. lia.
Qed.
Lemma depths_from_shift d l : depths_from d l = map (Z.add d) (depths_from 0 l).
Proof. rewrite <- depths_from_shift2. f_equal. lia. Qed.

(* well bracketed: never below 0, back to 0 at the end *)
Definition wb (l : list tok) : Prop := dsum l = 0 /\ Forall (fun x => 0 <= x) (depths_from 0 l).

Lemma find_zero_before ds1 ds2 from : forall i, (i + length ds1 <= from)%nat ->
  find_zero (ds1 ++ ds2) i from = find_zero ds2 (i + length ds1) from.
Proof. induction ds1 as [|d ds1 IH]; intros i Hl; simpl in *; [now rewrite Nat.add_0_r|].
  destruct (Nat.leb_spec from i); [lia|]. simpl. rewrite IH by lia. f_equal. lia.
Qed.
Lemma find_zero_pos ds1 ds2 from : Forall (fun x => x <> 0) ds1 -> forall i,
  find_zero (ds1 ++ ds2) i from = find_zero ds2 (i + length ds1) from.
Proof.
  induction 1 as [|d ds1 Hd _ IH]; intros i; simpl; [now rewrite Nat.add_0_r|].
  destruct (Z.eqb_spec d 0); [contradiction|]. rewrite andb_false_r. rewrite IH. f_equal. lia.
Qed.

Lemma first_closing_group pre inner rest : dsum pre = 0 -> wb inner ->
  first_closing (pre ++ TLp :: inner ++ TRp :: rest) (length pre) = Some (length pre + S (length inner))%nat.
Proof.
  intros Hpre (Hs & Hnn). unfold first_closing. rewrite depths_from_app, Hpre.
  rewrite find_zero_before by (rewrite depths_from_length; lia). rewrite depths_from_length. simpl.
  destruct (Nat.leb_spec (length pre) (length pre)); [|lia]. simpl.
  rewrite depths_from_app. rewrite find_zero_pos.
  - rewrite depths_from_length. simpl. rewrite Hs. simpl.
    destruct (Nat.leb_spec (length pre) (S (length pre + length inner))); [|lia]. simpl. f_equal. lia.
  - rewrite depths_from_shift. rewrite Forall_map. eapply Forall_impl; [|exact Hnn]. intros x Hx. cbv beta in *. lia.
Qed.

Lemma wb_single t : pval t = 0 -> wb [t].
Proof. intros E. split; simpl; rewrite E; [reflexivity|]. constructor; [lia|constructor]. Qed.

Lemma wb_paren x : wb x -> wb (TLp :: x ++ [TRp]).
Proof.
  intros (Hs & Hnn). split.
  - simpl. rewrite dsum_app, Hs. reflexivity.
  - simpl. constructor; [lia|]. rewrite depths_from_app. apply Forall_app. split.
    + rewrite depths_from_shift, Forall_map. eapply Forall_impl; [|exact Hnn]. intros y Hy. cbv beta in *. lia.
    + simpl. rewrite Hs. simpl. constructor; [lia|constructor].
Qed.

Lemma wb_join x t y : wb x -> wb y -> pval t = 0 -> wb (x ++ t :: y).
Proof.
  intros (Hs & Hnn) (Hs' & Hnn') Et. split.
  - rewrite dsum_app. simpl. lia.
  - rewrite depths_from_app. apply Forall_app. split; [exact Hnn|]. rewrite Hs. simpl. rewrite Et. simpl.
    constructor; [lia|exact Hnn'].
Qed.

Lemma pr_py_wb r : no_empty r -> wb (pr_py r).
Proof.
  induction r as [| |a|a IHa b IHb|a IHa b IHb|a IHa]; intros Hn; simpl in *.
  - destruct Hn.
  - now apply wb_single.
  - now apply wb_single.
  - destruct Hn as (Ha & Hb). replace (TLp :: pr_py a ++ TConcat :: pr_py b ++ [TRp]) with (TLp :: (pr_py a ++ TConcat :: pr_py b) ++ [TRp]) by (now rewrite <- app_assoc).
    apply wb_paren. apply wb_join; auto.
  - destruct Hn as (Ha & Hb). replace (TLp :: pr_py a ++ TUnion :: pr_py b ++ [TRp]) with (TLp :: (pr_py a ++ TUnion :: pr_py b) ++ [TRp]) by (now rewrite <- app_assoc).
    apply wb_paren. apply wb_join; auto.
  - replace (TLp :: pr_py a ++ [TRp; TStar]) with ((TLp :: pr_py a ++ [TRp]) ++ TStar :: []) by (simpl; now rewrite <- app_assoc).
    apply wb_join; [apply wb_paren; auto| |reflexivity]. split; [reflexivity|constructor].
Qed.

(* ---- star-free expressions ---- *)
Fixpoint no_star (r : re) : Prop :=
  match r with RStar _ => False | RCat a b | RAlt a b => no_star a /\ no_star b | _ => True end.

(* a star-free printed expression is a group: one symbol token, or a parenthesised content *)
Lemma pr_py_group r : no_empty r -> no_star r ->
  (exists t, pr_py r = [t] /\ (t = TEps \/ exists a, t = TSym a)) \/
  (exists x, pr_py r = TLp :: x ++ [TRp] /\ wb x /\ x <> []).
Proof.
  intros Hn Hs. destruct r as [| |a|a b|a b|a]; simpl in *; try tauto.
  - left. eauto.
  - left. eauto.
  - right. destruct Hn as (Ha & Hb). exists (pr_py a ++ TConcat :: pr_py b). split; [now rewrite <- app_assoc|].
    split; [apply wb_join; try apply pr_py_wb; auto|]. destruct (pr_py a); discriminate.
  - right. destruct Hn as (Ha & Hb). exists (pr_py a ++ TUnion :: pr_py b). split; [now rewrite <- app_assoc|].
    split; [apply wb_join; try apply pr_py_wb; auto|]. destruct (pr_py a); discriminate.
Qed.

(* the end of the first group that starts at position |pre| *)
Lemma end_first_group_at pre r rest : dsum pre = 0 -> no_empty r -> no_star r ->
  end_first_group (pre ++ pr_py r ++ rest) (length pre) = inl (length pre + length (pr_py r))%nat.
Proof.
  intros Hpre Hn Hs. unfold end_first_group.
  assert (Hlen : (length (pre ++ pr_py r ++ rest) <=? length pre)%nat = false).
  { apply Nat.leb_gt. rewrite !app_length. destruct (pr_py_group r Hn Hs) as [(t & -> & _)|(x & -> & _)]; simpl; lia. }
  rewrite Hlen. rewrite app_nth2 by lia. rewrite Nat.sub_diag.
  destruct (pr_py_group r Hn Hs) as [(t & E & Ht)|(x & E & Hx & _)]; rewrite E.
  - simpl. destruct Ht as [->|(a & ->)]; simpl; f_equal; lia.
  - cbn [app nth]. change ((TLp :: x ++ [TRp]) ++ rest) with (TLp :: (x ++ [TRp]) ++ rest). rewrite <- app_assoc. cbn [app].
    rewrite (first_closing_group pre x rest Hpre Hx).
    destruct (Nat.ltb_spec 0 (length pre + S (length x))); [|lia]. f_equal. simpl. rewrite app_length. simpl. lia.
Qed.

Local Open Scope nat_scope.

Lemma surrounded_paren x : wb x -> surrounded (TLp :: x ++ [TRp]) = true.
Proof.
  intros Hx. unfold surrounded. pose proof (first_closing_group [] x [] eq_refl Hx) as E. simpl in E. rewrite E.
  cbn [length]. rewrite app_length. cbn [length]. apply Nat.eqb_eq. lia.
Qed.

Lemma strip_outer_paren f x : wb x -> x <> [] -> strip_outer (S f) (TLp :: x ++ [TRp]) = strip_outer f x.
Proof.
  intros Hx Hne. cbn [strip_outer]. rewrite (surrounded_paren x Hx). cbn [tl]. rewrite removelast_last.
  destruct x; [congruence|reflexivity].
Qed.

Section Inner.
  Variables (a b : re) (op : tok).
  Hypothesis Hna : no_empty a. Hypothesis Hsa : no_star a.
  Hypothesis Hnb : no_empty b. Hypothesis Hsb : no_star b.
  Hypothesis Hop : op = TConcat \/ op = TUnion.
  Let I := pr_py a ++ op :: pr_py b.

  Lemma op_pval : pval op = 0%Z. Proof. destruct Hop as [E|E]; rewrite E; reflexivity. Qed.
  Lemma I_len : length I = length (pr_py a) + S (length (pr_py b)).
  Proof. unfold I. rewrite app_length. reflexivity. Qed.
  Lemma pa_pos : 1 <= length (pr_py a).
  Proof. destruct (pr_py_group a Hna Hsa) as [(t & -> & _)|(x & -> & _)]; simpl; lia. Qed.
  Lemma pb_pos : 1 <= length (pr_py b).
  Proof. destruct (pr_py_group b Hnb Hsb) as [(t & -> & _)|(x & -> & _)]; simpl; lia. Qed.

  Lemma I_first : end_first_group I 0 = inl (length (pr_py a)).
  Proof. exact (end_first_group_at [] a (op :: pr_py b) eq_refl Hna Hsa). Qed.

  Lemma I_second : end_first_group I (S (length (pr_py a))) = inl (length I).
  Proof.
    pose proof (end_first_group_at (pr_py a ++ [op]) b []) as E.
    rewrite app_nil_r, <- app_assoc in E. cbn [app] in E. fold I in E.
    rewrite app_length in E. simpl in E. rewrite Nat.add_1_r in E. rewrite E; auto.
    - f_equal. rewrite I_len. lia.
    - rewrite dsum_app. simpl. rewrite op_pval. destruct (pr_py_wb a Hna) as (-> & _). reflexivity.
  Qed.

  Lemma I_nth_op : nth (length (pr_py a)) I TEps = op.
  Proof. unfold I. rewrite app_nth2 by lia. now rewrite Nat.sub_diag. Qed.

  Lemma I_strip f : strip_outer (S f) I = inl I.
  Proof.
    cbn [strip_outer]. destruct (pr_py_group a Hna Hsa) as [(t & E & Ht)|(x & E & Hx & _)].
    - unfold I. rewrite E. cbn [app]. destruct Ht as [->|(s & ->)]; reflexivity.
    - assert (EI : I = TLp :: x ++ TRp :: op :: pr_py b).
      { unfold I. rewrite E. cbn [app]. now rewrite <- app_assoc. }
      rewrite EI. assert (Hs : surrounded (TLp :: x ++ TRp :: op :: pr_py b) = false).
      { unfold surrounded. pose proof (first_closing_group [] x (op :: pr_py b) eq_refl Hx) as F. cbn [app length] in F. rewrite F.
        apply Nat.eqb_neq. cbn [length]. rewrite app_length. cbn [length]. pose proof pb_pos. lia. }
      now rewrite Hs.
  Qed.

  Lemma I_scan : scan_groups (S (length I)) I (length (pr_py a)) KCat = inl (length I, KCat).
  Proof.
    pose proof pa_pos. pose proof pb_pos. pose proof I_len.
    cbn [scan_groups]. assert (E1 : (length (pr_py a) <? length I) = true) by (apply Nat.ltb_lt; lia).
    rewrite E1. cbn [andb]. rewrite I_second.
    unfold node_at. rewrite Nat.ltb_irrefl.
    destruct (length I) as [|n] eqn:En; [lia|]. cbn [scan_groups]. rewrite <- En. rewrite Nat.ltb_irrefl. reflexivity.
  Qed.

  Lemma I_prec f : compute_precedence (S f) I = inl I.
  Proof.
    pose proof pa_pos. pose proof pb_pos. pose proof I_len.
    cbn [compute_precedence]. assert (E1 : (length I <=? 1) = false) by (apply Nat.leb_gt; lia). rewrite E1.
    rewrite I_first. unfold node_at. assert (E2 : (length (pr_py a) <? length I) = true) by (apply Nat.ltb_lt; lia).
    rewrite E2, I_nth_op.
    assert (K : kind_of op = KCat \/ kind_of op = KUnion) by (destruct Hop as [E|E]; rewrite E; auto).
    destruct K as [K|K]; rewrite K.
    - rewrite I_scan. reflexivity.
    - reflexivity.
  Qed.
End Inner.

Lemma reader_unfold f comps : reader (S f) comps =
    let n0 := S (length comps) in
    match strip_outer n0 comps with
    | inr x => inr x
    | inl s1 =>
      match compute_precedence (S n0) s1 with
      | inr x => inr x
      | inl p =>
        match strip_outer (S (S (S (length p)))) p with
        | inr x => inr x
        | inl s2 =>
          match s2 with
          | [] => inl REmpty
          | [t] => match t with
                   | TSym a => inl (RSym a)
                   | TEps => inl REps
                   | TLp | TRp => inr EOther
                   | _ => inr EMis
                   end
          | _ =>
            match end_first_group s2 0 with
            | inr x => inr x
            | inl e =>
              if Nat.leb (length s2) e then inr EOther
              else
                let first := reader f (firstn e s2) in
                match kind_of (nth e s2 TEps) with
                | KStar => match first with inl a => inl (RStar a) | inr x => inr x end
                | KSym => match first, reader f (skipn e s2) with
                          | inl a, inl b => inl (RCat a b) | inr x, _ => inr x | _, inr x => inr x end
                | KCat => match first, reader f (skipn (S e) s2) with
                          | inl a, inl b => inl (RCat a b) | inr x, _ => inr x | _, inr x => inr x end
                | KUnion => match first, reader f (skipn (S e) s2) with
                            | inl a, inl b => inl (RAlt a b) | inr x, _ => inr x | _, inr x => inr x end
                | KNone => inr EOther
                end
            end
          end
        end
      end
    end.
Proof. reflexivity. Qed.

Lemma reader_binary f a b op (mk : re -> re -> re) :
  no_empty a -> no_star a -> no_empty b -> no_star b ->
  (op = TConcat /\ mk = RCat \/ op = TUnion /\ mk = RAlt) ->
  reader f (pr_py a) = inl a -> reader f (pr_py b) = inl b ->
  reader (S f) (TLp :: (pr_py a ++ op :: pr_py b) ++ [TRp]) = inl (mk a b).
Proof.
  intros Hna Hsa Hnb Hsb Hop Ra Rb.
  assert (Hop' : op = TConcat \/ op = TUnion) by tauto.
  pose proof (pa_pos a Hna Hsa) as Pa. pose proof (pb_pos b Hnb Hsb) as Pb. pose proof (I_len a b op) as IL.
  assert (HwbI : wb (pr_py a ++ op :: pr_py b)) by (apply wb_join; [now apply pr_py_wb|now apply pr_py_wb|now apply (op_pval op)]).
  assert (HneI : pr_py a ++ op :: pr_py b <> []) by (destruct (pr_py a); discriminate).
  rewrite reader_unfold. cbv zeta.
  assert (EL : length (TLp :: (pr_py a ++ op :: pr_py b) ++ [TRp]) = S (S (length (pr_py a ++ op :: pr_py b)))) by (simpl; rewrite app_length; simpl; lia).
  rewrite EL.
  rewrite (strip_outer_paren _ _ HwbI HneI).
  rewrite (I_strip a b op Hna Hsa Hnb Hsb).
  rewrite (I_prec a b op Hna Hsa Hnb Hsb Hop').
  rewrite (I_strip a b op Hna Hsa Hnb Hsb).
  pose proof (I_first a b op Hna Hsa) as F1.
  assert (E1 : (length (pr_py a ++ op :: pr_py b) <=? length (pr_py a)) = false) by (apply Nat.leb_gt; lia).
  pose proof (I_nth_op a b op) as N1.
  assert (Ef : firstn (length (pr_py a)) (pr_py a ++ op :: pr_py b) = pr_py a) by (rewrite firstn_app, Nat.sub_diag, firstn_all; simpl; now rewrite app_nil_r).
  assert (Es : skipn (S (length (pr_py a))) (pr_py a ++ op :: pr_py b) = pr_py b).
  { replace (pr_py a ++ op :: pr_py b) with ((pr_py a ++ [op]) ++ pr_py b) by now rewrite <- app_assoc.
    rewrite skipn_app. replace (S (length (pr_py a))) with (length (pr_py a ++ [op])) by (rewrite app_length; simpl; lia).
    rewrite skipn_all, Nat.sub_diag. reflexivity. }
  remember (pr_py a ++ op :: pr_py b) as I eqn:EI0.
  destruct I as [|t1 [|t2 I']] eqn:EI; [simpl in IL; lia|simpl in IL; lia|]. rewrite <- EI in *.
  rewrite F1, E1, N1, Ef, Es, Ra, Rb.
  destruct Hop as [(Eo & Em)|(Eo & Em)]; rewrite Eo, Em; reflexivity.
Qed.

Theorem reader_pr_py : forall f r, no_empty r -> no_star r -> (rdepth r <= f)%nat -> reader f (pr_py r) = inl r.
Proof.
  induction f as [|f IH]; intros r Hn Hs Hd; [destruct r; simpl in Hd; lia|].
  destruct r as [| |s|a b|a b|a]; simpl in Hn, Hs, Hd.
  - destruct Hn.
  - reflexivity.
  - reflexivity.
  - destruct Hn as (Hna & Hnb). destruct Hs as (Hsa & Hsb).
    replace (pr_py (RCat a b)) with (TLp :: (pr_py a ++ TConcat :: pr_py b) ++ [TRp]) by (simpl; now rewrite <- app_assoc).
    apply reader_binary; auto; apply IH; auto; lia.
  - destruct Hn as (Hna & Hnb). destruct Hs as (Hsa & Hsb).
    replace (pr_py (RAlt a b)) with (TLp :: (pr_py a ++ TUnion :: pr_py b) ++ [TRp]) by (simpl; now rewrite <- app_assoc).
    apply reader_binary; auto; apply IH; auto; lia.
  - destruct Hs.
Qed.

(* the mirror of pyformlang's parser reads back the text of str() of every star-free expression *)
Theorem reader_str_round_trip r : no_empty r -> no_star r -> reader_regex (pr_py r) = inl r.
Proof.
  intros Hn Hs. unfold reader_regex. apply reader_pr_py; auto. pose proof (pr_py_length r Hn). lia.
Qed.
