From Coq Require Import List Bool NArith Lia.
From PFL Require Import Base.ListSet Base.Closure Spec.Enfa Model.Enfa.
Import ListNotations.

Section A.
  Context {Q : Type} `{EqDec Q}.
  Variable A : enfa Q.

  Lemma succs_In l q r : In r (succs A l q) <-> In (q, l, r) (e_delta A).
  Proof.
    unfold succs. rewrite in_flat_map. split.
    - intros [[[p l'] r'] [Hin Hr]]. cbv beta iota in Hr.
      destruct (eqb_spec p q) as [->|]; destruct (eqb_spec l l') as [->|]; cbn [andb In] in Hr; try tauto.
      destruct Hr as [->|[]]. exact Hin.
    - intros Hin. exists (q, l, r). split; [exact Hin|]. rewrite !eqb_refl. cbn [andb In]. auto.
  Qed.

  (* epsilon paths *)
  Definition epath (S : list Q) (r : Q) : Prop := reach (succs A None) S r.

  Lemma eclose_spec S r : In r (eclose A S) <-> epath S r.
  Proof.
    unfold eclose, epath. apply closure_spec.
    - intros x Hx y Hy. apply succs_In in Hy. apply in_or_app. right.
      unfold targets. apply in_map_iff. exists (x, None, y). auto.
    - intros x Hx. apply in_or_app. now left.
  Qed.

  Lemma eclose_incl S : incl S (eclose A S).
  Proof. intros x Hx. apply eclose_spec. now apply reach_init. Qed.

  Lemma eclose_closed S q r : In q (eclose A S) -> In (q, None, r) (e_delta A) -> In r (eclose A S).
  Proof.
    rewrite !eclose_spec. intros Hq Hr. apply reach_step with q; [exact Hq|]. now apply succs_In.
  Qed.

  Lemma epath_run S q : epath S q -> forall w r, run A q w r -> exists s, In s S /\ run A s w r.
  Proof.
    induction 1 as [x Hx|x y Hx IH Hy]; intros w r R; [eauto|].
    apply IH. apply run_eps with y; [now apply succs_In|exact R].
  Qed.

  Lemma step_set_In S a r : In r (step_set A S a) <-> exists q, In q S /\ In (q, Some a, r) (e_delta A).
  Proof.
    unfold step_set. rewrite in_flat_map. split; intros [q [H1 H2]]; exists q; split; auto; now apply succs_In.
  Qed.

  (* the set reached by the fold is exactly the set of run endpoints *)
  Lemma fold_spec w : forall S r,
    In r (fold_left (dstep A) w (eclose A S)) <-> exists s, In s S /\ run A s w r.
  Proof.
    induction w as [|a w IH]; intros S r; cbn [fold_left].
    - rewrite eclose_spec. split.
      + intros E. apply (epath_run S r E [] r (run_nil A r)).
      + intros [s [Hs R]]. remember [] as w eqn:Ew. revert Hs.
        induction R as [q|q q' w r Hd R IHR|]; intros Hs; [now apply reach_init| |discriminate].
        specialize (IHR Ew). 
        assert (G : forall T, epath T q' -> epath T r).
        { clear - R Ew. intros T. induction R as [q|q q' w r Hd R IHR|]; intros; [auto| |discriminate].
          apply IHR; auto. apply reach_step with q; auto. now apply succs_In. }
        apply G. apply reach_step with q; [now apply reach_init|now apply succs_In].
    - unfold dstep at 2. rewrite IH. split.
      + intros [q1 [H1 R]]. apply step_set_In in H1. destruct H1 as [q [Hq Hd]].
        apply eclose_spec in Hq.
        apply (epath_run S q Hq (a :: w) r). apply run_sym with q1; auto.
      + intros [s [Hs R]].
        assert (G : forall q, In q (eclose A S) -> run A q (a :: w) r ->
                    exists s0, In s0 (step_set A (eclose A S) a) /\ run A s0 w r).
        { clear. intros q Hq R. remember (a :: w) as aw eqn:E. revert Hq.
          induction R as [q|q q' w' r Hd R IHR|q b q' w' r Hd R IHR]; intros Hq; [discriminate| |].
          - apply IHR; auto. eapply eclose_closed; eauto.
          - inversion E; subst. exists q'. split; [|exact R]. apply step_set_In. eauto. }
        apply (G s); [now apply eclose_incl|exact R].
  Qed.

  Theorem accepts_spec w : accepts A w = true <-> Lang A w.
  Proof.
    unfold accepts, is_final_set, Lang. rewrite existsb_exists. split.
    - intros [f [Hf Hm]]. apply mem_In in Hm. apply fold_spec in Hf. destruct Hf as [s [Hs R]].
      exists s, f. auto.
    - intros [s [f [Hs [Hf R]]]]. exists f. split; [|now apply mem_In].
      apply fold_spec. eauto.
  Qed.
End A.
