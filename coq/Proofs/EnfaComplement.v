From Coq Require Import List Bool NArith Lia.
From PFL Require Import Base.ListSet Base.Closure Spec.Enfa Model.Enfa Model.EnfaOps
  Proofs.EnfaAccepts Proofs.EnfaSets Proofs.EnfaRuns Proofs.EnfaDet.
Import ListNotations.

Lemma dfa_run_unique {Q} (C : enfa Q) : eps_free C -> functional C ->
  forall x w y, run C x w y -> forall y', run C x w y' -> y = y'.
Proof.
  intros E F x w y R. induction R as [q|q q' w r Hd R IH|q a q' w r Hd R IH]; intros y' R'.
  - now apply run_nil_eps_free in R'.
  - destruct (E _ _ Hd).
  - inversion R' as [|q0 q1 w0 r0 Hd0 R0|q0 a0 q1 w0 r0 Hd0 R0]; subst.
    + destruct (E _ _ Hd0).
    + rewrite <- (F _ _ _ _ Hd Hd0) in R0. now apply IH.
Qed.

Section Compl.
  Context {Q : Type} `{EqDec Q}.
  Variable A : enfa Q.
  Hypothesis Hdfa : is_dfa A.
  Hypothesis Hwf : wf A.
  Let C := complement A.

  Lemma nostep_iff q a : step_set A (eclose A [q]) a = [] <-> forall r, ~ In (q, Some a, r) (e_delta A).
  Proof.
    destruct Hdfa as [E _]. split.
    - intros X r Hd. assert (Y : In r (step_set A (eclose A [q]) a)).
      { apply step_set_In. exists q. split; [apply eclose_incl; now left|exact Hd]. }
      rewrite X in Y. destruct Y.
    - intros X. destruct (step_set A (eclose A [q]) a) as [|r l] eqn:Y; [reflexivity|]. exfalso.
      assert (Z : In r (step_set A (eclose A [q]) a)) by (rewrite Y; now left).
      apply step_set_In in Z. destruct Z as [q' [Hq' Hd]].
      apply (eclose_eps_free A [q] E) in Hq'. destruct Hq' as [<-|[]]. apply (X r Hd).
  Qed.

  Lemma C_edge x l y : In (x, l, y) (e_delta C) <->
    (exists p q, x = Some p /\ y = Some q /\ In (p, l, q) (e_delta A)) \/
    (exists q a, x = Some q /\ l = Some a /\ y = None /\ In q (e_states A) /\ In a (e_syms A) /\
                 forall r, ~ In (q, Some a, r) (e_delta A)) \/
    (exists a, x = None /\ l = Some a /\ y = None /\ In a (e_syms A)).
  Proof.
    unfold C, complement. cbn [e_delta]. rewrite !in_app_iff, in_map_iff, in_flat_map, in_map_iff. split.
    - intros [[[[p l'] q] [E Hd]]|[[q [Hq Hin]]|[a [E Ha]]]].
      + inversion E; subst. left. eauto.
      + apply in_flat_map in Hin. destruct Hin as [a [Ha Hin]].
        destruct (step_set A (eclose A [q]) a) eqn:X; [|destruct Hin]. destruct Hin as [E|[]]. inversion E; subst.
        right; left. exists q, a. repeat split; auto. now apply nostep_iff.
      + inversion E; subst. right; right. eauto.
    - intros [[p [q [-> [-> Hd]]]]|[[q [a [-> [-> [-> [Hq [Ha Hn]]]]]]]|[a [-> [-> [-> Ha]]]]]].
      + left. exists (p, l, q). auto.
      + right; left. exists q. split; [exact Hq|]. apply in_flat_map. exists a. split; [exact Ha|].
        apply nostep_iff in Hn. rewrite Hn. now left.
      + right; right. exists a. auto.
  Qed.

  Lemma C_eps_free : eps_free C.
  Proof.
    destruct Hdfa as [E _]. intros x y Hd. apply C_edge in Hd.
    destruct Hd as [[p [q [_ [_ Hd]]]]|[[q [a [_ [X _]]]]|[a [_ [X _]]]]]; try discriminate. destruct (E _ _ Hd).
  Qed.

  Lemma C_functional : functional C.
  Proof.
    destruct Hdfa as [_ [F _]]. intros x a y y' H1 H2. apply C_edge in H1, H2.
    destruct H1 as [[p [q [-> [-> Hd]]]]|[[q [a1 [-> [E1 [-> [_ [_ Hn]]]]]]]|[a1 [-> [_ [-> _]]]]]];
    destruct H2 as [[p' [q' [E' [-> Hd']]]]|[[q' [a2 [E' [E2 [-> [_ [_ Hn']]]]]]]|[a2 [E' [_ [-> _]]]]]];
      try discriminate; try reflexivity; try inversion E'; try inversion E1; try inversion E2; subst.
    - f_equal. eapply F; eauto.
    - destruct (Hn' _ Hd).
    - destruct (Hn _ Hd').
  Qed.

  Lemma lift_run p w q : run A p w q -> run C (Some p) w (Some q).
  Proof.
    induction 1 as [q|q q' w r Hd R IH|q a q' w r Hd R IH].
    - apply run_nil.
    - apply run_eps with (Some q'); [|exact IH]. apply C_edge. left. eauto.
    - apply run_sym with (Some q'); [|exact IH]. apply C_edge. left. eauto.
  Qed.

  Lemma trash_run w y : run C None w y -> y = None.
  Proof.
    intros R. assert (G : forall x, run C x w y -> x = None -> y = None); [|now apply (G None)].
    clear R. intros x R. induction R as [q|q q' w r Hd R IH|q a q' w r Hd R IH]; intros Ex; [exact Ex| |]; subst.
    - destruct (C_eps_free _ _ Hd).
    - apply IH. apply C_edge in Hd.
      destruct Hd as [[p [q0 [X _]]]|[[q0 [a1 [X _]]]|[a1 [_ [_ [-> _]]]]]]; try discriminate. reflexivity.
  Qed.

  Lemma unlift_run p w q : run C (Some p) w (Some q) -> run A p w q.
  Proof.
    intros R. remember (Some p) as x eqn:Ex. remember (Some q) as y eqn:Ey. revert p Ex.
    induction R as [q0|q0 q' w r Hd R IH|q0 a q' w r Hd R IH]; intros p Ex; subst.
    - inversion Ex. apply run_nil.
    - destruct (C_eps_free _ _ Hd).
    - apply C_edge in Hd.
      destruct Hd as [[p' [q1 [X [-> Hd]]]]|[[q1 [a1 [X [_ [-> _]]]]]|[a1 [X _]]]]; try discriminate.
      + inversion X; subst. apply run_sym with q1; [exact Hd|]. now apply IH.
      + apply trash_run in R. discriminate.
  Qed.

  Lemma C_complete w : (forall a, In a w -> In a (e_syms A)) -> forall x,
    (x = None \/ exists q, x = Some q /\ In q (e_states A)) ->
    exists y, run C x w y /\ (y = None \/ exists q, y = Some q /\ In q (e_states A)).
  Proof.
    destruct Hwf as [W1 _].
    induction w as [|a w IH]; intros Hw x Hx.
    - exists x. split; [apply run_nil|exact Hx].
    - assert (Ha : In a (e_syms A)) by (apply Hw; now left).
      assert (Hw' : forall b, In b w -> In b (e_syms A)) by (intros b Hb; apply Hw; now right).
      destruct Hx as [->|[q [-> Hq]]].
      + destruct (IH Hw' None (or_introl eq_refl)) as [y [R Y]]. exists y. split; [|exact Y].
        apply run_sym with None; [|exact R]. apply C_edge. right; right. eauto.
      + destruct (step_set A (eclose A [q]) a) as [|r l] eqn:X.
        * destruct (IH Hw' None (or_introl eq_refl)) as [y [R Y]]. exists y. split; [|exact Y].
          apply run_sym with None; [|exact R]. apply C_edge. right; left. exists q, a. repeat split; auto.
          now apply nostep_iff.
        * assert (Z : In r (step_set A (eclose A [q]) a)) by (rewrite X; now left).
          apply step_set_In in Z. destruct Z as [q' [Hq' Hd]]. destruct Hdfa as [E _].
          apply (eclose_eps_free A [q] E) in Hq'. destruct Hq' as [<-|[]].
          destruct (W1 _ _ _ Hd) as [_ Hr].
          destruct (IH Hw' (Some r)) as [y [R Y]]; [right; eauto|]. exists y. split; [|exact Y].
          apply run_sym with (Some r); [|exact R]. apply C_edge. left. eauto.
  Qed.

  Theorem complement_spec w : (exists s, In s (e_starts A)) -> (forall a, In a w -> In a (e_syms A)) ->
    (Lang C w <-> ~ Lang A w).
  Proof.
    intros [s Hs] Hw. destruct Hdfa as [_ [_ O]]. destruct Hwf as [_ [_ [W3 _]]]. split.
    - intros [x [y [Hx [Hy R]]]] [s' [f [Hs' [Hf RA]]]].
      unfold C, complement in Hx. cbn [e_starts] in Hx. apply in_map_iff in Hx. destruct Hx as [s0 [<- Hs0]].
      rewrite (O _ _ Hs0 Hs') in R. apply lift_run in RA.
      pose proof (dfa_run_unique C C_eps_free C_functional _ _ _ R _ RA) as ->.
      unfold C, complement in Hy. cbn [e_finals] in Hy. destruct Hy as [Hy|Hy]; [discriminate|].
      apply in_map_iff in Hy. destruct Hy as [f' [E Hf']]. inversion E; subst. apply diff_In in Hf'. tauto.
    - intros NL. destruct (C_complete w Hw (Some s)) as [y [R Y]]; [right; eauto|].
      exists (Some s), y. split; [unfold C, complement; cbn [e_starts]; now apply in_map|]. split; [|exact R].
      unfold C, complement. cbn [e_finals]. destruct Y as [->|[q [-> Hq]]]; [now left|]. right.
      apply in_map. apply diff_In. split; [exact Hq|]. intros Hf. apply NL. exists s, q. repeat split; auto.
      now apply unlift_run.
  Qed.
End Compl.
