(* A sufficient condition, on the fields alone, for the premises of the label round trip: no separator inside a field, and the
   characters at the field boundaries are not separator characters (JSON texts of strings, non-negative numbers and lists begin
   with a quote, a digit or a bracket and end with a quote, a digit or a bracket). *)
From Coq Require Import List Bool NArith Arith Lia.
From PFL Require Import Model.GraphLabels Proofs.GraphLabels.
Import ListNotations.

Lemma prefixb_app_long : forall sep x y, prefixb sep (x ++ y) = true -> length sep <= length x -> prefixb sep x = true.
Proof.
  induction sep as [|s sep IH]; intros x y H L; [reflexivity|].
  destruct x as [|c x]; cbn in L; [lia|]. cbn in *. destruct (N.eqb s c); [|discriminate]. apply (IH x y H). lia.
Qed.

Lemma prefixb_mid : forall sep x f y, prefixb sep (x ++ f :: y) = true -> length x < length sep -> In f sep.
Proof.
  induction sep as [|s sep IH]; intros x f y H L; cbn in L; [lia|].
  destruct x as [|c x]; cbn in *.
  - destruct (N.eqb_spec s f) as [->|]; [now left|discriminate].
  - destruct (N.eqb s c); [|discriminate]. right. apply (IH x f y H). lia.
Qed.

Lemma prefixb_short : forall sep x, prefixb sep x = true -> length sep <= length x.
Proof.
  induction sep as [|s sep IH]; intros x H; cbn; [lia|].
  destruct x as [|c x]; cbn in *; [discriminate|]. destruct (N.eqb s c); [|discriminate]. apply IH in H. lia.
Qed.

Definition head_not_in (sep r : str) : Prop := match r with [] => True | f :: _ => ~ In f sep end.

(* nothing starts inside a field that ends with a non-separator character *)
Lemma occ_left_field : forall sep a0 e z, sep <> [] -> occ sep (a0 ++ [e]) = 0 -> ~ In e sep ->
  occ sep ((a0 ++ [e]) ++ z) = occ sep z.
Proof.
  intros sep a0 e z Hne; induction a0 as [|c a0 IH]; intros H He.
  - cbn [app occ]. destruct (prefixb sep (e :: z)) eqn:E; [|reflexivity].
    exfalso. apply He. apply (prefixb_mid sep [] e z E). destruct sep; [congruence|cbn; lia].
  - cbn [app occ] in *. destruct (prefixb sep (c :: a0 ++ [e])) eqn:E0; [lia|].
    rewrite IH by (auto; lia).
    destruct (prefixb sep (c :: (a0 ++ [e]) ++ z)) eqn:E; [|reflexivity]. exfalso.
    destruct (le_lt_dec (length sep) (length (c :: a0 ++ [e]))) as [L|L].
    + change (c :: (a0 ++ [e]) ++ z) with ((c :: a0 ++ [e]) ++ z) in E.
      rewrite (prefixb_app_long _ _ _ E L) in E0. discriminate.
    + apply He. rewrite <- app_assoc in E. change (c :: a0 ++ [e] ++ z) with ((c :: a0) ++ e :: z) in E.
      apply (prefixb_mid _ _ _ _ E). cbn [length] in *. rewrite app_length in L. cbn in L. lia.
Qed.

(* nothing starts inside a proper suffix of the separator and runs into a field that begins with a non-separator character *)
Lemma occ_right_field : forall sep x r, length x < length sep -> occ sep r = 0 -> head_not_in sep r -> occ sep (x ++ r) = 0.
Proof.
  intros sep x r; induction x as [|c x IH]; intros L H Hh; [exact H|].
  cbn [app occ]. cbn [length] in L. rewrite IH by (auto; lia).
  destruct (prefixb sep (c :: x ++ r)) eqn:E; [|reflexivity]. exfalso.
  destruct r as [|f r].
  - rewrite app_nil_r in E. apply prefixb_short in E. cbn [length] in E. lia.
  - cbn in Hh. apply Hh. change (c :: x ++ f :: r) with ((c :: x) ++ f :: r) in E.
    apply (prefixb_mid _ _ _ _ E). cbn [length]. lia.
Qed.

Theorem occ_unique_sufficient : forall sep a0 e r, sep <> [] ->
  occ sep (a0 ++ [e]) = 0 -> ~ In e sep -> occ sep r = 0 -> head_not_in sep r ->
  occ sep ((a0 ++ [e]) ++ sep ++ r) = 1.
Proof.
  intros sep a0 e r Hne Ha He Hr Hh. rewrite occ_left_field by assumption.
  destruct sep as [|s sep']; [congruence|].
  pose proof (prefixb_app (s :: sep') r) as P. cbn [app] in *. cbn [occ]. rewrite P.
  rewrite (occ_right_field (s :: sep') sep' r); [reflexivity|cbn; lia|assumption|assumption].
Qed.

(* the characters of the two separators *)
Definition sep_chars : str := [32; 45; 62; 47]%N.

Lemma sep_arrow_chars : forall c, In c sep_arrow -> In c sep_chars.
Proof. intros c H; cbn in *; intuition. Qed.
Lemma sep_slash_chars : forall c, In c sep_slash -> In c sep_chars.
Proof. intros c H; cbn in *; intuition. Qed.

Lemma head_not_in_sub : forall s1 s2 r, (forall c, In c s1 -> In c s2) -> head_not_in s2 r -> head_not_in s1 r.
Proof. intros s1 s2 [|f r] Hs H; cbn [head_not_in] in *; auto. Qed.

(* no arrow starts inside " / " followed by a field that begins with a non-separator character *)
Lemma no_arrow_across_slash : forall c, occ sep_arrow c = 0 -> head_not_in sep_chars c -> occ sep_arrow (sep_slash ++ c) = 0.
Proof.
  intros c H Hh. unfold sep_slash. cbn [app occ]. rewrite H.
  replace (prefixb sep_arrow (32%N :: 47%N :: 32%N :: c)) with false by reflexivity.
  replace (prefixb sep_arrow (47%N :: 32%N :: c)) with false by reflexivity.
  destruct c as [|f c]; [reflexivity|]. cbn in Hh.
  unfold sep_arrow. cbn [prefixb]. rewrite N.eqb_refl.
  destruct (N.eqb_spec 45 f) as [<-|]; [exfalso; apply Hh; cbn; tauto|reflexivity].
Qed.

(* fields: non-empty texts a0++[ea], b0++[eb] and c, free of both separators, whose boundary characters are not separator
   characters  ->  the PDA label is read back exactly *)
Theorem pda_label_roundtrip_fields : forall a0 ea b0 eb c,
  ~ In ea sep_chars -> ~ In eb sep_chars -> head_not_in sep_chars (b0 ++ [eb]) -> head_not_in sep_chars c ->
  occ sep_arrow (a0 ++ [ea]) = 0 -> occ sep_arrow (b0 ++ [eb]) = 0 -> occ sep_arrow c = 0 ->
  occ sep_slash (b0 ++ [eb]) = 0 -> occ sep_slash c = 0 ->
  read_pda_label (pda_label (a0 ++ [ea]) (b0 ++ [eb]) c) = Some (a0 ++ [ea], b0 ++ [eb], c).
Proof.
  intros a0 ea b0 eb c Hea Heb Hhb Hhc Aa Ab Ac Sb Sc.
  assert (Hc_arrow : head_not_in sep_arrow c) by (apply (head_not_in_sub _ sep_chars); auto using sep_arrow_chars).
  assert (Hc_slash : head_not_in sep_slash c) by (apply (head_not_in_sub _ sep_chars); auto using sep_slash_chars).
  apply pda_label_roundtrip.
  - unfold pda_label. apply occ_unique_sufficient; auto using sep_arrow_chars; try discriminate.
    + rewrite occ_left_field; auto using sep_arrow_chars; try discriminate. now apply no_arrow_across_slash.
    + apply (head_not_in_sub _ sep_chars); [apply sep_arrow_chars|].
      destruct b0 as [|f t]; cbn [app head_not_in] in *; assumption.
  - apply occ_unique_sufficient; auto using sep_slash_chars; discriminate.
Qed.

Theorem fst_label_roundtrip_fields : forall a0 ea b,
  ~ In ea sep_chars -> head_not_in sep_chars b -> occ sep_arrow (a0 ++ [ea]) = 0 -> occ sep_arrow b = 0 ->
  read_fst_label (fst_label (a0 ++ [ea]) b) = Some (a0 ++ [ea], b).
Proof.
  intros a0 ea b Hea Hhb Aa Ab. apply fst_label_roundtrip. unfold fst_label.
  apply occ_unique_sufficient; auto using sep_arrow_chars; try discriminate.
  apply (head_not_in_sub _ sep_chars); auto using sep_arrow_chars.
Qed.

(* non-vacuity: the fields "a", "Z", ["A", "Z"] *)
Example pda_fields_premises_hold :
  let a0 := [34; 97]%N in let b0 := [34; 90]%N in let c := [91; 34; 65; 34; 44; 32; 34; 90; 34; 93]%N in
  ~ In 34%N sep_chars /\ head_not_in sep_chars (b0 ++ [34%N]) /\ head_not_in sep_chars c /\
  occ sep_arrow (a0 ++ [34%N]) = 0 /\ occ sep_arrow (b0 ++ [34%N]) = 0 /\ occ sep_arrow c = 0 /\
  occ sep_slash (b0 ++ [34%N]) = 0 /\ occ sep_slash c = 0.
Proof. cbn. repeat split; try reflexivity; intros H; intuition discriminate. Qed.
