(* PDA.intersection with a deterministic automaton: the product over reachable pairs accepts by final state exactly
   the words accepted by final state by the PDA and accepted by the automaton (C11). *)
From Coq Require Import List Bool Arith NArith Lia.
From PFL Require Import Base.ListSet Base.Closure Spec.Enfa Spec.Pda Model.Enfa Model.Pda Proofs.EnfaAccepts Proofs.PdaBigStep.
Import ListNotations.

Section I.
  Context {Q G QD : Type} `{EqDec Q} `{EqDec G} `{EqDec QD}.
  Variable P : pda Q G.
  Variable D : enfa QD.
  (* epsilon moves of D, if any, are self-loops (what is_deterministic allows; none after to_deterministic) *)
  Hypothesis Deps : forall p q, In (p, None, q) (e_delta D) -> p = q.
  Lemma run_nil_inv d d' : run D d [] d' -> d = d'.
  Proof.
    intros R. remember [] as u eqn:Eu. induction R as [q|q q' w r Hd _ IH|q a q' w r Hd _ IH]; [reflexivity| |discriminate].
    rewrite (Deps _ _ Hd). now apply IH.
  Qed.
  Lemma run_sym_inv d a x d' : run D d (a :: x) d' -> exists d1, In (d, Some a, d1) (e_delta D) /\ run D d1 x d'.
  Proof.
    intros R. remember (a :: x) as u eqn:Eu. induction R as [q|q q' w r Hd _ IH|q b q' w r Hd R _]; [discriminate| |].
    - rewrite (Deps _ _ Hd). now apply IH.
    - inversion Eu; subst. eauto.
  Qed.
  Variables (n : nat) (R : pda (Q * QD) G).
  Hypothesis HR : pda_inter P D n = Some R.

  Lemma d_next_In d l d' : In d' (d_next D d l) <-> match l with None => d' = d | Some a => In (d, Some a, d') (e_delta D) end.
  Proof. destruct l as [a|]; cbn [d_next]; [apply succs_In|]. split; [intros [E|[]]; auto|intros ->; now left]. Qed.

  Lemma pi_succ_In qd qd' : In qd' (pi_succ P D qd) <->
    exists l A push, In (fst qd, l, A, fst qd', push) (p_delta P) /\ In (snd qd') (d_next D (snd qd) l).
  Proof.
    unfold pi_succ. rewrite in_flat_map. split.
    - intros [[[[[q l] A] r] push] [Hd Hm]]. destruct (eqb_spec q (fst qd)) as [->|]; [|destruct Hm]. apply in_map_iff in Hm.
      destruct Hm as [d' [<- Hd']]. cbn [fst snd]. eauto.
    - intros [l [A [push [Hd Hd']]]]. exists (fst qd, l, A, fst qd', push). split; [exact Hd|]. rewrite eqb_refl. apply in_map_iff.
      exists (snd qd'). split; [now destruct qd'|exact Hd'].
  Qed.

  Section WithStart.
    Variables (s : Q) (d0 : QD) (rest0 : list QD) (pairs : list (Q * QD)).
    Hypothesis Es : p_start P = Some s.
    Hypothesis Ed : e_starts D = d0 :: rest0.
    Hypothesis Ep : close_from (pi_succ P D) n [(s, d0)] = Some pairs.

    Lemma R_eq : R = mkP pairs (p_stack P)
                  (flat_map (fun qd => flat_map (fun t => match t with (q, l, A, r, push) =>
                       if eqb q (fst qd) then map (fun d' => (qd, l, A, (r, d'), push)) (d_next D (snd qd) l) else [] end) (p_delta P)) pairs)
                  (Some (s, d0)) (p_z0 P)
                  (filter (fun qd => mem (fst qd) (p_finals P) &&& mem (snd qd) (e_finals D)) pairs).
    Proof. unfold pda_inter in HR. rewrite Es, Ed, Ep in HR. now inversion HR. Qed.

    Lemma pairs_reach qd : In qd pairs <-> reach (pi_succ P D) [(s, d0)] qd.
    Proof. apply (close_sound _ _ _ _ Ep). Qed.

    Lemma R_delta qd l A qd' push : In (qd, l, A, qd', push) (p_delta R) <->
      In qd pairs /\ In (fst qd, l, A, fst qd', push) (p_delta P) /\ In (snd qd') (d_next D (snd qd) l).
    Proof.
      rewrite R_eq. cbn [p_delta]. rewrite in_flat_map. split.
      - intros [qd0 [Hq Hm]]. apply in_flat_map in Hm. destruct Hm as [[[[[q l0] A0] r] push0] [Hd Hm]].
        destruct (eqb_spec q (fst qd0)) as [->|]; [|destruct Hm]. apply in_map_iff in Hm. destruct Hm as [d' [E Hd']]. inversion E; subst. auto.
      - intros [Hq [Hd Hd']]. exists qd. split; [exact Hq|]. apply in_flat_map. exists (fst qd, l, A, fst qd', push). split; [exact Hd|].
        rewrite eqb_refl. apply in_map_iff. exists (snd qd'). split; [now destruct qd'|exact Hd'].
    Qed.

    (* runs of the product project to runs of both components *)
    Lemma R_project c e : pstar R c e -> forall q d u st q' d' u' st', c = ((q, d), u, st) -> e = ((q', d'), u', st') ->
      exists v, u = v ++ u' /\ pstar P (q, u, st) (q', u', st') /\ run D d v d'.
    Proof.
      induction 1 as [c|c m e S1 _ IH]; intros q d u st q' d' u' st' Ec Ee; subst.
      - inversion Ee; subst. exists []. split; [reflexivity|split; [apply pstar_refl|apply run_nil]].
      - apply step_inv in S1. destruct S1 as [qd [l [A [[r dr] [push [x [rest [Ec [-> Hd]]]]]]]]]. inversion Ec; subst. clear Ec.
        apply R_delta in Hd. destruct Hd as [_ [Hd Hn]]. cbn [fst snd] in *.
        destruct (IH r dr x (push ++ rest) q' d' u' st' eq_refl eq_refl) as [v [-> [RP RD]]].
        exists (olab l ++ v). split; [now rewrite app_assoc|split].
        + eapply pstar_step; [apply pstep_label; exact Hd|exact RP].
        + apply d_next_In in Hn. destruct l as [a|]; cbn [olab app]; [now apply run_sym with dr|now subst dr].
    Qed.

    (* and a pair of runs from a reachable pair combines *)
    Lemma R_combine c e : pstar P c e -> forall q u st q' st' d d', c = (q, u, st) -> e = (q', [], st') ->
      In (q, d) pairs -> run D d u d' -> pstar R ((q, d), u, st) ((q', d'), [], st') /\ In (q', d') pairs.
    Proof.
      induction 1 as [c|c m e S1 _ IH]; intros q u st q' st' d d' Ec Ee Hq RD; subst.
      - inversion Ee; subst. apply run_nil_inv in RD. subst d'. split; [apply pstar_refl|exact Hq].
      - apply step_inv in S1. destruct S1 as [q0 [l [A [r [push [x [rest [Ec [-> Hd]]]]]]]]]. inversion Ec; subst. clear Ec.
        assert (Hn : exists d1, In d1 (d_next D d l) /\ run D d1 x d').
        { destruct l as [a|]; cbn [olab app] in RD.
          - apply run_sym_inv in RD. destruct RD as [d1 [Hd' RD']]. exists d1. split; [now apply d_next_In|exact RD'].
          - exists d. split; [now apply d_next_In|exact RD]. }
        destruct Hn as [d1 [Hn RD1]].
        assert (Hq1 : In (r, d1) pairs).
        { apply pairs_reach. apply reach_step with (q0, d); [now apply pairs_reach|]. apply pi_succ_In. cbn [fst snd]. eauto. }
        destruct (IH r x (push ++ rest) q' st' d1 d' eq_refl eq_refl Hq1 RD1) as [RR Hq'].
        split; [|exact Hq']. eapply pstar_step; [|exact RR]. apply pstep_label. apply R_delta. cbn [fst snd]. auto.
    Qed.

    Lemma inter_spec_start w : one_start D -> (acc_final R w <-> acc_final P w /\ Lang D w).
    Proof.
      intros O1. unfold acc_final. rewrite R_eq. cbn [p_start p_z0 p_finals]. rewrite <- R_eq. split.
      - intros [s0 [z [[f df] [st [E1 [Ez [Hf RR]]]]]]]. inversion E1; subst s0. apply filter_In in Hf. destruct Hf as [Hfp Hf].
        apply land_true_iff in Hf. destruct Hf as [Hf1 Hf2]. apply mem_In in Hf1. apply mem_In in Hf2. cbn [fst snd] in *.
        destruct (R_project _ _ RR s d0 w [z] f df [] st eq_refl eq_refl) as [v [Ev [RP RD]]]. rewrite app_nil_r in Ev. subst v. split.
        + exists s, z, f, st. auto.
        + exists d0, df. split; [rewrite Ed; now left|auto].
      - intros [[s0 [z [f [st [E1 [Ez [Hf RP]]]]]]] [ds [df [Hds [Hdf RD]]]]]. rewrite Es in E1. inversion E1; subst s0.
        assert (ds = d0) by (apply O1; [exact Hds|rewrite Ed; now left]). subst ds.
        assert (Hin0 : In (s, d0) pairs) by (apply pairs_reach; apply reach_init; now left).
        destruct (R_combine _ _ RP s w [z] f st d0 df eq_refl eq_refl Hin0 RD) as [RR Hq].
        exists (s, d0), z, (f, df), st. split; [reflexivity|split; [exact Ez|split; [|exact RR]]].
        apply filter_In. split; [exact Hq|]. apply land_true_iff. cbn [fst snd]. split; now apply mem_In.
    Qed.
  End WithStart.

  (* PDA.intersection on a deterministic automaton (no epsilon moves, at most one start state) *)
  Theorem pda_inter_spec w : one_start D -> (acc_final R w <-> acc_final P w /\ Lang D w).
  Proof.
    intros O1. pose proof HR as HR'. unfold pda_inter in HR'. destruct (p_start P) as [s|] eqn:Es.
    - destruct (e_starts D) as [|d0 rest0] eqn:Ed.
      + inversion HR'; subst. split.
        * intros [s0 [z [f [st [E _]]]]]. discriminate.
        * intros [_ [ds [df [Hds _]]]]. rewrite Ed in Hds. destruct Hds.
      + destruct (close_from (pi_succ P D) n [(s, d0)]) as [pairs|] eqn:Ep; [|discriminate].
        now apply (inter_spec_start s d0 rest0 pairs Es Ed Ep).
    - inversion HR'; subst. split.
      + intros [s0 [z [f [st [E _]]]]]. discriminate.
      + intros [[s0 [z [f [st [E _]]]]] _]. rewrite Es in E. discriminate.
  Qed.
End I.
