From Coq Require Import List Bool NArith Lia.
From PFL Require Import Base.ListSet Base.Closure Spec.Enfa Model.Enfa Model.EnfaOps
  Proofs.EnfaAccepts Proofs.EnfaSets Proofs.EnfaRuns.
Import ListNotations.

Section RE.
  Context {Q : Type} `{EqDec Q}.
  Variable A : enfa Q.
  Hypothesis Hwf : wf A.
  Let B := remove_eps A.

  Lemma B_edge q l r : In (q, l, r) (e_delta B) <->
    exists a e, l = Some a /\ In q (e_states A) /\ In e (eclose A [q]) /\ In (e, Some a, r) (e_delta A) /\ In a (e_syms A).
  Proof.
    unfold B, remove_eps. cbn [e_delta]. rewrite in_flat_map. split.
    - intros [q0 [Hq0 Hin]]. apply in_flat_map in Hin. destruct Hin as [e [He Hin]].
      apply in_flat_map in Hin. destruct Hin as [[[p [a|]] r'] [Hd Hin]]; [|destruct Hin].
      destruct (eqb_spec p e) as [->|]; [|destruct Hin]. destruct (mem a (e_syms A)) eqn:M; [|destruct Hin].
      cbn [andb] in Hin. destruct Hin as [E|[]]. inversion E; subst. apply mem_In in M.
      exists a, e. auto.
    - intros [a [e [-> [Hq [He [Hd Ha]]]]]]. exists q. split; [exact Hq|]. apply in_flat_map. exists e. split; [exact He|].
      apply in_flat_map. exists (e, Some a, r). split; [exact Hd|]. rewrite eqb_refl. apply mem_In in Ha. rewrite Ha. now left.
  Qed.

  Lemma B_eps_free : eps_free B.
  Proof. intros p q Hd. apply B_edge in Hd. destruct Hd as [a [e [E _]]]. discriminate. Qed.

  Lemma B_final f : In f (e_finals B) <->
    In f (e_finals A) \/ (In f (e_states A) /\ exists f0, In f0 (eclose A [f]) /\ In f0 (e_finals A)).
  Proof.
    unfold B, remove_eps. cbn [e_finals]. rewrite in_app_iff, filter_In. unfold is_final_set. rewrite existsb_exists.
    split; (intros [F|[F1 [f0 [F2 F3]]]]; [now left|right; split; [exact F1|exists f0; split; [exact F2|]]]).
    - now apply mem_In. - now apply mem_In.
  Qed.

  Lemma epath1_run q r : epath A [q] r -> run A q [] r.
  Proof.
    unfold epath. induction 1 as [x Hx|x y Hx IH Hy].
    - destruct Hx as [->|[]]. apply run_nil.
    - apply succs_In in Hy. rewrite <- (app_nil_r []). apply (run_snoc A q [] x None y IH Hy).
  Qed.

  Lemma eclose_edge_incl q q' : In (q, None, q') (e_delta A) -> incl (eclose A [q']) (eclose A [q]).
  Proof.
    intros Hd x. rewrite !eclose_spec. unfold epath. induction 1 as [y Hy|y z Hy IH Hz].
    - destruct Hy as [<-|[]]. apply reach_step with q; [apply reach_init; now left|now apply succs_In].
    - eapply reach_step; eauto.
  Qed.

  (* B-runs are A-runs *)
  Lemma run_B_A q w r : run B q w r -> forall f, epath A [r] f -> run A q w f.
  Proof.
    induction 1 as [q|q q' w r Hd R IH|q a q' w r Hd R IH]; intros f Hf.
    - now apply epath1_run.
    - destruct (B_eps_free _ _ Hd).
    - apply B_edge in Hd. destruct Hd as [a' [e [E [Hq [He [Hd Ha]]]]]]. inversion E; subst a'.
      apply eclose_spec in He. apply epath1_run in He.
      change (a :: w) with ([] ++ a :: w). eapply run_app; [exact He|].
      apply run_sym with q'; [exact Hd|now apply IH].
  Qed.

  Lemma lift q q' w f : In q (e_states A) -> In (q, None, q') (e_delta A) -> run B q' w f -> In f (e_finals B) ->
    exists f', In f' (e_finals B) /\ run B q w f'.
  Proof.
    intros Hq Hd R Hf. pose proof (eclose_edge_incl _ _ Hd) as I.
    inversion R as [q0|q0 q1 w0 r0 Hd0 R0|q0 a q1 w0 r0 Hd0 R0]; subst.
    - exists q. split; [|apply run_nil]. apply B_final. right. split; [exact Hq|].
      apply B_final in Hf. destruct Hf as [Hf|[_ [f0 [F1 F2]]]].
      + exists f. split; [apply I, eclose_incl; now left|exact Hf].
      + exists f0. split; [now apply I|exact F2].
    - destruct (B_eps_free _ _ Hd0).
    - exists f. split; [exact Hf|]. apply run_sym with q1; [|exact R0].
      apply B_edge in Hd0. destruct Hd0 as [a' [e [E [_ [He [Hd0 Ha]]]]]]. apply B_edge. exists a', e. auto.
  Qed.

  Lemma run_A_B q w f : run A q w f -> In f (e_finals A) -> In q (e_states A) ->
    exists f', In f' (e_finals B) /\ run B q w f'.
  Proof.
    destruct Hwf as [W1 [W2 _]].
    induction 1 as [q|q q' w r Hd R IH|q a q' w r Hd R IH]; intros Hf Hq.
    - exists q. split; [apply B_final; now left|apply run_nil].
    - destruct (W1 _ _ _ Hd) as [_ Hq']. destruct (IH Hf Hq') as [f' [F1 F2]]. eapply lift; eauto.
    - destruct (W1 _ _ _ Hd) as [_ Hq']. destruct (IH Hf Hq') as [f' [F1 F2]]. exists f'. split; [exact F1|].
      apply run_sym with q'; [|exact F2]. apply B_edge. exists a, q. repeat split; auto.
      + apply eclose_incl. now left.
      + eapply W2; eauto.
  Qed.

  Theorem remove_eps_lang : lang_eq B A.
  Proof.
    intros w. split.
    - intros [s [f [Hs [Hf R]]]].
      assert (Hs' : epath A (e_starts A) s).
      { unfold B, remove_eps in Hs. cbn [e_starts] in Hs. apply in_app_iff in Hs. destruct Hs as [Hs|Hs].
        - now apply reach_init. - now apply eclose_spec in Hs. }
      assert (X : exists f0, In f0 (e_finals A) /\ epath A [f] f0).
      { apply B_final in Hf. destruct Hf as [Hf|[_ [f0 [F1 F2]]]].
        - exists f. split; [exact Hf|]. apply reach_init. now left.
        - exists f0. split; [exact F2|]. now apply eclose_spec in F1. }
      destruct X as [f0 [F1 F2]]. pose proof (run_B_A _ _ _ R f0 F2) as RA.
      destruct (epath_run A _ _ Hs' _ _ RA) as [s0 [S1 S2]]. exists s0, f0. auto.
    - intros [s [f [Hs [Hf R]]]]. destruct Hwf as [_ [_ [W3 _]]].
      destruct (run_A_B _ _ _ R Hf (W3 _ Hs)) as [f' [F1 F2]]. exists s, f'. repeat split; auto.
      unfold B, remove_eps. cbn [e_starts]. apply in_or_app. now left.
  Qed.

  Theorem remove_eps_eps_free : eps_free B.
  Proof. exact B_eps_free. Qed.
End RE.
