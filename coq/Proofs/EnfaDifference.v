(* get_difference = intersection with the complement of the other operand determinised over the joint alphabet (C03). *)
From Coq Require Import List Bool NArith Lia.
From PFL Require Import Base.ListSet Base.Closure Spec.Enfa Model.Enfa Model.EnfaOps Proofs.EnfaAccepts Proofs.EnfaSets Proofs.EnfaRuns
  Proofs.EnfaDet Proofs.EnfaComplement Proofs.EnfaProduct.
Import ListNotations.

Lemma run_with_syms {Q} (A : enfa Q) s p w q : run (with_syms A s) p w q <-> run A p w q.
Proof. split; induction 1; [apply run_nil|eapply run_eps; eauto|eapply run_sym; eauto|apply run_nil|eapply run_eps; eauto|eapply run_sym; eauto]. Qed.
Lemma lang_with_syms {Q} (A : enfa Q) s w : Lang (with_syms A s) w <-> Lang A w.
Proof. unfold Lang. cbn [with_syms e_starts e_finals]. split; intros [x [f [Hx [Hf R]]]]; exists x, f; (split; [exact Hx|split; [exact Hf|]]); now apply (run_with_syms A s). Qed.

Lemma run_letters {Q} (A : enfa Q) : (forall p a q, In (p, Some a, q) (e_delta A) -> In a (e_syms A)) ->
  forall p w q, run A p w q -> forall a, In a w -> In a (e_syms A).
Proof.
  intros Hs p w q R. induction R as [x|x x' w y Hd _ IH|x b x' w y Hd _ IH]; intros a Ha; [destruct Ha|now apply IH|].
  destruct Ha as [<-|Ha]; [eapply Hs; eauto|now apply IH].
Qed.

Theorem difference_spec {Q1 Q2} `{EqDec Q1} `{EqDec Q2} `{Canon Q2} (A : enfa Q1) (B : enfa Q2) (n m : nat) P :
  wf A -> wf B -> difference_fa A B n m = Some P -> forall w, Lang P w <-> Lang A w /\ ~ Lang B w.
Proof.
  intros WA WB E w. unfold difference_fa in E. set (B' := with_syms B (union (e_syms B) (e_syms A))) in *.
  destruct (determinize true B' n) as [D|] eqn:ED; [|discriminate].
  assert (HsB' : forall p a q, In (p, Some a, q) (e_delta B') -> In a (e_syms B')).
  { intros p a q Hd. cbn [B' with_syms e_syms e_delta] in *. apply union_In. left. eapply (proj1 (proj2 WB)); eauto. }
  pose proof (determinize_is_dfa true B' n D ED) as DD. pose proof (determinize_wf true B' n D ED) as WD.
  pose proof (determinize_lang true B' (fun X => match Bool.diff_true_false X with end) HsB' n D ED) as LD.
  assert (SD : e_syms D = union (e_syms B) (e_syms A)).
  { destruct (D_shape true B' n D ED) as [sts [_ ->]]. reflexivity. }
  assert (HsC : forall p a q, In (p, Some a, q) (e_delta (complement D)) -> In a (e_syms (complement D))).
  { intros p a q Hd. cbn [complement e_delta e_syms] in *. apply in_app_or in Hd. destruct Hd as [Hd|Hd].
    - apply in_map_iff in Hd. destruct Hd as [[[p0 l0] q0] [E0 Hd]]. inversion E0; subst. eapply (proj1 (proj2 WD)); eauto.
    - apply in_app_or in Hd. destruct Hd as [Hd|Hd].
      + apply in_flat_map in Hd. destruct Hd as [q0 [_ Hd]]. apply in_flat_map in Hd. destruct Hd as [a0 [Ha0 Hd]].
        destruct (step_set D (eclose D [q0]) a0); [|destruct Hd]. destruct Hd as [E0|[]]. inversion E0; subst. exact Ha0.
      + apply in_map_iff in Hd. destruct Hd as [a0 [E0 Ha0]]. inversion E0; subst. exact Ha0. }
  rewrite (intersection_lang A (complement D) (proj1 (proj2 WA)) HsC m P E w).
  split.
  - intros [LA LC]. split; [exact LA|]. intros LB.
    assert (Hw : forall a, In a w -> In a (e_syms D)).
    { intros a Ha. rewrite SD. apply union_In. right. destruct LA as [s [f [_ [_ R]]]]. eapply run_letters; eauto. apply (proj1 (proj2 WA)). }
    apply (complement_spec D DD WD w) in LC; [|exists (dstart true B'); rewrite (D_starts true B' n D ED); now left|exact Hw].
    apply LC. apply LD. now apply lang_with_syms.
  - intros [LA NB]. split; [exact LA|].
    assert (Hw : forall a, In a w -> In a (e_syms D)).
    { intros a Ha. rewrite SD. apply union_In. right. destruct LA as [s [f [_ [_ R]]]]. eapply run_letters; eauto. apply (proj1 (proj2 WA)). }
    apply (complement_spec D DD WD w); [exists (dstart true B'); rewrite (D_starts true B' n D ED); now left|exact Hw|].
    intros L. apply NB. apply (lang_with_syms B (union (e_syms B) (e_syms A))). now apply LD.
Qed.
