(* eliminate_unit_productions keeps the language and leaves no unit production (C09). *)
From Coq Require Import List Bool Arith NArith Lia.
From PFL Require Import Base.ListSet Base.Closure Spec.Cfg Model.Cfg Proofs.CfgUseless.
Import ListNotations.

Section U.
  Context {Vr : Type} `{EqDec Vr}.
  Variable G : cfg Vr.
  (* what CFG.__init__ guarantees: heads and body variables are registered variables *)
  Hypothesis Hheads : forall A body, In (A, body) (g_prods G) -> In A (g_vars G).
  Hypothesis Hbodies : forall A body B, In (A, body) (g_prods G) -> In (V B) body -> In B (g_vars G).

  Inductive uchain (A : Vr) : Vr -> Prop :=
  | uc_refl : uchain A A
  | uc_step B C : uchain A B -> In (B, [V C]) (g_prods G) -> uchain A C.

  Lemma uchain_trans A B C : uchain A B -> uchain B C -> uchain A C.
  Proof. intros U1 U2. induction U2; [exact U1|eapply uc_step; eauto]. Qed.

  Lemma unit_succs_In ab cd : In cd (unit_succs G ab) <-> exists C, cd = (fst ab, C) /\ In (snd ab, [V C]) (g_prods G).
  Proof.
    unfold unit_succs. rewrite in_flat_map. split.
    - intros [[B body] [Hp Hin]]. cbn [fst snd] in Hin. destruct body as [|[C|a] [|? ?]]; try destruct Hin.
      destruct (eqb_spec (snd ab) B) as [<-|]; [|destruct Hin]. destruct Hin as [<-|[]]. eauto.
    - intros [C [-> Hp]]. exists (snd ab, [V C]). split; [exact Hp|]. cbn [fst snd]. rewrite eqb_refl. now left.
  Qed.

  Lemma unit_pairs_spec A B : In (A, B) (unit_pairs G) <-> In A (g_vars G) /\ uchain A B.
  Proof.
    unfold unit_pairs. rewrite closure_spec.
    - split.
      + intros R. remember (A, B) as ab eqn:E. revert A B E. induction R as [x Hx|x y Hx IH Hy]; intros A B E.
        * apply in_map_iff in Hx. destruct Hx as [A0 [E0 HA]]. rewrite E in E0. injection E0 as -> ->. split; [exact HA|apply uc_refl].
        * apply unit_succs_In in Hy. destruct Hy as [C [E0 Hp]]. destruct x as [A0 B0]. cbn [fst snd] in *. rewrite E in E0. injection E0 as -> ->.
          destruct (IH A0 B0 eq_refl) as [HA U]. split; [exact HA|now apply uc_step with B0].
      + intros [HA U]. induction U as [|B0 C U IH Hp].
        * apply reach_init. apply in_map_iff. eauto.
        * apply reach_step with (A, B0); [exact IH|]. apply unit_succs_In. eauto.
    - intros [A0 B0] Hx cd Hcd. apply unit_succs_In in Hcd. destruct Hcd as [C [-> Hp]]. cbn [fst snd] in *.
      unfold unit_universe in *. apply in_prod_iff in Hx. apply in_prod_iff. split; [tauto|].
      apply in_or_app. right. apply in_flat_map. exists (B0, [V C]). split; [exact Hp|]. cbn. now left.
    - intros ab Hab. apply in_map_iff in Hab. destruct Hab as [A0 [<- HA]]. unfold unit_universe. apply in_prod_iff.
      split; apply in_or_app; now left.
  Qed.

  Definition nonunit : list (Vr * list (symb Vr)) := filter (fun p => negb (is_unit p)) (g_prods G).
  Lemma nonunit_In A body : In (A, body) nonunit <-> In (A, body) (g_prods G) /\ is_unit (A, body) = false.
  Proof. unfold nonunit. rewrite filter_In, negb_true_iff. tauto. Qed.

  Lemma elim_prods A body : In (A, body) (g_prods (eliminate_unit G)) <->
    In (A, body) nonunit \/ exists B, In (A, B) (unit_pairs G) /\ In (B, body) nonunit.
  Proof.
    unfold eliminate_unit. rewrite mkcfg_prods. fold nonunit. rewrite in_app_iff, in_flat_map. split.
    - intros [Hn|[[A0 B] [Hab Hin]]]; [now left|]. right. apply in_flat_map in Hin. destruct Hin as [[B0 body0] [Hn Hin]].
      cbn [fst snd] in Hin. destruct (eqb_spec B B0) as [<-|]; [|destruct Hin]. destruct Hin as [E|[]]. inversion E; subst. eauto.
    - intros [Hn|[B [Hab Hn]]]; [now left|]. right. exists (A, B). split; [exact Hab|]. apply in_flat_map. exists (B, body).
      split; [exact Hn|]. cbn [fst snd]. rewrite eqb_refl. now left.
  Qed.

  Lemma uchain_derives A B : uchain A B -> forall w, derives G (V B) w -> derives G (V A) w.
  Proof.
    induction 1 as [|B0 C U IH Hp]; intros w D; [exact D|]. apply IH. apply dv_var with [V C]; [exact Hp|].
    rewrite <- (app_nil_r w). apply dl_cons; [exact D|apply dl_nil].
  Qed.

  Lemma from_elim : (forall X w, derives (eliminate_unit G) X w -> derives G X w) /\
                    (forall body w, derives_list (eliminate_unit G) body w -> derives_list G body w).
  Proof.
    apply derives_mutind.
    - intros a. apply dv_ter.
    - intros A body w Hp _ IH. apply elim_prods in Hp. destruct Hp as [Hn|[B [Hab Hn]]].
      + apply nonunit_In in Hn. apply dv_var with body; tauto.
      + apply nonunit_In in Hn. apply unit_pairs_spec in Hab. apply uchain_derives with B; [tauto|]. apply dv_var with body; tauto.
    - apply dl_nil.
    - intros X rest u v _ IHX _ IHL. now apply dl_cons.
  Qed.

  Lemma is_unit_inv (A : Vr) (body : list (symb Vr)) : is_unit (A, body) = true -> exists B, body = [V B].
  Proof. unfold is_unit. cbn [snd]. destruct body as [|[B|a] [|? ?]]; try discriminate. eauto. Qed.

  Lemma to_elim :
    (forall X w, derives G X w -> match X with V A => In A (g_vars G) -> derives (eliminate_unit G) (V A) w | T _ => True end) /\
    (forall body w, derives_list G body w -> (forall B, In (V B) body -> In B (g_vars G)) -> derives_list (eliminate_unit G) body w).
  Proof.
    apply derives_mutind.
    - intros a. exact I.
    - intros A body w Hp DL IH HA.
      assert (Hb : forall B, In (V B) body -> In B (g_vars G)) by (intros B HB; eapply Hbodies; eauto).
      specialize (IH Hb). destruct (is_unit (A, body)) eqn:U.
      + destruct (is_unit_inv _ _ U) as [B ->]. inversion IH as [|X rest u v DX DL' E1 E2]; subst. inversion DL'; subst.
        rewrite app_nil_r. inversion DX as [|B0 body' w0 Hp' DL'' E1 E2]; subst.
        apply elim_prods in Hp'. apply dv_var with body'; [|exact DL'']. apply elim_prods. right.
        destruct Hp' as [Hn|[C [Hbc Hn]]].
        * exists B. split; [|exact Hn]. apply unit_pairs_spec. split; [exact HA|]. apply uc_step with A; [apply uc_refl|exact Hp].
        * exists C. split; [|exact Hn]. apply unit_pairs_spec in Hbc. apply unit_pairs_spec. split; [exact HA|].
          apply uchain_trans with B; [apply uc_step with A; [apply uc_refl|exact Hp]|tauto].
      + apply dv_var with body; [|exact IH]. apply elim_prods. left. apply nonunit_In. auto.
    - intros _. apply dl_nil.
    - intros X rest u v DX IHX _ IHL F. apply dl_cons.
      + destruct X as [B|a]; [apply IHX; apply F; now left|]. inversion DX; subst. apply dv_ter.
      + apply IHL. intros B HB. apply F. now right.
  Qed.

  Theorem eliminate_unit_lang w : LangG (eliminate_unit G) w <-> LangG G w.
  Proof.
    unfold LangG. change (g_start (eliminate_unit G)) with (g_start G). destruct (g_start G) as [s|] eqn:Es; [|tauto]. split.
    - apply (proj1 from_elim).
    - intros D. apply (proj1 to_elim _ _ D). inversion D as [|A body w0 Hp _ E1 E2]; subst. eapply Hheads; eauto.
  Qed.

  Theorem eliminate_unit_shape A body : In (A, body) (g_prods (eliminate_unit G)) -> is_unit (A, body) = false.
  Proof.
    intros Hp. apply elim_prods in Hp. destruct Hp as [Hn|[B [_ Hn]]]; apply nonunit_In in Hn; [tauto|].
    destruct Hn as [_ U]. unfold is_unit in *. exact U.
  Qed.
End U.
