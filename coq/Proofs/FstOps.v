(* FST union / concatenate / kleene_star compose the operand relations; to_fst is the identity on the language (C16). *)
From Coq Require Import List Bool Arith NArith Lia.
From PFL Require Import Base.ListSet Spec.Fst Spec.Enfa Model.Fst Proofs.FstTranslate.
Import ListNotations.

Lemma lift_ft_In {Q R} (f : Q -> R) d p' l q' o : In (p', l, q', o) (lift_ft f d) <-> exists p q, p' = f p /\ q' = f q /\ In (p, l, q, o) d.
Proof.
  unfold lift_ft. rewrite in_map_iff. split.
  - intros [[[[p l0] q] o0] [E Hd]]. inversion E; subst. eauto.
  - intros [p [q [-> [-> Hd]]]]. exists (p, l, q, o). auto.
Qed.

(* a copy of A embedded by an injection f, closed under the transitions of the host *)
Section Embed.
  Context {Q R : Type}.
  Variables (A : fst Q) (F : fst R) (f : Q -> R).
  Hypothesis Hin : forall p l q o, In (p, l, q, o) (f_delta A) -> In (f p, l, f q, o) (f_delta F).
  Lemma embed_run p w o q : frun A p w o q -> frun F (f p) w o (f q).
  Proof. induction 1 as [q|q q' o1 w o2 r Hd _ IH|q a q' o1 w o2 r Hd _ IH]; [apply fr_nil|apply fr_eps with (f q'); auto|apply fr_sym with (f q'); auto]. Qed.
  Hypothesis Hout : forall p l r o, In (f p, l, r, o) (f_delta F) -> exists q, r = f q /\ In (p, l, q, o) (f_delta A).
  Lemma embed_run_inv x w o y : frun F x w o y -> forall p, x = f p -> exists q, y = f q /\ frun A p w o q.
  Proof.
    induction 1 as [x|x x' o1 w o2 y Hd _ IH|x a x' o1 w o2 y Hd _ IH]; intros p ->.
    - exists p. split; [reflexivity|apply fr_nil].
    - destruct (Hout _ _ _ _ Hd) as [q' [-> Hd']]. destruct (IH q' eq_refl) as [q [-> R']]. exists q. split; [reflexivity|now apply fr_eps with q'].
    - destruct (Hout _ _ _ _ Hd) as [q' [-> Hd']]. destruct (IH q' eq_refl) as [q [-> R']]. exists q. split; [reflexivity|now apply fr_sym with q'].
  Qed.
End Embed.

Section Union.
  Context {Q1 Q2 : Type}.
  Variables (A : fst Q1) (B : fst Q2).
  Notation U := (fst_union A B).
  Lemma U_inl p l r o : In (inl p, l, r, o) (f_delta U) <-> exists q, r = inl q /\ In (p, l, q, o) (f_delta A).
  Proof.
    cbn [fst_union f_delta]. rewrite in_app_iff, !lift_ft_In. split.
    - intros [[p0 [q [E [-> Hd]]]]|[p0 [q [E _]]]]; [inversion E; subst; eauto|discriminate].
    - intros [q [-> Hd]]. left. eauto.
  Qed.
  Lemma U_inr p l r o : In (inr p, l, r, o) (f_delta U) <-> exists q, r = inr q /\ In (p, l, q, o) (f_delta B).
  Proof.
    cbn [fst_union f_delta]. rewrite in_app_iff, !lift_ft_In. split.
    - intros [[p0 [q [E _]]]|[p0 [q [E [-> Hd]]]]]; [discriminate|inversion E; subst; eauto].
    - intros [q [-> Hd]]. right. eauto.
  Qed.
  Theorem fst_union_rel w o : Rel U w o <-> Rel A w o \/ Rel B w o.
  Proof.
    unfold Rel. cbn [fst_union f_starts f_finals]. split.
    - intros [s [f [Hs [Hf R]]]]. apply in_app_or in Hs. destruct Hs as [Hs|Hs]; apply in_map_iff in Hs; destruct Hs as [s0 [<- Hs]].
      + left. destruct (embed_run_inv A U inl (fun p l r o => proj1 (U_inl p l r o)) _ _ _ _ R s0 eq_refl) as [q [-> R']].
        apply in_app_or in Hf. destruct Hf as [Hf|Hf]; apply in_map_iff in Hf; destruct Hf as [f0 [E Hf]]; inversion E; subst. eauto.
      + right. destruct (embed_run_inv B U inr (fun p l r o => proj1 (U_inr p l r o)) _ _ _ _ R s0 eq_refl) as [q [-> R']].
        apply in_app_or in Hf. destruct Hf as [Hf|Hf]; apply in_map_iff in Hf; destruct Hf as [f0 [E Hf]]; inversion E; subst. eauto.
    - intros [[s [f [Hs [Hf R]]]]|[s [f [Hs [Hf R]]]]].
      + exists (inl s), (inl f). split; [apply in_or_app; left; now apply in_map|split; [apply in_or_app; left; now apply in_map|]].
        apply (embed_run A U inl); [|exact R]. intros p l q o0 Hd. apply U_inl. eauto.
      + exists (inr s), (inr f). split; [apply in_or_app; right; now apply in_map|split; [apply in_or_app; right; now apply in_map|]].
        apply (embed_run B U inr); [|exact R]. intros p l q o0 Hd. apply U_inr. eauto.
  Qed.
End Union.

Section Concat.
  Context {Q1 Q2 : Type}.
  Variables (A : fst Q1) (B : fst Q2).
  Notation C := (fst_concat A B).
  Lemma bridge_In x l y o : In (x, l, y, o) (flat_map (fun f => map (fun s => (@inl Q1 Q2 f, @None N, @inr Q1 Q2 s, @nil N)) (f_starts B)) (f_finals A)) <->
    exists f s, x = inl f /\ l = None /\ y = inr s /\ o = [] /\ In f (f_finals A) /\ In s (f_starts B).
  Proof.
    rewrite in_flat_map. split.
    - intros [f [Hf Hm]]. apply in_map_iff in Hm. destruct Hm as [s [E Hs]]. inversion E; subst. exists f, s. auto 7.
    - intros [f [s [-> [-> [-> [-> [Hf Hs]]]]]]]. exists f. split; [exact Hf|]. apply in_map_iff. eauto.
  Qed.
  Lemma C_inr p l r o : In (inr p, l, r, o) (f_delta C) <-> exists q, r = inr q /\ In (p, l, q, o) (f_delta B).
  Proof.
    cbn [fst_concat f_delta]. rewrite !in_app_iff, !lift_ft_In, bridge_In. split.
    - intros [[p0 [q [E _]]]|[[p0 [q [E [-> Hd]]]]|[f [s [E _]]]]]; [discriminate|inversion E; subst; eauto|discriminate].
    - intros [q [-> Hd]]. right. left. eauto.
  Qed.
  Lemma C_inl p l r o : In (inl p, l, r, o) (f_delta C) <->
    (exists q, r = inl q /\ In (p, l, q, o) (f_delta A)) \/ (exists s, l = None /\ r = inr s /\ o = [] /\ In p (f_finals A) /\ In s (f_starts B)).
  Proof.
    cbn [fst_concat f_delta]. rewrite !in_app_iff, !lift_ft_In, bridge_In. split.
    - intros [[p0 [q [E [-> Hd]]]]|[[p0 [q [E _]]]|[f [s [E [-> [-> [-> [Hf Hs]]]]]]]]].
      + inversion E; subst. left. eauto.
      + discriminate.
      + inversion E; subst. right. exists s. auto.
    - intros [[q [-> Hd]]|[s [-> [-> [-> [Hf Hs]]]]]]; [left; eauto|right; right; exists p, s; auto 7].
  Qed.

  Lemma C_split x w o y : frun C x w o y -> forall p r, x = inl p -> y = inr r ->
    exists w1 w2 o1 o2 f s, w = w1 ++ w2 /\ o = o1 ++ o2 /\ frun A p w1 o1 f /\ In f (f_finals A) /\ In s (f_starts B) /\ frun B s w2 o2 r.
  Proof.
    induction 1 as [x|x x' o1 w o2 y Hd R IH|x a x' o1 w o2 y Hd R IH]; intros p r Ex Ey; subst.
    - discriminate.
    - apply C_inl in Hd. destruct Hd as [[q [-> Hd]]|[s [_ [-> [-> [Hf Hs]]]]]].
      + destruct (IH q r eq_refl eq_refl) as [w1 [w2 [u1 [u2 [f [s [-> [-> [RA [Hf [Hs RB]]]]]]]]]]].
        exists w1, w2, (o1 ++ u1), u2, f, s. split; [reflexivity|split; [now rewrite app_assoc|split; [now apply fr_eps with q|auto]]].
      + destruct (embed_run_inv B C inr (fun p l r o => proj1 (C_inr p l r o)) _ _ _ _ R s eq_refl) as [q [E RB]]. inversion E; subst q.
        exists [], w, [], o2, p, s. split; [reflexivity|split; [reflexivity|split; [apply fr_nil|auto]]].
    - apply C_inl in Hd. destruct Hd as [[q [-> Hd]]|[s [E _]]]; [|discriminate].
      destruct (IH q r eq_refl eq_refl) as [w1 [w2 [u1 [u2 [f [s [-> [-> [RA [Hf [Hs RB]]]]]]]]]]].
      exists (a :: w1), w2, (o1 ++ u1), u2, f, s. split; [reflexivity|split; [now rewrite app_assoc|split; [now apply fr_sym with q|auto]]].
  Qed.

  Theorem fst_concat_rel w o : Rel C w o <-> exists w1 w2 o1 o2, w = w1 ++ w2 /\ o = o1 ++ o2 /\ Rel A w1 o1 /\ Rel B w2 o2.
  Proof.
    unfold Rel. cbn [fst_concat f_starts f_finals]. split.
    - intros [s [f [Hs [Hf R]]]]. apply in_map_iff in Hs. destruct Hs as [s0 [<- Hs]]. apply in_map_iff in Hf. destruct Hf as [f0 [<- Hf]].
      destruct (C_split _ _ _ _ R s0 f0 eq_refl eq_refl) as [w1 [w2 [o1 [o2 [f [s [-> [-> [RA [Hf' [Hs' RB]]]]]]]]]]].
      exists w1, w2, o1, o2. split; [reflexivity|split; [reflexivity|split; eauto]].
    - intros [w1 [w2 [o1 [o2 [-> [-> [[s1 [f1 [Hs1 [Hf1 R1]]]] [s2 [f2 [Hs2 [Hf2 R2]]]]]]]]]]].
      exists (inl s1), (inr f2). split; [now apply in_map|split; [now apply in_map|]].
      apply frun_app with (inl f1).
      + apply (embed_run A C inl); [|exact R1]. intros p l q o0 Hd. apply C_inl. left. eauto.
      + change o2 with ([] ++ o2). apply fr_eps with (inr s2).
        * apply C_inl. right. exists s2. auto.
        * apply (embed_run B C inr); [|exact R2]. intros p l q o0 Hd. apply C_inr. eauto.
  Qed.
End Concat.

Section Star.
  Context {Q : Type}.
  Variable A : fst Q.
  Notation S := (fst_star A).
  Lemma S_Some p l r o : In (Some p, l, r, o) (f_delta S) <->
    (exists q, r = Some q /\ In (p, l, q, o) (f_delta A)) \/ (l = None /\ r = None /\ o = [] /\ In p (f_finals A)).
  Proof.
    cbn [fst_star f_delta]. rewrite !in_app_iff, lift_ft_In, !in_map_iff. split.
    - intros [[p0 [q [E [-> Hd]]]]|[[s [E _]]|[f [E Hf]]]]; [inversion E; subst; left; eauto|discriminate|inversion E; subst; right; auto].
    - intros [[q [-> Hd]]|[-> [-> [-> Hf]]]]; [left; eauto|right; right; eauto].
  Qed.
  Lemma S_None l r o : In (None, l, r, o) (f_delta S) <-> exists s, l = None /\ r = Some s /\ o = [] /\ In s (f_starts A).
  Proof.
    cbn [fst_star f_delta]. rewrite !in_app_iff, lift_ft_In, !in_map_iff. split.
    - intros [[p0 [q [E _]]]|[[s [E Hs]]|[f [E _]]]]; [discriminate|inversion E; subst; eauto|discriminate].
    - intros [s [-> [-> [-> Hs]]]]. right. left. eauto.
  Qed.

  Definition star_pairs (w o : list N) : Prop :=
    exists pairs : list (list N * list N), w = concat (map Datatypes.fst pairs) /\ o = concat (map snd pairs) /\ Forall (fun p => Rel A (Datatypes.fst p) (snd p)) pairs.

  Lemma S_split x w o y : frun S x w o y -> y = None ->
    (x = None -> star_pairs w o) /\
    (forall p, x = Some p -> exists w1 w2 o1 o2 f, w = w1 ++ w2 /\ o = o1 ++ o2 /\ frun A p w1 o1 f /\ In f (f_finals A) /\ star_pairs w2 o2).
  Proof.
    induction 1 as [x|x x' o1 w o2 y Hd R IH|x a x' o1 w o2 y Hd R IH]; intros Ey; subst.
    - split; [intros _; exists []; auto|intros p E; discriminate].
    - specialize (IH eq_refl). destruct IH as [IHN IHS]. split.
      + intros ->. apply S_None in Hd. destruct Hd as [s [_ [-> [-> Hs]]]].
        destruct (IHS s eq_refl) as [w1 [w2 [u1 [u2 [f [-> [-> [RA [Hf [pairs [-> [-> F]]]]]]]]]]]].
        exists ((w1, u1) :: pairs). cbn [map Datatypes.fst snd concat app]. split; [reflexivity|split; [reflexivity|]]. constructor; [|exact F].
        cbn [Datatypes.fst snd]. exists s, f. auto.
      + intros p ->. apply S_Some in Hd. destruct Hd as [[q [-> Hd]]|[_ [-> [-> Hf]]]].
        * destruct (IHS q eq_refl) as [w1 [w2 [u1 [u2 [f [-> [-> [RA [Hf SP]]]]]]]]].
          exists w1, w2, (o1 ++ u1), u2, f. split; [reflexivity|split; [now rewrite app_assoc|split; [now apply fr_eps with q|auto]]].
        * exists [], w, [], o2, p. split; [reflexivity|split; [reflexivity|split; [apply fr_nil|auto]]].
    - specialize (IH eq_refl). destruct IH as [IHN IHS]. split.
      + intros ->. apply S_None in Hd. destruct Hd as [s [E _]]. discriminate.
      + intros p ->. apply S_Some in Hd. destruct Hd as [[q [-> Hd]]|[E _]]; [|discriminate].
        destruct (IHS q eq_refl) as [w1 [w2 [u1 [u2 [f [-> [-> [RA [Hf SP]]]]]]]]].
        exists (a :: w1), w2, (o1 ++ u1), u2, f. split; [reflexivity|split; [now rewrite app_assoc|split; [now apply fr_sym with q|auto]]].
  Qed.

  Theorem fst_star_rel w o : Rel S w o <-> star_pairs w o.
  Proof.
    unfold Rel. cbn [fst_star f_starts f_finals]. split.
    - intros [s [f [[<-|[]] [[<-|[]] R]]]]. apply (proj1 (S_split _ _ _ _ R eq_refl) eq_refl).
    - intros [pairs [-> [-> F]]]. exists None, None. split; [now left|split; [now left|]].
      induction F as [|[w1 o1] pairs [s [f [Hs [Hf R]]]] F IH]; [apply fr_nil|]. cbn [map Datatypes.fst snd concat] in *.
      change (o1 ++ concat (map snd pairs)) with ([] ++ o1 ++ concat (map snd pairs)).
      apply fr_eps with (Some s); [apply S_None; eauto|].
      apply frun_app with (Some f).
      + apply (embed_run A S Some); [|exact R]. intros p l q o0 Hd. apply S_Some. left. eauto.
      + change (concat (map snd pairs)) with ([] ++ concat (map snd pairs)).
        apply fr_eps with None; [apply S_Some; right; auto|exact IH].
  Qed.
End Star.

Section ToFst.
  Context {Q : Type}.
  Variable A : enfa Q.
  Notation F := (enfa_to_fst A).
  Lemma F_delta p l q o : In (p, l, q, o) (f_delta F) <-> In (p, l, q) (e_delta A) /\ o = match l with Some a => [a] | None => [] end.
  Proof.
    cbn [enfa_to_fst f_delta]. rewrite in_map_iff. split.
    - intros [[[p0 l0] q0] [E Hd]]. inversion E; subst. auto.
    - intros [Hd ->]. exists (p, l, q). auto.
  Qed.
  Lemma F_run p w o q : frun F p w o q <-> o = w /\ run A p w q.
  Proof.
    split.
    - induction 1 as [x|x x' o1 w o2 y Hd _ [-> IH]|x a x' o1 w o2 y Hd _ [-> IH]].
      + split; [reflexivity|apply run_nil].
      + apply F_delta in Hd. destruct Hd as [Hd ->]. split; [reflexivity|now apply run_eps with x'].
      + apply F_delta in Hd. destruct Hd as [Hd ->]. split; [reflexivity|now apply run_sym with x'].
    - intros [-> R]. induction R as [x|x x' w y Hd _ IH|x a x' w y Hd _ IH].
      + apply fr_nil.
      + change w with ([] ++ w). apply fr_eps with x'; [apply F_delta; auto|exact IH].
      + change (a :: w) with ([a] ++ w) at 2. apply fr_sym with x'; [apply F_delta; auto|exact IH].
  Qed.
  Theorem to_fst_rel w o : Rel F w o <-> o = w /\ Lang A w.
  Proof.
    unfold Rel, Lang. cbn [enfa_to_fst f_starts f_finals]. split.
    - intros [s [f [Hs [Hf R]]]]. apply F_run in R. destruct R as [-> R]. eauto 6.
    - intros [-> [s [f [Hs [Hf R]]]]]. exists s, f. split; [exact Hs|split; [exact Hf|]]. apply F_run. auto.
  Qed.
End ToFst.
