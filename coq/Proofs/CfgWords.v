From Coq Require Import List Bool Arith NArith Lia.
From PFL Require Import Base.ListSet Spec.Cfg Model.Cfg Model.CfgWords Oracle.CfgMember Oracle.CfgMemberSound.
Import ListNotations.

Lemma words_upto_In syms k w : In w (words_upto syms k) <-> (length w <= k /\ forall a, In a w -> In a syms).
Proof.
  revert w. induction k as [|k IH]; intros w; cbn [words_upto].
  - split.
    + intros [<-|[]]. split; [cbn; lia|intros a []].
    + intros [L _]. destruct w; [now left|cbn in L; lia].
  - cbn [In]. rewrite in_flat_map. split.
    + intros [<-|[u [Hu Hw]]]; [split; [cbn; lia|intros a []]|].
      apply in_map_iff in Hw. destruct Hw as [a [<- Ha]]. apply IH in Hu. destruct Hu as [L F].
      split; [cbn; lia|]. intros b [<-|Hb]; auto.
    + intros [L F]. destruct w as [|a u]; [now left|]. right. exists u. split.
      * apply IH. split; [cbn in L; lia|intros b Hb; apply F; now right].
      * apply in_map_iff. exists a. split; [reflexivity|apply F; now left].
Qed.

Section W.
  Context {Vr : Type} `{EqDec Vr}.
  Variable G : cfg Vr.

  Lemma derives_terms :
    (forall X w, derives G X w -> match X with V _ => forall a, In a w -> In a (prod_terms G) | T b => w = [b] end) /\
    (forall body w, derives_list G body w -> (forall b, In (T b) body -> In b (prod_terms G)) -> forall a, In a w -> In a (prod_terms G)).
  Proof.
    apply derives_mutind.
    - reflexivity.
    - intros A body w Hp DL IH a Ha. apply IH; [|exact Ha]. intros b Hb. unfold prod_terms. apply dedup_In.
      apply in_flat_map. exists (A, body). split; [exact Hp|]. cbn [snd]. unfold body_terms. apply in_flat_map. exists (T b). split; [exact Hb|now left].
    - intros _ a [].
    - intros X rest u v DX IHX DL IHL F a Ha. apply in_app_iff in Ha. destruct Ha as [Ha|Ha].
      + destruct X as [B|b]; [now apply IHX|]. subst u. destruct Ha as [<-|[]]. apply F. now left.
      + apply IHL; [|exact Ha]. intros b Hb. apply F. now right.
  Qed.

  Theorem get_words_spec n : NoDup (get_words G n) /\ forall w, In w (get_words G n) <-> (LangG G w /\ length w <= n).
  Proof.
    split; [apply dedup_NoDup|]. intros w. unfold get_words. rewrite dedup_In, filter_In, words_upto_In, cfg_member_spec. split.
    - tauto.
    - intros [L Ln]. split; [|exact L]. split; [exact Ln|]. unfold LangG in L. destruct (g_start G) as [s|]; [|destruct L].
      apply (proj1 derives_terms _ _ L).
  Qed.
End W.
