(* RecursiveAutomaton.from_regex / from_ebnf (C20): a box is Regex(body).to_epsilon_nfa().minimize(), i.e. the counter-based
   construction, the subset construction, then minimisation. Composition of the three proved models. *)
From Coq Require Import List NArith.
From PFL Require Import Base.ListSet Spec.Enfa Spec.Regex Model.Enfa Model.EnfaOps Proofs.EnfaDet Model.Thompson Proofs.Thompson
  Proofs.Rational Oracle.EnfaEquiv Oracle.EnfaMinimal Model.Minimize Proofs.Minimize.
Import ListNotations.

Definition box_model (c n m : nat) (r : re) : option (enfa (list nat)) :=
  match determinize true (re_enfa_at c r) n with
  | Some D => Some (minimize_model D m)
  | None => None
  end.

Theorem box_model_lang (c n m : nat) (r : re) (B : enfa (list nat)) :
  box_model c n m r = Some B ->
  (forall D, determinize true (re_enfa_at c r) n = Some D -> forall p q, enfa_equiv (reroot D p) (reroot D q) m <> None) ->
  (forall w, Lang B w <-> den r w) /\ is_dfa B.
Proof.
  unfold box_model. destruct (determinize true (re_enfa_at c r) n) as [D|] eqn:ED; [|discriminate].
  intros E Hfuel. inversion E; subst B. clear E. specialize (Hfuel D eq_refl).
  pose proof (determinize_is_dfa true (re_enfa_at c r) n D ED) as Ddfa.
  pose proof (determinize_wf true (re_enfa_at c r) n D ED) as Dwf.
  pose proof (proj1 (proj2 (re_enfa_at_wf c r))) as Hsyms.
  split.
  - intros w. rewrite (minimize_lang D m Ddfa Dwf Hfuel w).
    rewrite (determinize_lang true (re_enfa_at c r) (fun E => ltac:(discriminate)) Hsyms n D ED w). apply re_enfa_at_lang.
  - now apply minimize_dfa.
Qed.
