(* CFG.to_text / CFG.from_text at the level of lines of tokens (C20): every production is printed as its head and the to_text of its
   body symbols; _read_line classifies each body component and drops the unmarked epsilon spellings. str.split / splitlines and the
   quoting of the markers are outside the model. *)
From Coq Require Import List Bool NArith.
From PFL Require Import Model.TextMarkers.
Import ListNotations.

Definition body_to_text (body : list gsym) : list (marker * sval) := map to_text body.
Definition body_from_text (toks : list (marker * sval)) : list gsym :=
  flat_map (fun t => match from_text t with Some s => [s] | None => [] end) toks.

Lemma body_text_roundtrip body : Forall (fun s => eps_spelling (value_of s) = false) body ->
  body_from_text (body_to_text body) = body.
Proof.
  induction 1 as [|s body Hs _ IH]; [reflexivity|]. unfold body_to_text, body_from_text in *. simpl.
  rewrite (symbol_text_roundtrip s Hs). simpl. now rewrite IH.
Qed.

(* a grammar as the list of its lines (head value, body) *)
Definition lines_to_text (prods : list (sval * list gsym)) : list (sval * list (marker * sval)) :=
  map (fun p => (fst p, body_to_text (snd p))) prods.
Definition lines_from_text (ls : list (sval * list (marker * sval))) : list (sval * list gsym) :=
  map (fun l => (fst l, body_from_text (snd l))) ls.

Theorem grammar_text_roundtrip prods :
  Forall (fun p => Forall (fun s => eps_spelling (value_of s) = false) (snd p)) prods ->
  lines_from_text (lines_to_text prods) = prods.
Proof.
  induction 1 as [|[h b] prods Hb _ IH]; [reflexivity|]. unfold lines_to_text, lines_from_text in *. simpl.
  rewrite (body_text_roundtrip b Hb). simpl in IH. now rewrite IH.
Qed.
