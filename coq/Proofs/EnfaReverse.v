From Coq Require Import List Bool NArith Lia.
From PFL Require Import Base.ListSet Spec.Enfa Model.Enfa Model.EnfaOps Proofs.EnfaRuns.
Import ListNotations.

Section Rev.
  Context {Q : Type} `{EqDec Q}.
  Variable A : enfa Q.

  Lemma reverse_delta p l q : In (q, l, p) (e_delta (reverse A)) <-> In (p, l, q) (e_delta A).
  Proof.
    unfold reverse. cbn [e_delta]. rewrite in_map_iff. split.
    - intros [[[p' l'] q'] [E Hin]]. inversion E; subst. exact Hin.
    - intros Hin. exists (p, l, q). auto.
  Qed.

  Lemma run_reverse p w q : run A p w q -> run (reverse A) q (rev w) p.
  Proof.
    intros R. induction R as [q|q q' w r Hd R IH|q a q' w r Hd R IH]; cbn [rev].
    - apply run_nil.
    - rewrite <- (app_nil_r (rev w)). apply (run_snoc _ _ _ _ None _ IH). now apply reverse_delta.
    - apply (run_snoc _ _ _ _ (Some a) _ IH). now apply reverse_delta.
  Qed.

  Lemma run_reverse_inv p w q : run (reverse A) q w p -> run A p (rev w) q.
  Proof.
    intros R. induction R as [q|q q' w r Hd R IH|q a q' w r Hd R IH]; cbn [rev].
    - apply run_nil.
    - rewrite <- (app_nil_r (rev w)). apply (run_snoc _ _ _ _ None _ IH). now apply reverse_delta.
    - apply (run_snoc _ _ _ _ (Some a) _ IH). now apply reverse_delta.
  Qed.

  Theorem reverse_spec w : Lang (reverse A) w <-> Lang A (rev w).
  Proof.
    unfold Lang. cbn [reverse e_starts e_finals]. split.
    - intros [s [f [Hs [Hf R]]]]. exists f, s. repeat split; auto. now apply run_reverse_inv.
    - intros [s [f [Hs [Hf R]]]]. exists f, s. repeat split; auto.
      rewrite <- (rev_involutive w). now apply run_reverse.
  Qed.
End Rev.
