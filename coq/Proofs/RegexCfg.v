From Coq Require Import List NArith Lia.
From PFL Require Import Base.ListSet Spec.Regex Spec.Cfg Model.Cfg.
From PFL Require Import Model.RegexCfg.
Import ListNotations.

Definition idx_in (lo hi : nat) (h : rvar) : Prop := exists i, h = Some i /\ lo <= i < hi.

Lemma re_prods_range r : forall cur c P c', re_prods r cur c = (P, c') ->
  c <= c' /\ forall h b, In (h, b) P -> h = cur \/ idx_in c c' h.
Proof.
  induction r as [| |a|r1 IH1 r2 IH2|r1 IH1 r2 IH2|r1 IH1]; intros cur c P c' E; simpl in E.
  - inversion E; subst. split; [lia|intros h b []].
  - inversion E; subst. split; [lia|]. intros h b [E'|[]]. inversion E'; auto.
  - inversion E; subst. split; [lia|]. intros h b [E'|[]]. inversion E'; auto.
  - destruct (re_prods r1 (Some c) (S c)) as [p1 c1] eqn:E1. destruct (re_prods r2 (Some c1) (S c1)) as [p2 c2] eqn:E2.
    inversion E; subst. destruct (IH1 _ _ _ _ E1) as (L1 & H1). destruct (IH2 _ _ _ _ E2) as (L2 & H2).
    split; [lia|]. intros h b Hin. apply in_app_or in Hin. destruct Hin as [Hin|Hin]; [|apply in_app_or in Hin; destruct Hin as [Hin|Hin]].
    + right. destruct (H1 _ _ Hin) as [->|(i & -> & Hi)]; [exists c|exists i]; split; auto; lia.
    + right. destruct (H2 _ _ Hin) as [->|(i & -> & Hi)]; [exists c1|exists i]; split; auto; lia.
    + destruct Hin as [E'|[]]. inversion E'; auto.
  - destruct (re_prods r1 (Some c) (S c)) as [p1 c1] eqn:E1. destruct (re_prods r2 (Some c1) (S c1)) as [p2 c2] eqn:E2.
    inversion E; subst. destruct (IH1 _ _ _ _ E1) as (L1 & H1). destruct (IH2 _ _ _ _ E2) as (L2 & H2).
    split; [lia|]. intros h b Hin. apply in_app_or in Hin. destruct Hin as [Hin|Hin]; [|apply in_app_or in Hin; destruct Hin as [Hin|Hin]].
    + right. destruct (H1 _ _ Hin) as [->|(i & -> & Hi)]; [exists c|exists i]; split; auto; lia.
    + right. destruct (H2 _ _ Hin) as [->|(i & -> & Hi)]; [exists c1|exists i]; split; auto; lia.
    + destruct Hin as [E'|[E'|[]]]; inversion E'; auto.
  - destruct (re_prods r1 (Some c) (S c)) as [p1 c1] eqn:E1.
    inversion E; subst. destruct (IH1 _ _ _ _ E1) as (L1 & H1).
    split; [lia|]. intros h b Hin. apply in_app_or in Hin. destruct Hin as [Hin|Hin].
    + right. destruct (H1 _ _ Hin) as [->|(i & -> & Hi)]; [exists c|exists i]; split; auto; lia.
    + destruct Hin as [E'|[E'|[E'|[]]]]; inversion E'; auto.
Qed.

Lemma sub_range r c P c' : re_prods r (Some c) (S c) = (P, c') ->
  S c <= c' /\ forall h b, In (h, b) P -> idx_in c c' h.
Proof.
  intros E. destruct (re_prods_range r _ _ _ _ E) as (L & Hh). split; [exact L|].
  intros h b Hin. destruct (Hh _ _ Hin) as [->|(i & -> & Hi)]; [exists c|exists i]; split; auto; lia.
Qed.

Lemma dl_one (G : cfg rvar) X w : derives_list G [X] w <-> derives G X w.
Proof.
  split.
  - intros Hd. inversion Hd as [|? ? u v D1 D2]; subst. inversion D2; subst. now rewrite app_nil_r.
  - intros Hd. rewrite <- (app_nil_r w). apply dl_cons; [exact Hd|apply dl_nil].
Qed.
Lemma dl_two (G : cfg rvar) X Y w : derives_list G [X; Y] w <-> exists u v, w = u ++ v /\ derives G X u /\ derives G Y v.
Proof.
  split.
  - intros Hd. inversion Hd as [|? ? u v D1 D2]; subst. apply dl_one in D2. eauto.
  - intros (u & v & -> & D1 & D2). apply dl_cons; [exact D1|apply dl_one; exact D2].
Qed.

Section Star.
  Variables (G : cfg rvar) (cur s1 : rvar) (r1 : re).
  Hypothesis Hprods : forall body, In (cur, body) (g_prods G) -> body = [] \/ body = [V cur; V cur] \/ body = [V s1].
  Hypothesis Hsub : forall w, derives G (V s1) w -> den r1 w.

  Lemma star_derives_den : forall w, derives G (V cur) w -> den (RStar r1) w.
  Proof.
    assert (Hmut : (forall X w, derives G X w -> X = V cur -> den (RStar r1) w) /\
                   (forall body w, derives_list G body w -> Forall (fun X => X = V cur) body -> den (RStar r1) w)).
    { apply derives_mutind.
      - intros a E. discriminate.
      - intros A body w Hin Hdl IH E. inversion E; subst A.
        destruct (Hprods body Hin) as [->|[->| ->]].
        + apply IH. constructor.
        + apply IH. repeat constructor.
        + apply dl_one in Hdl. apply Hsub in Hdl. rewrite <- (app_nil_r w). apply d_star1; [exact Hdl|apply d_star0].
      - intros _. apply d_star0.
      - intros X rest u v D1 IH1 D2 IH2 Hall. inversion Hall; subst.
        assert (A1 : den (RStar r1) u) by auto. assert (A2 : den (RStar r1) v) by auto.
        clear - A1 A2. remember (RStar r1) as R eqn:E. induction A1; inversion E; subst; [exact A2|].
        rewrite <- app_assoc. apply d_star1; [assumption|]. apply IHA1_2; auto. }
    intros w Hd. apply (proj1 Hmut (V cur) w Hd eq_refl).
  Qed.
End Star.

Theorem re_prods_lang r : forall cur c P c', re_prods r cur c = (P, c') -> (forall i, cur = Some i -> i < c) ->
  forall G : cfg rvar, incl P (g_prods G) ->
  (forall h b, In (h, b) (g_prods G) -> h = cur \/ idx_in c c' h -> In (h, b) P) ->
  forall w, derives G (V cur) w <-> den r w.
Proof.
  induction r as [| |a|r1 IH1 r2 IH2|r1 IH1 r2 IH2|r1 IH1]; intros cur c P c' E Hcur G Hincl Hclosed w; simpl in E.
  - inversion E; subst. split; intros Hd; inversion Hd; subst.
    match goal with Hin : In (cur, _) (g_prods G) |- _ => apply Hclosed in Hin; [destruct Hin|now left] end.
  - inversion E; subst. split; intros Hd.
    + inversion Hd as [|A body w' Hin Hdl]; subst. apply Hclosed in Hin; [|now left]. destruct Hin as [E'|[]]. inversion E'; subst.
      inversion Hdl; subst. apply d_eps.
    + inversion Hd; subst. eapply dv_var; [apply Hincl; now left|apply dl_nil].
  - inversion E; subst. split; intros Hd.
    + inversion Hd as [|A body w' Hin Hdl]; subst. apply Hclosed in Hin; [|now left]. destruct Hin as [E'|[]]. inversion E'; subst.
      apply dl_one in Hdl. inversion Hdl; subst. apply d_sym.
    + inversion Hd; subst. eapply dv_var; [apply Hincl; now left|]. apply dl_one. apply dv_ter.
  - destruct (re_prods r1 (Some c) (S c)) as [p1 c1] eqn:E1. destruct (re_prods r2 (Some c1) (S c1)) as [p2 c2] eqn:E2.
    inversion E; subst P c'. destruct (sub_range _ _ _ _ E1) as (L1 & R1). destruct (sub_range _ _ _ _ E2) as (L2 & R2).
    assert (Hc1 : forall w, derives G (V (Some c)) w <-> den r1 w).
    { apply (IH1 _ _ _ _ E1); [intros i Ei; inversion Ei; lia| |].
      - intros x Hx. apply Hincl. apply in_or_app. now left.
      - intros h b Hin Hh. assert (Hidx : idx_in c c1 h) by (destruct Hh as [->|(i & -> & Hi)]; [exists c|exists i]; split; auto; lia).
        destruct Hidx as (i & -> & Hi). assert (HP : In (Some i, b) (p1 ++ p2 ++ [(cur, [V (Some c); V (Some c1)])])).
        { apply Hclosed; [exact Hin|]. right. exists i. split; auto. lia. }
        apply in_app_or in HP. destruct HP as [HP|HP]; [exact HP|]. apply in_app_or in HP. destruct HP as [HP|[HP|[]]].
        + destruct (R2 _ _ HP) as (j & Ej & Hj). inversion Ej; subst. lia.
        + inversion HP; subst. specialize (Hcur i eq_refl). lia. }
    assert (Hc2 : forall w, derives G (V (Some c1)) w <-> den r2 w).
    { apply (IH2 _ _ _ _ E2); [intros i Ei; inversion Ei; lia| |].
      - intros x Hx. apply Hincl. apply in_or_app. right. apply in_or_app. now left.
      - intros h b Hin Hh. assert (Hidx : idx_in c1 c2 h) by (destruct Hh as [->|(i & -> & Hi)]; [exists c1|exists i]; split; auto; lia).
        destruct Hidx as (i & -> & Hi). assert (HP : In (Some i, b) (p1 ++ p2 ++ [(cur, [V (Some c); V (Some c1)])])).
        { apply Hclosed; [exact Hin|]. right. exists i. split; auto. lia. }
        apply in_app_or in HP. destruct HP as [HP|HP]; [|apply in_app_or in HP; destruct HP as [HP|[HP|[]]]].
        + destruct (R1 _ _ HP) as (j & Ej & Hj). inversion Ej; subst. lia.
        + exact HP.
        + inversion HP; subst. specialize (Hcur i eq_refl). lia. }
    assert (Hbody : forall body, In (cur, body) (g_prods G) -> body = [V (Some c); V (Some c1)]).
    { intros body Hin. apply Hclosed in Hin; [|now left]. apply in_app_or in Hin. destruct Hin as [HP|HP]; [|apply in_app_or in HP; destruct HP as [HP|[HP|[]]]].
      - destruct (R1 _ _ HP) as (j & Ej & Hj). specialize (Hcur j Ej). lia.
      - destruct (R2 _ _ HP) as (j & Ej & Hj). specialize (Hcur j Ej). lia.
      - now inversion HP. }
    split; intros Hd.
    + inversion Hd as [|A body w' Hin Hdl]; subst. rewrite (Hbody _ Hin) in Hdl. apply dl_two in Hdl.
      destruct Hdl as (u & v & -> & D1 & D2). apply d_cat; [apply Hc1|apply Hc2]; assumption.
    + inversion Hd as [| |? ? u v D1 D2| | | |]; subst. eapply dv_var.
      * apply Hincl. apply in_or_app. right. apply in_or_app. right. now left.
      * apply dl_two. exists u, v. split; [reflexivity|]. split; [apply Hc1|apply Hc2]; assumption.
  - destruct (re_prods r1 (Some c) (S c)) as [p1 c1] eqn:E1. destruct (re_prods r2 (Some c1) (S c1)) as [p2 c2] eqn:E2.
    inversion E; subst P c'. destruct (sub_range _ _ _ _ E1) as (L1 & R1). destruct (sub_range _ _ _ _ E2) as (L2 & R2).
    assert (Hc1 : forall w, derives G (V (Some c)) w <-> den r1 w).
    { apply (IH1 _ _ _ _ E1); [intros i Ei; inversion Ei; lia| |].
      - intros x Hx. apply Hincl. apply in_or_app. now left.
      - intros h b Hin Hh. assert (Hidx : idx_in c c1 h) by (destruct Hh as [->|(i & -> & Hi)]; [exists c|exists i]; split; auto; lia).
        destruct Hidx as (i & -> & Hi). assert (HP : In (Some i, b) (p1 ++ p2 ++ [(cur, [V (Some c)]); (cur, [V (Some c1)])])).
        { apply Hclosed; [exact Hin|]. right. exists i. split; auto. lia. }
        apply in_app_or in HP. destruct HP as [HP|HP]; [exact HP|]. apply in_app_or in HP. destruct HP as [HP|[HP|[HP|[]]]].
        + destruct (R2 _ _ HP) as (j & Ej & Hj). inversion Ej; subst. lia.
        + inversion HP; subst. specialize (Hcur i eq_refl). lia.
        + inversion HP; subst. specialize (Hcur i eq_refl). lia. }
    assert (Hc2 : forall w, derives G (V (Some c1)) w <-> den r2 w).
    { apply (IH2 _ _ _ _ E2); [intros i Ei; inversion Ei; lia| |].
      - intros x Hx. apply Hincl. apply in_or_app. right. apply in_or_app. now left.
      - intros h b Hin Hh. assert (Hidx : idx_in c1 c2 h) by (destruct Hh as [->|(i & -> & Hi)]; [exists c1|exists i]; split; auto; lia).
        destruct Hidx as (i & -> & Hi). assert (HP : In (Some i, b) (p1 ++ p2 ++ [(cur, [V (Some c)]); (cur, [V (Some c1)])])).
        { apply Hclosed; [exact Hin|]. right. exists i. split; auto. lia. }
        apply in_app_or in HP. destruct HP as [HP|HP]; [|apply in_app_or in HP; destruct HP as [HP|[HP|[HP|[]]]]].
        + destruct (R1 _ _ HP) as (j & Ej & Hj). inversion Ej; subst. lia.
        + exact HP.
        + inversion HP; subst. specialize (Hcur i eq_refl). lia.
        + inversion HP; subst. specialize (Hcur i eq_refl). lia. }
    assert (Hbody : forall body, In (cur, body) (g_prods G) -> body = [V (Some c)] \/ body = [V (Some c1)]).
    { intros body Hin. apply Hclosed in Hin; [|now left]. apply in_app_or in Hin. destruct Hin as [HP|HP]; [|apply in_app_or in HP; destruct HP as [HP|[HP|[HP|[]]]]].
      - destruct (R1 _ _ HP) as (j & Ej & Hj). specialize (Hcur j Ej). lia.
      - destruct (R2 _ _ HP) as (j & Ej & Hj). specialize (Hcur j Ej). lia.
      - left. now inversion HP.
      - right. now inversion HP. }
    split; intros Hd.
    + inversion Hd as [|A body w' Hin Hdl]; subst. destruct (Hbody _ Hin) as [->| ->]; apply dl_one in Hdl.
      * apply d_altl. now apply Hc1.
      * apply d_altr. now apply Hc2.
    + inversion Hd as [| | |? ? ? Dl|? ? ? Dr| |]; subst.
      * eapply dv_var; [apply Hincl; apply in_or_app; right; apply in_or_app; right; now left|]. apply dl_one. now apply Hc1.
      * eapply dv_var; [apply Hincl; apply in_or_app; right; apply in_or_app; right; right; now left|]. apply dl_one. now apply Hc2.
  - destruct (re_prods r1 (Some c) (S c)) as [p1 c1] eqn:E1.
    inversion E; subst P c'. destruct (sub_range _ _ _ _ E1) as (L1 & R1).
    assert (Hc1 : forall w, derives G (V (Some c)) w <-> den r1 w).
    { apply (IH1 _ _ _ _ E1); [intros i Ei; inversion Ei; lia| |].
      - intros x Hx. apply Hincl. apply in_or_app. now left.
      - intros h b Hin Hh. assert (Hidx : idx_in c c1 h) by (destruct Hh as [->|(i & -> & Hi)]; [exists c|exists i]; split; auto; lia).
        destruct Hidx as (i & -> & Hi). assert (HP : In (Some i, b) (p1 ++ [(cur, []); (cur, [V cur; V cur]); (cur, [V (Some c)])])).
        { apply Hclosed; [exact Hin|]. right. exists i. split; auto. }
        apply in_app_or in HP. destruct HP as [HP|[HP|[HP|[HP|[]]]]]; [exact HP| | |]; inversion HP; subst; specialize (Hcur i eq_refl); lia. }
    assert (Hbody : forall body, In (cur, body) (g_prods G) -> body = [] \/ body = [V cur; V cur] \/ body = [V (Some c)]).
    { intros body Hin. apply Hclosed in Hin; [|now left]. apply in_app_or in Hin. destruct Hin as [HP|[HP|[HP|[HP|[]]]]].
      - destruct (R1 _ _ HP) as (j & Ej & Hj). specialize (Hcur j Ej). lia.
      - left. now inversion HP.
      - right; left. now inversion HP.
      - right; right. now inversion HP. }
    split; intros Hd.
    + eapply star_derives_den; [exact Hbody| |exact Hd]. intros u Hu. now apply Hc1.
    + remember (RStar r1) as R eqn:ER. induction Hd; inversion ER; subst.
      * eapply dv_var; [apply Hincl; apply in_or_app; right; now left|apply dl_nil].
      * eapply dv_var; [apply Hincl; apply in_or_app; right; right; now left|]. apply dl_two. exists u, v. split; [reflexivity|]. split.
        -- eapply dv_var; [apply Hincl; apply in_or_app; right; right; right; now left|]. apply dl_one. now apply Hc1.
        -- apply IHHd2; auto.
Qed.

Theorem re_cfg_lang r w : LangG (re_cfg r) w <-> den r w.
Proof.
  unfold LangG, re_cfg. simpl. destruct (re_prods r None 0) as [P c'] eqn:E. simpl.
  apply (re_prods_lang r None 0 P c' E); [discriminate| |].
  - simpl. intros x Hx. exact Hx.
  - simpl. intros h b Hin _. exact Hin.
Qed.
