(* C18: unification of feature structures without sharing computes the least upper bound in the subsumption order
   (the most general structure carrying the information of both), fails exactly on a conflict of atomic values
   along a shared path, and does not depend on the order of its arguments. *)
From Coq Require Import List Bool Arith NArith Lia.
From PFL Require Import Model.Feat.
Import ListNotations.

Fixpoint depth (a : fs) : nat :=
  match a with FS _ kids => S (fold_right (fun p m => Nat.max (depth (snd p)) m) 0 kids) end.

Definition top := FS None [].

Inductive sub : fs -> fs -> Prop :=
| Sub va ka vb kb : (va = None \/ va = vb) ->
    (forall f x, lookup f ka = Some x -> exists y, lookup f kb = Some y /\ sub x y) ->
    sub (FS va ka) (FS vb kb).

Inductive wt : fs -> Prop :=
| WT v k : (v <> None -> k = []) -> NoDup (map fst k) -> (forall f x, lookup f k = Some x -> wt x) -> wt (FS v k).

Inductive ct : fs -> fs -> Prop :=
| CT va ka vb kb : (va <> None -> kb = []) -> (vb <> None -> ka = []) ->
    (forall f x y, lookup f ka = Some x -> lookup f kb = Some y -> ct x y) -> ct (FS va ka) (FS vb kb).

Inductive conflict : fs -> fs -> Prop :=
| C_here x y ka kb : x <> y -> conflict (FS (Some x) ka) (FS (Some y) kb)
| C_deep f va ka vb kb x y : lookup f ka = Some x -> lookup f kb = Some y -> conflict x y ->
    conflict (FS va ka) (FS vb kb).

Lemma depth_pos a : 1 <= depth a.
Proof. destruct a; simpl; lia. Qed.

Lemma lookup_In f k x : lookup f k = Some x -> In (f, x) k.
Proof.
  induction k as [|[g y] k IH]; simpl; [discriminate|].
  destruct (N.eqb_spec f g) as [->|Hn]; intros H; [inversion H; subst; now left|right; auto].
Qed.

Lemma lookup_None f k : lookup f k = None <-> ~ In f (map fst k).
Proof.
  induction k as [|[g y] k IH]; simpl; [tauto|].
  destruct (N.eqb_spec f g) as [->|Hn]; split; intros H.
  - discriminate.
  - exfalso; apply H; now left.
  - intros [E|E]; [congruence|]. apply IH in H. contradiction.
  - apply IH. intros E; apply H; now right.
Qed.

Lemma In_depth (f : N) x (k : list (N * fs)) : In (f, x) k -> depth x <= fold_right (fun p m => Nat.max (depth (snd p)) m) 0 k.
Proof.
  induction k as [|p k IH]; simpl; [tauto|]. intros [->|H]; simpl; [lia|]. apply IH in H. lia.
Qed.

Lemma lookup_depth f v k x : lookup f k = Some x -> depth x < depth (FS v k).
Proof. intros H. apply lookup_In, In_depth in H. simpl. lia. Qed.

Lemma fs_depth_ind (P : fs -> Prop) :
  (forall a, (forall b, depth b < depth a -> P b) -> P a) -> forall a, P a.
Proof.
  intros H a. remember (depth a) as m eqn:E. assert (Hle : depth a <= m) by lia. clear E.
  revert a Hle. induction m as [|m IH]; intros a Hle.
  - pose proof (depth_pos a). lia.
  - apply H. intros b Hb. apply IH. lia.
Qed.

Lemma sub_refl a : sub a a.
Proof.
  induction a as [a IH] using fs_depth_ind. destruct a as [v k]. apply Sub; [now right|].
  intros f x Hx. exists x. split; [exact Hx|]. apply IH. eapply lookup_depth; eauto.
Qed.

Lemma sub_top d : sub top d.
Proof. destruct d. apply Sub; [now left|]. intros f x H. discriminate. Qed.

Lemma sub_trans a : forall b c, sub a b -> sub b c -> sub a c.
Proof.
  induction a as [a IH] using fs_depth_ind. intros b c Hab Hbc.
  inversion Hab as [va ka vb kb Hv Hk]; subst. inversion Hbc as [vb' kb' vc kc Hv' Hk']; subst.
  apply Sub.
  - destruct Hv as [Hv|Hv]; subst; [now left|exact Hv'].
  - intros f x Hx. destruct (Hk f x Hx) as (y & Hy & Hxy). destruct (Hk' f y Hy) as (z & Hz & Hyz).
    exists z. split; [exact Hz|]. eapply IH; eauto. eapply lookup_depth; eauto.
Qed.

Lemma ct_sym a : forall b, ct a b -> ct b a.
Proof.
  induction a as [a IH] using fs_depth_ind. intros b H. inversion H as [va ka vb kb H1 H2 H3]; subst.
  apply CT; auto. intros f y x Hy Hx. apply IH; [eapply lookup_depth; eauto|]. eapply H3; eauto.
Qed.

Lemma conflict_sym a b : conflict a b -> conflict b a.
Proof.
  induction 1 as [x y ka kb Hn|f va ka vb kb x y Hx Hy Hc IH].
  - apply C_here. congruence.
  - eapply C_deep; eauto.
Qed.

Lemma conflict_no_ub a b : conflict a b -> forall d, sub a d -> sub b d -> False.
Proof.
  induction 1 as [x y ka kb Hn|f va ka vb kb x y Hx Hy Hc IH]; intros d Ha Hb.
  - inversion Ha as [? ? vd kd [E|E] _]; subst; [discriminate|].
    inversion Hb as [? ? vd' kd' [E'|E'] _]; subst; [discriminate|]. congruence.
  - inversion Ha as [? ? vd kd _ Hk]; subst. inversion Hb as [? ? vd' kd' _ Hk']; subst.
    destruct (Hk f x Hx) as (dx & Hdx & Hsx). destruct (Hk' f y Hy) as (dy & Hdy & Hsy).
    rewrite Hdx in Hdy. inversion Hdy; subst. eapply IH; eauto.
Qed.

Lemma NoDup_snoc (l : list N) f : NoDup l -> ~ In f l -> NoDup (l ++ [f]).
Proof.
  induction l as [|h l IH]; simpl; intros H Hn.
  - constructor; [tauto|constructor].
  - inversion H; subst. constructor.
    + rewrite in_app_iff. simpl. intros [E|[E|[]]]; [contradiction|]. apply Hn. now left.
    + apply IH; auto.
Qed.

(* ---- the accumulator updates of unify_step ---- *)
Lemma lookup_replace f z acc : forall g,
  lookup g (map (fun p : N * fs => if N.eqb (fst p) f then (f, z) else p) acc)
  = if N.eqb g f then match lookup f acc with Some _ => Some z | None => None end else lookup g acc.
Proof.
  induction acc as [|[h x] acc IH]; intros g; simpl.
  - now destruct (N.eqb g f).
  - destruct (N.eqb_spec h f) as [Ehf|Hhf]; simpl.
    + subst h. destruct (N.eqb_spec g f) as [Egf|Hgf]; [subst g; now rewrite N.eqb_refl|].
      rewrite IH. destruct (N.eqb_spec g f); [contradiction|reflexivity].
    + destruct (N.eqb_spec g h) as [Egh|Hgh].
      * subst g. destruct (N.eqb_spec h f); [contradiction|]. reflexivity.
      * rewrite IH. destruct (N.eqb_spec g f) as [Egf|Hgf]; [|reflexivity].
        subst g. destruct (N.eqb_spec f h); [congruence|reflexivity].
Qed.

Lemma keys_replace f z acc : map fst (map (fun p : N * fs => if N.eqb (fst p) f then (f, z) else p) acc) = map fst acc.
Proof.
  induction acc as [|[h x] acc IH]; simpl; [reflexivity|]. rewrite IH.
  destruct (N.eqb_spec h f) as [->|]; reflexivity.
Qed.

Lemma lookup_app g acc l : lookup g (acc ++ l) = match lookup g acc with Some x => Some x | None => lookup g l end.
Proof.
  induction acc as [|[h x] acc IH]; simpl; [reflexivity|]. destruct (N.eqb g h); [reflexivity|exact IH].
Qed.

Definition arg (acc : list (N * fs)) (f : N) : fs := match lookup f acc with Some x => x | None => top end.

Lemma step_update f z acc : exists acc',
  (match lookup f acc with
   | Some _ => map (fun p : N * fs => if N.eqb (fst p) f then (f, z) else p) acc
   | None => acc ++ [(f, z)] end) = acc' /\
  (forall g, lookup g acc' = if N.eqb g f then Some z else lookup g acc) /\
  (NoDup (map fst acc) -> NoDup (map fst acc')).
Proof.
  eexists. split; [reflexivity|]. destruct (lookup f acc) as [x|] eqn:E; split.
  - intros g. rewrite lookup_replace, E. reflexivity.
  - now rewrite keys_replace.
  - intros g. rewrite lookup_app. simpl. destruct (N.eqb_spec g f) as [->|Hn].
    + now rewrite E.
    + now destruct (lookup g acc).
  - intros H. rewrite map_app. simpl. apply NoDup_snoc; auto. apply lookup_None; exact E.
Qed.

Lemma step_spec u : forall kb acc, NoDup (map fst kb) ->
  match unify_step u kb acc with
  | Some k =>
      (forall f, lookup f kb = None -> lookup f k = lookup f acc) /\
      (forall f y, lookup f kb = Some y -> exists z, lookup f k = Some z /\ u (arg acc f) y = Some z) /\
      (NoDup (map fst acc) -> NoDup (map fst k))
  | None => exists f y, lookup f kb = Some y /\ u (arg acc f) y = None
  end.
Proof.
  induction kb as [|[f y] rest IH]; intros acc ND.
  - simpl. split; [reflexivity|]. split; [discriminate|tauto].
  - simpl in ND. inversion ND as [|? ? Hnin ND']; subst.
    assert (Hfrest : lookup f rest = None) by (apply lookup_None; exact Hnin).
    cbn [unify_step].
    destruct (u (arg acc f) y) as [z|] eqn:Hu.
    + destruct (step_update f z acc) as (acc' & Eacc & Hl & Hnd).
      assert (Estep : match lookup f acc with
                      | Some x => match u x y with
                                  | Some z0 => unify_step u rest (map (fun p : N * fs => if N.eqb (fst p) f then (f, z0) else p) acc)
                                  | None => None end
                      | None => match u (FS None []) y with
                                | Some z0 => unify_step u rest (acc ++ [(f, z0)])
                                | None => None end
                      end = unify_step u rest acc').
      { unfold arg, top in Hu. destruct (lookup f acc); rewrite Hu; now rewrite <- Eacc. }
      rewrite Estep. specialize (IH acc' ND').
      assert (Harg : forall g, g <> f -> arg acc' g = arg acc g).
      { intros g Hg. unfold arg. rewrite Hl. destruct (N.eqb_spec g f); [contradiction|reflexivity]. }
      destruct (unify_step u rest acc') as [k|].
      * destruct IH as (I1 & I2 & I3). split; [|split].
        -- intros g Hg. simpl in Hg. destruct (N.eqb_spec g f) as [|Hgf]; [discriminate|].
           rewrite (I1 g Hg), Hl. destruct (N.eqb_spec g f); [contradiction|reflexivity].
        -- intros g y' Hg. simpl in Hg. destruct (N.eqb_spec g f) as [Egf|Hgf].
           ++ inversion Hg; subst. exists z. split; [|exact Hu].
              rewrite (I1 f Hfrest), Hl, N.eqb_refl. reflexivity.
           ++ destruct (I2 g y' Hg) as (z' & Hz' & Hu'). exists z'. split; [exact Hz'|].
              rewrite <- (Harg g Hgf). exact Hu'.
        -- intros H. apply I3, Hnd, H.
      * destruct IH as (g & y' & Hg & Hu'). exists g, y'.
        assert (Hgf : g <> f) by (intros ->; congruence).
        split; [simpl; destruct (N.eqb_spec g f); [contradiction|exact Hg]|].
        rewrite <- (Harg g Hgf). exact Hu'.
    + assert (Estep : match lookup f acc with
                      | Some x => match u x y with
                                  | Some z0 => unify_step u rest (map (fun p : N * fs => if N.eqb (fst p) f then (f, z0) else p) acc)
                                  | None => None end
                      | None => match u (FS None []) y with
                                | Some z0 => unify_step u rest (acc ++ [(f, z0)])
                                | None => None end
                      end = None).
      { unfold arg, top in Hu. destruct (lookup f acc); now rewrite Hu. }
      rewrite Estep. exists f, y. split; [simpl; now rewrite N.eqb_refl|exact Hu].
Qed.

Lemma list_eq_dec_nil (ka kb : list (N * fs)) : (ka = [] /\ kb = []) \/ (ka <> [] \/ kb <> []).
Proof. destruct ka, kb; [left; split; reflexivity|right; right; discriminate|right; left; discriminate|right; left; discriminate]. Qed.

Lemma unify_nonleaf n va ka vb kb : ka <> [] \/ kb <> [] ->
  unify (S n) (FS va ka) (FS vb kb) =
  match unify_step (unify n) kb ka with Some k => Some (FS va k) | None => None end.
Proof. destruct ka, kb; simpl; intros [H|H]; try congruence; reflexivity. Qed.

Lemma conflict_top y : conflict top y -> False.
Proof. unfold top. intros H. inversion H; subst. discriminate. Qed.

Lemma wt_top : wt top.
Proof. apply WT; [reflexivity|constructor|discriminate]. Qed.

Lemma ct_top y : wt y -> ct top y.
Proof. destruct y as [v k]. intros H. apply CT; [congruence|reflexivity|discriminate]. Qed.

Theorem unify_glb : forall n a b, depth b <= n -> wt a -> wt b -> ct a b ->
  match unify n a b with
  | Some c => sub a c /\ sub b c /\ (forall d, sub a d -> sub b d -> sub c d) /\ wt c
  | None => conflict a b
  end.
Proof.
  induction n as [|n IH]; intros a b Hd Hwa Hwb Hct.
  - pose proof (depth_pos b). lia.
  - destruct a as [va ka], b as [vb kb].
    inversion Hct as [? ? ? ? C1 C2 C3]; subst.
    inversion Hwa as [? ? A1 A2 A3]; subst. inversion Hwb as [? ? B1 B2 B3]; subst.
    destruct (list_eq_dec_nil ka kb) as [[Eka Ekb]|Hne].
    + subst ka kb. simpl. destruct va as [x|], vb as [y|].
      * destruct (N.eqb_spec x y) as [Exy|Hxy].
        -- subst y. split; [apply sub_refl|]. split; [apply sub_refl|]. split; [auto|exact Hwa].
        -- now apply C_here.
      * split; [apply sub_refl|]. split; [apply Sub; [now left|discriminate]|]. split; [auto|exact Hwa].
      * split; [apply Sub; [now left|discriminate]|]. split; [apply sub_refl|]. split; [auto|exact Hwb].
      * split; [apply sub_refl|]. split; [apply sub_refl|]. split; [auto|exact Hwb].
    + assert (Eva : va = None).
      { destruct va as [x|]; [|reflexivity]. destruct Hne as [H|H]; exfalso; apply H; [apply A1|apply C1]; discriminate. }
      assert (Evb : vb = None).
      { destruct vb as [x|]; [|reflexivity]. destruct Hne as [H|H]; exfalso; apply H; [apply C2|apply B1]; discriminate. }
      subst va vb. rewrite (unify_nonleaf n None ka None kb Hne).
      pose proof (step_spec (unify n) kb ka B2) as S.
      assert (Hargs : forall f y, lookup f kb = Some y ->
                depth y <= n /\ wt (arg ka f) /\ wt y /\ ct (arg ka f) y).
      { intros f y Hy. split; [pose proof (lookup_depth f None kb y Hy); lia|].
        pose proof (B3 f y Hy) as Wy. unfold arg. destruct (lookup f ka) as [x|] eqn:Hx.
        - split; [eapply A3; eauto|]. split; [exact Wy|]. eapply C3; eauto.
        - split; [apply wt_top|]. split; [exact Wy|]. now apply ct_top. }
      destruct (unify_step (unify n) kb ka) as [k|].
      * destruct S as (S1 & S2 & S3).
        assert (Hsub_b : forall f y, lookup f kb = Some y -> exists z, lookup f k = Some z /\
                  sub (arg ka f) z /\ sub y z /\ (forall d, sub (arg ka f) d -> sub y d -> sub z d) /\ wt z).
        { intros f y Hy. destruct (S2 f y Hy) as (z & Hz & Hu). exists z. split; [exact Hz|].
          destruct (Hargs f y Hy) as (D & W1 & W2 & CC). specialize (IH (arg ka f) y D W1 W2 CC).
          rewrite Hu in IH. exact IH. }
        split; [|split; [|split]].
        -- apply Sub; [now left|]. intros f x Hx. destruct (lookup f kb) as [y|] eqn:Hy.
           ++ destruct (Hsub_b f y Hy) as (z & Hz & Hs & _). exists z. split; [exact Hz|].
              unfold arg in Hs. now rewrite Hx in Hs.
           ++ exists x. split; [rewrite (S1 f Hy); exact Hx|apply sub_refl].
        -- apply Sub; [now left|]. intros f y Hy. destruct (Hsub_b f y Hy) as (z & Hz & _ & Hs & _).
           exists z. split; assumption.
        -- intros d Had Hbd. destruct d as [vd kd].
           inversion Had as [? ? ? ? _ Hka]; subst. inversion Hbd as [? ? ? ? _ Hkb]; subst.
           apply Sub; [now left|]. intros f z Hz. destruct (lookup f kb) as [y|] eqn:Hy.
           ++ destruct (Hsub_b f y Hy) as (z' & Hz' & _ & _ & Hleast & _).
              rewrite Hz in Hz'. inversion Hz'; subst z'.
              destruct (Hkb f y Hy) as (dy & Hdy & Hsy). exists dy. split; [exact Hdy|].
              apply Hleast; [|exact Hsy]. unfold arg. destruct (lookup f ka) as [x|] eqn:Hx.
              ** destruct (Hka f x Hx) as (dx & Hdx & Hsx). rewrite Hdy in Hdx. inversion Hdx; subst. exact Hsx.
              ** apply sub_top.
           ++ rewrite (S1 f Hy) in Hz. apply (Hka f z Hz).
        -- apply WT; [congruence|apply S3, A2|]. intros f z Hz. destruct (lookup f kb) as [y|] eqn:Hy.
           ++ destruct (Hsub_b f y Hy) as (z' & Hz' & _ & _ & _ & W). rewrite Hz in Hz'. inversion Hz'; subst. exact W.
           ++ rewrite (S1 f Hy) in Hz. eapply A3; eauto.
      * destruct S as (f & y & Hy & Hu). destruct (Hargs f y Hy) as (D & W1 & W2 & CC).
        specialize (IH (arg ka f) y D W1 W2 CC). rewrite Hu in IH.
        unfold arg in IH. destruct (lookup f ka) as [x|] eqn:Hx.
        -- eapply C_deep; eauto.
        -- exfalso. eapply conflict_top; eauto.
Qed.

(* success exactly when there is no conflicting pair of atomic values along a shared path; failure exactly when
   the two structures have no common upper bound *)
Theorem unify_succeeds_iff n a b : depth b <= n -> wt a -> wt b -> ct a b ->
  (unify n a b <> None <-> ~ conflict a b) /\ (unify n a b = None <-> forall d, ~ (sub a d /\ sub b d)).
Proof.
  intros Hd Ha Hb Hc. pose proof (unify_glb n a b Hd Ha Hb Hc) as H.
  destruct (unify n a b) as [c|].
  - destruct H as (H1 & H2 & _). split; split; intros H.
    + intros Hcf. eapply conflict_no_ub; eauto.
    + discriminate.
    + discriminate.
    + exfalso. apply (H c). split; assumption.
  - split; split; intros H'.
    + congruence.
    + contradiction.
    + intros d [D1 D2]. eapply conflict_no_ub; eauto.
    + reflexivity.
Qed.

(* the result does not depend on the order of the arguments (up to mutual subsumption: the order of the features differs) *)
Theorem unify_order_independent n a b : depth a <= n -> depth b <= n -> wt a -> wt b -> ct a b ->
  match unify n a b, unify n b a with
  | Some c, Some c' => sub c c' /\ sub c' c
  | None, None => True
  | _, _ => False
  end.
Proof.
  intros Da Db Ha Hb Hc.
  pose proof (unify_glb n a b Db Ha Hb Hc) as H1.
  pose proof (unify_glb n b a Da Hb Ha (ct_sym _ _ Hc)) as H2.
  destruct (unify n a b) as [c|], (unify n b a) as [c'|]; auto.
  - destruct H1 as (A1 & A2 & A3 & _), H2 as (B1 & B2 & B3 & _). split; [apply A3|apply B3]; assumption.
  - destruct H1 as (A1 & A2 & _). eapply conflict_no_ub; [apply conflict_sym; exact H2| |]; eassumption.
  - destruct H2 as (B1 & B2 & _). eapply conflict_no_ub; eauto.
Qed.

Example glb_nonvacuous :
  let a := FS None [(1, FS (Some 5) []); (2, FS None [(3, FS None [])])]%N in
  let b := FS None [(2, FS None [(3, FS (Some 7) []); (4, FS (Some 8) [])]); (6, FS (Some 9) [])]%N in
  depth b <= 3 /\ wt a /\ wt b /\ ct a b /\
  unify 3 a b = Some (FS None [(1, FS (Some 5) []); (2, FS None [(3, FS (Some 7) []); (4, FS (Some 8) [])]); (6, FS (Some 9) [])])%N.
Proof.
  cbv zeta. split; [simpl; lia|].
  assert (L : forall v, wt (FS v [])) by (intros v; apply WT; [reflexivity|constructor|discriminate]).
  assert (Hwa : wt (FS None [(1, FS (Some 5) []); (2, FS None [(3, FS None [])])]%N)).
  { apply WT; [congruence|repeat constructor; simpl; intuition congruence|].
    intros f x. simpl. destruct (N.eqb f 1); [intros E; inversion E; apply L|].
    destruct (N.eqb f 2); [|discriminate]. intros E; inversion E. apply WT; [congruence|repeat constructor; simpl; tauto|].
    intros g y. simpl. destruct (N.eqb g 3); [intros E'; inversion E'; apply L|discriminate]. }
  assert (Hwb : wt (FS None [(2, FS None [(3, FS (Some 7) []); (4, FS (Some 8) [])]); (6, FS (Some 9) [])]%N)).
  { apply WT; [congruence|repeat constructor; simpl; intuition congruence|].
    intros f x. simpl. destruct (N.eqb f 2).
    - intros E; inversion E. apply WT; [congruence|repeat constructor; simpl; intuition congruence|].
      intros g y. simpl. destruct (N.eqb g 3); [intros E'; inversion E'; apply L|].
      destruct (N.eqb g 4); [intros E'; inversion E'; apply L|discriminate].
    - destruct (N.eqb f 6); [intros E; inversion E; apply L|discriminate]. }
  split; [exact Hwa|]. split; [exact Hwb|]. split; [|reflexivity].
  apply CT; [congruence|congruence|]. intros f x y. simpl.
  destruct (N.eqb_spec f 1) as [->|].
  - simpl. discriminate.
  - destruct (N.eqb_spec f 2) as [->|]; [|discriminate]. simpl. intros E1 E2. inversion E1; inversion E2; subst.
    apply CT; [congruence|congruence|]. intros g x' y'. simpl.
    destruct (N.eqb g 3); [|discriminate]. intros E3 E4. inversion E3; inversion E4. apply CT; [congruence|congruence|discriminate].
Qed.
