(* remove_epsilon keeps exactly the non-empty words and leaves no epsilon production (C09). *)
From Coq Require Import List Bool Arith NArith Lia.
From PFL Require Import Base.ListSet Spec.Cfg Model.Cfg Proofs.CfgSymbols Proofs.CfgUseless.
Import ListNotations.

Section E.
  Context {Vr : Type} `{EqDec Vr}.
  Variable G : cfg Vr.
  Definition e_nul := nullable_vars G.

  (* b is obtained from body by deleting some occurrences of nullable variables *)
  Inductive sub_del : list (symb Vr) -> list (symb Vr) -> Prop :=
  | sd_nil : sub_del [] []
  | sd_keep X r b : sub_del r b -> sub_del (X :: r) (X :: b)
  | sd_drop B r b : In B e_nul -> sub_del r b -> sub_del (V B :: r) b.

  Lemma nullable_sub_In body b : In b (nullable_sub e_nul body) <-> sub_del body b.
  Proof.
    revert b. induction body as [|X r IH]; intros b; cbn [nullable_sub].
    - split; [intros [<-|[]]; apply sd_nil|intros S; inversion S; now left].
    - rewrite in_flat_map. split.
      + intros [b0 [Hb0 Hb]]. apply IH in Hb0. apply in_app_iff in Hb. destruct Hb as [Hb|[<-|[]]].
        * destruct X as [B|a]; [|destruct Hb]. destruct (mem B e_nul) eqn:M; [|destruct Hb]. destruct Hb as [<-|[]].
          apply sd_drop; [now apply mem_In|exact Hb0].
        * now apply sd_keep.
      + intros S. inversion S as [|X0 r0 b0 S0|B r0 b0 HB S0]; subst.
        * exists b0. split; [now apply IH|]. apply in_or_app. right. now left.
        * exists b. split; [now apply IH|]. apply in_or_app. left. apply mem_In in HB. rewrite HB. now left.
  Qed.

  Lemma re_prods A b : In (A, b) (g_prods (remove_epsilon G)) <-> b <> [] /\ exists body, In (A, body) (g_prods G) /\ sub_del body b.
  Proof.
    unfold remove_epsilon. rewrite mkcfg_prods, in_flat_map. fold e_nul. split.
    - intros [[A0 body] [Hp Hin]]. apply in_map_iff in Hin. destruct Hin as [b0 [E Hb]]. cbn [fst snd] in *. inversion E; subst.
      apply filter_In in Hb. destruct Hb as [Hb Hn]. split; [destruct b; [discriminate|discriminate]|]. exists body. split; [exact Hp|now apply nullable_sub_In].
    - intros [Hn [body [Hp S]]]. exists (A, body). split; [exact Hp|]. apply in_map_iff. exists b. split; [reflexivity|]. cbn [snd].
      apply filter_In. split; [now apply nullable_sub_In|]. destruct b; [congruence|reflexivity].
  Qed.

  Lemma sub_del_derives body b : sub_del body b -> forall w, derives_list G b w -> derives_list G body w.
  Proof.
    induction 1 as [|X r b S IH|B r b HB S IH]; intros w D.
    - exact D.
    - inversion D as [|X0 rest u v DX DL]; subst. apply dl_cons; [exact DX|now apply IH].
    - change w with ([] ++ w). apply dl_cons; [now apply nullable_vars_spec|now apply IH].
  Qed.

  Lemma from_re : (forall X w, derives (remove_epsilon G) X w -> derives G X w) /\
                  (forall body w, derives_list (remove_epsilon G) body w -> derives_list G body w).
  Proof.
    apply derives_mutind.
    - intros a. apply dv_ter.
    - intros A b w Hp _ IH. apply re_prods in Hp. destruct Hp as [_ [body [Hp S]]]. apply dv_var with body; [exact Hp|].
      now apply sub_del_derives with b.
    - apply dl_nil.
    - intros X rest u v _ IHX _ IHL. now apply dl_cons.
  Qed.

  Lemma to_re :
    (forall X w, derives G X w -> w <> [] -> derives (remove_epsilon G) X w) /\
    (forall body w, derives_list G body w -> exists b, sub_del body b /\ derives_list (remove_epsilon G) b w /\ (w <> [] -> b <> [])).
  Proof.
    apply derives_mutind.
    - intros a _. apply dv_ter.
    - intros A body w Hp _ [b [S [D Hn]]] Nw. apply dv_var with b; [|exact D]. apply re_prods. split; [now apply Hn|eauto].
    - exists []. split; [apply sd_nil|split; [apply dl_nil|congruence]].
    - intros X rest u v DX IHX _ [b [S [D Hn]]]. destruct u as [|a u'].
      + destruct X as [B|c]; [|inversion DX]. exists b. split; [apply sd_drop; [now apply nullable_vars_spec|exact S]|].
        split; [exact D|exact Hn].
      + exists (X :: b). split; [now apply sd_keep|]. split; [apply dl_cons; [apply IHX; discriminate|exact D]|discriminate].
  Qed.

  Lemma re_nonempty : (forall X w, derives (remove_epsilon G) X w -> w <> []) /\
                      (forall body w, derives_list (remove_epsilon G) body w -> body <> [] -> w <> []).
  Proof.
    apply derives_mutind.
    - intros a. discriminate.
    - intros A b w Hp _ IH. apply IH. apply re_prods in Hp. tauto.
    - congruence.
    - intros X rest u v _ IHX _ _ _ E. apply app_eq_nil in E. destruct E as [E _]. now apply IHX.
  Qed.

  Theorem remove_epsilon_lang w : LangG (remove_epsilon G) w <-> (LangG G w /\ w <> []).
  Proof.
    unfold LangG. change (g_start (remove_epsilon G)) with (g_start G). destruct (g_start G) as [s|]; [|tauto]. split.
    - intros D. split; [now apply (proj1 from_re)|now apply (proj1 re_nonempty) in D].
    - intros [D Nw]. now apply (proj1 to_re).
  Qed.

  Theorem remove_epsilon_shape A b : In (A, b) (g_prods (remove_epsilon G)) -> b <> [].
  Proof. intros Hp. apply re_prods in Hp. tauto. Qed.
End E.
