From Coq Require Import List Bool NArith Lia.
From PFL Require Import Base.ListSet Spec.Enfa Model.Renumber Proofs.EnfaRuns.
Import ListNotations.

Section Ren.
  Context {Q : Type} `{EqDec Q}.

  Lemma index_of_inj l : forall x y i, index_of x l = Some i -> index_of y l = Some i -> x = y.
  Proof.
    induction l as [|z r IH]; intros x y i; cbn [index_of]; [discriminate|].
    destruct (eqb_spec x z) as [->|Nx], (eqb_spec y z) as [->|Ny]; intros E1 E2.
    - reflexivity.
    - inversion E1; subst. destruct (index_of y r); cbn in E2; [|discriminate]. inversion E2. lia.
    - inversion E2; subst. destruct (index_of x r); cbn in E1; [|discriminate]. inversion E1. lia.
    - destruct (index_of x r) as [i1|] eqn:X; cbn in E1; [|discriminate].
      destruct (index_of y r) as [i2|] eqn:Y; cbn in E2; [|discriminate].
      inversion E1; inversion E2; subst. apply (IH x y i1); [exact X|]. rewrite Y. f_equal. lia.
  Qed.
  Lemma index_of_In l x : In x l -> exists i, index_of x l = Some i.
  Proof.
    induction l as [|z r IH]; cbn [In index_of]; [tauto|]. intros [->|Hx].
    - rewrite eqb_refl. eauto.
    - destruct (eqb x z); [eauto|]. destruct (IH Hx) as [i ->]. cbn. eauto.
  Qed.
  Lemma num_inj l x y : In x l -> In y l -> num l x = num l y -> x = y.
  Proof.
    intros Hx Hy. unfold num. destruct (index_of_In l x Hx) as [i Ei], (index_of_In l y Hy) as [j Ej].
    rewrite Ei, Ej. intros ->. eapply index_of_inj; eauto.
  Qed.

  Variable A : enfa Q.
  Let l := all_states A.
  Let B := renumber A.

  Lemma in_all_start s : In s (e_starts A) -> In s l.
  Proof. intros Hs. unfold l, all_states. apply dedup_In. apply in_or_app; right. apply in_or_app; now left. Qed.
  Lemma in_all_final s : In s (e_finals A) -> In s l.
  Proof. intros Hs. unfold l, all_states. apply dedup_In. apply in_or_app; right. apply in_or_app; right. apply in_or_app; now left. Qed.
  Lemma in_all_src p a q : In (p, a, q) (e_delta A) -> In p l.
  Proof.
    intros Hd. unfold l, all_states. apply dedup_In. do 3 (apply in_or_app; right). apply in_or_app; left.
    apply in_map_iff. exists (p, a, q). auto.
  Qed.
  Lemma in_all_tgt p a q : In (p, a, q) (e_delta A) -> In q l.
  Proof.
    intros Hd. unfold l, all_states. apply dedup_In. do 4 (apply in_or_app; right).
    apply in_map_iff. exists (p, a, q). auto.
  Qed.

  Lemma B_edge x a y : In (x, a, y) (e_delta B) <-> exists p q, x = num l p /\ y = num l q /\ In (p, a, q) (e_delta A).
  Proof.
    unfold B, renumber. cbn [e_delta]. rewrite in_map_iff. split.
    - intros [[[p a'] q] [E Hd]]. inversion E; subst. eauto.
    - intros [p [q [-> [-> Hd]]]]. exists (p, a, q). auto.
  Qed.

  Lemma run_num p w q : run A p w q -> run B (num l p) w (num l q).
  Proof.
    induction 1 as [q|q q' w r Hd Rn IH|q a q' w r Hd Rn IH].
    - apply run_nil.
    - apply run_eps with (num l q'); [apply B_edge; eauto|exact IH].
    - apply run_sym with (num l q'); [apply B_edge; eauto|exact IH].
  Qed.

  Lemma run_unnum x w y : run B x w y -> forall p, In p l -> x = num l p -> exists q, y = num l q /\ run A p w q /\ In q l.
  Proof.
    induction 1 as [x|x x' w y Hd Rn IH|x a x' w y Hd Rn IH]; intros p Hp ->.
    - exists p. split; [reflexivity|split; [apply run_nil|exact Hp]].
    - apply B_edge in Hd. destruct Hd as [p' [q' [E [-> Hd]]]].
      apply (num_inj l) in E; [|exact Hp|eapply in_all_src; eauto]. subst p'.
      destruct (IH q' (in_all_tgt _ _ _ Hd) eq_refl) as [q [-> [R Hq]]]. exists q. split; [reflexivity|split; [|exact Hq]].
      apply run_eps with q'; auto.
    - apply B_edge in Hd. destruct Hd as [p' [q' [E [-> Hd]]]].
      apply (num_inj l) in E; [|exact Hp|eapply in_all_src; eauto]. subst p'.
      destruct (IH q' (in_all_tgt _ _ _ Hd) eq_refl) as [q [-> [R Hq]]]. exists q. split; [reflexivity|split; [|exact Hq]].
      apply run_sym with q'; auto.
  Qed.

  Theorem renumber_lang : lang_eq B A.
  Proof.
    intros w. split.
    - intros [x [y [Hx [Hy Rn]]]]. unfold B, renumber in Hx, Hy. cbn [e_starts e_finals] in Hx, Hy.
      apply in_map_iff in Hx, Hy. destruct Hx as [s [<- Hs]], Hy as [f [<- Hf]].
      destruct (run_unnum _ _ _ Rn s (in_all_start _ Hs) eq_refl) as [q [E [R Hq]]].
      apply (num_inj l) in E; [|now apply in_all_final|exact Hq]. subst q. exists s, f. auto.
    - intros [s [f [Hs [Hf Rn]]]]. exists (num l s), (num l f). unfold B, renumber. cbn [e_starts e_finals].
      split; [now apply in_map|split; [now apply in_map|now apply run_num]].
  Qed.
End Ren.
