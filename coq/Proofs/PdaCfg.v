(* CFG.to_pda accepts by empty stack exactly the grammar's language; PDA.to_cfg generates exactly the words accepted
   by empty stack (C13). Both through the big-step relation Pop, which Proofs/PdaBigStep ties to the small-step one. *)
From Coq Require Import List Bool Arith NArith Lia.
From PFL Require Import Base.ListSet Spec.Cfg Spec.Pda Model.Cfg Model.Pda Proofs.PdaBigStep.
Import ListNotations.

Lemma acc_empty_pop {Q G} (P : pda Q G) w : acc_empty P w <-> exists s z q, p_start P = Some s /\ p_z0 P = Some z /\ Pop P s z w q.
Proof.
  unfold acc_empty. split; intros [s [z [q [E1 [E2 R]]]]]; exists s, z, q; (split; [exact E1|split; [exact E2|]]); now apply pop_small_step.
Qed.

Section CfgToPda.
  Context {Vr : Type}.
  Variable Gm : cfg Vr.
  (* CFG.__init__ registers the terminals of the bodies *)
  Hypothesis Hreg : forall A body a, In (A, body) (g_prods Gm) -> In (T a) body -> In a (g_terms Gm).
  Notation P := (cfg_to_pda Gm).

  Lemma ctp_delta q l X r push : In (q, l, X, r, push) (p_delta P) <->
    (exists A, l = None /\ X = V A /\ In (A, push) (g_prods Gm)) \/ (exists a, l = Some a /\ X = T a /\ push = [] /\ In a (g_terms Gm)).
  Proof.
    cbn [cfg_to_pda p_delta]. rewrite in_app_iff, !in_map_iff. destruct q, r. split.
    - intros [[[A body] [E Hp]]|[a [E Ha]]]; inversion E; subst; [left|right]; eauto 6.
    - intros [[A [-> [-> Hp]]]|[a [-> [-> [-> Ha]]]]]; [left; exists (A, push); auto|right; eauto].
  Qed.

  Lemma from_pda : (forall q X u p, Pop P q X u p -> derives Gm X u) /\ (forall r push u p, PopL P r push u p -> derives_list Gm push u).
  Proof.
    apply Pop_mutind.
    - intros q l X r push u p Hd _ IH. apply ctp_delta in Hd. destruct Hd as [[A [-> [-> Hp]]]|[a [-> [-> [-> Ha]]]]]; cbn [olab app].
      + now apply dv_var with push.
      + inversion IH; subst. apply dv_ter.
    - intros r. apply dl_nil.
    - intros r B push u1 r1 u2 p _ IH1 _ IH2. now apply dl_cons.
  Qed.

  Lemma to_pda : (forall X u, derives Gm X u -> (forall a, X = T a -> In a (g_terms Gm)) -> Pop P tt X u tt) /\
                 (forall body u, derives_list Gm body u -> (forall a, In (T a) body -> In a (g_terms Gm)) -> PopL P tt body u tt).
  Proof.
    apply derives_mutind.
    - intros a Ha. change [a] with (olab (Some a) ++ []). apply pop_intro with tt []; [|apply popl_nil]. apply ctp_delta. right. exists a. auto.
    - intros A body u Hp _ IH _. change u with (olab None ++ u). apply pop_intro with tt body; [apply ctp_delta; left; eauto|].
      apply IH. intros a Ha. now apply Hreg with A body.
    - intros _. apply popl_nil.
    - intros X rest u v _ IHX _ IHL F. apply popl_cons with tt; [apply IHX; intros a ->; apply F; now left|apply IHL; intros a Ha; apply F; now right].
  Qed.

  Theorem cfg_to_pda_lang w : acc_empty P w <-> LangG Gm w.
  Proof.
    rewrite acc_empty_pop. unfold LangG. cbn [cfg_to_pda p_start p_z0]. destruct (g_start Gm) as [s|]; cbn [option_map].
    - split.
      + intros [s0 [z [q [_ [E D]]]]]. inversion E; subst. apply (proj1 from_pda _ _ _ _ D).
      + intros D. exists tt, (V s), tt. split; [reflexivity|split; [reflexivity|]]. apply (proj1 to_pda _ _ D). intros a E. discriminate.
    - split; [intros [s0 [z [q [_ [E _]]]]]; discriminate|intros []].
  Qed.
End CfgToPda.

Section PdaToCfg.
  Context {Q G : Type} `{EqDec Q} `{EqDec G}.
  Variable P : pda Q G.
  (* PDA.add_transition registers the target state *)
  Hypothesis Hwf : forall q l A r push, In (q, l, A, r, push) (p_delta P) -> In r (p_states P).
  Notation C := (pda_to_cfg P).
  Notation tv := (tvar Q G).

  Lemma valid_top_true q A : valid_top P q A = true <-> exists l r push, In (q, l, A, r, push) (p_delta P).
  Proof.
    unfold valid_top. rewrite existsb_exists. split.
    - intros [[[[[q' l] A'] r] push] [Hd E]]. apply land_true_iff in E. destruct E as [E1 E2].
      apply (proj1 (eqb_eq q q')) in E1. apply (proj1 (eqb_eq A A')) in E2. subst. eauto.
    - intros [l [r [push Hd]]]. exists (q, l, A, r, push). split; [exact Hd|]. apply land_true_iff. split; apply eqb_refl.
  Qed.

  Lemma chains_one r B p c : In c (chains P r [B] p) <-> valid_top P r B = true /\ c = [V (TTriple r B p)].
  Proof.
    cbn [chains]. destruct (valid_top P r B); cbn [In].
    - split; [intros [<-|[]]; auto|intros [_ ->]; now left].
    - split; [intros []|intros [X _]; discriminate].
  Qed.
  Lemma chains_more r B B' rest p c : In c (chains P r (B :: B' :: rest) p) <->
    valid_top P r B = true /\ exists r1 c', In r1 (p_states P) /\ In c' (chains P r1 (B' :: rest) p) /\ c = V (TTriple r B r1) :: c'.
  Proof.
    cbn [chains]. destruct (valid_top P r B).
    - rewrite in_flat_map. split.
      + intros [r1 [Hr Hm]]. apply in_map_iff in Hm. destruct Hm as [c' [<- Hc]]. split; [reflexivity|]. eauto.
      + intros [_ [r1 [c' [Hr [Hc ->]]]]]. exists r1. split; [exact Hr|]. apply in_map_iff. eauto.
    - split; [intros []|intros [X _]; discriminate].
  Qed.

  Definition lsyms (l : option N) : list (symb tv) := match l with Some a => [T a] | None => [] end.
  Definition lpre (l : option N) (c : list (symb tv)) : list (symb tv) := match l with Some a => T a :: c | None => c end.

  Lemma C_prods_triple q A p body : In (TTriple q A p, body) (g_prods C) <->
    exists l r push, In (q, l, A, r, push) (p_delta P) /\ In p (p_states P) /\
      ((push = [] /\ p = r /\ body = lsyms l) \/ (push <> [] /\ exists c, In c (chains P r push p) /\ body = lpre l c)).
  Proof.
    unfold pda_to_cfg. cbn [g_prods]. rewrite in_app_iff. split.
    - intros [Hs|Ht].
      + destruct (p_start P); [|destruct Hs]. destruct (p_z0 P); [|destruct Hs]. apply in_map_iff in Hs. destruct Hs as [p0 [E _]]. discriminate.
      + apply in_flat_map in Ht. destruct Ht as [[[[[q' l] A'] r] push] [Hd Ht]]. apply in_flat_map in Ht. destruct Ht as [p' [Hp Ht]].
        destruct push as [|B push'].
        * destruct (eqb_spec p' r) as [Er|]; [|destruct Ht]. destruct Ht as [E|[]]. inversion E; subst. eexists l, _, []. split; [exact Hd|split; [exact Hp|]].
          left. destruct l; auto.
        * apply in_map_iff in Ht. destruct Ht as [c [E Hc]]. inversion E; subst. exists l, r, (B :: push'). split; [exact Hd|split; [exact Hp|]].
          right. split; [discriminate|]. exists c. destruct l; auto.
    - intros [l [r [push [Hd [Hp Hc]]]]]. right. apply in_flat_map. exists (q, l, A, r, push). split; [exact Hd|]. apply in_flat_map. exists p. split; [exact Hp|].
      destruct Hc as [[-> [-> ->]]|[Ne [c [Hc ->]]]].
      + destruct (eqb_spec r r); [|congruence]. left. destruct l; reflexivity.
      + destruct push as [|B push']; [congruence|]. apply in_map_iff. exists c. destruct l; auto.
  Qed.
  Lemma C_prods_start body : In (TStart, body) (g_prods C) <->
    exists s z p, p_start P = Some s /\ p_z0 P = Some z /\ In p (p_states P) /\ body = [V (TTriple s z p)].
  Proof.
    unfold pda_to_cfg. cbn [g_prods]. rewrite in_app_iff. split.
    - intros [Hs|Ht].
      + destruct (p_start P) as [s|]; [|destruct Hs]. destruct (p_z0 P) as [z|]; [|destruct Hs]. apply in_map_iff in Hs. destruct Hs as [p [E Hp]].
        inversion E; subst. exists s, z, p. auto.
      + apply in_flat_map in Ht. destruct Ht as [[[[[q' l] A'] r] push] [Hd Ht]]. apply in_flat_map in Ht. destruct Ht as [p' [Hp Ht]].
        destruct push as [|B push'].
        * destruct (eqb p' r); [|destruct Ht]. destruct Ht as [E|[]]. discriminate.
        * apply in_map_iff in Ht. destruct Ht as [c [E _]]. discriminate.
    - intros [s [z [p [-> [-> [Hp ->]]]]]]. left. apply in_map_iff. eauto.
  Qed.

  Lemma Pop_target : (forall q A u p, Pop P q A u p -> In p (p_states P)) /\
                     (forall r push u p, PopL P r push u p -> In r (p_states P) -> In p (p_states P)).
  Proof.
    apply Pop_mutind.
    - intros q l A r push u p Hd _ IH. apply IH. eapply Hwf; eauto.
    - intros r Hr. exact Hr.
    - intros r B push u1 r1 u2 p _ IH1 _ IH2 _. apply IH2. exact IH1.
  Qed.
  Lemma Pop_valid q A u p : Pop P q A u p -> valid_top P q A = true.
  Proof. intros D. inversion D; subst. apply valid_top_true. eauto. Qed.

  Lemma derives_lsyms l : derives_list C (lsyms l) (olab l).
  Proof. destruct l as [a|]; cbn; [apply (dl_cons _ (T a) [] [a] []); [apply dv_ter|apply dl_nil]|apply dl_nil]. Qed.
  Lemma derives_lpre l c u : derives_list C c u -> derives_list C (lpre l c) (olab l ++ u).
  Proof. intros D. destruct l as [a|]; cbn [lpre olab app]; [apply (dl_cons _ (T a) c [a] u); [apply dv_ter|exact D]|exact D]. Qed.

  Lemma to_cfg : (forall q A u p, Pop P q A u p -> derives C (V (TTriple q A p)) u) /\
                 (forall r push u p, PopL P r push u p ->
                    (push = [] -> u = [] /\ r = p) /\ (push <> [] -> exists c, In c (chains P r push p) /\ derives_list C c u)).
  Proof.
    apply Pop_mutind.
    - intros q l A r push u p Hd PL [IH1 IH2].
      assert (Hp : In p (p_states P)) by (apply (proj2 Pop_target _ _ _ _ PL); eapply Hwf; eauto).
      destruct push as [|B push'].
      + destruct (IH1 eq_refl) as [-> ->]. apply dv_var with (lsyms l); [|rewrite app_nil_r; apply derives_lsyms].
        apply C_prods_triple. exists l, p, []. auto 7.
      + destruct IH2 as [c [Hc Dc]]; [discriminate|]. apply dv_var with (lpre l c); [|now apply derives_lpre].
        apply C_prods_triple. exists l, r, (B :: push'). split; [exact Hd|split; [exact Hp|]]. right. split; [discriminate|eauto].
    - intros r. split; [auto|congruence].
    - intros r B push u1 r1 u2 p D1 IH1 D2 [IH2a IH2b]. split; [discriminate|]. intros _.
      pose proof (Pop_valid _ _ _ _ D1) as Vd. destruct push as [|B' rest].
      + destruct (IH2a eq_refl) as [-> ->]. exists [V (TTriple r B p)]. split; [apply chains_one; auto|].
        apply dl_cons; [exact IH1|apply dl_nil].
      + destruct IH2b as [c' [Hc' Dc']]; [discriminate|]. exists (V (TTriple r B r1) :: c'). split.
        * apply chains_more. split; [exact Vd|]. exists r1, c'. split; [apply (proj1 Pop_target _ _ _ _ D1)|auto].
        * now apply dl_cons.
  Qed.

  Definition chain_stmt (body : list (symb tv)) (u : list N) : Prop :=
    forall r push p, push <> [] -> In body (chains P r push p) -> PopL P r push u p.

  Lemma from_cfg : (forall X u, derives C X u -> forall q A p, X = V (TTriple q A p) -> Pop P q A u p) /\
                   (forall body u, derives_list C body u ->
                      chain_stmt body u /\ (forall a c, body = T a :: c -> exists u2, u = a :: u2 /\ chain_stmt c u2) /\ (body = [] -> u = [])).
  Proof.
    apply derives_mutind.
    - intros a q A p E. discriminate.
    - intros A0 body u Hp DL [IH1 [IH2 IH3]] q A p E. inversion E; subst A0. apply C_prods_triple in Hp.
      destruct Hp as [l [r [push [Hd [Hp [[-> [Epr ->]]|[Ne [c [Hc ->]]]]]]]]].
      + subst r. destruct l as [a|]; cbn [lsyms] in *.
        * destruct (IH2 a [] eq_refl) as [u2 [-> _]]. inversion DL as [|? ? ? v DX DR]; subst. inversion DR; subst. inversion DX; subst.
          change ([a] ++ []) with (olab (Some a) ++ []). apply pop_intro with p []; [exact Hd|apply popl_nil].
        * rewrite (IH3 eq_refl). change (@nil N) with (olab None ++ @nil N). apply pop_intro with p []; [exact Hd|apply popl_nil].
      + destruct l as [a|]; cbn [lpre] in *.
        * destruct (IH2 a c eq_refl) as [u2 [-> Cs]]. change (a :: u2) with (olab (Some a) ++ u2). apply pop_intro with r push; [exact Hd|]. now apply Cs.
        * change u with (olab None ++ u). apply pop_intro with r push; [exact Hd|]. now apply IH1.
    - split; [|split; [intros a c E; discriminate|reflexivity]].
      intros r push p Ne Hc. destruct push as [|B [|B' rest]]; [congruence| |].
      + apply chains_one in Hc. destruct Hc as [_ E]. discriminate.
      + apply chains_more in Hc. destruct Hc as [_ [r1 [c' [_ [_ E]]]]]. discriminate.
    - intros X rest u v DX IHX DL [IHL1 [IHL2 IHL3]]. split; [|split; [|intros E; discriminate]].
      + intros r push p Ne Hc. destruct push as [|B [|B' rest']]; [congruence| |].
        * apply chains_one in Hc. destruct Hc as [_ E]. inversion E; subst. rewrite (IHL3 eq_refl).
          apply popl_cons with p; [now apply IHX|apply popl_nil].
        * apply chains_more in Hc. destruct Hc as [_ [r1 [c' [_ [Hc' E]]]]]. inversion E; subst.
          apply popl_cons with r1; [now apply IHX|]. apply IHL1; [discriminate|exact Hc'].
      + intros a c E. inversion E; subst. inversion DX; subst. exists v. split; [reflexivity|exact IHL1].
  Qed.

  Theorem pda_to_cfg_lang w : LangG C w <-> acc_empty P w.
  Proof.
    rewrite acc_empty_pop. unfold LangG. change (g_start C) with (Some (@TStart Q G)). split.
    - intros D. inversion D as [|? body ? Hp DL]; subst. apply C_prods_start in Hp. destruct Hp as [s [z [p [Es [Ez [Hp ->]]]]]].
      inversion DL as [|? ? u v DX DR]; subst. inversion DR; subst. rewrite app_nil_r.
      exists s, z, p. split; [exact Es|split; [exact Ez|]]. apply (proj1 from_cfg _ _ DX s z p eq_refl).
    - intros [s [z [q [Es [Ez D]]]]]. apply dv_var with [V (TTriple s z q)].
      + apply C_prods_start. exists s, z, q. split; [exact Es|split; [exact Ez|split; [apply (proj1 Pop_target _ _ _ _ D)|reflexivity]]].
      + rewrite <- (app_nil_r w). apply dl_cons; [apply (proj1 to_cfg _ _ _ _ D)|apply dl_nil].
  Qed.
End PdaToCfg.
