From Coq Require Import List Bool Arith NArith Lia.
From PFL Require Import Base.ListSet Spec.Cfg Model.Cfg Proofs.CfgCyk.
From PFL Require Import Model.WordsDp.
Import ListNotations.

Section P.
  Context {X : Type} `{EqDec X}.
  Variable G : cfg X.
  Hypothesis Hnf : is_normal_form G = true.

  Lemma lookup_map (f : X -> list (list N)) vs A :
    lookup_level (map (fun B => (B, f B)) vs) A = if mem A vs then f A else [].
  Proof.
    unfold lookup_level. induction vs as [|B vs IH]; [reflexivity|]. simpl.
    destruct (eqb_spec B A) as [->|Hn].
    - now rewrite eqb_refl.
    - destruct (eqb_spec A B) as [E|_]; [congruence|]. simpl. exact IH.
  Qed.

  Lemma head_in_vars A body : In (A, body) (g_prods G) -> In A (dp_vars G).
  Proof.
    intros Hp. unfold dp_vars. apply dedup_In. apply in_flat_map. exists (A, body). split; [exact Hp|now left].
  Qed.

  Lemma tab_length n : length (tab G n) = n.
  Proof. induction n as [|k IH]; [reflexivity|]. cbn [tab]. simpl. now rewrite IH. Qed.

  Lemma get_stable k i A : i <= k -> get (tab G (S k)) (S k) i A = get (tab G k) k i A.
  Proof.
    intros Hi. unfold get. cbn [tab]. replace (S k - i) with (S (k - i)) by lia. reflexivity.
  Qed.

  Lemma get_top k A : get (tab G (S k)) (S k) (S k) A =
    if mem A (dp_vars G) then match k with O => words1 G A | _ => words_next G (tab G k) k A end else [].
  Proof.
    unfold get. cbn [tab]. rewrite Nat.sub_diag. cbn [nth]. apply (lookup_map (fun A => match k with O => words1 G A | _ => words_next G (tab G k) k A end)).
  Qed.

  Lemma nf_cases A w : derives G (V A) w ->
    (exists a, In (A, [T a]) (g_prods G) /\ w = [a]) \/
    (exists B C u v, In (A, [V B; V C]) (g_prods G) /\ w = u ++ v /\ derives G (V B) u /\ derives G (V C) v /\ 1 <= length u /\ 1 <= length v).
  Proof.
    intros D. inversion D as [|A' body w' Hp DL]; subst.
    destruct (nf_prod G Hnf _ _ Hp) as [(B & C & ->)|(a & ->)].
    - right. apply derives_list2 in DL. destruct DL as (u & v & -> & Du & Dv). exists B, C, u, v.
      destruct (nf_nonempty G Hnf) as (NE & _). pose proof (NE _ _ Du) as Nu. pose proof (NE _ _ Dv) as Nv.
      repeat split; auto; [destruct u|destruct v]; simpl; try congruence; lia.
    - left. apply derives_list1 in DL. inversion DL; subst. eauto.
  Qed.

  Theorem tab_spec : forall k i A w, 1 <= i <= k ->
    (In w (get (tab G k) k i A) <-> derives G (V A) w /\ length w = i).
  Proof.
    induction k as [|k IH]; intros i A w Hi; [lia|].
    destruct (Nat.eq_dec i (S k)) as [->|Hne].
    2:{ rewrite get_stable by lia. apply IH. lia. }
    rewrite get_top. destruct (mem A (dp_vars G)) eqn:Hm.
    2:{ split; [intros []|]. intros (D & _). exfalso. apply mem_nIn in Hm. apply Hm.
        inversion D as [|A' body w' Hp _]; subst. eapply head_in_vars; eauto. }
    destruct k as [|k'].
    - (* length 1 *)
      unfold words1. rewrite dedup_In, in_flat_map. split.
      + intros ([A' body] & Hp & Hin). destruct body as [|[B|a] [|? ?]]; try destruct Hin.
        destruct (eqb_spec A' A) as [->|]; [|destruct Hin]. destruct Hin as [<-|[]]. split; [|reflexivity].
        eapply dv_var; [exact Hp|]. change [a] with ([a] ++ []). apply dl_cons; [apply dv_ter|apply dl_nil].
      + intros (D & Hl). destruct (nf_cases A w D) as [(a & Hp & ->)|(B & C & u & v & _ & -> & _ & _ & Lu & Lv)].
        * exists (A, [T a]). split; [exact Hp|]. rewrite eqb_refl. now left.
        * rewrite app_length in Hl. lia.
    - (* length k + 1 >= 2 *)
      set (k := S k') in *. unfold words_next. rewrite dedup_In, in_flat_map. split.
      + intros ([A' body] & Hp & Hin). destruct body as [|[B|a] [|[C|c] [|? ?]]]; try destruct Hin.
        destruct (eqb_spec A' A) as [->|]; [|destruct Hin].
        apply in_flat_map in Hin. destruct Hin as (i & Hi' & Hin). apply in_seq in Hi'.
        apply in_flat_map in Hin. destruct Hin as (l & Hl & Hin). apply in_map_iff in Hin. destruct Hin as (r & <- & Hr).
        apply IH in Hl; [|lia]. apply IH in Hr; [|lia]. destruct Hl as (Dl & Ll). destruct Hr as (Dr & Lr). split.
        * eapply dv_var; [exact Hp|]. apply dl_cons; [exact Dl|]. rewrite <- (app_nil_r r). apply dl_cons; [exact Dr|apply dl_nil].
        * rewrite app_length. lia.
      + intros (D & Hl). destruct (nf_cases A w D) as [(a & _ & ->)|(B & C & u & v & Hp & -> & Du & Dv & Lu & Lv)].
        * simpl in Hl. lia.
        * rewrite app_length in Hl. exists (A, [V B; V C]). split; [exact Hp|]. rewrite eqb_refl.
          apply in_flat_map. exists (length u). split; [apply in_seq; lia|].
          apply in_flat_map. exists u. split; [apply IH; [lia|auto]|].
          apply in_map_iff. exists v. split; [reflexivity|]. apply IH; [lia|]. split; [exact Dv|lia].
  Qed.

  (* get_words on the normal form: exactly the generated words of length 1 .. n *)
  Theorem get_words_dp_spec n w : In w (get_words_dp G n) <-> LangG G w /\ 1 <= length w <= n.
  Proof.
    unfold get_words_dp, LangG. destruct (g_start G) as [s|]; [|simpl; tauto].
    rewrite in_flat_map. split.
    - intros (i & Hi & Hin). apply in_seq in Hi. apply tab_spec in Hin; [|lia]. destruct Hin as (D & L). split; [exact D|lia].
    - intros (D & L). exists (length w). split; [apply in_seq; lia|]. apply tab_spec; [lia|auto].
  Qed.
End P.
