(* CFG.get_words(n) end to end: the empty word when the start symbol is nullable, then the table on the normal form *)
From Coq Require Import List Bool Arith NArith Lia.
From PFL Require Import Base.ListSet Spec.Cfg Model.Cfg Model.CfgOps Proofs.CfgNormalForm Proofs.CfgSymbols.
From PFL Require Import Model.WordsDp Proofs.WordsDp.
Import ListNotations.

Theorem get_words_code_spec {Vr} `{EqDec Vr} (fuel : nat) (G : cfg Vr) (n : nat) (ws : list (list N)) :
  get_words_code fuel G n = Some ws -> forall w, In w ws <-> LangG G w /\ length w <= n.
Proof.
  unfold get_words_code. destruct (to_normal_form fuel G) as [C|] eqn:E; [|discriminate]. intros Ews w. inversion Ews; subst ws. clear Ews.
  pose proof (to_normal_form_nf fuel G C E) as Hnf. rewrite in_app_iff. split.
  - intros [Hin|Hin].
    + destruct (generate_epsilon G) eqn:Ge; [|destruct Hin]. destruct Hin as [<-|[]]. split; [now apply generate_epsilon_spec|simpl; lia].
    + destruct n as [|n']; [destruct Hin|]. apply (get_words_dp_spec C Hnf) in Hin. destruct Hin as (L & Hl).
      assert (Hne : w <> []) by (destruct w; simpl in Hl; [lia|discriminate]).
      split; [now apply (to_normal_form_lang fuel G C w E Hne)|lia].
  - intros (L & Hl). destruct w as [|a w'].
    + left. apply generate_epsilon_spec in L. rewrite L. now left.
    + right. destruct n as [|n']; [simpl in Hl; lia|]. apply (get_words_dp_spec C Hnf). split; [|simpl in *; lia].
      apply (to_normal_form_lang fuel G C (a :: w') E); [discriminate|exact L].
Qed.

(* ... each word once *)
Lemma NoDup_app_disjoint {B} (l1 l2 : list B) : NoDup l1 -> NoDup l2 -> (forall b, In b l1 -> In b l2 -> False) -> NoDup (l1 ++ l2).
Proof.
  induction l1 as [|x l1 IH]; intros H1 H2 Hd; [exact H2|]. simpl. inversion H1; subst. constructor.
  - rewrite in_app_iff. intros [Hi|Hi]; [contradiction|]. apply (Hd x); [now left|exact Hi].
  - apply IH; auto. intros b Hb1 Hb2. apply (Hd b); [now right|exact Hb2].
Qed.

Lemma NoDup_flat_map_by {A B} (f : A -> list B) (key : B -> nat) (g : A -> nat) (l : list A) :
  NoDup (map g l) -> (forall a, In a l -> NoDup (f a)) -> (forall a b, In a l -> In b (f a) -> key b = g a) ->
  NoDup (flat_map f l).
Proof.
  induction l as [|a l IH]; intros Hnd Hf Hk; [constructor|]. simpl in Hnd. inversion Hnd as [|? ? Hnin Hnd']; subst.
  cbn [flat_map]. apply NoDup_app_disjoint.
  - apply Hf. now left.
  - apply IH; [exact Hnd'|intros x Hx; apply Hf; now right|intros x y Hx Hy; apply Hk; [now right|exact Hy]].
  - intros b Hb1 Hb2. apply in_flat_map in Hb2. destruct Hb2 as (a' & Ha' & Hb2).
    apply Hnin. apply in_map_iff. exists a'. split; [|exact Ha'].
    rewrite <- (Hk a' b (or_intror Ha') Hb2). apply Hk; [now left|exact Hb1].
Qed.

Lemma level_nodup {X} `{EqDec X} (C : cfg X) : forall n i s, 1 <= i <= n -> NoDup (get (tab C n) n i s).
Proof.
  induction n as [|k IH]; intros i s Hi; [lia|].
  destruct (Nat.eq_dec i (S k)) as [E|Hne].
  - subst i. rewrite get_top. destruct (mem s (dp_vars C)); [|constructor]. destruct k; apply dedup_NoDup.
  - rewrite get_stable by lia. apply IH. lia.
Qed.

Theorem get_words_code_nodup {Vr} `{EqDec Vr} (fuel : nat) (G : cfg Vr) (n : nat) (ws : list (list N)) :
  get_words_code fuel G n = Some ws -> NoDup ws.
Proof.
  unfold get_words_code. destruct (to_normal_form fuel G) as [C|] eqn:E; [|discriminate]. intros Ews. inversion Ews; subst ws. clear Ews.
  pose proof (to_normal_form_nf fuel G C E) as Hnf.
  assert (Hdp : NoDup (get_words_dp C n)).
  { unfold get_words_dp. destruct (g_start C) as [s|]; [|constructor].
    apply (NoDup_flat_map_by _ (@length N) (fun i => i)).
    - rewrite map_id. apply seq_NoDup.
    - intros i Hi. apply in_seq in Hi. apply level_nodup. lia.
    - intros i w Hi Hw. apply in_seq in Hi. apply (tab_spec C Hnf) in Hw; [|lia]. tauto. }
  destruct (generate_epsilon G).
  - simpl. constructor; [|destruct n; [constructor|exact Hdp]].
    destruct n as [|n']; [tauto|]. intros Hin. apply (get_words_dp_spec C Hnf) in Hin. simpl in Hin. lia.
  - simpl. destruct n; [constructor|exact Hdp].
Qed.
