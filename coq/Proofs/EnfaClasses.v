(* NFA / DFA acceptance loops agree with the reference semantics under the class invariants;
   is_deterministic is exact. *)
From Coq Require Import List Bool Arith NArith Lia.
From PFL Require Import Base.ListSet Base.Closure Spec.Enfa Model.Enfa Model.EnfaOps
  Proofs.EnfaAccepts Proofs.EnfaSets Proofs.EnfaRuns Proofs.EnfaDet.
Import ListNotations.

Section C.
  Context {Q : Type} `{EqDec Q}.
  Variable A : enfa Q.

  Lemma fold_nfa_seteq (E : eps_free A) w : forall S S', seteq S S' ->
    seteq (fold_left (step_set A) w S) (fold_left (dstep A) w S').
  Proof.
    induction w as [|a w IH]; intros S S' X; cbn [fold_left]; [exact X|]. apply IH.
    eapply seteq_trans; [apply step_set_seteq; exact X|]. apply seteq_sym. unfold dstep. now apply eclose_eps_free.
  Qed.

  Theorem accepts_nfa_spec w : eps_free A -> (accepts_nfa A w = true <-> Lang A w).
  Proof.
    intros E. rewrite <- accepts_spec. unfold accepts_nfa, accepts.
    rewrite (is_final_set_seteq A _ _ (fold_nfa_seteq E w _ _ (seteq_sym _ _ (eclose_eps_free A (e_starts A) E)))).
    tauto.
  Qed.

  Definition o2l (x : option Q) : list Q := match x with Some q => [q] | None => [] end.

  Lemma hd_error_all (l : list Q) : (forall x y, In x l -> In y l -> x = y) -> seteq l (o2l (hd_error l)).
  Proof.
    intros U x. destruct l as [|y r]; cbn; [tauto|]. split; [|intros [->|[]]; now left].
    intros Hx. left. apply U; [now left|exact Hx].
  Qed.

  Lemma dfa_next_seteq (F : functional A) q a : seteq (step_set A [q] a) (o2l (dfa_next A q a)).
  Proof.
    unfold dfa_next. assert (S1 : seteq (step_set A [q] a) (succs A (Some a) q)).
    { intros x. unfold step_set. cbn [flat_map]. now rewrite app_nil_r. }
    eapply seteq_trans; [exact S1|]. apply hd_error_all. intros x y Hx Hy. apply succs_In in Hx, Hy. eapply F; eauto.
  Qed.

  Lemma fold_dfa_seteq (F : functional A) w : forall x,
    seteq (fold_left (step_set A) w (o2l x))
          (o2l (fold_left (fun cur a => match cur with Some q => dfa_next A q a | None => None end) w x)).
  Proof.
    induction w as [|a w IH]; intros x; cbn [fold_left]; [apply seteq_refl|].
    destruct x as [q|]; cbn [o2l].
    - eapply seteq_trans; [|apply IH]. clear IH.
      assert (G : forall S S', seteq S S' -> seteq (fold_left (step_set A) w S) (fold_left (step_set A) w S')).
      { clear. induction w as [|b w IH]; intros S S' X; cbn [fold_left]; [exact X|]. apply IH. now apply step_set_seteq. }
      apply G. now apply dfa_next_seteq.
    - eapply seteq_trans; [|apply (IH None)]. cbn [o2l]. apply seteq_refl.
  Qed.

  Theorem accepts_dfa_spec w : is_dfa A -> (accepts_dfa A w = true <-> Lang A w).
  Proof.
    intros [E [F O]]. rewrite <- (accepts_nfa_spec w E). unfold accepts_dfa, accepts_nfa.
    assert (G : forall S S', seteq S S' -> seteq (fold_left (step_set A) w S) (fold_left (step_set A) w S')).
    { clear. induction w as [|b w IH]; intros S S' X; cbn [fold_left]; [exact X|]. apply IH. now apply step_set_seteq. }
    pose proof (seteq_trans _ _ _ (G _ _ (hd_error_all (e_starts A) O)) (fold_dfa_seteq F w (hd_error (e_starts A)))) as X.
    rewrite (is_final_set_seteq A _ _ X).
    destruct (fold_left _ w (hd_error (e_starts A))) as [q|]; unfold is_final_set; cbn [o2l existsb].
    - rewrite orb_false_r. tauto.
    - tauto.
  Qed.

  (* ---- is_deterministic ---- *)
  Lemma dedup_le1 (l : list Q) : (length (dedup l) <= 1)%nat <-> forall x y, In x l -> In y l -> x = y.
  Proof.
    split.
    - intros L x y Hx Hy. apply dedup_In in Hx, Hy. destruct (dedup l) as [|a [|b r]]; cbn in *; try lia; intuition congruence.
    - intros U. pose proof (dedup_NoDup l) as ND. destruct (dedup l) as [|a [|b r]] eqn:E; cbn; try lia. exfalso.
      assert (Ha : In a l) by (apply dedup_In; rewrite E; now left).
      assert (Hb : In b l) by (apply dedup_In; rewrite E; right; now left).
      inversion ND as [|? ? Hn _]; subst. apply Hn. rewrite (U a b Ha Hb). now left.
  Qed.

  Definition det_spec : Prop :=
    one_start A /\
    (forall p l q q', In (p, l, q) (e_delta A) -> In (p, l, q') (e_delta A) -> q = q') /\
    (forall q r, In q (e_states A) -> epath A [q] r -> r = q).

  Theorem is_deterministic_spec : is_deterministic A = true <-> det_spec.
  Proof.
    unfold is_deterministic, det_spec, one_start. rewrite !andb_true_iff, Nat.leb_le, dedup_le1, !forallb_forall.
    split.
    - intros [[D1 D2] D3]. split; [exact D1|split].
      + intros p l q q' H1 H2. specialize (D2 _ H1). cbv beta iota in D2. rewrite forallb_forall in D2.
        specialize (D2 _ H2). cbv beta iota in D2. rewrite !eqb_refl in D2. cbn [andb negb orb] in D2. apply eqb_eq. exact D2.
      + intros q r Hq Hr. specialize (D3 _ Hq). apply subset_spec in D3. apply eclose_spec in Hr.
        specialize (D3 _ Hr). destruct D3 as [<-|[]]. reflexivity.
    - intros [D1 [D2 D3]]. split; [split; [exact D1|]|].
      + intros [[p l] q] H1. apply forallb_forall. intros [[p' l'] q'] H2.
        destruct (eqb_spec p p') as [<-|]; [|reflexivity]. destruct (eqb_spec l l') as [<-|]; [|reflexivity].
        cbn [andb negb orb]. apply eqb_eq. eapply D2; eauto.
      + intros q Hq. apply subset_spec. intros r Hr. apply eclose_spec in Hr. left. symmetry. now apply D3.
  Qed.
End C.
