From Coq Require Import List Bool NArith Lia.
From PFL Require Import Base.ListSet Base.Closure Spec.Enfa Model.Enfa Model.EnfaOps Proofs.EnfaAccepts Proofs.EnfaRuns.
Import ListNotations.

Section E.
  Context {Q : Type} `{EqDec Q}.
  Variable A : enfa Q.

  Lemma all_succs_In q r : In r (all_succs A q) <-> exists l, In (q, l, r) (e_delta A).
  Proof.
    unfold all_succs. rewrite in_flat_map. split.
    - intros [[[p l] r'] [Hin Hr]]. destruct (eqb_spec p q) as [->|]; [|destruct Hr].
      destruct Hr as [->|[]]. eauto.
    - intros [l Hin]. exists (q, l, r). split; [exact Hin|]. rewrite eqb_refl. now left.
  Qed.

  Lemma reach_run S r : reach (all_succs A) S r <-> exists s w, In s S /\ run A s w r.
  Proof.
    split.
    - induction 1 as [x Hx|x y Hx IH Hy].
      + exists x, []. split; [exact Hx|apply run_nil].
      + destruct IH as [s [w [Hs R]]]. apply all_succs_In in Hy. destruct Hy as [l Hd].
        exists s, (w ++ olist l). split; [exact Hs|]. eapply run_snoc; eauto.
    - intros [s [w [Hs R]]]. assert (G : reach (all_succs A) S s) by now apply reach_init.
      clear Hs. induction R as [q|q q' w r Hd R IH|q a q' w r Hd R IH]; [exact G| |];
        apply IH; apply reach_step with q; auto; apply all_succs_In; eauto.
  Qed.

  Theorem is_empty_spec : is_empty A = true <-> forall w, ~ Lang A w.
  Proof.
    unfold is_empty. rewrite negb_true_iff.
    set (U := e_starts A ++ targets A).
    assert (CS : forall x, In x (closure (all_succs A) U (e_starts A)) <-> reach (all_succs A) (e_starts A) x).
    { apply closure_spec.
      - intros x Hx y Hy. apply all_succs_In in Hy. destruct Hy as [l Hd]. apply in_or_app. right.
        unfold targets. apply in_map_iff. exists (x, l, y). auto.
      - intros x Hx. apply in_or_app. now left. }
    split.
    - intros E w [s [f [Hs [Hf R]]]].
      assert (X : existsb (fun q => mem q (e_finals A)) (closure (all_succs A) U (e_starts A)) = true).
      { apply existsb_exists. exists f. split; [|now apply mem_In]. apply CS, reach_run. eauto. }
      congruence.
    - intros E. destruct (existsb _ _) eqn:X; [|reflexivity]. exfalso.
      apply existsb_exists in X. destruct X as [f [Hf Hm]]. apply mem_In in Hm.
      apply CS, reach_run in Hf. destruct Hf as [s [w [Hs R]]]. apply (E w). exists s, f. auto.
  Qed.
End E.
