(* generic facts about runs *)
From Coq Require Import List Bool NArith Lia.
From PFL Require Import Base.ListSet Base.Closure Spec.Enfa Model.Enfa Proofs.EnfaAccepts Proofs.EnfaSets.
Import ListNotations.

Definition olist (l : option N) : list N := match l with Some a => [a] | None => [] end.

Section R.
  Context {Q : Type}.

  Lemma run_ext (A B : enfa Q) : (forall t, In t (e_delta A) -> In t (e_delta B)) ->
    forall p w q, run A p w q -> run B p w q.
  Proof.
    intros I p w q R. induction R as [q|q q' w r Hd R IH|q a q' w r Hd R IH].
    - apply run_nil.
    - apply run_eps with q'; auto.
    - apply run_sym with q'; auto.
  Qed.

  Lemma run_app (A : enfa Q) p u q v r : run A p u q -> run A q v r -> run A p (u ++ v) r.
  Proof.
    intros R1 R2. induction R1 as [q|q q' w r' Hd R IH|q a q' w r' Hd R IH]; cbn [app].
    - exact R2.
    - apply run_eps with q'; auto.
    - apply run_sym with q'; auto.
  Qed.

  Lemma run_edge (A : enfa Q) q l r : In (q, l, r) (e_delta A) -> run A q (olist l) r.
  Proof.
    intros Hd. destruct l as [a|]; cbn [olist].
    - apply run_sym with r; [exact Hd|apply run_nil].
    - apply run_eps with r; [exact Hd|apply run_nil].
  Qed.

  Lemma run_snoc (A : enfa Q) p u q l r : run A p u q -> In (q, l, r) (e_delta A) -> run A p (u ++ olist l) r.
  Proof. intros R Hd. eapply run_app; [exact R|now apply run_edge]. Qed.

  (* in an epsilon-free automaton the empty word does not move *)
  Lemma run_nil_eps_free (A : enfa Q) p q : eps_free A -> run A p [] q -> p = q.
  Proof.
    intros E R. remember [] as w eqn:Ew. induction R as [q|q q' w r Hd R IH|]; [reflexivity| |discriminate].
    destruct (E _ _ Hd).
  Qed.
End R.
