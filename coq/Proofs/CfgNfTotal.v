(* to_normal_form always finishes: after one clean-up the grammar either has no production or passes the fast-path test. *)
From Coq Require Import List Bool Arith NArith Lia.
From PFL Require Import Base.ListSet Base.Closure Base.Saturate Base.NoDupLoops Spec.Cfg Model.Cfg Proofs.CfgSymbols
  Proofs.CfgUseless Proofs.CfgUnit Proofs.CfgEpsilon Proofs.CfgNormalForm.
Import ListNotations.

Lemma nodup_same_length {A} (l1 l2 : list A) : NoDup l1 -> NoDup l2 -> (forall x, In x l1 <-> In x l2) -> length l1 = length l2.
Proof.
  intros N1 N2 E. apply Nat.le_antisymm; apply NoDup_incl_length; auto; intros x Hx; now apply E.
Qed.
Lemma nodup_app {A} (l1 l2 : list A) : NoDup l1 -> NoDup l2 -> (forall x, In x l1 -> ~ In x l2) -> NoDup (l1 ++ l2).
Proof.
  induction l1 as [|x l1 IH]; intros N1 N2 D; [exact N2|]. inversion N1; subst. cbn [app]. constructor.
  - intros Hx. apply in_app_or in Hx. destruct Hx as [Hx|Hx]; [contradiction|]. apply (D x); [now left|exact Hx].
  - apply IH; auto. intros y Hy. apply D. now right.
Qed.
Lemma nodup_map_inj {A B} (f : A -> B) l : (forall x y, f x = f y -> x = y) -> NoDup l -> NoDup (map f l).
Proof.
  intros Inj. induction 1 as [|x l Hx _ IH]; cbn [map]; constructor; [|exact IH].
  intros Hm. apply in_map_iff in Hm. destruct Hm as [y [E Hy]]. apply Inj in E. now subst.
Qed.

Section R.
  Context {Vr : Type} `{EqDec Vr}.

  Lemma reachable_In (G : cfg Vr) X : In X (reachable_symbols G) <-> reach (sym_succs G) (map V (olist (g_start G))) X.
  Proof.
    unfold reachable_symbols. apply closure_spec.
    - intros Z _ Z' HZ'. apply sym_succs_In in HZ'. destruct HZ' as [A [body [-> [Hp HZ']]]].
      unfold all_symbols. apply in_or_app. right. apply in_flat_map. exists (A, body). split; [exact Hp|]. now right.
    - intros Z HZ. unfold all_symbols. apply in_or_app. now left.
  Qed.
  Lemma reachable_registered (G : cfg Vr) X : In X (reachable_symbols G) -> In X (all_symbols G).
  Proof.
    intros HX. apply reachable_In in HX. induction HX as [Y HY|Y Z _ _ HZ].
    - unfold all_symbols. apply in_or_app. now left.
    - apply sym_succs_In in HZ. destruct HZ as [A [body [-> [Hp HZ]]]]. unfold all_symbols. apply in_or_app. right.
      apply in_flat_map. exists (A, body). split; [exact Hp|]. now right.
  Qed.
  Lemma generating_vars_nodup (G : cfg Vr) : NoDup (generating_vars G).
  Proof. unfold generating_vars. apply saturate_nodup. unfold heads. apply dedup_NoDup. Qed.
  Lemma reachable_nodup (G : cfg Vr) : NoDup (reachable_symbols G).
  Proof. unfold reachable_symbols. apply closure_nodup. Qed.

  (* ---- the result of remove_useless_symbols: every registered symbol is generating and reachable ---- *)
  Section RU.
    Variable G : cfg Vr.
    Notation G2 := (remove_useless G).
    Variable s : Vr.
    Hypothesis Es : g_start G = Some s.
    Hypothesis Hs : In s (generating_vars G).

    Lemma G2_start' : g_start G2 = Some s.
    Proof. fold (u_G2 G). rewrite G2_start. exact Es. Qed.

    Lemma gen_reach_G2 A : In A (generating_vars G) -> In (V A) (u_reach1 G) -> exists w, derives G2 (V A) w.
    Proof.
      intros HA HR. apply generating_vars_spec in HA. destruct HA as [w D]. exists w.
      apply (proj1 (to_G2 G)); [apply (proj1 (to_G1 G)); exact D|exact HR].
    Qed.

    Lemma G2_var_cases A : In A (g_vars G2) ->
      (In A (generating_vars G) /\ In (V A) (u_reach1 G)) \/ (exists body, In (A, body) (g_prods G2)) \/ (exists A0 body, In (A0, body) (g_prods G2) /\ In (V A) body).
    Proof.
      unfold remove_useless. cbn [mkcfg g_vars g_prods]. rewrite dedup_In, !in_app_iff. intros [HA|[HA|[HA|HA]]].
      - apply filter_In in HA. destruct HA as [HA HR]. apply filter_In in HA. destruct HA as [_ HG]. left. split; [now apply mem_In|now apply mem_In].
      - rewrite Es in HA. destruct HA as [<-|[]]. left. split; [exact Hs|now apply reach1_start].
      - apply in_map_iff in HA. destruct HA as [[A0 body] [<- Hp]]. right. left. eauto.
      - apply in_flat_map in HA. destruct HA as [[A0 body] [Hp HB]]. cbn [snd] in HB. unfold body_vars in HB. apply in_flat_map in HB.
        destruct HB as [[B|b] [HX HB]]; [|destruct HB]. destruct HB as [<-|[]]. right. right. eauto.
    Qed.
    Lemma G2_term_cases a : In a (g_terms G2) ->
      In (T a) (u_reach1 G) \/ (exists A0 body, In (A0, body) (g_prods G2) /\ In (T a) body).
    Proof.
      unfold remove_useless. cbn [mkcfg g_terms g_prods]. rewrite dedup_In, !in_app_iff. intros [HA|HA].
      - apply filter_In in HA. destruct HA as [_ HR]. left. now apply mem_In.
      - apply in_flat_map in HA. destruct HA as [[A0 body] [Hp HB]]. cbn [snd] in HB. unfold body_terms in HB. apply in_flat_map in HB.
        destruct HB as [[B|b] [HX HB]]; [destruct HB|]. destruct HB as [<-|[]]. right. eauto.
    Qed.

    Lemma G2_vars_generating A : In A (g_vars G2) -> In A (generating_vars G2).
    Proof.
      intros HA. apply generating_vars_spec. destruct (G2_var_cases A HA) as [[HG HR]|[[body Hp]|[A0 [body [Hp HB]]]]].
      - now apply gen_reach_G2.
      - apply (remove_useless_shape G A body s Es Hp (V A)). now left.
      - apply (remove_useless_shape G A0 body s Es Hp (V A)). now right.
    Qed.
    Lemma G2_vars_reachable A : In A (g_vars G2) -> In (V A) (reachable_symbols G2).
    Proof.
      intros HA. apply reachable_In. rewrite G2_start'. cbn [olist map]. destruct (G2_var_cases A HA) as [[HG HR]|[[body Hp]|[A0 [body [Hp HB]]]]].
      - now apply (reach_G2 G).
      - apply (remove_useless_shape G A body s Es Hp (V A)). now left.
      - apply (remove_useless_shape G A0 body s Es Hp (V A)). now right.
    Qed.
    Lemma G2_terms_reachable a : In a (g_terms G2) -> In (T a) (reachable_symbols G2).
    Proof.
      intros HA. apply reachable_In. rewrite G2_start'. cbn [olist map]. destruct (G2_term_cases a HA) as [HR|[A0 [body [Hp HB]]]].
      - now apply (reach_G2 G).
      - apply (remove_useless_shape G A0 body s Es Hp (T a)). now right.
    Qed.

    Lemma G2_gen_count : length (generating_symbols G2) = length (g_vars G2) + length (g_terms G2).
    Proof.
      unfold generating_symbols. rewrite app_length, !map_length. f_equal.
      apply nodup_same_length; [apply generating_vars_nodup|unfold remove_useless; cbn [mkcfg g_vars]; apply dedup_NoDup|].
      intros A. split; [|apply G2_vars_generating].
      intros HA. apply generating_vars_spec in HA. destruct HA as [w D]. inversion D as [|? body ? Hp _]; subst.
      unfold remove_useless in *. eapply mkcfg_heads; eauto.
    Qed.
    Lemma G2_reach_count : length (reachable_symbols G2) = length (g_vars G2) + length (g_terms G2).
    Proof.
      rewrite <- (map_length (@V Vr) (g_vars G2)), <- (map_length (@T Vr) (g_terms G2)), <- app_length.
      apply nodup_same_length; [apply reachable_nodup| |].
      - apply nodup_app.
        + apply nodup_map_inj; [intros x y E; now inversion E|]. unfold remove_useless. cbn [mkcfg g_vars]. apply dedup_NoDup.
        + apply nodup_map_inj; [intros x y E; now inversion E|]. unfold remove_useless. cbn [mkcfg g_terms]. apply dedup_NoDup.
        + intros X H1 H2. apply in_map_iff in H1. destruct H1 as [A [<- _]]. apply in_map_iff in H2. destruct H2 as [a [E _]]. discriminate.
      - intros X. rewrite in_app_iff, !in_map_iff. split.
        + intros HX. apply reachable_registered in HX. unfold all_symbols in HX. apply in_app_or in HX. destruct HX as [HX|HX].
          * rewrite G2_start' in HX. destruct HX as [<-|[]]. left. exists s. split; [reflexivity|].
            unfold remove_useless. cbn [mkcfg g_vars]. apply dedup_In. apply in_or_app. right. apply in_or_app. left. rewrite Es. now left.
          * apply in_flat_map in HX. destruct HX as [[A body] [Hp [<-|HX]]].
            -- left. exists A. split; [reflexivity|]. unfold remove_useless in *. eapply mkcfg_heads; eauto.
            -- cbn [snd] in HX. destruct X as [B|b].
               ++ left. exists B. split; [reflexivity|]. unfold remove_useless in *. eapply mkcfg_bodies; eauto.
               ++ right. exists b. split; [reflexivity|]. unfold remove_useless in *. cbn [mkcfg g_terms g_prods] in *. apply dedup_In. apply in_or_app. right.
                  apply in_flat_map. exists (A, body). split; [exact Hp|]. cbn [snd]. unfold body_terms. apply in_flat_map. exists (T b). split; [exact HX|now left].
        + intros [[A [<- HA]]|[a [<- Ha]]]; [now apply G2_vars_reachable|now apply G2_terms_reachable].
    Qed.
  End RU.

  Lemma RU_no_prods (G : cfg Vr) : (forall s, g_start G = Some s -> ~ In s (generating_vars G)) -> g_prods (remove_useless G) = [].
  Proof.
    intros Hn. fold (u_G2 G). rewrite G2_prods. unfold u_prods2. destruct (filter _ (u_prods1 G)) as [|[A body] r] eqn:E; [reflexivity|exfalso].
    assert (Hp : In (A, body) (filter (fun p => mem (V (fst p)) (u_reach1 G)) (u_prods1 G))) by (rewrite E; now left).
    apply filter_In in Hp. destruct Hp as [Hp HR]. cbn [fst] in HR. apply mem_In in HR. apply prods1_In in Hp. destruct Hp as [_ [HA _]].
    unfold u_reach1 in HR. apply reachable_In in HR. change (g_start (u_G1 G)) with (g_start G) in HR.
    destruct (g_start G) as [s|] eqn:Es; cbn [olist map] in HR.
    - assert (Only : forall X, reach (sym_succs (u_G1 G)) [V s] X -> X = V s).
      { intros X R. induction R as [Y [<-|[]]|Y Z _ IH HZ]; [reflexivity|]. subst Y. apply sym_succs_In in HZ. destruct HZ as [A0 [b0 [E0 [Hp0 _]]]].
        inversion E0; subst A0. change (g_prods (u_G1 G)) with (u_prods1 G) in Hp0. apply prods1_In in Hp0. destruct Hp0 as [_ [Hg _]]. exfalso. exact (Hn s eq_refl Hg). }
      apply Only in HR. inversion HR; subst A. exact (Hn s eq_refl HA).
    - induction HR as [Y []|Y Z _ IH _]; exact IH.
  Qed.

  (* ---- the clean-up pipeline ---- *)
  Lemma cleanup_no_unit (G : cfg Vr) A body : In (A, body) (g_prods (cleanup G)) -> is_unit (A, body) = false.
  Proof.
    unfold cleanup. intros Hp. set (K := remove_useless (remove_epsilon (remove_useless G))) in *.
    fold (u_G2 (eliminate_unit K)) in Hp. rewrite G2_prods in Hp. apply prods2_incl1, prods1_incl in Hp.
    now apply (eliminate_unit_shape K).
  Qed.
  Lemma cleanup_nonempty (G : cfg Vr) X w : derives (cleanup G) X w -> w <> [].
  Proof.
    unfold cleanup. intros D. set (J := remove_epsilon (remove_useless G)) in *. set (K := remove_useless J) in *.
    assert (I1 : forall G0 : cfg Vr, incl (g_prods (u_G2 G0)) (g_prods G0)).
    { intros G0 p Hp. rewrite G2_prods in Hp. now apply prods2_incl1, prods1_incl in Hp. }
    apply (proj1 (derives_incl (eliminate_unit K) (u_G2 (eliminate_unit K)) (I1 _))) in D.
    apply (proj1 (from_elim K)) in D.
    apply (proj1 (derives_incl J (u_G2 J) (I1 _))) in D.
    now apply (proj1 (re_nonempty (remove_useless G))) in D.
  Qed.

  Theorem cleanup_fast_or_empty (G : cfg Vr) : fast_path_ok (cleanup G) = true \/ g_prods (cleanup G) = [].
  Proof.
    set (Hh := eliminate_unit (remove_useless (remove_epsilon (remove_useless G)))).
    assert (EC : cleanup G = remove_useless Hh) by reflexivity.
    destruct (g_start Hh) as [s|] eqn:Es.
    - destruct (mem s (generating_vars Hh)) eqn:M.
      + left. apply mem_In in M. unfold fast_path_ok. rewrite !andb_true_iff. repeat split.
        * destruct (nullable_vars (cleanup G)) as [|A r] eqn:En; [reflexivity|exfalso].
          assert (HA : In A (nullable_vars (cleanup G))) by (rewrite En; now left).
          apply nullable_vars_spec in HA. now apply cleanup_nonempty in HA.
        * apply negb_true_iff. destruct (existsb is_unit (g_prods (cleanup G))) eqn:Eu; [|reflexivity]. exfalso.
          apply existsb_exists in Eu. destruct Eu as [[A body] [Hp U]]. rewrite (cleanup_no_unit G A body Hp) in U. discriminate.
        * apply Nat.eqb_eq. rewrite EC. now apply G2_gen_count with s.
        * apply Nat.eqb_eq. rewrite EC. now apply G2_reach_count with s.
      + right. rewrite EC. apply RU_no_prods. intros s' E' Hg. rewrite Es in E'. inversion E'; subst s'. apply mem_In in Hg. congruence.
    - right. rewrite EC. apply RU_no_prods. intros s' E'. congruence.
  Qed.

  (* to_normal_form needs one unfolding of its recursion at most; more fuel changes nothing *)
  Theorem to_normal_form_total (G : cfg Vr) n : exists C, to_normal_form (S n) G = Some C.
  Proof.
    cbn [to_normal_form]. destruct (fast_path_ok G); [eauto|]. destruct (g_prods G) as [|p r]; [eauto|].
    destruct (cleanup_fast_or_empty G) as [F|E].
    - destruct n; cbn [to_normal_form]; rewrite F; eauto.
    - destruct n; cbn [to_normal_form]; destruct (fast_path_ok (cleanup G)); eauto; rewrite E; eauto.
  Qed.
  Corollary contains_total (G : cfg Vr) n w : exists b, contains (S n) G w = Some b.
  Proof.
    unfold contains. destruct w as [|a w']; [eauto|]. destruct (to_normal_form_total G n) as [C ->]. cbn [option_map]. eauto.
  Qed.
End R.
