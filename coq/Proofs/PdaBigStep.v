(* The big-step relations Pop / Fin coincide with the small-step semantics of pushdown automata. *)
From Coq Require Import List Bool Arith NArith Lia.
From PFL Require Import Spec.Pda.
Import ListNotations.

Section B.
  Context {Q G : Type}.
  Variable P : pda Q G.

  Lemma pstar_trans c d e : pstar P c d -> pstar P d e -> pstar P c e.
  Proof. induction 1; intros X; [exact X|eapply pstar_step; eauto]. Qed.

  Lemma pstep_label q l A r push x rest : In (q, l, A, r, push) (p_delta P) ->
    pstep P (q, olab l ++ x, A :: rest) (r, x, push ++ rest).
  Proof. intros Hd. destruct l as [a|]; cbn [olab app]; [now apply ps_sym|now apply ps_eps]. Qed.

  (* ---------- big step => small step ---------- *)
  Lemma pop_run :
    (forall q A u p, Pop P q A u p -> forall v rest, pstar P (q, u ++ v, A :: rest) (p, v, rest)) /\
    (forall r push u p, PopL P r push u p -> forall v rest, pstar P (r, u ++ v, push ++ rest) (p, v, rest)).
  Proof.
    apply Pop_mutind.
    - intros q l A r push u p Hd _ IH v rest. rewrite <- app_assoc.
      eapply pstar_step; [apply pstep_label; exact Hd|apply IH].
    - intros r v rest. apply pstar_refl.
    - intros r B push u1 r1 u2 p _ IH1 _ IH2 v rest. rewrite <- app_assoc. cbn [app].
      eapply pstar_trans; [apply IH1|apply IH2].
  Qed.

  (* ---------- small step => big step, by counting steps ---------- *)
  Inductive pstarn : nat -> conf Q G -> conf Q G -> Prop :=
  | pn_refl c : pstarn 0 c c
  | pn_step n c d e : pstep P c d -> pstarn n d e -> pstarn (S n) c e.
  Lemma pstar_pstarn c d : pstar P c d <-> exists n, pstarn n c d.
  Proof.
    split.
    - induction 1 as [c|c d e S1 _ [n IH]]; [exists 0; apply pn_refl|exists (S n); eapply pn_step; eauto].
    - intros [n R]. induction R; [apply pstar_refl|eapply pstar_step; eauto].
  Qed.

  Lemma step_inv c d : pstep P c d -> exists q l A r push x rest,
    c = (q, olab l ++ x, A :: rest) /\ d = (r, x, push ++ rest) /\ In (q, l, A, r, push) (p_delta P).
  Proof.
    intros S1. destruct S1 as [q A p push w rest Hd|q a A p push w rest Hd].
    - exists q, None, A, p, push, w, rest. auto.
    - exists q, (Some a), A, p, push, w, rest. auto.
  Qed.

  Lemma split_run n : forall q x s1 s2 p, pstarn n (q, x, s1 ++ s2) (p, [], []) ->
    exists n1 n2 r x1 x2, x = x1 ++ x2 /\ n = n1 + n2 /\ pstarn n1 (q, x1, s1) (r, [], []) /\ pstarn n2 (r, x2, s2) (p, [], []).
  Proof.
    induction n as [|n IH]; intros q x s1 s2 p R.
    - inversion R; subst. destruct s1; [|discriminate]. cbn in *. subst s2.
      exists 0, 0, p, [], []. repeat split; constructor.
    - destruct s1 as [|A s1'].
      + exists 0, (S n), q, [], x. repeat split; [constructor|exact R].
      + inversion R as [|n' c d e S1 R']; subst. destruct (step_inv _ _ S1) as [q0 [l [A0 [r [push [x' [rest [E1 [E2 Hd]]]]]]]]].
        inversion E1; subst. rewrite app_assoc in R'.
        destruct (IH _ _ _ _ _ R') as [n1 [n2 [r1 [x1 [x2 [Ex [En [R1 R2]]]]]]]].
        exists (S n1), n2, r1, (olab l ++ x1), x2. split; [now rewrite Ex, app_assoc|]. split; [lia|]. split; [|exact R2].
        eapply pn_step; [apply pstep_label; exact Hd|exact R1].
  Qed.

  Lemma empty_stack_stuck n q x p y st : pstarn n (q, x, []) (p, y, st) -> n = 0 /\ q = p /\ x = y /\ st = [].
  Proof.
    intros R. inversion R as [|n' c d e S1 R']; subst; [auto|]. destruct (step_inv _ _ S1) as [? [? [? [? [? [? [? [E _]]]]]]]]. discriminate.
  Qed.

  Lemma run_pop n :
    (forall q A u p, pstarn n (q, u, [A]) (p, [], []) -> Pop P q A u p) /\
    (forall r push u p, pstarn n (r, u, push) (p, [], []) -> PopL P r push u p).
  Proof.
    induction n as [n IH] using lt_wf_ind.
    assert (HPop : forall q A u p, pstarn n (q, u, [A]) (p, [], []) -> Pop P q A u p).
    { intros q A u p R. inversion R as [|n' c d e S1 R']; subst.
      destruct (step_inv _ _ S1) as [q0 [l [A0 [r [push [x' [rest [E1 [E2 Hd]]]]]]]]]. inversion E1; subst.
      rewrite app_nil_r in R'. apply pop_intro with r push; [exact Hd|]. apply (proj2 (IH n' (Nat.lt_succ_diag_r n'))). exact R'. }
    split; [exact HPop|].
    intros r push. revert r. induction push as [|B rest IHp]; intros r u p R.
    - destruct (empty_stack_stuck _ _ _ _ _ _ R) as [_ [-> [-> _]]]. apply popl_nil.
    - change (B :: rest) with ([B] ++ rest) in R.
      destruct (split_run _ _ _ _ _ _ R) as [n1 [n2 [r1 [x1 [x2 [-> [En [R1 R2]]]]]]]].
      assert (N1 : n1 <> 0). { intros ->. inversion R1. }
      apply popl_cons with r1.
      + destruct (Nat.eq_dec n1 n) as [->|Ne]; [now apply HPop|]. apply (proj1 (IH n1 ltac:(lia))). exact R1.
      + apply (proj2 (IH n2 ltac:(lia))). exact R2.
  Qed.

  Theorem pop_small_step q A u p : Pop P q A u p <-> pstar P (q, u, [A]) (p, [], []).
  Proof.
    split.
    - intros D. pose proof (proj1 pop_run _ _ _ _ D [] []) as R. now rewrite app_nil_r in R.
    - intros R. apply pstar_pstarn in R. destruct R as [n R]. now apply (proj1 (run_pop n)).
  Qed.

  (* ---------- final-state acceptance ---------- *)
  Lemma pop_fin :
    (forall q A u p, Pop P q A u p -> In p (p_finals P) -> Fin P q A u) /\
    (forall r push u p, PopL P r push u p -> In p (p_finals P) -> FinL P r push u).
  Proof.
    apply Pop_mutind.
    - intros q l A r push u p Hd _ IH Hf. apply fin_step with r push; auto.
    - intros r Hf. now apply finl_done.
    - intros r B push u1 r1 u2 p D1 _ _ IH2 Hf. apply finl_skip with r1; auto.
  Qed.

  Lemma fin_run :
    (forall q A u, Fin P q A u -> forall rest, exists f st, In f (p_finals P) /\ pstar P (q, u, A :: rest) (f, [], st)) /\
    (forall r push u, FinL P r push u -> forall rest, exists f st, In f (p_finals P) /\ pstar P (r, u, push ++ rest) (f, [], st)).
  Proof.
    apply Fin_mutind.
    - intros q A Hf rest. exists q, (A :: rest). split; [exact Hf|apply pstar_refl].
    - intros q l A r push u Hd _ IH rest. destruct (IH rest) as [f [st [Hf R]]]. exists f, st. split; [exact Hf|].
      eapply pstar_step; [apply pstep_label; exact Hd|exact R].
    - intros r push Hf rest. exists r, (push ++ rest). split; [exact Hf|apply pstar_refl].
    - intros r B push u _ IH rest. cbn [app]. apply IH.
    - intros r B push u1 r1 u2 D1 _ IH rest. destruct (IH rest) as [f [st [Hf R]]]. exists f, st. split; [exact Hf|].
      cbn [app]. eapply pstar_trans; [apply (proj1 pop_run _ _ _ _ D1)|exact R].
  Qed.

  Lemma finl_app p1 : forall r p2 u, FinL P r (p1 ++ p2) u ->
    FinL P r p1 u \/ exists u1 u2 r1, u = u1 ++ u2 /\ PopL P r p1 u1 r1 /\ FinL P r1 p2 u2.
  Proof.
    induction p1 as [|B p1 IH]; intros r p2 u D.
    - right. exists [], u, r. split; [reflexivity|]. split; [apply popl_nil|exact D].
    - cbn [app] in D. inversion D as [r0 push Hf|r0 B0 push u0 DF|r0 B0 push u1 r1 u2 DP DL]; subst.
      + left. now apply finl_done.
      + left. now apply finl_here.
      + destruct (IH _ _ _ DL) as [X|[v1 [v2 [r2 [-> [PL FL]]]]]].
        * left. now apply finl_skip with r1.
        * right. exists (u1 ++ v1), v2, r2. split; [now rewrite app_assoc|]. split; [now apply popl_cons with r1|exact FL].
  Qed.

  Lemma run_fin n : forall r push u f st, pstarn n (r, u, push) (f, [], st) -> In f (p_finals P) -> FinL P r push u.
  Proof.
    induction n as [|n IH]; intros r push u f st R Hf.
    - inversion R; subst. now apply finl_done.
    - inversion R as [|n' c d e S1 R']; subst.
      destruct (step_inv _ _ S1) as [q0 [l [A [r' [push' [x' [rest [E1 [E2 Hd]]]]]]]]]. inversion E1; subst.
      specialize (IH _ _ _ _ _ R' Hf). destruct (finl_app _ _ _ _ IH) as [X|[u1 [u2 [r1 [-> [PL FL]]]]]].
      + apply finl_here. now apply fin_step with r' push'.
      + rewrite app_assoc. apply finl_skip with r1; [now apply pop_intro with r' push'|exact FL].
  Qed.

  Theorem fin_small_step q A u : Fin P q A u <-> exists f st, In f (p_finals P) /\ pstar P (q, u, [A]) (f, [], st).
  Proof.
    split.
    - intros D. apply (proj1 fin_run _ _ _ D []).
    - intros [f [st [Hf R]]]. apply pstar_pstarn in R. destruct R as [n R].
      pose proof (run_fin _ _ _ _ _ _ R Hf) as FL.
      inversion FL as [r0 push Hf0|r0 B0 push u0 DF|r0 B0 push u1 r1 u2 DP DL]; subst.
      + now apply fin_here.
      + exact DF.
      + inversion DL; subst. rewrite app_nil_r. now apply (proj1 pop_fin _ _ _ _ DP).
  Qed.
End B.
